"""C01 — elaboration and export preserve the connectivity the designer wrote (DESIGN.md 6.6)."""
import json
from . import core, design as D
from .core import cstr, clist

IMPORTS = ("Require Import Hdl21.Base.PyInt Hdl21.Spec.PySlice Hdl21.Model.Slice Hdl21.Model.Resolve Hdl21.Base.Design "
           "Hdl21.Spec.Nets Hdl21.Spec.WfDesign Hdl21.Base.Package Hdl21.Corr.C03 Hdl21.Corr.C01.")


def c_case(design, out):
    spec_t, pkg_t = D.terminals(design)
    if out["pkg"] is None:
        pk, top = "None", design["mods"][design["top"]]["name"]
    else:
        pk, top = f"(Some {D.c_pkg(out['pkg'])})", D.pkg_top_name(out["pkg"], design)
    return (f"{{| cc_design := {D.c_design(design)};\n  cc_terms := {clist(spec_t, D.c_node)};\n  cc_pkg := {pk};\n"
            f"  cc_top := {cstr(top)}; cc_pterms := {clist(pkg_t, D.c_node)} |}}")


def design_size(d):
    return len(json.dumps(d))


def evaluate(designs, stream, spice=False):
    outs = core.run_worker_sharded("c01", [dict(design=d, spice=spice) for d in designs])
    cases = [c_case(d, o) for d, o in zip(designs, outs)]
    bad = core.coq_eval_cases("C01", stream, IMPORTS, "c01_case", cases, "run_cases chk_c01", chunk=(60 if len(cases) <= 600 else 25), timeout=1800)
    return outs, bad


def run(run, tier, seed, replay=None):
    quick = tier == "quick"
    if replay is not None and replay.get("fragment") == "bundles":
        from . import c01b
        return c01b.replay(run, replay["case"])
    if replay is not None:
        designs = [replay["case"]]
        outs, bad = evaluate(designs, "replay")
        print("replay verdict:", bad or "ok", json.dumps(outs[0])[:2000])
        if bad:
            run.violation("C01:replay", "replayed case still fails", dict(kind="replay", case=designs[0], impl=outs[0]))
        return
    n = 300 if quick else 4000
    designs = corpus()
    k = 0
    skipped = 0
    while len(designs) < n:
        r = core.rng(seed, "C01", "designs", k)
        k += 1
        d = D.gen_design(r, size=r.choice([1, 2, 2, 3]) if quick else r.choice([1, 2, 3, 4]), reconnect=True)
        # the in-Coq evaluation of the net relation is quadratic in the number of terminal bits: keep designs bounded
        if len(D.terminals(d)[0]) > (120 if quick else 150):
            skipped += 1
            continue
        designs.append(d)
    outs, bad = evaluate(designs, "designs")
    feats = {}
    for d in designs:
        for f, v in D.features(d).items():
            feats[f] = feats.get(f, 0) + int(v)
    rejected = sum(1 for o in outs if o["pkg"] is None)
    run.stream("designs", len(designs), len({json.dumps(d) for d in designs if sum(D.features(d).values()) >= 3}),
               features=feats, rejected_by_impl=rejected, skipped_over_terminal_bound=skipped,
               rule="non-trivial = at least 3 of {refs, no-connects, arrays, slices, concats, hierarchy, external modules, negative steps}; distinct by design")
    for f in ("refs", "ncs", "arrays", "slices", "concats", "hier", "exts", "negstep", "reconnected"):
        if feats.get(f, 0) == 0:
            run.violation(f"C01:coverage:{f}", f"generator coverage target missed: no design with {f}", dict(kind="coverage"), found_input=False)
    report(run, "designs", bad, designs, outs)
    run.sample(dict(stream="designs", design=designs[len(designs) // 2]))
    run.coverage["traces_validated_against_impl"] = len(designs)
    # the bundle fragment (harness/vp/c01b.py, Corr/C01B.v, Props/C01B.v)
    from . import c01b
    c01b.run_streams(run, tier, seed)
    # C01E: the pipeline model (coq Model/C01EElab.v) against the implementation on the same designs
    from . import c01e
    c01e.run_tie(run, tier, seed, designs, outs)
    # C01F: references nested in slices / concatenations (coq Model/C01FElab.v), acyclic and in loops
    from . import c01f
    c01f.run_tie(run, tier, seed)
    # C01G: the Gallina model of the bundle passes (coq Model/C01GBundlePasses.v) against the implementation
    from . import c01g
    c01g.run_tie(run, tier, seed)


def corpus():
    inner = dict(name="Inner", ports=[["a", 1, "inout"]], sigs=[["z", 1]],
                 insts=[dict(name="r", n=0, of=["prim", "R", 1], conns=[["p", ["sig", "a"]], ["n", ["sig", "z"]]])])
    def top(insts, sigs):
        return dict(mods=[inner, dict(name="Top", ports=[], sigs=sigs, insts=insts)], exts=[], top=1)
    return [
        # pinned tree: slice as the declared connection of a reference group was dropped
        top([dict(name="i0", n=0, of=["mod", 0], conns=[["a", ["sl", ["sig", "bus"], ["i", 0]]]]),
             dict(name="i1", n=0, of=["mod", 0], conns=[["a", ["ref", "i0", "a"]]])], [["bus", 2]]),
        # pinned tree: concat parts exported in the opposite significance
        dict(mods=[dict(name="Top", ports=[], sigs=[["a", 1], ["b", 2]],
                        insts=[dict(name="e", n=0, of=["ext", 0, 1], conns=[["x0", ["cat", [["sig", "a"], ["sig", "b"]]]]])])],
             exts=[dict(name="E0", ports=[["x0", 3]])], top=0),
        # reference cycle without any signal
        top([dict(name="i0", n=0, of=["mod", 0], conns=[["a", ["ref", "i1", "a"]]]),
             dict(name="i1", n=0, of=["mod", 0], conns=[["a", ["ref", "i0", "a"]]])], [["s", 1]]),
    ]


def report(run, stream, bad, designs, outs):
    order = sorted(bad, key=lambda ic: design_size(designs[ic[0]]))
    v1 = [i for i, c in order if c in (1, 6)]
    v3 = [i for i, c in order if c == 3]
    for i in v1[:2]:
        what = "valid design rejected" if outs[i]["pkg"] is None else "exported package differs from the written design (net partition / leaf devices)"
        run.violation("C01:design:" + json.dumps(designs[i], sort_keys=True), f"{what}: {json.dumps(outs[i]['err'])}",
                      dict(kind="impl-violates-spec", stream=stream, case=designs[i], impl=outs[i], failing_cases=len(v1),
                           reproducer="build the design with harness/impl/designlib.Builder, h.to_proto, compare nets"))
    if v3 and not v1:
        i = v3[0]
        run.violation("C01:generator", "generated design is not valid by Spec/WfDesign or terminal list inconsistent (harness defect)",
                      dict(kind="harness-inconsistency", case=designs[i]), found_input=False)
