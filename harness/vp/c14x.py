"""C14X — extension streams of the C14 check (called from the END of harness/vp/c14.py:run()).

Streams (after the C14 streams, in this order):
  x-float   float() of GROUPS of representations of one value lying on / beside the rounding boundaries of binary64: exact
            midpoints (2M+1)*2^(E-1) of neighbouring doubles (ties), the same +- a tiny decimal, 2^53+1 patterns, subnormals,
            the underflow and overflow thresholds, huge and tiny exponents; each value written with several prefixes / trailing
            zeros.  Coq (Corr/C14X.v chk_float_x): every observed float = round_dec(value) - the function PROVED to be the
            nearest double (Props/C14X.v) - code 1 otherwise; Corr/C14.v nearest_double must agree with it (code 3).
  x-scale   a.scale() (+ int(a)) for values beside the boundaries of the closest-prefix choice: powers of ten 10^k +- 10^(k-j)
            and the logarithmic midpoints sqrt(10)*10^k cut after n digits +- 1 unit, j, n up to 60, all table ends, zero.
            Code 1: value not preserved / not a member / int wrong; code 2: prefix neither the exactly closest one nor (inside
            the 1e-24 band) its neighbour.  The number of other-neighbour picks of the implementation is measured.
  x-mixed   a op x and x op a for x an int / float / Decimal / Prefixed, hash(a) == hash(x): equal values, values a tolerance apart.
  x-chain   triples a, b, c: the chain theorems (never inverted; transitive when prefix b >= min(prefix a, prefix c)) and the
            witnesses of the non-transitive chains inside the tolerance.
Numbers are exact (sign, coefficient, exponent) triples of Python ints; hdl21 is never imported here."""
import json
from fractions import Fraction
from . import core
from .core import cz, cbool
from .c14 import dstr, dval, of_int, dshift, dadd, c_dec, c_pfx, c_ires, c_fl, cbig, rand_mantissa, sig_digits

IMPORTS = ("Require Import Hdl21.Base.PyInt Hdl21.Base.Dec Hdl21.Model.Prefixed Hdl21Gen.PrefixTable "
           "Hdl21.Corr.C03 Hdl21.Corr.C14 Hdl21.Model.C14XModel Hdl21.Corr.C14X.")


# ------------------------------------------------------------------------------------------ helpers
def neg(t):
    return (1 - t[0], t[1], t[2])


def pad(t, z):
    """the same value with z trailing zeros in the coefficient"""
    return (t[0], t[1] * 10 ** z, t[2] - z)


def bin_triple(n, k):
    """n * 2^k (n >= 0) as an exact decimal triple"""
    if k >= 0:
        return (0, n << k, 0)
    return (0, n * 5 ** (-k), k)


def reps(r, t, prefixes, nmax=3):
    """representations [(number triple, prefix)] of the value t (a triple at UNIT)"""
    ps = r.sample(prefixes, r.randint(1, nmax))
    out = []
    for p in ps:
        n = dshift(t, -p)
        if r.random() < 0.3:
            n = pad(n, r.randint(1, 3))
        out.append((n, p))
    return out


def c_opt_fl(o):
    return c_fl(o)


# ------------------------------------------------------------------------------------------ x-float
def gen_float(seed, quick, prefixes):
    r = core.rng(seed, "C14X", "float")
    vals = []      # (tag, triple)
    T52, T53 = 1 << 52, 1 << 53

    def around(tag, t, heavy=False):
        vals.append((tag + ":tie", t))
        for j in ((r.choice([1, 3, 17, 25, 40, 60]),) if heavy else (r.choice([1, 3, 17]), r.choice([25, 40, 60]))):
            d = of_int(1, t[2] - j)
            vals.append((tag + ":above", dadd(t, d)))
            vals.append((tag + ":below", dadd(t, neg(d))))

    # midpoints of neighbouring doubles.  Exponents far from 0 need 300-770 digit coefficients (Coq divides ~3500-bit numbers:
    # about 0.5 s per group), so the quick tier takes few of them: the subnormal range, its border, the overflow threshold.
    nh = 1 if quick else 12
    heavy = [-1074] + r.sample([-1073, -1070, -1060, -1030, -1023, -1022], 2 if quick else 6) + [971] + \
            [r.randint(-1021, -900) for _ in range(nh)] + [r.randint(900, 970) for _ in range(nh)]
    light = [r.randint(-100, 100) for _ in range(16 if quick else 200)]
    for E in heavy + light:
        if E == -1074:
            ms = [0, 1, r.choice([2, 3]), r.randint(4, T52 - 2), T52 - 1] + ([T52, r.randint(T52, T53 - 1)] if not quick else [])
        elif E == 971:
            ms = [T53 - 1, r.randint(T52, T53 - 2)]
        elif E in heavy:
            ms = [r.choice([T52, T52 + 1, T53 - 1, r.randint(T52, T53 - 1)])]
        else:
            ms = r.sample([T52, T52 + 1, T53 - 1, T53 - 2, r.randint(T52, T53 - 1), r.randint(T52, T53 - 1)], 2)
        for M in ms:
            tag = "subnormal" if E == -1074 and M < T52 else ("overflow" if (E == 971 and M == T53 - 1) else "midpoint")
            around(tag, bin_triple(2 * M + 1, E - 1), heavy=E in heavy)
    # 2^53 + 1 patterns: integers that are exact ties of the integer grid above 2^53
    for n in [T53 + 1, T53 + 3, (T53 + 1) * 2, (T53 + 1) * 1024, (1 << 54) + 2, (1 << 54) + 6, (T53 + 1) * (1 << 70), T53 - 1, T53, 3 * T52 + 1]:
        around("int53", (0, n, 0))
    for k in range(0 if quick else 30):
        around("int53", (0, (T53 + 2 * r.randint(0, 10 ** 6) + 1) << r.randint(0, 40), 0))
    # natural and extreme values
    nat = [(0, 1, -1), (0, 3, -24), (0, 1, 23), (0, 841, 19), (0, 5, -324), (0, 24703282292062327, -340), (0, 24703282292062328, -340),
           (0, 17976931348623157, 292), (0, 17976931348623158, 292), (0, 17976931348623159, 292), (0, 1, 309), (0, 1, 400), (0, 1, -400),
           (0, 0, 0), (1, 0, 0), (0, 0, -30), (0, 333333333333333333333333333333, -30), (0, 15, -1), (0, 22250738585072014, -324),
           (0, 22250738585072011, -324), (0, 123456789, 280), (0, 987654321, -315)]
    for t in nat:
        vals.append(("natural", t))
    for k in range(20 if quick else 400):
        t = rand_mantissa(r)
        vals.append(("random", dshift(t, r.choice([-330, -323, -310, -300, -100, -20, 0, 0, 20, 100, 290, 300, 308]))))
    groups = []
    for tag, t in vals:
        if r.random() < 0.5:
            t = neg(t)
        groups.append((tag, reps(r, t, prefixes, 2 if len(str(t[1])) > 200 else 3)))
    # the representations named in the task text: 150e-2 * KILO, 1.5 * KILO, 1500 * UNIT
    groups.append(("natural", [((0, 150, -2), 3), ((0, 15, -1), 3), ((0, 1500, 0), 0), ((0, 15, 26), -24)]))
    r.shuffle(groups)      # spread the expensive (long-coefficient) groups over the Coq chunks
    return groups


def run_float(run, seed, quick, prefixes, only=None):
    groups = gen_float(seed, quick, prefixes) if only is None else [("replay", [(tuple(n), p) for n, p in only])]
    wire = [[[dstr(n), p] for n, p in g] for _, g in groups]
    outs = core.run_worker_sharded("c14x", wire, common=dict(kind="float"))
    cases = ["([" + "; ".join(c_pfx(n, p) for n, p in g) + "], [" + "; ".join(c_opt_fl(o) for o in out) + "])"
             for (_, g), out in zip(groups, outs)]
    bad = core.coq_eval_cases("C14", "xfloat" if only is None else "xfloat_replay", IMPORTS, "float_case", cases,
                              "run_cases chk_float_x", chunk=30)
    tags = {}
    for tag, _ in groups:
        tags[tag.split(":")[0]] = tags.get(tag.split(":")[0], 0) + 1
    run.stream("x-float" if only is None else "replay", len(groups), len({json.dumps(g) for tag, g in groups if tag not in ("natural", "random")}),
               representations=sum(len(g) for _, g in groups), groups_with_several_representations=sum(1 for _, g in groups if len(g) > 1),
               exact_ties=sum(1 for tag, _ in groups if tag.endswith(":tie")), by_kind=tags,
               infinities=sum(1 for o in outs for f in o if f[0] == "inf"),
               subnormal_results=sum(1 for o in outs for f in o if f[0] == "fin" and f[2] == -1074),
               rule="non-trivial = value constructed on or beside (1e-1 .. 1e-60 relative) a midpoint of two neighbouring doubles, "
                    "the underflow or the overflow threshold; distinct by the list of representations")
    v1 = sorted([i for i, c in bad if c == 1], key=lambda i: sum(len(str(n[1])) for n, _ in groups[i][1]))
    v2 = [i for i, c in bad if c == 2]
    v3 = [i for i, c in bad if c == 3]
    if v1:
        i = v1[0]
        show = [[dstr(n), p] for n, p in groups[i][1]]
        run.violation("C14:x-float:" + json.dumps(show),
                      f"float(): not the nearest double (round-half-even) of the exact value, or different floats for representations of "
                      f"one value: {json.dumps(show)[:300]} -> {json.dumps(outs[i])[:200]}",
                      dict(kind="impl-violates-spec", xstream="float", xcase=[[list(n), p] for n, p in groups[i][1]], impl=outs[i],
                           failing_cases=len(v1), theorem="C14X_nearest_double_is_nearest / C14X_float_representation_free",
                           reproducer="from decimal import Decimal as D; from hdl21.prefix import Prefix, Prefixed; print([float(Prefixed(number=D(n), prefix=Prefix(p))).hex() for n, p in "
                                      + json.dumps(show) + "])"))
    elif v2 or v3:
        i = (v2 + v3)[0]
        run.violation("C14:x-float:tie", "model / specification functions and implementation differ on " + json.dumps([[dstr(n), p] for n, p in groups[i][1]])[:300],
                      dict(kind="correspondence-broken" if v2 else "spec-validation", xstream="float",
                           xcase=[[list(n), p] for n, p in groups[i][1]], impl=outs[i]), found_input=False)
    if only is None:
        k = next(i for i, (tag, _) in enumerate(groups) if tag == "int53:tie")
        run.sample(dict(stream="x-float", case=[[dstr(n), p] for n, p in groups[k][1]], impl=outs[k]))
    return len(groups)


# ------------------------------------------------------------------------------------------ x-scale
def isqrt10(n):
    """floor(sqrt(10) * 10^n)"""
    import math
    return math.isqrt(10 ** (2 * n + 1))


def exact_closest(t, p, prefixes):
    """the member chosen by exact arithmetic (first member of minimal |member - log10|value||), None for zero"""
    if t[1] == 0:
        return prefixes[0]
    x2 = (dval(t) * Fraction(10) ** p) ** 2
    best = prefixes[0]
    for v in prefixes[1:]:
        b = Fraction(10) ** (v + best)
        if best < v and x2 > b:
            best = v
        elif v < best and x2 < b:
            best = v
    return best


def gen_scale(seed, quick, prefixes):
    r = core.rng(seed, "C14X", "scale")
    vals = []
    ks = list(range(-27, 28)) if not quick else sorted(set([-27, -25, -24, -23, -22, -4, -3, -2, -1, 0, 1, 2, 3, 4, 5, 23, 24, 25, 27] + [r.randint(-27, 27) for _ in range(8)]))
    js = [1, 5, 18, 20, 21, 24, 26, 27, 28, 29, 30, 35, 40, 60]
    for k in ks:
        vals.append(("pow10", (0, 1, k)))
        for j in (js if not quick else r.sample(js, 5)):
            vals.append(("pow10+", dadd((0, 1, k), (0, 1, k - j))))
            vals.append(("pow10-", dadd((0, 1, k), (1, 1, k - j))))
    ns = [1, 2, 5, 10, 16, 20, 24, 26, 27, 28, 29, 30, 32, 40, 60]
    for k in ks:
        for n in (ns if not quick else r.sample(ns, 5)):
            s = isqrt10(n)                       # n+1 digits of sqrt(10), truncated: just BELOW the logarithmic midpoint
            vals.append(("sqrt10-", (0, s, k - n)))
            vals.append(("sqrt10+", (0, s + 1, k - n)))
    for t in [(0, 0, 0), (1, 0, 3), (0, 0, -40), (0, 1, 30), (0, 1, -30), (0, 999, 27), (0, 1, -60), (0, 7, 45)]:
        vals.append(("ends", t))
    for k in range(40 if quick else 2000):
        vals.append(("random", dshift(rand_mantissa(r), r.randint(-28, 28))))
    jobs = []
    for tag, t in vals:
        if r.random() < 0.3:
            t = neg(t)
        p = r.choice(prefixes)
        n = dshift(t, -p)
        if r.random() < 0.2:
            n = pad(n, r.randint(1, 3))
        jobs.append((tag, n, p))
    return jobs


def run_scale(run, seed, quick, prefixes, only=None):
    jobs = gen_scale(seed, quick, prefixes) if only is None else [("replay", tuple(only[0]), only[1])]
    outs = core.run_worker_sharded("c14x", [[dstr(n), p] for _, n, p in jobs], common=dict(kind="scale"))
    cases = []
    for (_, n, p), o in zip(jobs, outs):
        i = "None" if isinstance(o["int"], list) else f"(Some {cbig(o['int'])})"
        cases.append(f"({c_pfx(n, p)}, {c_ires(o['auto'])}, {i})")
    bad = core.coq_eval_cases("C14", "xscale" if only is None else "xscale_replay", IMPORTS, "scale_case", cases, "run_cases chk_scale_x", chunk=250)
    other = [i for i, ((_, n, p), o) in enumerate(zip(jobs, outs)) if o["auto"][0] == "val" and o["auto"][2] != exact_closest(n, p, prefixes)]
    tags = {}
    for tag, _, _ in jobs:
        tags[tag] = tags.get(tag, 0) + 1
    run.stream("x-scale" if only is None else "replay", len(jobs), len({json.dumps([n, p]) for tag, n, p in jobs if tag not in ("random",)}),
               by_kind=tags, other_neighbour_picked_by_implementation=len(other),
               smallest_other_neighbour_case=(lambda i: [dstr(jobs[i][1]), jobs[i][2], outs[i]["auto"][2]])(min(other, key=lambda i: len(str(jobs[i][1][1])))) if other else None,
               rule="non-trivial = value constructed beside a power of ten, beside a logarithmic midpoint sqrt(10)*10^k, beyond the table ends or zero; distinct by operand")
    v1 = sorted([i for i, c in bad if c == 1], key=lambda i: len(str(jobs[i][1][1])))
    v2 = sorted([i for i, c in bad if c in (2, 3)], key=lambda i: len(str(jobs[i][1][1])))
    for i, (j, o) in enumerate(zip(jobs, outs)):
        if not o.get("intact", False) and i not in v1:
            v1.append(i)
    if v1:
        i = v1[0]
        show = [dstr(jobs[i][1]), jobs[i][2]]
        run.violation("C14:x-scale:" + json.dumps(show), f"a.scale() / int(a): value not preserved, prefix not a member, or int() wrong on {show}: {json.dumps(outs[i])[:300]}",
                      dict(kind="impl-violates-spec", xstream="scale", xcase=[list(jobs[i][1]), jobs[i][2]], impl=outs[i], failing_cases=len(v1),
                           reproducer=f"from decimal import Decimal as D; from hdl21.prefix import Prefix, Prefixed; a = Prefixed(number=D('{show[0]}'), prefix=Prefix({show[1]})); print(a.scale(), int(a))"))
    elif v2:
        i = v2[0]
        show = [dstr(jobs[i][1]), jobs[i][2]]
        run.violation("C14:x-scale:tie", f"scale(): the prefix is neither the closest member nor (beside the midpoint) its neighbour on {show}: {json.dumps(outs[i])[:200]}",
                      dict(kind="correspondence-broken", xstream="scale", xcase=[list(jobs[i][1]), jobs[i][2]], impl=outs[i], disagreeing_cases=len(v2),
                           theorem="C14X_scale_closest / C14X_scale_band_neighbour"), found_input=False)
    if only is None:
        run.sample(dict(stream="x-scale", case=[dstr(jobs[3][1]), jobs[3][2]], impl=outs[3]))
    return len(jobs)


# ------------------------------------------------------------------------------------------ x-mixed
def dec_of_float(x):
    from decimal import Decimal
    tt = Decimal(repr(x)).as_tuple()
    return (tt.sign, int("".join(map(str, tt.digits))), tt.exponent)


def c_operand(typ, t, xp):
    if typ == "pre":
        return f"(OpPre {c_pfx(t, xp)})"
    if typ == "int":
        z = -t[1] if t[0] else t[1]
        return f"(OpInt {cbig(z * 10 ** t[2])})"
    return f"({'OpDec' if typ == 'dec' else 'OpFloat'} {c_dec(t)})"


def c_icmp(o):
    return "CExc" if (o and o[0] == "exc") else "(CVal " + " ".join(cbool(x) for x in o) + ")"


def gen_mixed(seed, quick, prefixes, eps):
    r = core.rng(seed, "C14X", "mixed")
    jobs = []
    for k in range(330 if quick else 6000):
        typ = r.choice(["int", "int", "float", "float", "dec", "dec", "pre"])
        p = r.choice(prefixes)
        xp = r.choice(prefixes) if typ == "pre" else 0
        kind = r.choice(["equal", "equal", "tolerance", "random", "far"])
        # the other operand x first (its type restricts the values), then a relative to it
        if typ == "int":
            z = r.choice([0, 1, -1, 7, r.randint(-10 ** 6, 10 ** 6), r.randint(-10 ** 30, 10 ** 30), 2 ** 53 + 1, 10 ** r.randint(0, 26)])
            tx, text = of_int(z, 0), str(z)
        elif typ == "float":
            x = r.choice([0.1, 0.5, 1.5, -2.25, 3.0, 1e-9, 2.5e22, 1 / 3, 1e23, 5e-324, r.random(), r.uniform(-1e6, 1e6),
                          r.random() * 10 ** r.randint(-20, 20), float(r.randint(-1000, 1000)), r.randint(1, 10 ** 6) / 1024])
            tx, text = dec_of_float(x), repr(x)
        else:
            tx = rand_mantissa(r)
            text = dstr(tx)
        vx = dshift(tx, xp)                      # the value of x at UNIT
        s = min(p, xp)
        if kind == "equal":
            va = vx if r.random() < 0.6 else pad(vx, r.randint(1, 4))
        elif kind == "tolerance":
            num = r.choice([4, 5, 6, 10, 14, 15, 25, 100, 1])
            va = dadd(vx, of_int(r.choice([-1, 1]) * num, s - eps - 1))
        elif kind == "far":
            va = dadd(vx, of_int(r.choice([-1, 1]) * r.randint(1, 99), s - eps + r.randint(1, 6)))
        else:
            va = rand_mantissa(r)
            va = dshift(va, p)
        na = dshift(va, -p)
        applies = True
        if typ == "float":
            applies = Fraction(float(text)) == dval(tx)
        jobs.append(dict(na=na, p=p, typ=typ, tx=tx, text=text, xp=xp, kind=kind, applies=applies))
    return jobs


def run_mixed(run, seed, quick, prefixes, eps, only=None):
    jobs = gen_mixed(seed, quick, prefixes, eps) if only is None else [dict(only, na=tuple(only["na"]), tx=tuple(only["tx"]))]
    outs = core.run_worker_sharded("c14x", [[dstr(j["na"]), j["p"], j["typ"], j["text"], j["xp"]] for j in jobs], common=dict(kind="mixed"))
    cases = []
    for j, o in zip(jobs, outs):
        h = "None" if isinstance(o["hasheq"], list) else f"(Some {cbool(o['hasheq'])})"
        cases.append(f"(mkMixed {c_pfx(j['na'], j['p'])} {c_operand(j['typ'], j['tx'], j['xp'])} {c_icmp(o['cmp'])} {c_icmp(o['rcmp'])} {cbool(j['applies'])} {h})")
    bad = core.coq_eval_cases("C14", "xmixed" if only is None else "xmixed_replay", IMPORTS, "mixed_case", cases, "run_cases chk_mixed", chunk=250)
    eqv = sum(1 for j in jobs if dval(j["na"]) * Fraction(10) ** j["p"] == dval(j["tx"]) * Fraction(10) ** j["xp"])
    run.stream("x-mixed" if only is None else "replay", len(jobs), len({json.dumps([j["na"], j["p"], j["typ"], j["text"], j["xp"]]) for j in jobs}),
               by_type={t: sum(1 for j in jobs if j["typ"] == t) for t in ("int", "float", "dec", "pre")}, equal_valued=eqv,
               floats_not_equal_to_their_repr_decimal=sum(1 for j in jobs if not j["applies"]),
               comparisons_raised=sum(1 for o in outs if o["cmp"][0] == "exc" or o["rcmp"][0] == "exc"),
               rule="distinct by (a, type of x, text of x, prefix of x); every case compares a Prefixed with a value of another type or prefix")
    key = lambda i: len(jobs[i]["text"]) + len(str(jobs[i]["na"][1]))
    v1 = sorted([i for i, c in bad if c == 1], key=key)
    v2 = sorted([i for i, c in bad if c in (2, 3)], key=key)
    if v1 or v2:
        i = (v1 or v2)[0]
        j = jobs[i]
        show = [dstr(j["na"]), j["p"], j["typ"], j["text"], j["xp"]]
        rep = dict(j, na=list(j["na"]), tx=list(j["tx"]))
        if v1:
            run.violation("C14:x-mixed:" + json.dumps(show), f"Prefixed vs {j['typ']}: comparison / hash violates the property on {show}: {json.dumps(outs[i])[:300]}",
                          dict(kind="impl-violates-spec", xstream="mixed", xcase=rep, impl=outs[i], failing_cases=len(v1),
                               reproducer=f"a = Prefixed(number=D('{show[0]}'), prefix=Prefix({show[1]})); x = {j['typ']}('{j['text']}') (pre: Prefixed(D(text), Prefix({j['xp']}))); a < x, x < a, hash(a) == hash(x)"))
        else:
            run.violation("C14:x-mixed:tie", f"model and implementation differ on mixed comparison {show}",
                          dict(kind="correspondence-broken", xstream="mixed", xcase=rep, impl=outs[i], disagreeing_cases=len(v2)), found_input=False)
    if only is None:
        j = jobs[0]
        run.sample(dict(stream="x-mixed", case=[dstr(j["na"]), j["p"], j["typ"], j["text"], j["xp"]], impl=outs[0]))
    return len(jobs)


# ------------------------------------------------------------------------------------------ x-chain
def gen_chain(seed, quick, prefixes, eps):
    r = core.rng(seed, "C14X", "chain")
    jobs = [
        [((0, 0, 0), 0), ((0, 1, -6), -24), ((0, 2, -30), 0)],      # a < b < c, a == c: the middle on a finer prefix than both
        [((0, 0, 0), 3), ((0, 4, -21), 3), ((0, 4, -18), 0)],       # a == b == c pairwise but a != c
        [((0, 1, 0), 0), ((0, 2, 0), -3), ((0, 3, 0), -24)],
    ]
    for k in range(150 if quick else 3000):
        ps = [r.choice(prefixes) for _ in range(3)]
        if r.random() < 0.5:
            ps = [r.choice(prefixes[6:14]) for _ in range(3)]
        base = dshift(rand_mantissa(r), r.choice(ps))
        fin = min(ps)
        vs = [base]
        for _ in range(2):
            step = of_int(r.choice([1, 1, 1, -1]) * r.choice([1, 4, 5, 6, 10, 40, 1000, 10 ** 6]), r.choice([fin, max(ps), ps[1]]) - eps - r.choice([0, 1, 1, 2]))
            vs.append(dadd(vs[-1], step))
        jobs.append([(dshift(v, -p), p) for v, p in zip(vs, ps)])
    return jobs


def run_chain(run, seed, quick, prefixes, eps, only=None):
    jobs = gen_chain(seed, quick, prefixes, eps) if only is None else [[(tuple(n), p) for n, p in only]]
    outs = core.run_worker_sharded("c14x", [[[dstr(n), p] for n, p in j] for j in jobs], common=dict(kind="chain"))
    cases = []
    for j, o in zip(jobs, outs):
        ob = "None" if o[0] == "exc" else "(Some (" + ", ".join(cbool(x) for x in o) + "))"
        cases.append("(" + ", ".join(c_pfx(n, p) for n, p in j) + ", " + ob + ")")
    bad = core.coq_eval_cases("C14", "xchain" if only is None else "xchain_replay", IMPORTS, "chain_case", cases, "run_cases chk_chain", chunk=250)
    chains = sum(1 for o in outs if o[0] is True and o[1] is True)
    run.stream("x-chain" if only is None else "replay", len(jobs), len({json.dumps(j) for j in jobs if len({p for _, p in j}) > 1}),
               chains_a_lt_b_lt_c=chains, of_them_transitive=sum(1 for o in outs if o[0] is True and o[1] is True and o[2] is True),
               of_them_middle_prefix_below_both=sum(1 for j, o in zip(jobs, outs) if o[0] is True and o[1] is True and j[1][1] < min(j[0][1], j[2][1])),
               rule="non-trivial = at least two different prefixes among the three operands; distinct by operands")
    v1 = [i for i, c in bad if c == 1]
    v2 = [i for i, c in bad if c in (2, 3)]
    if v1 or v2:
        i = (v1 or v2)[0]
        show = [[dstr(n), p] for n, p in jobs[i]]
        rep = [[list(n), p] for n, p in jobs[i]]
        if v1:
            run.violation("C14:x-chain:" + json.dumps(show), f"a < b < c but c < a (or a comparison raised) on {show}: {outs[i]}",
                          dict(kind="impl-violates-spec", xstream="chain", xcase=rep, impl=outs[i], failing_cases=len(v1)))
        else:
            run.violation("C14:x-chain:tie", f"model and implementation differ on the chain {show}: {outs[i]}",
                          dict(kind="correspondence-broken", xstream="chain", xcase=rep, impl=outs[i], disagreeing_cases=len(v2),
                               theorem="C14X_lt_trans_partial"), found_input=False)
    if only is None:
        run.sample(dict(stream="x-chain", case=[[dstr(n), p] for n, p in jobs[0]], impl=outs[0]))
    return len(jobs)


# ------------------------------------------------------------------------------------------ entry point
def run_tie(run, tier, seed, prefixes, eps, replay=None):
    quick = tier == "quick"
    if replay is not None and replay.get("xstream"):
        s, c = replay["xstream"], replay["xcase"]
        if s == "float":
            run_float(run, seed, quick, prefixes, only=c)
        elif s == "scale":
            run_scale(run, seed, quick, prefixes, only=c)
        elif s == "mixed":
            run_mixed(run, seed, quick, prefixes, eps, only=c)
        elif s == "chain":
            run_chain(run, seed, quick, prefixes, eps, only=c)
        return
    n = run_float(run, seed, quick, prefixes)
    n += run_scale(run, seed, quick, prefixes)
    n += run_mixed(run, seed, quick, prefixes, eps)
    n += run_chain(run, seed, quick, prefixes, eps)
    run.coverage["traces_validated_against_impl"] = run.coverage.get("traces_validated_against_impl", 0) + n
