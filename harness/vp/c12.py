"""C12 — output is reproducible across processes (DESIGN.md 6.12).

The property is checked implementation against implementation: every design is built, exported and netlisted in
several FRESH interpreters ("sessions") that differ in PYTHONHASHSEED, in the amount of unrelated allocation and
elaboration done first, and in the order/position of the design among the other designs of the session. The
observables (sha256 of Package.SerializeToString(deterministic=True); sha256 of the spice, spectre and verilog
netlist texts, or the exception class) go into cases_*.v and Coq decides `reproducible` (Spec/C12Repro.v).
For the bundle designs and the reference-group designs the ORDER the model of the repaired loops predicts
(Model/C12Order.v: run_repaired / which_repaired) is compared with the order / name every process produced.

Streams: corpus (pinned-tree witnesses), bundles (structured random bundle designs), groups (reference groups
without an explicit signal), generators (parameter-derived module names), designs (the gen_design stream of C01),
examples (the main designs of examples/*.py).
"""
import json, hashlib
from concurrent.futures import ThreadPoolExecutor
from . import core, design as D
from .core import cstr, clist

IMPORTS = ("Require Import Hdl21.Base.PyInt Hdl21.Spec.C12Repro Hdl21.Model.C12Order Hdl21.Corr.C03 Hdl21.Corr.C12.\n"
           "From Coq Require Import String.\nOpen Scope string_scope.")

FORMATS = ("pkg", "spice", "spectre", "verilog")
PDKS = ["sky130_hdl21", "gf180_hdl21", "asap7_hdl21", "hdl21.pdk.sample_pdk"]
EXAMPLES = ["ro", "diff_ota", "encoder10", "encoder8", "bundles", "idac", "rladder", "mux_tree", "mos_sim_tb"]


def canon(job):
    return json.dumps(job, sort_keys=True)


def job_size(job):
    return len(canon(job))


# ------------------------------------------------------------------------------------------------
# sessions
# ------------------------------------------------------------------------------------------------
def prework_of(seed, stream, hs, shard):
    r = core.rng(seed, "C12", stream + ":prework", hs * 1000 + shard)
    pw = dict(alloc=r.choice([0, 3, 40, 400, 3000]), strs=r.choice([0, 5, 60, 500]), elab=r.choice([0, 1, 3, 8]),
              salt=r.randrange(10 ** 6))
    pw["mods"] = r.choice([0, 1, 2, 5, 11, 40, 200])      # module objects (drawn last: the earlier draws are those of round 1)
    return pw


def plan_sessions(njobs, hashseeds, seed, stream, shard_size):
    """One plan entry per fresh interpreter: (hashseed, prework, [job indices in session order])."""
    plans = []
    for hs in hashseeds:
        r = core.rng(seed, "C12", stream + ":order", hs)
        idx = list(range(njobs))
        if hs != hashseeds[0]:
            r.shuffle(idx)              # a different position and a different history in every process
        for s, i in enumerate(range(0, njobs, shard_size)):
            plans.append((hs, prework_of(seed, stream, hs, s), idx[i:i + shard_size]))
    return plans


def run_sessions(jobs, plans):
    """obs[j] = list over plans that contain j of (hashseed, result); in the order of `plans`."""
    def one(plan):
        hs, pw, idx = plan
        r = core.run_worker("c12", dict(prework=pw, jobs=[jobs[i] for i in idx]), timeout=1200, hashseed=str(hs))
        return r["results"]
    with ThreadPoolExecutor(max_workers=core.NPROC) as ex:
        outs = list(ex.map(one, plans))
    obs = [[] for _ in jobs]
    for pi, ((hs, pw, idx), res) in enumerate(zip(plans, outs)):
        if len(res) != len(idx):
            raise RuntimeError("c12 worker returned a wrong number of results")
        for i, r in zip(idx, res):
            obs[i].append((pi, r))
    return obs


def short(h):
    return h if h.startswith("!") else h[:32]


def c_obs(r):
    return (f"(Obs {cstr(short(r['pkg']))} {cstr(short(r['spice']))} {cstr(short(r['spectre']))} "
            f"{cstr(short(r['verilog']))})")


def c_rcase(rs):
    return clist(rs, c_obs)


def c_keys(l):
    return clist(l, cstr)


def c_conns(c):
    return clist(c, lambda kv: f"({cstr(kv[0])}, {cstr(kv[1])})")


# ------------------------------------------------------------------------------------------------
# bundle designs: expected order (input of the model)
# ------------------------------------------------------------------------------------------------
def flat_paths(bd, kind):
    """ordered (path, suffix) of the flattened signals of a bundle port of the given kind"""
    if kind == "S":
        return [(p, p) for p in bd["sub"]]
    out = [(x, x) for x in bd["bsigs"]]
    if bd.get("sub"):
        out += [("u." + p, "u_" + p) for p in bd["sub"]]
    return out


def order_cases(bd):
    """Per instance: (instance name, written conns incl. the unconnected port at the end, groups, bports, flat)."""
    kinds = dict((n, k) for n, k in bd["ports"])
    out = []
    for x in bd["insts"]:
        written = [[p, json.dumps(e)] for p, e in x["conns"]]
        missing = [n for n, _ in bd["ports"] if n not in [p for p, _ in x["conns"]]]
        for n in missing:                       # resolved port references are connected last
            written.append([n, "implicit"])
        groups = {}
        for p, v in written:
            if kinds[p] in ("B", "S"):
                groups.setdefault(v if v != "implicit" else "implicit:" + p, []).append(p)
        bports = [[p, [[path, f"{p}_{suf}"] for path, suf in flat_paths(bd, kinds[p])]] for p, _ in written
                  if kinds[p] in ("B", "S")]
        flat = [[p, [[path, f"{v[:6]}.{path}"] for path, suf in flat_paths(bd, kinds[p])]] for p, v in written
                if kinds[p] in ("B", "S")]
        out.append(dict(inst=x["name"], written=written, groups=list(groups.values()), bports=bports, flat=flat,
                        multi=max([len(g) for g in groups.values()] + [0])))
    return out


def c_ocase(oc, observed):
    pt = lambda t: clist(t, lambda e: f"({cstr(e[0])}, {clist(e[1], lambda pf: f'({cstr(pf[0])}, {cstr(ascii_only(pf[1]))})')})")
    return (f"(OC {c_conns([[p, ascii_only(v)] for p, v in oc['written']])} {clist(oc['groups'], c_keys)} "
            f"{pt(oc['bports'])} {pt(oc['flat'])} {clist(observed, c_keys)})")


def ascii_only(s):
    return "".join(ch if 32 <= ord(ch) < 127 and ch != '"' else "'" for ch in s)


def observed_order(r, inst, tag):
    for mod, iname, ports in r["order"]:
        if iname == inst and mod.endswith("Top" + tag):
            return ports
    return None


# ------------------------------------------------------------------------------------------------
# reference-group designs: groups (input of the model)
# ------------------------------------------------------------------------------------------------
def cyc_groups(cyc):
    nodes = [(i, p) for i, ports in cyc["insts"] for p in ports]
    out = {(a, p): (b, q) for a, p, b, q in cyc["edges"]}
    parent = {n: n for n in nodes}

    def find(x):
        while parent[x] != x:
            x = parent[x]
        return x
    for a, b in out.items():
        parent[find(a)] = find(b)
    referenced = set(out.values())
    comps = {}
    for n in nodes:
        if n in out or n in referenced:
            comps.setdefault(find(n), []).append(n)
    return [[[i, p, (i, p) in out] for i, p in g] for g in comps.values()]


def c_ncase(groups, observed):
    return (f"({clist(groups, lambda g: clist(g, lambda m: f'(PR {cstr(m[0])} {cstr(m[1])} {core.cbool(m[2])})'))}, "
            f"{clist(observed, c_keys)})")


def top_sigs(r, prefix):
    for mod, names in r["sigs"]:
        if mod.split(".")[-1].startswith(prefix):
            return names
    return None


# ------------------------------------------------------------------------------------------------
# generators
# ------------------------------------------------------------------------------------------------
PORTNAMES = ["a", "b", "c", "d", "e", "f", "g", "k", "m", "n1", "p0", "inp", "out", "clk", "vdd", "vss", "q", "zz"]


def gen_bd(r, tag=""):
    bsigs = r.sample(["x", "y", "z"], r.randint(1, 3))
    sub = r.sample(["p", "q"], r.randint(1, 2)) if r.random() < 0.4 else None
    kinds_pool = ["B", "B", "B", "s"] + (["S", "S"] if sub else [])
    nports = r.randint(2, 6)
    names = r.sample(PORTNAMES, nports)
    ports = [[n, r.choice(kinds_pool)] for n in names]
    if not any(k != "s" for _, k in ports):
        ports[0][1] = "B"
    tb = ["bb", "bc"][:r.randint(1, 2)]
    tsigs = ["s0", "s1", "s2"]
    insts = []
    for ii in range(r.randint(1, 3)):
        x = dict(name=f"i{ii}", n=r.choice([2, 3]) if r.random() < 0.25 else 0, conns=[])
        order = list(ports)
        r.shuffle(order)
        # one bundle feeding several ports is the interesting situation: a favourite bundle per instance
        fav = r.choice(tb)
        for pn, k in order:
            u = r.random()
            earlier = [(y["name"], q) for y in insts if y["n"] == 0 for q, qk in ports if qk == k]
            if earlier and u < 0.12:
                y, q = r.choice(earlier)
                src = ["pref", y, q]
            elif k == "B":
                b = fav if r.random() < 0.75 else r.choice(tb)
                if u < 0.7:
                    src = ["bun", b]
                elif u < 0.85 or sub:
                    src = ["anonref", b]
                else:
                    src = ["anon", "B", {m: r.choice(tsigs) for m in bsigs}]
            elif k == "S":
                b = fav if r.random() < 0.75 else r.choice(tb)
                src = ["bref", b] if u < 0.8 else ["anon", "S", {m: r.choice(tsigs) for m in sub}]
            else:
                b = r.choice(tb)
                if u < 0.5:
                    src = ["sig", r.choice(tsigs)]
                elif u < 0.8 or not sub:
                    src = ["sref", b, r.choice(bsigs)]
                else:
                    src = ["subsref", b, r.choice(sub)]
            x["conns"].append([pn, src])
        insts.append(x)
    # leave at most one referenced port per single instance unconnected (its group then has no declared source)
    refd = {(e[1], e[2]) for x in insts for _, e in x["conns"] if e[0] == "pref"}
    for x in insts:
        cands = [c for c in x["conns"] if (x["name"], c[0]) in refd and c[1][0] != "pref"]
        if cands and x["n"] == 0 and r.random() < 0.5:
            x["conns"].remove(r.choice(cands))
    return dict(bsigs=bsigs, sub=sub, ports=ports, tb=tb, tsigs=tsigs, insts=insts, tag=tag)


def bd_nontrivial(bd):
    return max(oc["multi"] for oc in order_cases(bd)) >= 2


def gen_cyc(r, tag=""):
    inames = r.sample(["a", "b", "c", "i0", "i1", "u", "x1", "m"], r.randint(2, 5))
    insts = [[n, r.sample(["p", "q", "r", "z", "w"], r.randint(1, 3))] for n in inames]
    nodes = [(i, p) for i, ports in insts for p in ports]
    out = {}
    for n in nodes:
        if r.random() < 0.8:
            m = r.choice([x for x in nodes if x != n])
            out[n] = m
    for _ in range(4):                       # every port must be connected or referenced
        refd = set(out.values())
        for n in nodes:
            if n not in out and n not in refd:
                out[n] = r.choice([x for x in nodes if x != n])
    return dict(insts=insts, edges=[[a, p, b, q] for (a, p), (b, q) in out.items()], tag=tag)


def cyc_nontrivial(cyc):
    """a group without an unconnected member whose least instance has several ports in the group"""
    for g in cyc_groups(cyc):
        if all(c for _, _, c in g):
            lo = min(i for i, _, _ in g)
            if sum(1 for i, _, _ in g if i == lo) >= 2:
                return True
    return False


def gen_gen(r, tag=""):
    alpha = "ab =,\"x1_"
    calls = []
    for _ in range(r.randint(1, 4)):
        calls.append(dict(w=r.randint(1, 4), s="".join(r.choice(alpha) for _ in range(r.choice([0, 1, 5, 30, 90]))),
                          l=[r.randint(0, 99) for _ in range(r.choice([0, 1, 3, 40]))]))
    return dict(calls=calls, tag=tag)


# ------------------------------------------------------------------------------------------------
# corpus: pinned-tree witnesses (literals)
# ------------------------------------------------------------------------------------------------
def corpus():
    w1 = dict(bsigs=["x", "y"], sub=None, ports=[["q", "s"], ["a", "B"], ["b", "B"], ["c", "B"]], tb=["bb"], tsigs=["s"],
              insts=[dict(name="i", n=0, conns=[["q", ["sig", "s"]], ["a", ["bun", "bb"]], ["b", ["bun", "bb"]],
                                                ["c", ["bun", "bb"]]])], tag="")
    w2 = dict(bsigs=["x", "y"], sub=["p", "q"],
              ports=[["q", "s"], ["a", "B"], ["b", "S"], ["c", "S"], ["d", "S"], ["e", "s"], ["f", "s"]], tb=["bb"], tsigs=["s"],
              insts=[dict(name="i", n=2, conns=[["q", ["sig", "s"]], ["a", ["anonref", "bb"]], ["b", ["bref", "bb"]],
                                                ["c", ["bref", "bb"]], ["d", ["bref", "bb"]], ["e", ["sref", "bb", "x"]],
                                                ["f", ["subsref", "bb", "p"]]])], tag="")
    w3 = dict(bsigs=["x", "y"], sub=None, ports=[["q", "s"], ["a", "B"], ["b", "B"], ["c", "B"]], tb=[], tsigs=["s"],
              insts=[dict(name="i0", n=0, conns=[["q", ["sig", "s"]], ["b", ["pref", "i0", "a"]], ["c", ["pref", "i0", "a"]]]),
                     dict(name="i1", n=0, conns=[["q", ["sig", "s"]], ["a", ["pref", "i0", "a"]], ["b", ["pref", "i0", "a"]],
                                                 ["c", ["pref", "i0", "a"]]])], tag="")
    c1 = dict(insts=[["b", ["z"]], ["c", ["w"]], ["a", ["p", "q", "r"]]],
              edges=[["b", "z", "c", "w"], ["c", "w", "b", "z"], ["a", "p", "b", "z"], ["a", "q", "b", "z"],
                     ["a", "r", "b", "z"]], tag="")
    c2 = dict(insts=[["i0", ["p", "x"]], ["i1", ["p", "x"]], ["i2", ["p", "x"]], ["i3", ["p", "x"]]],
              edges=[["i1", "p", "i0", "p"], ["i2", "p", "i0", "p"], ["i3", "p", "i1", "p"], ["i0", "x", "i1", "x"],
                     ["i2", "x", "i1", "x"], ["i3", "x", "i1", "x"]], tag="")
    g1 = dict(calls=[dict(w=1, s="", l=[]), dict(w=2, s="a b=c", l=[1, 2, 3]), dict(w=3, s="x" * 80, l=list(range(40)))], tag="")
    return ([dict(kind="bd", bd=w) for w in (w1, w2, w3)] + [dict(kind="cyc", cyc=c) for c in (c1, c2)]
            + [dict(kind="gen", gen=g1)])


# ------------------------------------------------------------------------------------------------
# evaluation of one stream
# ------------------------------------------------------------------------------------------------
def evaluate(run, stream, jobs, hashseeds, seed, shard_size, nontrivial=lambda j: True, rule="", report_limit=2):
    plans = plan_sessions(len(jobs), hashseeds, seed, stream, shard_size)
    obs = run_sessions(jobs, plans)
    # 1. the property itself
    rcases = [c_rcase([r for _, r in o]) for o in obs]
    bad = dict(core.coq_eval_cases("C12", stream, IMPORTS, "rcase", rcases, "run_cases chk_repro", chunk=150))
    # 2. the model's order / names
    tie_cases, tie_ref = [], []
    for j, (job, o) in enumerate(zip(jobs, obs)):
        rs = [r for _, r in o]
        if job["kind"] == "bd":
            for oc in order_cases(job["bd"]):
                seen = [observed_order(r, oc["inst"], job["bd"].get("tag", "")) for r in rs]
                if all(s is not None for s in seen):
                    tie_cases.append(("ocase", c_ocase(oc, seen)))
                    tie_ref.append((j, oc["inst"]))
        elif job["kind"] == "cyc" and not job.get("long"):      # long-name designs: tied by c12z.chk_long (explicit signals, refusals)
            seen = [top_sigs(r, "G") for r in rs]
            if all(s is not None for s in seen):
                tie_cases.append(("ncase", c_ncase(cyc_groups(job["cyc"]), seen)))
                tie_ref.append((j, "names"))
    tie_bad = {}
    for typ, ev in (("ocase", "chk_order"), ("ncase", "chk_names")):
        sel = [k for k, (t, _) in enumerate(tie_cases) if t == typ]
        if sel:
            res = core.coq_eval_cases("C12", f"{stream}_{typ}", IMPORTS, typ, [tie_cases[k][1] for k in sel],
                                      f"run_cases {ev}", chunk=150)
            for k, c in res:
                tie_bad[sel[k]] = c
    rejected = sum(1 for o in obs if all(r["pkg"].startswith("!") for _, r in o))
    run.stream(stream, len(jobs) * len(hashseeds) + len(tie_cases),
               len({canon(j) for j in jobs if nontrivial(j)}), designs=len(jobs), processes=len(plans),
               hashseeds=len(hashseeds), order_or_name_cases=len(tie_cases), rejected_by_impl=rejected,
               rejected_fraction=round(rejected / max(1, len(jobs)), 3), rule=rule)
    # reports: smallest design whose bytes differ between two processes
    v1 = sorted([j for j, c in bad.items() if c == 1], key=lambda j: job_size(jobs[j]))
    for j in v1[:report_limit]:
        report_difference(run, stream, jobs[j], obs[j], plans, jobs, len(v1))
    v3 = [j for j, c in bad.items() if c != 1]
    if v3:
        run.violation(f"C12:{stream}:harness", "a case with fewer than two runs was generated (harness defect)",
                      dict(kind="harness-inconsistency", case=jobs[v3[0]]), found_input=False)
    t1 = [k for k, c in tie_bad.items() if c == 1 and tie_ref[k][0] not in bad]
    for k in t1[:1]:       # cannot happen: differing orders imply differing package bytes
        run.violation(f"C12:{stream}:order-differs:" + canon(jobs[tie_ref[k][0]]), "connection order / signal names differ between processes",
                      dict(kind="impl-violates-spec", stream=stream, case=jobs[tie_ref[k][0]]))
    t2 = sorted([k for k, c in tie_bad.items() if c in (2, 3)], key=lambda k: job_size(jobs[tie_ref[k][0]]))
    if t2 and not v1:
        k = t2[0]
        j, what = tie_ref[k]
        run.violation(f"C12:{stream}:tie", f"all processes agree, but the order/name differs from the model's ({what}) for "
                      + canon(jobs[j])[:400],
                      dict(kind="correspondence-broken", stream=stream, case=jobs[j], which=what,
                           impl=[r for _, r in obs[j]][0], disagreeing_cases=len(t2),
                           theorem="C12_order_irrelevant / C12_portref_group_naming_order_free (model tie)"),
                      found_input=False)
    return obs, bad, tie_bad


def first_difference(o):
    """two observations of one design that differ: (plan index A, plan index B, what differs)"""
    pa, ra = o[0]
    for pb, rb in o[1:]:
        diff = [f for f in FORMATS if ra[f] != rb[f]]
        if diff:
            return pa, pb, ra, rb, diff
    return None


def explain(ra, rb):
    if ra.get("steps") != rb.get("steps"):
        return f"outcomes of the PDK registry operations: {ra.get('steps')} vs {rb.get('steps')}"
    if ra.get("mods") != rb.get("mods"):
        return f"module names/order: {ra.get('mods')} vs {rb.get('mods')}"
    for xa, xb in zip(ra.get("order", []), rb.get("order", [])):
        if xa != xb:
            return f"connections of instance {xa[1]} in module {xa[0]}: {xa[2]} vs {xb[2]}"
    for xa, xb in zip(ra.get("sigs", []), rb.get("sigs", [])):
        if xa != xb:
            return f"signals of module {xa[0]}: {xa[1]} vs {xb[1]}"
    return "same instance/signal/module order; bytes differ elsewhere"


def report_difference(run, stream, job, o, plans, jobs, nfail):
    pa, pb, ra, rb, diff = first_difference(o)
    # try to reproduce with the design ALONE in two fresh interpreters (smaller replay)
    alone = None
    try:
        a = core.run_worker("c12", dict(prework=plans[pa][1], jobs=[job]), hashseed=str(plans[pa][0]))["results"][0]
        b = core.run_worker("c12", dict(prework=plans[pb][1], jobs=[job]), hashseed=str(plans[pb][0]))["results"][0]
        if any(a[f] != b[f] for f in FORMATS):
            alone = (a, b)
    except Exception as e:
        core.log(f"  (re-run alone failed: {e})")
    if alone:
        ra, rb = alone
        diff = [f for f in FORMATS if ra[f] != rb[f]]
        replay = dict(kind="impl-violates-spec", stream=stream, case=job,
                      runs=[dict(hashseed=plans[p][0], prework=plans[p][1]) for p in (pa, pb)])
    else:
        replay = dict(kind="impl-violates-spec", stream=stream, case=job, note="differs only inside its sessions",
                      runs=[dict(hashseed=plans[p][0], prework=plans[p][1], session_jobs=[jobs[i] for i in plans[p][2]])
                            for p in (pa, pb)])
    if job.get("kind") == "pdkreg":
        replay["repeat"] = 6            # address-dependent: see run(replay=...)
    replay.update(differs_in=diff, explanation=explain(ra, rb), failing_designs=nfail,
                  observed=[{f: ra[f] for f in FORMATS}, {f: rb[f] for f in FORMATS}],
                  reproducer=f"./check C12 --replay <this file>  (rebuilds the design in two fresh interpreters with "
                             f"PYTHONHASHSEED={plans[pa][0]} and {plans[pb][0]} and the recorded prework, and compares the digests)")
    run.violation(f"C12:{job['kind']}:" + canon(job),
                  f"{'/'.join(diff)} differ between PYTHONHASHSEED={plans[pa][0]} and {plans[pb][0]}: {explain(ra, rb)}", replay)


# ------------------------------------------------------------------------------------------------
def run(run, tier, seed, replay=None):
    quick = tier == "quick"
    hashseeds = [0, 1, 2, 3] if quick else list(range(24))
    if replay is not None:
        job = replay["case"]
        runs = replay.get("runs") or [dict(hashseed=h, prework={}) for h in hashseeds]
        rs = []
        # a difference that comes from object ADDRESSES (the PDK registry is a set of module objects) is not a function of the hash
        # seed and the prework alone (address-space randomisation): such replays repeat every recorded run several times
        for rr in runs * int(replay.get("repeat", 1)):
            js = rr.get("session_jobs") or [job]
            out = core.run_worker("c12", dict(prework=rr.get("prework", {}), jobs=js), hashseed=str(rr["hashseed"]))["results"]
            rs.append(out[js.index(job)])
        bad = core.coq_eval_cases("C12", "replay", IMPORTS, "rcase", [c_rcase(rs)], "run_cases chk_repro")
        print("replay verdict:", bad or "ok", json.dumps([{f: r[f][:16] for f in FORMATS} for r in rs]))
        run.stream("replay", len(rs), 1, rule="the replayed design")
        if bad:
            other = next((r for r in rs[1:] if any(r[f] != rs[0][f] for f in FORMATS)), rs[1])
            run.violation("C12:replay", "replayed design still differs between the processes: " + explain(rs[0], other),
                          dict(kind="replay", case=job, runs=runs))
        return

    # ---- corpus: every witness alone in its interpreter
    jobs = corpus()
    evaluate(run, "corpus", jobs, hashseeds, seed, 1, rule="pinned-tree witnesses and hand-written bundle / reference-group / generator designs; all non-trivial")

    # ---- bundles
    n = 60 if quick else 400
    jobs = [dict(kind="bd", bd=gen_bd(core.rng(seed, "C12", "bundles", k), tag=f"_{k}")) for k in range(n)]
    evaluate(run, "bundles", jobs, hashseeds, seed, 15 if quick else 50, nontrivial=lambda j: bd_nontrivial(j["bd"]),
             rule="non-trivial = some bundle, bundle reference, anonymous bundle or implicit bundle feeds at least two ports of one instance; distinct by design")

    # ---- reference groups
    n = 40 if quick else 300
    jobs = [dict(kind="cyc", cyc=gen_cyc(core.rng(seed, "C12", "groups", k), tag=f"_{k}")) for k in range(n)]
    evaluate(run, "groups", jobs, hashseeds, seed, 20 if quick else 50, nontrivial=lambda j: cyc_nontrivial(j["cyc"]),
             rule="non-trivial = a reference group without unconnected member whose alphabetically first instance has two or more ports in the group; distinct by design")

    # ---- generator names
    n = 12 if quick else 100
    jobs = [dict(kind="gen", gen=gen_gen(core.rng(seed, "C12", "generators", k), tag=f"_{k}")) for k in range(n)]
    evaluate(run, "generators", jobs, hashseeds, seed, 12 if quick else 50,
             nontrivial=lambda j: any(len(c["s"]) > 20 or len(c["l"]) > 3 for c in j["gen"]["calls"]),
             rule="non-trivial = some call with a tuple-valued or long/ambiguous string parameter (name = md5 of the JSON of the parameters); distinct by call list")

    # ---- the gen_design stream of C01 (same rng labels: the same designs)
    from . import c01
    n = 300 if quick else 1000
    designs = c01.corpus()
    k = 0
    while len(designs) < n:
        r = core.rng(seed, "C01", "designs", k)
        k += 1
        designs.append(D.gen_design(r, size=r.choice([1, 2, 2, 3]) if quick else r.choice([1, 2, 3, 4]), reconnect=True))
    jobs = [dict(kind="abs", design=d) for d in designs]
    evaluate(run, "designs", jobs, hashseeds, seed, 75 if quick else 100,
             nontrivial=lambda j: sum(D.features(j["design"]).values()) >= 3,
             rule="non-trivial = at least 3 of {refs, no-connects, arrays, slices, concats, hierarchy, external modules, negative steps}; distinct by design")

    # ---- hierarchy flattening and the built-in generators (their bodies iterate over the unit's ports / the nets)
    from . import c16
    n = 40 if quick else 300
    jobs = []
    for k in range(n):
        r = core.rng(seed, "C12", "flatten", k)
        jobs.append(dict(kind="flat", design=c16.gen_hier(r, size=r.choice([2, 3]))))
    for nser in ((2, 3) if quick else (2, 3, 4, 6)):
        jobs += [dict(kind="builtin", gen="MosStack", n=nser), dict(kind="builtin", gen="SeriesMos", n=nser, pair=["d", "s"]),
                 dict(kind="builtin", gen="SeriesMos", n=nser, pair=["g", "b"]), dict(kind="builtin", gen="SeriesExt", n=nser, pair=["b", "d"]),
                 dict(kind="builtin", gen="Wrapper", n=nser)]
    evaluate(run, "flatten_builtins", jobs, hashseeds, seed, 25 if quick else 50,
             nontrivial=lambda j: j["kind"] == "builtin" or len(j["design"]["mods"]) >= 3,
             rule="non-trivial = a built-in generator call with nser >= 2, or a hierarchy of at least three modules handed to hdl21.flatten; distinct by job")

    # ---- examples
    jobs = [dict(kind="example", name=e) for e in EXAMPLES]
    jobs += [dict(kind="pdk", pdk=p, family=f) for p in PDKS for f in ("CORE", "NONE")]
    obs, bad, _ = evaluate(run, "examples", jobs, hashseeds, seed, len(jobs),
                           rule="the main design of every example script, and one transistor-level design compiled to each PDK package (two device families); all non-trivial")
    broken = [j.get("name") or f"{j['pdk']}:{j['family']}" for j, o in zip(jobs, obs) if o[0][1]["pkg"].startswith("!")]
    if broken:
        run.notes.append(f"examples that do not build/export on this tree (same in every process): {broken}")
    run.sample(dict(stream="corpus", job=corpus()[0]))
    run.sample(dict(stream="groups", job=corpus()[3]))
    run.coverage["traces_validated_against_impl"] = sum(s.get("order_or_name_cases", 0) for s in run.coverage["streams"].values())

    # ---- C12E (append-only hook): the oracle-ordered pipeline model tied to the implementation, and designs that exercise every
    #      site where the elaborator iterates over a hash-ordered set (harness/vp/c12e.py, notes/C12E.md)
    from . import c12e
    c12e.run_tie(run, tier, seed, hashseeds)

    # ---- strengthening round (harness/vp/c12z.py): generator-parameter kinds, names at the flatname limit, PDK registry programs
    from . import c12z
    c12z.run_streams(run, tier, seed, hashseeds)
