"""C02, bundle part: designs with Bundle-valued ports, Bundle instances, Bundle-member references, anonymous
Bundles and Instance Bundles (h.Pair); generator of VALID designs, single-fault mutators, Coq printer
(mirror of coq/theories/Spec/C02BundleWf.v).

bdesign JSON (consumed by harness/impl/c02.py:BBuilder):
  {"bundles":[{"name","sigs":[[n,w]]}],            index 0 is always the built-in h.Diff (p, n)
   "mods":[{"name","ports":[[n,w]],"bports":[[n,k]],"sigs":[[n,w]],"binsts":[[n,k]],
            "insts":[{"name","n","pair":bool,"of":["mod",k]|["prim","R",tag],"conns":[[port,conn]]}]}], "top":k}
  conn  = ["x",cexpr] | ["b",name] | ["anon",[[member,cexpr]]] | ["borphan",k] | ["bforeign",mj,name]
  cexpr = ["sig",n] | ["sl",cexpr,ix] | ["cat",[cexpr]] | ["bref",binst,member]
        | ["orphan",w] | ["foreign",mj,n] | ["bref_orphan",k,member] | ["bref_foreign",mj,binst,member]
"""
import json, copy
from . import design as D
from .core import cz, clist, cstr
from .c03 import c_index


# ---------------------------------------------------------------------------------------------
# helpers
# ---------------------------------------------------------------------------------------------
def btarget_ports(d, of):
    """(scalar ports [(n,w)], bundle ports [(n,k)])"""
    if of[0] == "mod":
        md = d["mods"][of[1]]
        return [(n, w) for n, w in md["ports"]], [(n, k) for n, k in md["bports"]]
    return [("p", 1), ("n", 1)], []


def binst_ty(md, b):
    for n, k in md["bports"] + md["binsts"]:
        if n == b:
            return k
    return None


def bpool(d, md):
    """(name, width) pool; Bundle members appear as 'binst.member'."""
    pool = [(n, w) for n, w in md["ports"]] + [(n, w) for n, w in md["sigs"]]
    for b, k in md["bports"] + md["binsts"]:
        pool += [(f"{b}.{m}", w) for m, w in d["bundles"][k]["sigs"]]
    return pool


def fix_brefs(e):
    """rand_expr leaves ["sig","b.m"] -> ["bref","b","m"]"""
    if e[0] == "sig":
        return ["bref"] + e[1].split(".") if "." in e[1] else e
    if e[0] == "sl":
        return ["sl", fix_brefs(e[1]), e[2]]
    if e[0] == "cat":
        return ["cat", [fix_brefs(p) for p in e[1]]]
    return e


def bexpr(r, d, md, w, depth=1):
    return fix_brefs(D.rand_expr(r, bpool(d, md), w, depth))


def port_width_of(d, md, x, c):
    ports, bports = btarget_ports(d, x["of"])
    return dict(ports).get(c[0]), dict(bports).get(c[0])


# ---------------------------------------------------------------------------------------------
# generator of valid designs
# ---------------------------------------------------------------------------------------------
def conns_for(r, d, md, x):
    ports, bports = btarget_ports(d, x["of"])
    n = x["n"]
    diffs = [b for b, k in md["binsts"] + md["bports"] if k == 0]
    conns = []
    for p, w in ports:
        if x["pair"]:
            u = r.random()
            if w == 1 and diffs and u < 0.4:
                conns.append([p, ["b", r.choice(diffs)]])
            elif u < 0.7:
                conns.append([p, ["anon", [["p", bexpr(r, d, md, w)], ["n", bexpr(r, d, md, w)]]]])
            else:
                conns.append([p, ["x", bexpr(r, d, md, w)]])
        else:
            tw = w * n if n > 0 and r.random() < 0.5 else w
            conns.append([p, ["x", bexpr(r, d, md, tw, r.choice([0, 1, 2]))]])
    for p, k in bports:
        compat = [b for b, kk in md["binsts"] + md["bports"]
                  if kk == k or sorted(map(tuple, d["bundles"][kk]["sigs"])) == sorted(map(tuple, d["bundles"][k]["sigs"]))]
        if compat and r.random() < 0.5:
            conns.append([p, ["b", r.choice(compat)]])
        else:
            ms = []
            for m, w in d["bundles"][k]["sigs"]:
                tw = w * n if n > 0 and r.random() < 0.4 else w
                ms.append([m, bexpr(r, d, md, tw, r.choice([0, 1]))])
            r.shuffle(ms)
            conns.append([p, ["anon", ms]])
    return conns


def gen_bdesign(r):
    bundles = [dict(name="Diff", sigs=[["p", 1], ["n", 1]])]
    for k in range(r.randint(1, 2)):
        bundles.append(dict(name=f"B{k + 1}", sigs=[[f"m{j}", r.choice([1, 1, 2, 3])] for j in range(r.randint(1, 3))]))
    if r.random() < 0.5:
        bundles.append(dict(name="Btwin", sigs=[list(s) for s in bundles[1]["sigs"]]))
    mods = []
    d = dict(bundles=bundles, mods=mods, top=0)

    def new_module(name, nports, bport_types, nsig):
        md = dict(name=name, ports=[[f"p{j}", r.choice([1, 1, 2, 3])] for j in range(nports)],
                  bports=[[f"bp{j}", k] for j, k in enumerate(bport_types)],
                  sigs=[[f"s{j}", r.choice([1, 1, 2, 3, 4])] for j in range(nsig)], binsts=[], insts=[])
        mods.append(md)
        return md

    # leaves: one scalar-only (a Pair target), one or two with Bundle-valued ports
    new_module("LS", r.randint(1, 3), [], 1)
    for li in range(r.randint(1, 2)):
        new_module(f"LB{li}", r.randint(0, 2), [r.randrange(len(bundles)) for _ in range(r.randint(1, 2))], 1)
    for md in mods:
        md["insts"].append(dict(name="r0", n=0, pair=False, of=["prim", "R", 1], conns=[]))
        md["insts"][0]["conns"] = conns_for(r, d, md, md["insts"][0])
    nleaf = len(mods)
    # containers: 1..3 levels; the innermost holds most instances
    depth = r.choice([1, 2, 2, 3])
    for lv in range(depth):
        is_top = lv == depth - 1
        md = new_module(f"C{lv}", 0 if is_top else r.randint(0, 2),
                        [] if is_top or r.random() < 0.4 else [r.randrange(len(bundles))], r.randint(2, 4))
        md["binsts"] = [[f"b{j}", k] for j, k in enumerate([0] + [r.randrange(len(bundles)) for _ in range(r.randint(1, 3))])]
        targets = [["mod", k] for k in range(nleaf)] + [["prim", "R", r.randint(1, 3)]]
        if lv > 0:
            targets = [["mod", len(mods) - 2]] + [r.choice(targets) for _ in range(r.randint(0, 2))]
        else:
            targets = [r.choice(targets) for _ in range(r.randint(2, 4))]
        for ii, of in enumerate(targets):
            _, bports = btarget_ports(d, of)
            u = r.random()
            pair = (not bports) and u < 0.3
            n = r.choice([2, 3]) if (not pair) and u > 0.8 else 0
            x = dict(name=f"i{ii}", n=n, pair=pair, of=of, conns=[])
            x["conns"] = conns_for(r, d, md, x)
            md["insts"].append(x)
    d["top"] = len(mods) - 1
    return d


def reachable(d):
    seen, todo = set(), [d["top"]]
    while todo:
        k = todo.pop()
        if k in seen:
            continue
        seen.add(k)
        for x in d["mods"][k]["insts"]:
            if x["of"][0] == "mod":
                todo.append(x["of"][1])
    return seen


def sites(d):
    reach = reachable(d)
    return [(mi, ii, ci) for mi, md in enumerate(d["mods"]) if mi in reach for ii, x in enumerate(md["insts"])
            for ci, _ in enumerate(x["conns"])]


def portless_inst_sites(d):
    """(module, instance, None) of the instances whose target has no port of any kind: nothing to connect, so no connection site"""
    reach = reachable(d)
    return [(mi, ii, None) for mi, md in enumerate(d["mods"]) if mi in reach for ii, x in enumerate(md["insts"])
            if btarget_ports(d, x["of"]) == ([], [])]


def site_kind(d, s):
    mi, ii, ci = s
    x = d["mods"][mi]["insts"][ii]
    if ci is None:
        return "portless-target" + ("@array" if x["n"] > 0 else "")
    c = x["conns"][ci][1]
    k = c[0]
    if k == "x":
        k = {"sig": "signal", "sl": "slice", "cat": "concat", "bref": "bundle-member-ref"}.get(c[1][0], c[1][0])
    elif k == "b":
        k = "bundle"
    elif k == "anon":
        k = "anonymous-bundle"
    return k + ("@pair" if x["pair"] else "@array" if x["n"] > 0 else "")


# ---------------------------------------------------------------------------------------------
# single-fault mutators: (rng, design copy, site) -> mutated design | None
# ---------------------------------------------------------------------------------------------
def _ctx(d, s):
    mi, ii, ci = s
    md = d["mods"][mi]; x = md["insts"][ii]; c = x["conns"][ci]
    w, k = port_width_of(d, md, x, c)
    return md, x, c, w, k


def bad_width(r, w, n):
    return r.choice([v for v in (w + 1, w - 1, w + 2, 2 * w + 1) if v >= 1 and v != w and not (n > 0 and v == n * w)])


def mb_anon_width(r, d, s):
    """width mismatch through an anonymous-bundle member"""
    md, x, c, w, k = _ctx(d, s)
    if c[1][0] != "anon" or not c[1][1]:
        return None
    j = r.randrange(len(c[1][1]))
    mw = w if x["pair"] else dict(map(tuple, d["bundles"][k]["sigs"]))[c[1][1][j][0]]
    c[1][1][j][1] = bexpr(r, d, md, bad_width(r, mw, x["n"]))
    return d


def _variant_bundle(r, d, k, how, n=0):
    sigs = [list(sg) for sg in d["bundles"][k]["sigs"]]
    j = r.randrange(len(sigs))
    if how == "width":
        sigs[j][1] = bad_width(r, sigs[j][1], n)
    else:
        sigs[j][0] = "zz"
    d["bundles"].append(dict(name=f"Bv{len(d['bundles'])}", sigs=sigs))
    return len(d["bundles"]) - 1


def mb_bundle_width(r, d, s):
    """width mismatch through a Bundle instance: same member names, one member of another width"""
    md, x, c, w, k = _ctx(d, s)
    if k is None or x["pair"]:
        return None
    kk = _variant_bundle(r, d, k, "width", x["n"])
    md["binsts"].append(["bvar", kk])
    c[1] = ["b", "bvar"]
    return d


def mb_bundle_names(r, d, s):
    """a Bundle instance whose type lacks a member of the port's Bundle (and has one it does not know)"""
    md, x, c, w, k = _ctx(d, s)
    if k is None or x["pair"]:
        return None
    kk = _variant_bundle(r, d, k, "name")
    md["binsts"].append(["bvar", kk])
    c[1] = ["b", "bvar"]
    return d


def mb_bref_width(r, d, s):
    """width mismatch through a reference to a Bundle member"""
    md, x, c, w, k = _ctx(d, s)
    if w is None or c[1][0] != "x":
        return None
    cands = [nm for nm, mw in bpool(d, md) if "." in nm and mw != w and not (x["n"] > 0 and mw == w * x["n"])]
    if not cands:
        return None
    c[1] = ["x", ["bref"] + r.choice(cands).split(".")]
    return d


def mb_bref_nomember(r, d, s):
    """reference to a Bundle member that does not exist"""
    md, x, c, w, k = _ctx(d, s)
    bs = [b for b, _ in md["bports"] + md["binsts"]]
    if not bs:
        return None
    ref = ["bref", r.choice(bs), "nosuch"]
    if w is not None and c[1][0] == "x":
        c[1] = ["x", ref]
    elif c[1][0] == "anon" and c[1][1]:
        c[1][1][r.randrange(len(c[1][1]))][1] = ref
    else:
        return None
    return d


def mb_anon_extra(r, d, s):
    """an anonymous-bundle member the port's Bundle does not have"""
    md, x, c, w, k = _ctx(d, s)
    if c[1][0] != "anon":
        return None
    c[1][1].insert(r.randint(0, len(c[1][1])), ["zz", bexpr(r, d, md, 1, 0)])
    return d


def mb_anon_missing(r, d, s):
    md, x, c, w, k = _ctx(d, s)
    if c[1][0] != "anon" or not c[1][1]:
        return None
    del c[1][1][r.randrange(len(c[1][1]))]
    return d


def mb_bundle_orphan(r, d, s):
    """a Bundle instance owned by no Module / by another Module, as a connection or through a member reference"""
    mi = s[0]
    md, x, c, w, k = _ctx(d, s)
    if k is not None and not x["pair"]:
        foreign = [(mj, b) for mj, od in enumerate(d["mods"]) if mj != mi for b, kk in od["binsts"] + od["bports"] if kk == k]
        c[1] = ["bforeign"] + list(r.choice(foreign)) if foreign and r.random() < 0.5 else ["borphan", k]
        return d
    if w is not None and c[1][0] == "x":
        tw = [w] + ([w * x["n"]] if x["n"] > 0 else [])
        mem = [(kk, m) for kk, b in enumerate(d["bundles"]) for m, mw in b["sigs"] if mw in tw]
        if not mem:
            return None
        kk, m = r.choice(mem)
        foreign = [(mj, b) for mj, od in enumerate(d["mods"]) if mj != mi for b, k2 in od["binsts"] + od["bports"] if k2 == kk]
        c[1] = ["x", ["bref_foreign"] + list(r.choice(foreign)) + [m]] if foreign and r.random() < 0.5 else ["x", ["bref_orphan", kk, m]]
        return d
    return None


def mb_anon_orphan(r, d, s):
    """an anonymous-bundle member that is a Signal of no Module / of another Module"""
    mi = s[0]
    md, x, c, w, k = _ctx(d, s)
    if c[1][0] != "anon" or not c[1][1]:
        return None
    j = r.randrange(len(c[1][1]))
    mw = w if x["pair"] else dict(map(tuple, d["bundles"][k]["sigs"])).get(c[1][1][j][0])
    foreign = [(mj, n) for mj, od in enumerate(d["mods"]) if mj != mi for n, sw in od["ports"] + od["sigs"] if sw == mw]
    c[1][1][j][1] = ["foreign"] + list(r.choice(foreign)) if foreign and r.random() < 0.5 else ["orphan", mw]
    return d


def mb_kind(r, d, s):
    """a Signal on a Bundle-valued port / a Bundle on a Signal-valued port"""
    md, x, c, w, k = _ctx(d, s)
    if x["pair"]:
        return None
    if k is not None:
        c[1] = ["x", bexpr(r, d, md, r.choice([1, 2]), 0)]
        return d
    bs = [b for b, _ in md["bports"] + md["binsts"]]
    if not bs:
        return None
    c[1] = ["b", r.choice(bs)]
    return d


def mb_missing(r, d, s):
    """a Bundle-valued port, or a port of an Instance Bundle, left unconnected"""
    md, x, c, w, k = _ctx(d, s)
    if k is None and not x["pair"]:
        return None
    del x["conns"][s[2]]
    return d


def mb_extra(r, d, s):
    """a Bundle / anonymous Bundle / Signal connected to a port that does not exist"""
    if s[2] is None:         # an instance of a target without any port: ANY connection is one to a port that does not exist
        md = d["mods"][s[0]]; x = md["insts"][s[1]]
        d["_tags"] = ["portless-target"]
    else:
        md, x, c, w, k = _ctx(d, s)
        if k is None and not x["pair"] and c[1][0] == "x" and r.random() < 0.7:
            return None          # plain scalar sites are the main stream's business
    bs = [b for b, _ in md["bports"] + md["binsts"]]
    u = r.random()
    if bs and u < 0.4:
        new = ["b", r.choice(bs)]
    elif u < 0.7:
        new = ["anon", [["p", bexpr(r, d, md, 1, 0)]]]
    else:
        new = ["x", bexpr(r, d, md, 1, 0)]
    x["conns"].append(["nosuchport", new])
    return d


def mb_index(r, d, s):
    """an out-of-range or empty index behind an anonymous-bundle member or on a Bundle-member reference"""
    md, x, c, w, k = _ctx(d, s)
    pool = bpool(d, md)
    if c[1][0] == "anon" and c[1][1]:
        j = r.randrange(len(c[1][1]))
        mw = w if x["pair"] else dict(map(tuple, d["bundles"][k]["sigs"])).get(c[1][1][j][0])
        slot = c[1][1][j]
    elif c[1][0] == "x" and w is not None:
        mw, slot = w, c[1]
        pool = [p for p in pool if "." in p[0]] or pool
    else:
        return None
    n, sw = r.choice(pool)
    base = fix_brefs(["sig", n])
    if mw == 1 and r.random() < 0.6:
        slot[1] = ["sl", base, ["i", r.choice([sw, -sw - 1, sw + 2])]]
    else:
        empty = ["sl", base, r.choice([["s", 1, 1, None], ["s", sw, None, None], ["s", None, None, 0]])]
        slot[1] = ["cat", [bexpr(r, d, md, mw, 0), empty]]
    return d


def mb_pair_bundle(r, d, s):
    """Instance Bundle: a Bundle instance that is not of the paired Bundle type (or h.Diff on a wider port)"""
    md, x, c, w, k = _ctx(d, s)
    if not x["pair"]:
        return None
    other = [b for b, kk in md["bports"] + md["binsts"] if kk != 0]
    diffs = [b for b, kk in md["bports"] + md["binsts"] if kk == 0]
    if w is not None and w > 1 and diffs:
        c[1] = ["b", r.choice(diffs)]
    elif other:
        c[1] = ["b", r.choice(other)]
    else:
        return None
    return d


def mb_pair_width(r, d, s):
    """Instance Bundle: scalar connection of the wrong width"""
    md, x, c, w, k = _ctx(d, s)
    if not x["pair"] or w is None:
        return None
    c[1] = ["x", bexpr(r, d, md, bad_width(r, w, 0))]
    return d


MUTATORS = dict(b_anon_width=mb_anon_width, b_bundle_width=mb_bundle_width, b_bundle_names=mb_bundle_names,
                b_bref_width=mb_bref_width, b_bref_nomember=mb_bref_nomember, b_anon_extra=mb_anon_extra,
                b_anon_missing=mb_anon_missing, b_bundle_orphan=mb_bundle_orphan, b_anon_orphan=mb_anon_orphan,
                b_kind=mb_kind, b_missing=mb_missing, b_extra=mb_extra, b_index=mb_index,
                b_pair_bundle=mb_pair_bundle, b_pair_width=mb_pair_width)


# ---------------------------------------------------------------------------------------------
# Coq printing
# ---------------------------------------------------------------------------------------------
class BModPrinter:
    def __init__(self, d, md):
        self.d, self.md = d, md
        self.leaves = {}

    def leaf_id(self, key, coq):
        if key not in self.leaves:
            self.leaves[key] = (len(self.leaves), coq)
        return self.leaves[key][0]

    def sigw(self, md, n):
        for a, w in md["ports"] + md["sigs"]:
            if a == n:
                return w
        return None

    def memw(self, k, m, dflt):
        return dict(map(tuple, self.d["bundles"][k]["sigs"])).get(m, dflt) if k is not None else dflt

    def expr(self, e, pw):
        t = e[0]
        if t == "sig":
            w = self.sigw(self.md, e[1])
            return f"(XSig {self.leaf_id(('s', e[1]), f'BLSig {cstr(e[1])}')}%N {cz(w if w is not None else 1)})"
        if t == "bref":
            w = self.memw(binst_ty(self.md, e[1]), e[2], pw)
            return f"(XSig {self.leaf_id(('m', e[1], e[2]), f'BLMem {cstr(e[1])} {cstr(e[2])}')}%N {cz(w)})"
        if t == "orphan":
            return f"(XSig {self.leaf_id(('o', e[1]), 'BLSig \"?orphan\"')}%N {cz(e[1])})"
        if t == "foreign":
            w = self.sigw(self.d["mods"][e[1]], e[2])
            return f"(XSig {self.leaf_id(('f', e[1], e[2]), 'BLSig \"?foreign\"')}%N {cz(w or 1)})"
        if t == "bref_orphan":
            return f"(XSig {self.leaf_id(('bo', e[1], e[2]), 'BLMem \"?orphan\" ' + cstr(e[2]))}%N {cz(self.memw(e[1], e[2], pw))})"
        if t == "bref_foreign":
            k = binst_ty(self.d["mods"][e[1]], e[2])
            return f"(XSig {self.leaf_id(('bf', e[1], e[2], e[3]), 'BLMem \"?foreign\" ' + cstr(e[3]))}%N {cz(self.memw(k, e[3], pw))})"
        if t == "sl":
            return f"(XSlice {self.expr(e[1], pw)} {c_index(e[2])})"
        if t == "cat":
            return f"(XConcat {clist(e[1], lambda p: self.expr(p, pw))})"
        raise ValueError(t)

    def conn(self, c, pw):
        t = c[0]
        if t == "x":
            return f"(BCx {self.expr(c[1], pw)})"
        if t == "b":
            return f"(BCb {cstr(c[1])})"
        if t == "borphan":
            return '(BCb "?orphan")'
        if t == "bforeign":
            return '(BCb "?foreign")'
        if t == "anon":
            return "(BCanon " + clist(c[1], lambda me: f"({cstr(me[0])}, {self.expr(me[1], pw)})") + ")"
        raise ValueError(t)

    def inst(self, x):
        ports, bports = btarget_ports(self.d, x["of"])
        pw = dict(ports)
        tgt = f"(BTMod {x['of'][1]}%nat)" if x["of"][0] == "mod" else \
            "(BTDev " + clist(ports, lambda p: f"({cstr(p[0])}, {cz(p[1])})") + ")"
        conns = clist(x["conns"], lambda c: f"({cstr(c[0])}, {self.conn(c[1], pw.get(c[0], 1))})")
        return (f"{{| bi_name := {cstr(x['name'])}; bi_n := {cz(x['n'])}; bi_pair := {'true' if x['pair'] else 'false'}; "
                f"bi_of := {tgt}; bi_conns := {conns} |}}")

    def module(self):
        md = self.md
        insts = clist(md["insts"], self.inst)
        leaves = clist(sorted(self.leaves.values()), lambda l: f"({l[0]}%N, {l[1]})")
        pw = lambda p: f"({cstr(p[0])}, {cz(p[1])})"
        pk = lambda p: f"({cstr(p[0])}, {p[1]}%nat)"
        return (f"{{| bm_name := {cstr(md['name'] or '')}; bm_ports := {clist(md['ports'], pw)}; bm_bports := {clist(md['bports'], pk)};\n"
                f"     bm_sigs := {clist(md['sigs'], pw)}; bm_binsts := {clist(md['binsts'], pk)};\n"
                f"     bm_insts := {insts};\n     bm_leaves := {leaves} |}}")


def c_bdesign(d):
    pw = lambda p: f"({cstr(p[0])}, {cz(p[1])})"
    bundles = clist(d["bundles"], lambda b: f"({cstr(b['name'])}, {clist(b['sigs'], pw)})")
    mods = clist(d["mods"], lambda md: BModPrinter(d, md).module())
    return f"{{| bd_bundles := {bundles}; bd_mods := {mods}; bd_top := {d['top']}%nat |}}"
