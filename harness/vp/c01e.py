"""C01E — tie of the pipeline model (coq Model/C01EElab.v: elab_model + export_model) to the implementation.

Called from the END of harness/vp/c01.py:run() with the designs of the C01 stream and the implementation's
packages.  For every design Coq computes the MODEL's package and compares it with the implementation's:
net partition on the terminals + leaf devices (the observables of C01), well-formedness of the model's package
(C06E), and - as information - whether the two packages are syntactically identical (module order, signal
order, names, widths, port directions, instances, parameters, targets).
Codes (Corr/C01E.v): 0 identical, 7 same nets but not identical, 1/6 implementation violates the property, 2 tie broken,
4 model contradicts its theorems, 3 harness.
"""
import json, re
from . import core, design as D
from .core import cstr, clist, cz

IMPORTS = ("Require Import Hdl21.Base.PyInt Hdl21.Spec.PySlice Hdl21.Model.Slice Hdl21.Model.Resolve Hdl21.Base.Design "
           "Hdl21.Spec.Nets Hdl21.Spec.WfDesign Hdl21.Base.Package Hdl21.Corr.C03 Hdl21.Corr.C01 "
           "Hdl21.Model.C01EElab Hdl21.Corr.C01E.")

DIRCODE = {"in": 0, "out": 1, "inout": 2, "none": 3}


def dev_parts(design, of):
    """(domain, name, [(param, value-string)], ext-declaration|None): how exporting.py writes this leaf device."""
    if of[0] == "prim":
        kind, tag = of[1], of[2]
        if kind == "Mos":
            return "hdl21.primitives", "Mos", [("nf", f"pre:UNIT:i{tag}"), ("tp", "lit:NMOS"), ("vth", "lit:STD"), ("family", "lit:NONE")], None
        if kind == "R":
            return "vlsir.primitives", "resistor", [("r", f"pre:UNIT:i{tag}")], None
        if kind == "C":
            return "vlsir.primitives", "capacitor", [("c", f"pre:UNIT:i{tag}")], None
        if kind == "Bjt":
            return "hdl21.primitives", "Bipolar", [("tp", "lit:NPN"), ("mult", f"pre:UNIT:i{tag}")], None
        if kind == "D":
            return "hdl21.primitives", "Diode", [("model", f"lit:d{tag}")], None
        if kind == "Res3":
            return "hdl21.primitives", "ThreeTerminalResistor", [("model", f"lit:m{tag}")], None
    if of[0] == "ext":
        x = design["exts"][of[1]]
        return "", x["name"], [("tag", f"int:{of[2]}")], dict(domain="", name=x["name"], ports=[[n, w, 3] for n, w in x["ports"]])
    raise ValueError(of)


def walk_nc(e, out):
    if e[0] == "nc":
        if e[2] is not None:
            out[e[1]] = e[2]
    elif e[0] == "sl":
        walk_nc(e[1], out)
    elif e[0] == "cat":
        for p in e[1]:
            walk_nc(p, out)


def c_xinfo(design):
    devs = {}
    for md in design["mods"]:
        for x in md["insts"]:
            if x["of"][0] != "mod":
                s = D.dev_string(design, x["of"])
                dom, nm, params, ext = dev_parts(design, x["of"])
                assert s == f"{dom}/{nm}{{" + "".join(f"{k}={v};" for k, v in params) + "}", s
                devs[s] = (dom, nm, params, ext)

    def c_dev(item):
        s, (dom, nm, params, ext) = item
        if ext is None:
            e = "None"
        else:
            ports = clist(ext["ports"], lambda p: f"({cstr(p[0])}, {cz(p[1])}, {cz(p[2])})")
            e = (f"(Some {{| px_domain := {cstr(ext['domain'])}; px_name := {cstr(ext['name'])}; px_ports := {ports}; "
                 f"px_spicetype := \"SUBCKT\" |}})")
        return (f"({cstr(s)}, {{| dv_dom := {cstr(dom)}; dv_name := {cstr(nm)}; "
                f"dv_params := {clist(params, lambda kv: f'({cstr(kv[0])}, {cstr(kv[1])})')}; dv_ext := {e} |}})")

    ncs, dirs = [], []
    for md in design["mods"]:
        named = {}
        for x in md["insts"]:
            for _, e in x["conns"]:
                walk_nc(e, named)
        ncs.append(f"({cstr(md['name'])}, {clist(sorted(named.items()), lambda sn: f'({sn[0]}%N, {cstr(sn[1])})')})")
        dirs.append(f"({cstr(md['name'])}, {clist(md['ports'], lambda p: f'({cstr(p[0])}, {DIRCODE[p[2]]})')})")
    return (f"{{| x_devs := {clist(sorted(devs.items()), c_dev)};\n     x_ncnames := {clist(ncs)};\n"
            f"     x_dirs := {clist(dirs)} |}}")


def strip_qual(pkg, design):
    """Module names in the package are qualified by the Python module of the builder ("designlib.Top");
    the abstract design has the bare names.  Remove that qualifier (consistently, in names and references)."""
    names = {m["name"] for m in design["mods"]}

    def bare(n):
        tail = n.rsplit(".", 1)[-1]
        return tail if tail in names else n
    out = json.loads(json.dumps(pkg))
    for m in out["mods"]:
        m["name"] = bare(m["name"])
        for i in m["insts"]:
            if i["ref"][0] == "local":
                i["ref"][1] = bare(i["ref"][1])
    return out


def c_case(design, out, elem_names=None):
    en = (lambda i, k: elem_names.get(f"{i}:{k}", f"{i}_{k}")) if elem_names else (lambda i, k: f"{i}_{k}")
    spec_t, pkg_t = D.terminals(design, elem_name=en)
    top = design["mods"][design["top"]]["name"]
    pk = "None" if out["pkg"] is None else f"(Some {D.c_pkg(strip_qual(out['pkg'], design))})"
    cc = (f"{{| cc_design := {D.c_design(design)};\n  cc_terms := {clist(spec_t, D.c_node)};\n  cc_pkg := {pk};\n"
          f"  cc_top := {cstr(top)}; cc_pterms := {clist(pkg_t, D.c_node)} |}}")
    return f"{{| ce_case := {cc};\n  ce_xinfo := {c_xinfo(design)} |}}"


def inner(w=1):
    if w == 1:
        return dict(name="Inner", ports=[["a", 1, "inout"]], sigs=[["z", 1]],
                    insts=[dict(name="r", n=0, of=["prim", "R", 1], conns=[["p", ["sig", "a"]], ["n", ["sig", "z"]]])])
    return dict(name=f"Inner{w}", ports=[["a", w, "inout"]], sigs=[],
                insts=[dict(name=f"r{k}", n=0, of=["prim", "R", 1],
                            conns=[["p", ["sl", ["sig", "a"], ["i", k]]], ["n", ["sl", ["sig", "a"], ["i", (k + 1) % w]]]])
                       for k in range(w)])


def corpus():
    """Designs the C01 generator does not produce: array ports connected through references."""
    def top(insts, sigs, ports=()):
        return dict(mods=[inner(1), inner(2), dict(name="Top", ports=list(ports), sigs=sigs, insts=insts)], exts=[], top=2)
    plain = [
        # an array port taking a reference into a cyclic group whose other members are twice as wide: the implicit
        # signal was named after - and copied from - the array's one-element port (fixes/C01E-1)
        top([dict(name="i1", n=0, of=["mod", 1], conns=[["a", ["ref", "i2", "a"]]]),
             dict(name="i2", n=0, of=["mod", 1], conns=[["a", ["ref", "i1", "a"]]]),
             dict(name="a0", n=2, of=["mod", 0], conns=[["a", ["ref", "i1", "a"]]])], [["s", 1]]),
        # per-element wiring of an array through a reference to an unconnected port
        top([dict(name="i1", n=0, of=["mod", 1], conns=[]),
             dict(name="a0", n=2, of=["mod", 0], conns=[["a", ["ref", "i1", "a"]]])], [["s", 1]]),
        # broadcast through a reference, the group has a declared slice
        top([dict(name="i1", n=0, of=["mod", 0], conns=[["a", ["sl", ["sig", "b"], ["i", -1]]]]),
             dict(name="a0", n=3, of=["mod", 0], conns=[["a", ["ref", "i1", "a"]]])], [["b", 2]]),
        # a no-connected array port (one private section per element) beside a shared no-connect on single instances
        top([dict(name="a0", n=2, of=["mod", 1], conns=[["a", ["nc", 1, None]]]),
             dict(name="a1", n=1, of=["mod", 0], conns=[["a", ["nc", 1, None]]]),
             dict(name="i2", n=0, of=["mod", 0], conns=[["a", ["nc", 1, None]]])], [["s", 1]]),
    ]
    return [(d, None) for d in plain] + [
        # invented names that collide with the designer's names: i0_a (signal), a0_0 (signal), named no-connect = port
        (top([dict(name="i0", n=0, of=["mod", 0], conns=[]),
             dict(name="i1", n=0, of=["mod", 0], conns=[["a", ["ref", "i0", "a"]]]),
             dict(name="a0", n=2, of=["mod", 0], conns=[["a", ["sig", "a0_0"]]]),
             dict(name="i3", n=0, of=["mod", 0], conns=[["a", ["nc", 1, "q"]]])],
            [["i0_a", 1], ["a0_0", 1]], ports=[["q", 1, "in"]]), {"a0:0": "a0_0_"}),
    ]


def array_ref_designs(seed, n):
    """Designs of the shared generator in which array ports take references (per-element and broadcast) - a shape the
    C01 generator never produces, but ResolvePortRefs + ArrayFlattener handle (and the model models)."""
    out, k, tried = [], 0, 0
    while len(out) < n and tried < 40 * n:
        r = core.rng(seed, "C01", "model-arrayrefs", k)
        k += 1
        tried += 1
        d = D.gen_design(r, size=r.choice([1, 2, 2, 3]))
        changed = False
        for md in d["mods"]:
            singles = [x for x in md["insts"] if x["n"] == 0]
            for x in md["insts"]:
                if x["n"] == 0:
                    continue
                ports = dict(D.target_ports(d, x["of"]))
                for c in x["conns"]:
                    if c[1][0] == "nc" or r.random() < 0.4:
                        continue
                    w = ports[c[0]]
                    # a port of a single instance, of the element width (broadcast) or n times as wide (per element),
                    # that is not no-connected
                    cands = []
                    for y in singles:
                        yconns = dict((p, e) for p, e in y["conns"])
                        for q, qw in D.target_ports(d, y["of"]):
                            if qw in (w, w * x["n"]) and not (q in yconns and yconns[q][0] == "nc"):
                                cands.append((y["name"], q))
                    if cands:
                        y, q = r.choice(cands)
                        c[1] = ["ref", y, q]
                        changed = True
        if changed and len(D.terminals(d)[0]) <= 120:
            out.append(d)
    return out


def run_tie(run, tier, seed, designs, outs):
    quick = tier == "quick"
    if not quick:
        # the in-Coq evaluation of three net partitions per design is the costly part: the thorough tier ties a prefix
        designs, outs = designs[:2500], outs[:2500]
    corp = corpus() + [(d, None) for d in array_ref_designs(seed, 40 if quick else 400)]
    extra = [d for d, _ in corp]
    extra_outs = core.run_worker_sharded("c01", [dict(design=d, spice=False) for d in extra])
    all_d = extra + list(designs)
    all_o = list(extra_outs) + list(outs)
    names = [en for _, en in corp] + [None] * len(designs)
    n_arrayrefs = len(corp) - len(corpus())
    cases = [c_case(d, o, en) for d, o, en in zip(all_d, all_o, names)]
    bad = dict(core.coq_eval_cases("C01", "model", IMPORTS, "c01e_case", cases, "run_cases chk_c01e", chunk=40))
    n = len(all_d)
    ident = sum(1 for i in range(n) if i not in bad)
    same_nets = sum(1 for i in range(n) if bad.get(i, 0) in (0, 7))
    feats = {}
    for d in all_d:
        for f, v in D.features(d).items():
            feats[f] = feats.get(f, 0) + int(v)
    run.stream("model", n, len({json.dumps(d) for d in all_d if sum(D.features(d).values()) >= 3}),
               model_nets_equal_impl=same_nets, model_pkg_identical_to_impl=ident,
               model_pkg_differs_only_in_unfixed_details=sum(1 for c in bad.values() if c == 7),
               corpus=len(extra) - n_arrayrefs, array_reference_designs=n_arrayrefs, features=feats,
               rule="non-trivial = at least 3 of {refs, no-connects, arrays, slices, concats, hierarchy, external modules, negative steps}; distinct by design",
               compared="Coq computes elab_export_model(design) and compares with the implementation's package: net labels on all "
                        "terminals, leaf devices, wf_pkg of the model's package; 'identical' = equal as packages up to the module-name "
                        "qualifier of the builder, the package domain and literals")
    order = sorted((i for i, c in bad.items() if c != 7), key=lambda i: len(json.dumps(all_d[i])))
    v1 = [i for i in order if bad[i] in (1, 6)]
    for i in v1[:2]:
        what = ("valid design rejected" if bad[i] == 6 else
                "exported package differs from the written design (net partition / leaf devices); the model's package does not")
        run.violation("C01:design:" + json.dumps(all_d[i], sort_keys=True), f"{what}: {json.dumps(all_o[i]['err'])[:400]}",
                      dict(kind="impl-violates-spec", stream="model", case=all_d[i], impl=all_o[i], failing_cases=len(v1),
                           reproducer="build the design with harness/impl/designlib.Builder, h.to_proto, compare nets"))
    rest = [i for i in order if bad[i] not in (1, 6)]
    for i in rest[:2]:
        c = bad[i]
        what = {2: "the pipeline model rejects a design on which the implementation satisfies the property (tie broken)",
                4: "the model's package contradicts C01E_end_to_end / C06E_export_wf (checker defect)",
                3: "generated design is not valid by Spec/WfDesign, outside frag_ok / xinfo_ok, or terminal list inconsistent (harness defect)"}.get(c, f"code {c}")
        run.violation(f"C01:model:{c}:" + json.dumps(all_d[i], sort_keys=True), what,
                      dict(kind="tie-broken" if c == 2 else "checker-inconsistency", code=c, stream="model", case=all_d[i],
                           impl=all_o[i], failing_cases=len(rest)), found_input=False)
    run.coverage["model_tie"] = dict(designs=n, nets_equal=same_nets, identical=ident)
