"""C02 — ill-formed designs never yield a package or a netlist (DESIGN.md 6.7).
Single-fault mutation of valid designs; the specification (Spec/WfDesign.v, evaluated in Coq) must call the
mutant faulty, and then elaborate, to_proto and netlist must all raise."""
import json, copy
from . import core, design as D

IMPORTS = ("Require Import Hdl21.Base.PyInt Hdl21.Spec.PySlice Hdl21.Model.Slice Hdl21.Model.Resolve Hdl21.Base.Design "
           "Hdl21.Spec.WfDesign Hdl21.Corr.C03 Hdl21.Corr.C02.")


def sites(design):
    """(module index, instance index, conn index) of every connection."""
    return [(mi, ii, ci) for mi, md in enumerate(design["mods"]) for ii, x in enumerate(md["insts"])
            for ci, _ in enumerate(x["conns"])]


def conn_width(design, md, x, c):
    return dict(D.target_ports(design, x["of"]))[c[0]]


def pool_of(md):
    return [(n, w) for n, w, _ in md["ports"]] + [(n, w) for n, w in md["sigs"]]


def expr_of_width(r, md, w, depth=1):
    pool = pool_of(md)
    return D.rand_expr(r, pool, w, depth)


def is_plain(c):
    return c[1][0] in ("sig", "sl", "cat")


# Each mutator returns a mutated deep copy, or None when the fault class does not apply at that site.
def m_width(r, d, s):
    mi, ii, ci = s
    md = d["mods"][mi]; x = md["insts"][ii]; c = x["conns"][ci]
    if not is_plain(c):
        return None
    w = conn_width(d, md, x, c)
    bad = [v for v in (w + 1, w - 1, w + 2) if v >= 1 and not (x["n"] > 0 and v in (w, w * x["n"]))]
    if not bad:
        return None
    c[1] = expr_of_width(r, md, r.choice(bad))
    return d


def m_width_ref(r, d, s):
    mi, ii, ci = s
    md = d["mods"][mi]; x = md["insts"][ii]; c = x["conns"][ci]
    if x["n"] > 0:
        return None
    w = conn_width(d, md, x, c)
    others = [(y["name"], q) for y in md["insts"] if y is not x and y["n"] == 0
              for q, qw in D.target_ports(d, y["of"]) if qw != w]
    if not others:
        return None
    y, q = r.choice(others)
    c[1] = ["ref", y, q]
    return d


def m_missing(r, d, s):
    mi, ii, ci = s
    md = d["mods"][mi]; x = md["insts"][ii]; c = x["conns"][ci]
    key = json.dumps(["ref", x["name"], c[0]])
    if key in json.dumps(md["insts"]):
        return None          # still referenced: not a fault
    del x["conns"][ci]
    return d


def m_extra(r, d, s):
    mi, ii, ci = s
    md = d["mods"][mi]; x = md["insts"][ii]
    x["conns"].append(["nosuchport", expr_of_width(r, md, 1, 0)])
    return d


def m_badref(r, d, s):
    mi, ii, ci = s
    md = d["mods"][mi]; x = md["insts"][ii]; c = x["conns"][ci]
    others = [y["name"] for y in md["insts"] if y is not x and y["n"] == 0]
    if not others or x["n"] > 0:
        return None
    c[1] = ["ref", r.choice(others), "nosuchport"]
    return d


def m_index(r, d, s):
    mi, ii, ci = s
    md = d["mods"][mi]; x = md["insts"][ii]; c = x["conns"][ci]
    w = conn_width(d, md, x, c)
    if w != 1 or x["n"] > 0 or not is_plain(c):
        return None
    n, sw = r.choice(pool_of(md))
    bad = r.choice([["i", sw], ["i", -sw - 1], ["i", 2 * sw + 1], ["s", sw, sw + 1, None] if False else ["i", sw + 1]])
    c[1] = ["sl", ["sig", n], bad]
    return d


def m_empty(r, d, s):
    mi, ii, ci = s
    md = d["mods"][mi]; x = md["insts"][ii]; c = x["conns"][ci]
    w = conn_width(d, md, x, c)
    if x["n"] > 0 or not is_plain(c):
        return None
    # a concatenation of the right width one of whose parts is an empty slice
    n, sw = r.choice(pool_of(md))
    empty = ["sl", ["sig", n], r.choice([["s", 1, 1, None], ["s", 0, 0, None], ["s", sw, None, None], ["s", 0, sw, -1], ["s", None, None, 0]])]
    c[1] = ["cat", [expr_of_width(r, md, w, 0), empty]]
    return d


def m_orphan(r, d, s):
    mi, ii, ci = s
    md = d["mods"][mi]; x = md["insts"][ii]; c = x["conns"][ci]
    w = conn_width(d, md, x, c)
    if x["n"] > 0:
        return None
    kind = r.random()
    if kind < 0.4:
        c[1] = ["orphan", w]
    elif kind < 0.7:
        c[1] = ["cat", [["orphan", w]]] if w == 1 else ["sl", ["orphan", w + 1], ["s", 0, w, None]]
    else:
        cands = [(mj, n) for mj, od in enumerate(d["mods"]) if mj != mi for n, sw in pool_of(od) if sw == w]
        if not cands:
            c[1] = ["orphan", w]
        else:
            mj, n = r.choice(cands)
            c[1] = ["foreign", mj, n]
    return d


def m_foreignref(r, d, s):
    mi, ii, ci = s
    md = d["mods"][mi]; x = md["insts"][ii]; c = x["conns"][ci]
    w = conn_width(d, md, x, c)
    if x["n"] > 0:
        return None
    cands = [(mj, y["name"], q) for mj, od in enumerate(d["mods"]) if mj != mi for y in od["insts"] if y["n"] == 0
             for q, qw in D.target_ports(d, y["of"]) if qw == w]
    if not cands:
        return None
    c[1] = ["foreignref"] + list(r.choice(cands))
    return d


def m_nc_ref(r, d, s):
    """a no-connect on a port that is also referenced by another port"""
    mi, ii, ci = s
    md = d["mods"][mi]; x = md["insts"][ii]; c = x["conns"][ci]
    w = conn_width(d, md, x, c)
    if x["n"] > 0:
        return None
    others = [(y, k) for y in md["insts"] if y is not x and y["n"] == 0 for k, cc in enumerate(y["conns"])
              if conn_width(d, md, y, cc) == w and json.dumps(["ref", y["name"], cc[0]]) not in json.dumps(md["insts"])]
    if not others:
        return None
    y, k = r.choice(others)
    c[1] = ["nc", 9000, None]
    y["conns"][k][1] = ["ref", x["name"], c[0]]
    return d


def m_cycle(r, d, s):
    mi, ii, ci = s
    md = d["mods"][mi]; x = md["insts"][ii]
    # replace the target by a module that (transitively) contains this one: itself, or any later module
    later = [k for k in range(mi, len(d["mods"]))]
    k = r.choice(later)
    tgt = d["mods"][k]
    x["of"] = ["mod", k]
    x["n"] = 0
    x["conns"] = [[n, expr_of_width(r, md, w, 0)] for n, w, _ in tgt["ports"]]
    # make sure the cycle is closed: module k must reach module mi
    if k != mi:
        y = tgt["insts"][0]
        y["of"] = ["mod", mi]; y["n"] = 0
        y["conns"] = [[n, expr_of_width(r, tgt, w, 0)] for n, w, _ in md["ports"]]
    return d


def m_unnamed(r, d, s):
    mi = s[0]
    d["mods"][mi]["name"] = None
    return d


def m_nameclash(r, d, s):
    mi = s[0]
    if len(d["mods"]) < 2:
        return None
    cands = [k for k in reachable(d) if k != mi]
    if not cands:
        return None
    mj = r.choice(cands)
    # both must be reachable from the top: make sure by only using the chain top -> ... (checked by the spec anyway)
    d["mods"][mi]["name"] = d["mods"][mj]["name"]
    return d


def m_array_width(r, d, s):
    mi, ii, ci = s
    md = d["mods"][mi]; x = md["insts"][ii]; c = x["conns"][ci]
    if x["n"] == 0 or not is_plain(c):
        return None
    w = conn_width(d, md, x, c)
    bad = [v for v in range(1, w * x["n"] + 2) if v not in (w, w * x["n"])]
    c[1] = expr_of_width(r, md, r.choice(bad))
    return d


def m_array_missing(r, d, s):
    mi, ii, ci = s
    md = d["mods"][mi]; x = md["insts"][ii]
    if x["n"] == 0:
        return None
    del x["conns"][ci]
    return d


MUTATORS = dict(width=m_width, width_ref=m_width_ref, missing=m_missing, extra=m_extra, badref=m_badref, index=m_index,
                empty=m_empty, orphan=m_orphan, foreignref=m_foreignref, nc_ref=m_nc_ref, cycle=m_cycle, unnamed=m_unnamed,
                nameclash=m_nameclash, array_width=m_array_width, array_missing=m_array_missing)


def reachable(d):
    seen, todo = set(), [d["top"]]
    while todo:
        k = todo.pop()
        if k in seen:
            continue
        seen.add(k)
        for x in d["mods"][k]["insts"]:
            if x["of"][0] == "mod":
                todo.append(x["of"][1])
    return seen


def run(run, tier, seed, replay=None):
    quick = tier == "quick"
    nbase = 120 if quick else 1500
    per_class = 1 if quick else 4
    muts, meta = [], []
    if replay is not None:
        muts, meta = [replay["case"]], [dict(cls=replay.get("cls", "?"), base=-1)]
    else:
        for k in range(nbase):
            r = core.rng(seed, "C02", "base", k)
            base = D.gen_design(r, size=r.choice([1, 2, 2, 3]))
            reach = reachable(base)
            ss = [s for s in sites(base) if s[0] in reach]      # faults in unreachable modules are not faults of the design
            if not ss:
                continue
            for cls, f in MUTATORS.items():
                for j in range(per_class):
                    rr = core.rng(seed, "C02", cls, k * 16 + j)
                    m = f(rr, copy.deepcopy(base), rr.choice(ss))
                    if m is not None:
                        muts.append(m); meta.append(dict(cls=cls, base=k))
    outs = core.run_worker_sharded("c02", [dict(design=m, entry=["elaborate", "to_proto", "netlist"]) for m in muts])
    accepted = [any(v[0] == "accepted" for v in o.values()) for o in outs]
    cases = [f"({D.c_design(m)}, {core.cbool(a)})" for m, a in zip(muts, accepted)]
    bad = core.coq_eval_cases("C02", "mutants", IMPORTS, "design * bool", cases, "run_cases chk_c02", chunk=80)
    cls_codes = dict(core.coq_eval_cases("C02", "classes", IMPORTS, "design * bool", cases, "classes", chunk=80))
    code = dict(bad)
    not_faulty = [i for i in range(len(muts)) if code.get(i) == 9]
    per = {}
    for i, mt in enumerate(meta):
        e = per.setdefault(mt["cls"], dict(mutants=0, not_faulty_by_spec=0, accepted_by_impl=0, spec_error_codes={}))
        if code.get(i) == 9:
            e["not_faulty_by_spec"] += 1
            continue
        e["mutants"] += 1
        ec = str(cls_codes.get(i, 0))
        e["spec_error_codes"][ec] = e["spec_error_codes"].get(ec, 0) + 1
        if code.get(i) == 1:
            e["accepted_by_impl"] += 1
    faulty = [i for i in range(len(muts)) if code.get(i) != 9]
    run.stream("single-fault-mutants", len(faulty), len({json.dumps(muts[i], sort_keys=True) for i in faulty}),
               per_class=per, dropped_not_faulty=len(not_faulty),
               rule="every counted mutant is faulty by Spec/WfDesign (evaluated in Coq); distinct by mutant design; classes per the statement")
    for cls in MUTATORS:
        if replay is None and per.get(cls, {}).get("mutants", 0) == 0:
            run.violation(f"C02:coverage:{cls}", f"no faulty mutant of class {cls} was generated", dict(kind="coverage"), found_input=False)
    v1 = sorted([i for i in faulty if code.get(i) == 1], key=lambda i: len(json.dumps(muts[i])))
    seen_cls = set()
    for i in v1:
        cls = meta[i]["cls"]
        if cls in seen_cls:
            continue
        seen_cls.add(cls)
        who = [k for k, v in outs[i].items() if v[0] == "accepted"]
        if cls == "nameclash" and who == ["elaborate"]:
            # one finding for the call site, whatever the design: elaborate() alone never looks at export names
            run.violation("C02:nameclash:elaborate-accepts", "elaborate() accepts a design whose only fault is a module-name clash",
                          dict(kind="impl-violates-spec", cls=cls, case=muts[i], impl=outs[i], accepted_by=who))
            seen_cls.discard(cls)
            if any(meta[j]["cls"] == cls and [k for k, v in outs[j].items() if v[0] == "accepted"] != ["elaborate"] for j in v1):
                continue
            seen_cls.add(cls)
            continue
        run.violation(f"C02:{cls}:" + json.dumps(muts[i], sort_keys=True), f"faulty design (class {cls}) accepted by {who}",
                      dict(kind="impl-violates-spec", cls=cls, case=muts[i], impl=outs[i], accepted_by=who,
                           failing_cases_of_class=sum(1 for j in v1 if meta[j]["cls"] == cls)))
    if muts:
        run.sample(dict(cls=meta[0]["cls"], mutant=muts[0], impl=outs[0]))
    run.coverage["traces_validated_against_impl"] = len(faulty)
