"""C02 — ill-formed designs never yield a package or a netlist (DESIGN.md 6.7).
Single-fault mutation of valid designs; the specification (Spec/WfDesign.v, evaluated in Coq) must call the
mutant faulty, and then elaborate, to_proto and netlist must all raise."""
import json, copy
from . import core, design as D, c02b as B
from .core import cz, cstr

IMPORTS = ("Require Import Hdl21.Base.PyInt Hdl21.Spec.PySlice Hdl21.Model.Slice Hdl21.Model.Resolve Hdl21.Base.Design "
           "Hdl21.Spec.WfDesign Hdl21.Spec.C02BundleWf Hdl21.Corr.C03 Hdl21.Corr.C02.")
ENTRY = ["elaborate", "to_proto", "netlist"]


class Printer(D.ModPrinter):
    """design.ModPrinter plus the leaf `orphanref`: a port of an Instance that no Module owns."""

    def expr(self, e, ncw):
        if e[0] == "orphanref":
            return f"(XSig {self.leaf_id(('or', json.dumps(e[1]), e[2]), 'LRef \"?orphan\" ' + cstr(e[2]))}%N {cz(ncw)})"
        return super().expr(e, ncw)


def c_design(design):
    mods = core.clist(design["mods"], lambda md: Printer(design, md).module())
    return f"{{| d_mods := {mods}; d_top := {design['top']}%nat |}}"


def site_kind(d, s):
    """what kind of connection the fault is planted on (measured per class in the evidence)"""
    mi, ii, ci = s
    x = d["mods"][mi]["insts"][ii]
    if ci is None:            # an instance-level site (the fault is not planted on an existing connection)
        return ("portless-target" if not D.target_ports(d, x["of"]) else "instance") + ("@array" if x["n"] > 0 else "")
    c = x["conns"][ci][1]
    k = {"sig": "signal", "sl": "slice", "cat": "concat", "ref": "port-ref", "nc": "no-connect"}[c[0]]
    if k == "signal":
        k = "bus" if (D.sig_width(d["mods"][mi], c[1]) or 1) > 1 else "scalar"
    return k + ("@array" if x["n"] > 0 else "")


def sites(design):
    """(module index, instance index, conn index) of every connection."""
    return [(mi, ii, ci) for mi, md in enumerate(design["mods"]) for ii, x in enumerate(md["insts"])
            for ci, _ in enumerate(x["conns"])]


def inst_sites(design):
    """(module index, instance index, None) of every instance: where a connection can be ADDED, also on an instance that has none"""
    return [(mi, ii, None) for mi, md in enumerate(design["mods"]) for ii, _ in enumerate(md["insts"])]


def with_portless(r, d):
    """Some base designs get a self-contained Module WITHOUT ANY PORT (a test bench: a resistor between two internal nets),
    instantiated - with no connection at all, which is what is valid - in the top module and below it, singly and as an array.
    Valid designs; `extra` and `badref` then have port-less targets to plant their fault on."""
    if r.random() < 0.4:
        return d
    for md in d["mods"]:
        for x in md["insts"]:
            if x["of"][0] == "mod":
                x["of"] = ["mod", x["of"][1] + 1]
    bench = dict(name="Bench", ports=[], sigs=[["a", 1], ["b", 2]],
                 insts=[dict(name="r0", n=0, of=["prim", "R", 1], conns=[["p", ["sig", "a"]], ["n", ["sl", ["sig", "b"], ["i", 1]]]])])
    d["mods"].insert(0, bench)
    d["top"] += 1
    for mi in sorted(reachable(d)):
        if mi != 0 and (mi == d["top"] or r.random() < 0.7):
            d["mods"][mi]["insts"].append(dict(name=f"pl{mi}", n=2 if r.random() < 0.2 else 0, of=["mod", 0], conns=[]))
    return d


def tag(d, *tags):
    d.setdefault("_tags", []).extend(tags)
    return d


def conn_width(design, md, x, c):
    return dict(D.target_ports(design, x["of"]))[c[0]]


def pool_of(md):
    return [(n, w) for n, w, _ in md["ports"]] + [(n, w) for n, w in md["sigs"]]


def expr_of_width(r, md, w, depth=1):
    pool = pool_of(md)
    return D.rand_expr(r, pool, w, depth)


def is_plain(c):
    return c[1][0] in ("sig", "sl", "cat")


# Each mutator returns a mutated deep copy, or None when the fault class does not apply at that site.
def m_width(r, d, s):
    mi, ii, ci = s
    md = d["mods"][mi]; x = md["insts"][ii]; c = x["conns"][ci]
    if not is_plain(c):
        return None
    w = conn_width(d, md, x, c)
    bad = [v for v in (w + 1, w - 1, w + 2) if v >= 1 and not (x["n"] > 0 and v in (w, w * x["n"]))]
    if not bad:
        return None
    c[1] = expr_of_width(r, md, r.choice(bad))
    return d


def m_width_ref(r, d, s):
    mi, ii, ci = s
    md = d["mods"][mi]; x = md["insts"][ii]; c = x["conns"][ci]
    if x["n"] > 0:
        return None
    w = conn_width(d, md, x, c)
    others = [(y["name"], q) for y in md["insts"] if y is not x and y["n"] == 0
              for q, qw in D.target_ports(d, y["of"]) if qw != w]
    if not others:
        return None
    y, q = r.choice(others)
    c[1] = ["ref", y, q]
    return d


def m_missing(r, d, s):
    mi, ii, ci = s
    md = d["mods"][mi]; x = md["insts"][ii]; c = x["conns"][ci]
    key = json.dumps(["ref", x["name"], c[0]])
    if key in json.dumps(md["insts"]):
        return None          # still referenced: not a fault
    del x["conns"][ci]
    return d


def m_extra(r, d, s):
    mi, ii, ci = s
    md = d["mods"][mi]; x = md["insts"][ii]
    w = r.choice([1, 1, 2])
    e = expr_of_width(r, md, w, r.choice([0, 0, 1])) or expr_of_width(r, md, 1, 0)
    if e is None:
        return None
    if r.random() < 0.15:
        e = ["cat", [e]]
    x["conns"].append([r.choice(["nosuchport", "nosuchport", "vdd", "p"]) if not D.target_ports(d, x["of"]) else "nosuchport", e])
    if not D.target_ports(d, x["of"]):
        tag(d, "portless-target@" + ("top" if mi == d["top"] else "deep"))
    return d


def m_badref(r, d, s):
    mi, ii, ci = s
    md = d["mods"][mi]; x = md["insts"][ii]; c = x["conns"][ci]
    others = [y["name"] for y in md["insts"] if y is not x and y["n"] == 0]
    if not others or x["n"] > 0:
        return None
    y = r.choice(others)
    c[1] = ["ref", y, "nosuchport"]
    if not D.target_ports(d, D.find_inst(md, y)["of"]):
        tag(d, "ref-to-portless-target")
    return d


def m_index(r, d, s):
    mi, ii, ci = s
    md = d["mods"][mi]; x = md["insts"][ii]; c = x["conns"][ci]
    w = conn_width(d, md, x, c)
    if w != 1 or not is_plain(c):
        return None
    n, sw = r.choice(pool_of(md))
    bad = r.choice([["i", sw], ["i", -sw - 1], ["i", 2 * sw + 1], ["s", sw, sw + 1, None] if False else ["i", sw + 1]])
    c[1] = ["sl", ["sig", n], bad]
    return d


def m_empty(r, d, s):
    mi, ii, ci = s
    md = d["mods"][mi]; x = md["insts"][ii]; c = x["conns"][ci]
    w = conn_width(d, md, x, c)
    if not is_plain(c):
        return None
    # a concatenation of the right width one of whose parts is an empty slice
    n, sw = r.choice(pool_of(md))
    empty = ["sl", ["sig", n], r.choice([["s", 1, 1, None], ["s", 0, 0, None], ["s", sw, None, None], ["s", 0, sw, -1], ["s", None, None, 0]])]
    c[1] = ["cat", [expr_of_width(r, md, w, 0), empty]]
    return d


def m_orphan(r, d, s):
    mi, ii, ci = s
    md = d["mods"][mi]; x = md["insts"][ii]; c = x["conns"][ci]
    w = conn_width(d, md, x, c)
    if x["n"] > 0 and not is_plain(c):
        return None
    kind = r.random()
    if w >= 2 and r.random() < 0.4:
        # the un-owned leaf in a LATER position of a concatenation whose other parts are sound
        a = r.randint(1, w - 1)
        bad = ["orphan", w - a] if r.random() < 0.6 else ["sl", ["orphan", w - a + 1], ["s", 1, None, None]]
        foreign = [(mj, n) for mj, od in enumerate(d["mods"]) if mj != mi for n, sw in pool_of(od) if sw == w - a]
        if foreign and r.random() < 0.4:
            mj, n = r.choice(foreign)
            bad = ["foreign", mj, n]
        first = expr_of_width(r, md, a, 0)
        if first is not None:
            parts = [first, bad]
            if r.random() < 0.3 and a >= 2:
                parts = [expr_of_width(r, md, 1, 0), bad, expr_of_width(r, md, a - 1, 0)]
            if all(q is not None for q in parts):
                c[1] = ["cat", parts]
                return d
    if kind < 0.4:
        c[1] = ["orphan", w]
    elif kind < 0.7:
        c[1] = ["cat", [["orphan", w]]] if w == 1 else ["sl", ["orphan", w + 1], ["s", 0, w, None]]
    else:
        cands = [(mj, n) for mj, od in enumerate(d["mods"]) if mj != mi for n, sw in pool_of(od) if sw == w]
        if not cands:
            c[1] = ["orphan", w]
        else:
            mj, n = r.choice(cands)
            c[1] = ["foreign", mj, n]
    return d


def m_foreignref(r, d, s):
    mi, ii, ci = s
    md = d["mods"][mi]; x = md["insts"][ii]; c = x["conns"][ci]
    w = conn_width(d, md, x, c)
    if x["n"] > 0:
        return None
    cands = [(mj, y["name"], q) for mj, od in enumerate(d["mods"]) if mj != mi for y in od["insts"] if y["n"] == 0
             for q, qw in D.target_ports(d, y["of"]) if qw == w]
    if not cands:
        return None
    c[1] = ["foreignref"] + list(r.choice(cands))
    return d


def m_orphan_inst(r, d, s):
    """a reference to a port of an Instance that was never added to any Module"""
    mi, ii, ci = s
    md = d["mods"][mi]; x = md["insts"][ii]; c = x["conns"][ci]
    w = conn_width(d, md, x, c)
    if x["n"] > 0:
        return None
    cands = [(["prim", k, 1], p) for k, ps in D.PRIM_PORTS.items() for p in ps if w == 1]
    cands += [(["mod", mj], q) for mj in range(mi) for q, qw, _ in d["mods"][mj]["ports"] if qw == w]
    if not cands:
        return None
    of, q = r.choice(cands)
    c[1] = ["orphanref", of, q]
    return d


def m_nc_ref(r, d, s):
    """a no-connect on a port that is also referenced by another port"""
    mi, ii, ci = s
    md = d["mods"][mi]; x = md["insts"][ii]; c = x["conns"][ci]
    w = conn_width(d, md, x, c)
    if x["n"] > 0:
        return None
    others = [(y, k) for y in md["insts"] if y is not x and y["n"] == 0 for k, cc in enumerate(y["conns"])
              if conn_width(d, md, y, cc) == w and json.dumps(["ref", y["name"], cc[0]]) not in json.dumps(md["insts"])]
    if not others:
        return None
    y, k = r.choice(others)
    c[1] = ["nc", 9000, None]
    ref = ["ref", x["name"], c[0]]
    u = r.random()
    if u < 0.35 and w >= 2:
        # the no-connected port is referenced INDIRECTLY: through a full-width slice of the reference ...
        y["conns"][k][1] = ["sl", ref, ["s", None, None, None]]
    elif u < 0.6:
        # ... or as one part of a concatenation (the other port is then one bit wider than this one)
        wide = [(z, j) for z in md["insts"] if z is not x and z["n"] == 0 for j, cc in enumerate(z["conns"])
                if conn_width(d, md, z, cc) == w + 1]
        extra = expr_of_width(r, md, 1, 0)
        if wide and extra is not None:
            z, j = r.choice(wide)
            z["conns"][j][1] = ["cat", [ref, extra]] if r.random() < 0.5 else ["cat", [extra, ref]]
        else:
            y["conns"][k][1] = ref
    else:
        y["conns"][k][1] = ref
    return d


def m_cycle(r, d, s):
    mi, ii, ci = s
    md = d["mods"][mi]; x = md["insts"][ii]
    # replace the target by a module that (transitively) contains this one: itself, or any later module
    later = [k for k in range(mi, len(d["mods"]))]
    k = r.choice(later)
    tgt = d["mods"][k]
    x["of"] = ["mod", k]
    x["n"] = 0
    x["conns"] = [[n, expr_of_width(r, md, w, 0)] for n, w, _ in tgt["ports"]]
    # make sure the cycle is closed: module k must reach module mi
    if k != mi:
        y = tgt["insts"][0]
        y["of"] = ["mod", mi]; y["n"] = 0
        y["conns"] = [[n, expr_of_width(r, tgt, w, 0)] for n, w, _ in md["ports"]]
    return d


def m_unnamed(r, d, s):
    mi = s[0]
    # no name at all, or the empty string as name
    d["mods"][mi]["name"] = None if r.random() < 0.6 else ""
    return d


def m_nameclash(r, d, s):
    mi = s[0]
    if len(d["mods"]) < 2:
        return None
    cands = [k for k in reachable(d) if k != mi]
    if not cands:
        return None
    mj = r.choice(cands)
    # both must be reachable from the top: make sure by only using the chain top -> ... (checked by the spec anyway)
    d["mods"][mi]["name"] = d["mods"][mj]["name"]
    return d


def m_array_width(r, d, s):
    mi, ii, ci = s
    md = d["mods"][mi]; x = md["insts"][ii]; c = x["conns"][ci]
    if x["n"] == 0 or not is_plain(c):
        return None
    w = conn_width(d, md, x, c)
    bad = [v for v in range(1, w * x["n"] + 2) if v not in (w, w * x["n"])]
    c[1] = expr_of_width(r, md, r.choice(bad))
    return d


def m_array_missing(r, d, s):
    mi, ii, ci = s
    md = d["mods"][mi]; x = md["insts"][ii]
    if x["n"] == 0:
        return None
    del x["conns"][ci]
    return d


def _set_decl_width(md, n, w):
    for row in md["ports"] + md["sigs"]:
        if row[0] == n:
            row[1] = w


def m_width_late(r, d, s):
    """HISTORY: the connection is made (and, half of the time, asked for its public attributes) while it has the port's width;
    THEN a Signal it holds whole is re-declared one bit wider / narrower (`sig.width = ...`).  The design handed to the entry
    points has a connection of the wrong width."""
    mi, ii, ci = s
    md = d["mods"][mi]; x = md["insts"][ii]; c = x["conns"][ci]
    if not is_plain(c):
        return None
    w = conn_width(d, md, x, c)
    if x["n"] > 0 and w * x["n"] in (w + 1, w - 1):
        return None
    if r.random() < 0.6:
        # a FLAT concatenation (whole Signals and unit-step slices of Signals, nothing nested) of fresh Signals
        k = r.randint(1, min(3, w))
        cuts = sorted(r.sample(range(1, w), k - 1))
        ws = [b - a for a, b in zip([0] + cuts, cuts + [w])]
        parts = []
        for j, pw in enumerate(ws):
            md["sigs"].append([f"h{j}", pw])
            parts.append(["sig", f"h{j}"])
        ones = [j for j, pw in enumerate(ws) if pw == 1]
        if len(parts) > 1 and ones and r.random() < 0.5:
            md["sigs"].append(["hs", 3])           # one of the one-bit parts is a unit slice of a Signal instead
            parts[r.choice(ones)] = ["sl", ["sig", "hs"], ["i", r.randint(0, 2)]]
        c[1] = ["cat", parts]
        names = [p[1] for p in parts if p[0] == "sig"]
        flat = True
    else:
        e = c[1]
        names = [e[1]] if e[0] == "sig" else [p[1] for p in e[1] if p[0] == "sig"] if e[0] == "cat" else []
        flat = e[0] == "cat" and all(p[0] == "sig" or (p[0] == "sl" and p[1][0] == "sig") for p in e[1])
    if not names:
        return None
    n = r.choice(names)
    w0 = D.sig_width(md, n)
    _set_decl_width(md, n, w0 + 1 if w0 == 1 or r.random() < 0.6 else w0 - 1)
    obs = r.random() < 0.7
    d["hist"] = dict(observe=obs, late=[[mi, n, w0]])
    tag(d, "observed" if obs else "unobserved")
    if flat and c[1][0] == "cat":
        tag(d, "flat-concat-observed" if obs else "flat-concat-unobserved")
    return d


def m_index_late(r, d, s):
    """HISTORY: a slice is taken (and asked for its width) while its index is in range; THEN the Signal is narrowed so that the
    index lies outside it.  The design handed to the entry points has an out-of-range index."""
    mi, ii, ci = s
    md = d["mods"][mi]; x = md["insts"][ii]; c = x["conns"][ci]
    if not is_plain(c):
        return None
    w = conn_width(d, md, x, c)
    sw = w + r.randint(1, 2)
    md["sigs"].append(["hz", sw])
    if w == 1:
        top = ["sl", ["sig", "hz"], ["i", r.choice([sw - 1, -sw])]]
    else:
        top = ["cat", [["sl", ["sig", "hz"], ["s", 0, w - 1, None]], ["sl", ["sig", "hz"], ["i", sw - 1]]]]
    c[1] = top
    md["sigs"][-1][1] = sw - r.randint(1, sw - w)          # narrower: index sw-1 (resp. -sw) no longer exists
    obs = r.random() < 0.7
    d["hist"] = dict(observe=obs, late=[[mi, "hz", sw]])
    tag(d, "observed" if obs else "unobserved")
    return d


def m_width_ref_array(r, d, s):
    """width through a port reference AND array broadcasting: a reference to a port (width w) of an Instance ARRAY that is wired
    to an n*w Signal stands for that Signal; alone or as a part of a concatenation it is (n-1)*w bits too wide for the port"""
    mi, ii, ci = s
    md = d["mods"][mi]; x = md["insts"][ii]; c = x["conns"][ci]
    if x["n"] > 0:
        return None
    W = conn_width(d, md, x, c)
    txt = json.dumps(md["insts"])
    arrs = [(y, k, cc[0], conn_width(d, md, y, cc)) for y in md["insts"] if y["n"] > 1 for k, cc in enumerate(y["conns"])
            if conn_width(d, md, y, cc) <= W and json.dumps(["ref", y["name"], cc[0]]) not in txt]
    if not arrs:
        return None
    y, k, q, w = r.choice(arrs)
    md["sigs"].append(["ha", w * y["n"]])
    y["conns"][k][1] = ["sig", "ha"]
    ref = ["ref", y["name"], q]
    if w == W:
        c[1] = ref
    else:
        rest = expr_of_width(r, md, W - w, 0)
        if rest is None:
            return None
        c[1] = ["cat", [ref, rest] if r.random() < 0.5 else [rest, ref]]
    obs = r.random() < 0.7
    d["hist"] = dict(observe=obs)
    tag(d, "observed" if obs else "unobserved")
    return d


MUTATORS = dict(width=m_width, width_ref=m_width_ref, missing=m_missing, extra=m_extra, badref=m_badref, index=m_index,
                empty=m_empty, orphan=m_orphan, orphan_inst=m_orphan_inst, foreignref=m_foreignref, nc_ref=m_nc_ref, cycle=m_cycle, unnamed=m_unnamed,
                nameclash=m_nameclash, array_width=m_array_width, array_missing=m_array_missing,
                width_late=m_width_late, index_late=m_index_late, width_ref_array=m_width_ref_array)

# coverage targets of the strengthening round: a class must have produced faulty mutants carrying each of these tags
REQUIRED_TAGS = dict(extra=["portless-target@top", "portless-target@deep"], badref=["ref-to-portless-target"],
                     width_late=["observed", "unobserved", "flat-concat-observed"], index_late=["observed", "unobserved"],
                     width_ref_array=["observed"])


def gen_mutants(seed, bases, per_class):
    """the single-fault mutants of the core base designs (also used by harness/vp/c02e.py and c02f.py)"""
    muts, meta = [], []
    for cls, m in _corpus():
        muts.append(m); meta.append(dict(cls=cls, base=-1, top=True, site_kind="corpus", tags=["corpus"]))
    for k, base in enumerate(bases):
        reach = reachable(base)
        ss = [s for s in sites(base) if s[0] in reach]      # faults in unreachable modules are not faults of the design
        if not ss:
            continue
        deep = [s for s in ss if s[0] != base["top"]]
        iss = [s for s in inst_sites(base) if s[0] in reach]
        for cls, f in MUTATORS.items():
            if cls in ("width_late", "index_late") and k % 2:
                continue                 # the two late-edit classes: every second base design (wall time of the quick tier)
            for j in range(per_class):
                rr = core.rng(seed, "C02", cls, k * 16 + j)
                if cls == "extra":
                    # a connection can be ADDED to any instance: also to one that has none because its target has no port
                    pl = [s for s in iss if not D.target_ports(base, base["mods"][s[0]]["insts"][s[1]]["of"])]
                    pool = pl if pl and rr.random() < 0.5 else iss
                    dp = [s for s in pool if s[0] != base["top"]]
                    site = rr.choice(dp) if dp and rr.random() < 0.5 else rr.choice(pool)
                else:
                    site = rr.choice(deep) if deep and rr.random() < 0.5 else rr.choice(ss)
                b = copy.deepcopy(base)
                b.pop("hist", None)
                m = f(rr, b, site)
                if m is not None:
                    tags = m.pop("_tags", [])
                    if "hist" not in m and rr.random() < 0.3:
                        m["hist"] = dict(observe=True)         # every class: asking the parts for their public attributes changes nothing
                        tags.append("observed")
                    muts.append(m); meta.append(dict(cls=cls, base=k, top=site[0] == base["top"], site_kind=site_kind(base, site), tags=tags))
    return muts, meta


def reachable(d):
    seen, todo = set(), [d["top"]]
    while todo:
        k = todo.pop()
        if k in seen:
            continue
        seen.add(k)
        for x in d["mods"][k]["insts"]:
            if x["of"][0] == "mod":
                todo.append(x["of"][1])
    return seen


def _accepted_by(o):
    return [k for k, v in o.items() if v[0] == "accepted"]


def _mutant_stream(run, name, kind, muts, meta, mutators, printer, chk, classes, replay, required_tags=None):
    """Run the implementation on every mutant, evaluate the specification in Coq, report."""
    outs = core.run_worker_sharded("c02", [dict(design=m, kind=kind, entry=ENTRY) for m in muts])
    accepted = [bool(_accepted_by(o)) for o in outs]
    ctype = "design * bool" if kind == "design" else "bdesign * bool"
    cases = [f"({printer(m)}, {core.cbool(a)})" for m, a in zip(muts, accepted)]
    fid = name.replace("-", "_")
    fc = "fault_class" if kind == "design" else "fault_class_b"
    pairs = dict(core.coq_eval_cases("C02", fid, IMPORTS, ctype, cases, f"both {chk} {fc}", chunk=60))
    code = {i: v // 1000 for i, v in pairs.items()}
    cls_codes = {i: v % 1000 % 500 for i, v in pairs.items()}
    n_tied = sum(1 for v in pairs.values() if v % 1000 >= 500)
    per = {}
    for i, mt in enumerate(meta):
        e = per.setdefault(mt["cls"], dict(mutants=0, not_faulty_by_spec=0, accepted_by_impl=0, top=0, deep=0,
                                           spec_error_codes={}, site_kinds={}, tags={}))
        if code.get(i) == 9:
            e["not_faulty_by_spec"] += 1
            continue
        e["mutants"] += 1
        e["top" if mt.get("top") else "deep"] += 1
        sk = mt.get("site_kind", "?")
        e["site_kinds"][sk] = e["site_kinds"].get(sk, 0) + 1
        for tg in mt.get("tags", []):
            e["tags"][tg] = e["tags"].get(tg, 0) + 1
        ec = str(cls_codes.get(i, 0))
        e["spec_error_codes"][ec] = e["spec_error_codes"].get(ec, 0) + 1
        if code.get(i) == 1:
            e["accepted_by_impl"] += 1
    faulty = [i for i in range(len(muts)) if code.get(i) != 9]
    run.stream(name, len(faulty), len({json.dumps(muts[i], sort_keys=True) for i in faulty}),
               per_class=per, dropped_not_faulty=len(muts) - len(faulty), model_tied_cases=n_tied,
               model_disagrees=sum(1 for c in code.values() if c == 2),
               histories=dict(observed_before_the_call=sum(1 for i in faulty if (muts[i].get("hist") or {}).get("observe")),
                              widths_edited_after_connecting=sum(1 for i in faulty if (muts[i].get("hist") or {}).get("late"))),
               rule="every counted mutant is faulty by the specification (Spec/WfDesign.v resp. Spec/C02BundleWf.v, evaluated "
                    "in Coq); distinct by mutant design; one class per fault kind of the statement; top/deep = fault planted "
                    "in the top module / below it; site_kinds = kind of connection the fault sits on")
    for cls in mutators:                      # fail closed: every fault class must really have been exercised
        if replay is None and per.get(cls, {}).get("mutants", 0) == 0:
            run.violation(f"C02:coverage:{cls}", f"no faulty mutant of class {cls} was generated", dict(kind="coverage"), found_input=False)
        elif replay is None and tier_deep_required(cls) and per[cls]["deep"] == 0:
            run.violation(f"C02:coverage-deep:{cls}", f"class {cls} was never planted below the top module", dict(kind="coverage"), found_input=False)
        for tg in (required_tags or {}).get(cls, []) if replay is None else []:
            if per.get(cls, {}).get("tags", {}).get(tg, 0) == 0:
                run.violation(f"C02:coverage-tag:{cls}:{tg}", f"class {cls}: no faulty mutant of the kind `{tg}` was generated", dict(kind="coverage"), found_input=False)
    v2 = sorted([i for i in range(len(muts)) if code.get(i) == 2], key=lambda i: len(json.dumps(muts[i])))
    if v2:
        i = v2[0]
        run.violation("C02:tie:" + json.dumps(muts[i], sort_keys=True), "Model/C02Checks.v and the implementation disagree on acceptance",
                      dict(kind="model-vs-impl", cls=meta[i]["cls"], stream=name, case=muts[i], impl=outs[i], count=len(v2)),
                      found_input=any(c == 1 for c in code.values()))
    v1 = sorted([i for i in faulty if code.get(i) == 1], key=lambda i: len(json.dumps(muts[i])))
    seen_cls = set()
    for i in v1:
        cls = meta[i]["cls"]
        if cls in seen_cls:
            continue
        seen_cls.add(cls)
        who = _accepted_by(outs[i])
        if cls == "nameclash" and who == ["elaborate"]:
            # one finding for the call site, whatever the design: elaborate() alone never looks at export names
            run.violation("C02:nameclash:elaborate-accepts", "elaborate() accepts a design whose only fault is a module-name clash",
                          dict(kind="impl-violates-spec", cls=cls, case=muts[i], impl=outs[i], accepted_by=who))
            seen_cls.discard(cls)
            if any(meta[j]["cls"] == cls and _accepted_by(outs[j]) != ["elaborate"] for j in v1):
                continue
            seen_cls.add(cls)
            continue
        run.violation(f"C02:{cls}:" + json.dumps(muts[i], sort_keys=True), f"faulty design (class {cls}) accepted by {who}",
                      dict(kind="impl-violates-spec", cls=cls, stream=name, case=muts[i], impl=outs[i], accepted_by=who,
                           failing_cases_of_class=sum(1 for j in v1 if meta[j]["cls"] == cls)))
    if muts:
        run.sample(dict(stream=name, cls=meta[0]["cls"], mutant=muts[0], impl=outs[0]))
    return len(faulty)


def tier_deep_required(cls):
    return cls not in ("unnamed", "nameclash", "cycle")      # module-level classes have no top/deep site


# pinned-tree witnesses and past failures (DESIGN.md section 7 item 8 and the two defects repaired by fixes/C02-1, C02-2)
def _corpus_b():
    bundles = [dict(name="Diff", sigs=[["p", 1], ["n", 1]]), dict(name="B1", sigs=[["x", 2], ["y", 1]])]
    leaf = dict(name="Inner", ports=[], bports=[["bp", 1]], sigs=[["t", 1]], binsts=[],
                insts=[dict(name="r0", n=0, pair=False, of=["prim", "R", 1], conns=[["p", ["x", ["bref", "bp", "y"]]], ["n", ["x", ["sig", "t"]]]])])
    ls = dict(name="Leaf", ports=[["a", 1], ["v", 1]], bports=[], sigs=[], binsts=[],
              insts=[dict(name="r0", n=0, pair=False, of=["prim", "R", 1], conns=[["p", ["x", ["sig", "a"]]], ["n", ["x", ["sig", "v"]]]])])

    def top(conn, of=0, pair=False, port="bp", more=()):
        t = dict(name="Top", ports=[], bports=[], sigs=[["a", 2], ["c", 1], ["w3", 3]], binsts=[["d", 0]],
                 insts=[dict(name="i0", n=0, pair=pair, of=["mod", of], conns=[[port, conn]] + list(more))])
        return dict(bundles=copy.deepcopy(bundles), mods=[copy.deepcopy(leaf), copy.deepcopy(ls), t], top=2)
    sig = lambda n: ["sig", n]
    return [
        ("b_anon_width", top(["anon", [["x", sig("w3")], ["y", sig("c")]]])),                    # pinned: exported
        ("b_anon_extra", top(["anon", [["x", sig("a")], ["y", sig("c")], ["z", sig("c")]]])),    # fixes/C02-1
        ("b_anon_extra", top(["anon", [["p", sig("c")], ["n", ["sl", sig("a"), ["i", 0]]], ["q", sig("c")]]], of=1, pair=True,
                             port="a", more=[["v", ["x", sig("c")]]])),                            # fixes/C02-2
    ]


def _corpus():
    """DESIGN.md section 7 item 8: `2 * Two(a=s)` with b unconnected; an out-of-range index."""
    two = dict(name="Two", ports=[["a", 1, "none"], ["b", 1, "none"]], sigs=[],
               insts=[dict(name="r0", n=0, of=["prim", "R", 1], conns=[["p", ["sig", "a"]], ["n", ["sig", "b"]]])])
    arr = dict(name="Top", ports=[], sigs=[["s", 4]], insts=[dict(name="i0", n=2, of=["mod", 0], conns=[["a", ["sl", ["sig", "s"], ["i", 0]]]])])
    oor = dict(name="Top", ports=[], sigs=[["s", 4]],
               insts=[dict(name="i0", n=0, of=["mod", 0], conns=[["a", ["sl", ["sig", "s"], ["i", 4]]], ["b", ["sl", ["sig", "s"], ["i", -5]]]])])
    # strengthening round (notes/C02.md): the witness of fixes/C02-3 - `sl = s[3]; sl.width; s.width = 2; Leaf(p=sl)` was exported with
    # bit s_3 of a two-bit bus - and the three shapes the quick tier had been blind to
    leaf = dict(name="Leaf", ports=[["p", 1, "in"]], sigs=[["q", 1]],
                insts=[dict(name="r0", n=0, of=["prim", "R", 1], conns=[["p", ["sig", "p"]], ["n", ["sig", "q"]]])])
    late_ix = dict(mods=[leaf, dict(name="Top", ports=[], sigs=[["s", 2]], insts=[dict(name="i0", n=0, of=["mod", 0], conns=[["p", ["sl", ["sig", "s"], ["i", 3]]]])])],
                   exts=[], top=1, hist=dict(observe=True, late=[[1, "s", 4]]))
    bench = dict(name="Bench", ports=[], sigs=[["a", 1], ["b", 1]],
                 insts=[dict(name="r0", n=0, of=["prim", "R", 1], conns=[["p", ["sig", "a"]], ["n", ["sig", "b"]]])])
    extra_pl = dict(mods=[bench, dict(name="Top", ports=[], sigs=[["s", 2]], insts=[dict(name="i0", n=0, of=["mod", 0], conns=[["nonesuch", ["sl", ["sig", "s"], ["i", 0]]]])])],
                    exts=[], top=1)
    leaf2 = copy.deepcopy(leaf); leaf2["ports"] = [["p", 2, "in"]]; leaf2["insts"][0]["conns"][0][1] = ["sl", ["sig", "p"], ["i", 0]]
    late_w = dict(mods=[leaf2, dict(name="Top", ports=[], sigs=[["a", 2], ["b", 1]], insts=[dict(name="i0", n=0, of=["mod", 0], conns=[["p", ["cat", [["sig", "a"], ["sig", "b"]]]]])])],
                  exts=[], top=1, hist=dict(observe=True, late=[[1, "a", 1]]))
    return [("array_missing", dict(mods=[two, arr], exts=[], top=1)), ("index", dict(mods=[copy.deepcopy(two), oor], exts=[], top=1)),
            ("index_late", late_ix), ("extra", extra_pl), ("width_late", late_w)]


def run(run, tier, seed, replay=None):
    quick = tier == "quick"
    nbase = 120 if quick else 500
    nbbase = 70 if quick else 300
    per_class = 1 if quick else 2
    if replay is not None:
        kind = "bdesign" if replay.get("stream") == "bundle-mutants" else "design"
        meta = [dict(cls=replay.get("cls", "?"), top=True)]
        if kind == "design":
            _mutant_stream(run, "single-fault-mutants", "design", [replay["case"]], meta, MUTATORS, c_design, "chk_c02", "classes", replay)
        else:
            _mutant_stream(run, "bundle-mutants", "bdesign", [replay["case"]], meta, B.MUTATORS, B.c_bdesign, "chk_c02b", "classes_b", replay)
        return
    # ---- stream 1: the valid base designs themselves (the implementation must accept what the specification accepts)
    bases = [None] * nbase
    for k in range(nbase):
        r = core.rng(seed, "C02", "base", k)
        simple = k % 3 == 0            # every third base design lies in the fragment Model/C02Checks.v is tied on
        bases[k] = with_portless(core.rng(seed, "C02", "portless", k), D.gen_design(r, size=r.choice([1, 2, 2, 3]), refs=not simple, ncs=not simple))
        if k % 4 == 1:
            bases[k]["hist"] = dict(observe=True)       # a valid design stays valid when its parts are asked for their public attributes
    bbases = [B.gen_bdesign(core.rng(seed, "C02", "bbase", k)) for k in range(nbbase)]
    for k, b in enumerate(bbases):
        if k % 4 == 1:
            b["hist"] = dict(observe=True)
    o1 = core.run_worker_sharded("c02", [dict(design=m, entry=ENTRY) for m in bases])
    o2 = core.run_worker_sharded("c02", [dict(design=m, kind="bdesign", entry=ENTRY) for m in bbases])
    # netlisting refuses physical primitives (Mos, Bipolar, Diode, ...) by design: only designs built from ideal
    # elements and external modules have to be netlistable; every valid design has to elaborate and export
    def need(m):
        ideal = all(x["of"][0] != "prim" or x["of"][1] in ("R", "C") for k in reachable(m) for x in m["mods"][k]["insts"])
        return 3 if ideal else 2
    n_netlistable = sum(1 for m in bases if need(m) == 3)
    c1 = [f"({c_design(m)}, {core.cbool(len([w for w in _accepted_by(o) if w != 'netlist' or need(m) == 3]) == need(m))})" for m, o in zip(bases, o1)]
    c2 = [f"({B.c_bdesign(m)}, {core.cbool(len(_accepted_by(o)) == 3)})" for m, o in zip(bbases, o2)]
    bad1 = core.coq_eval_cases("C02", "base", IMPORTS, "design * bool", c1, "run_cases chk_base", chunk=60)
    bad2 = core.coq_eval_cases("C02", "bbase", IMPORTS, "bdesign * bool", c2, "run_cases chk_base_b", chunk=60)
    feats = {}
    for m in bases:
        for f, v in D.features(m).items():
            feats[f] = feats.get(f, 0) + int(v)
    run.stream("valid-base-designs", len(bases) + len(bbases),
               len({json.dumps(m, sort_keys=True) for m in bases}) + len({json.dumps(m, sort_keys=True) for m in bbases}),
               core_designs=len(bases), bundle_designs=len(bbases), core_designs_netlistable=n_netlistable, rejected_by_impl=sum(1 for _, c in bad1 + bad2 if c == 10),
               invalid_by_spec=sum(1 for _, c in bad1 + bad2 if c == 11), model_disagrees=sum(1 for _, c in bad1 if c == 2),
               core_designs_in_model_fragment=sum(1 for k in range(nbase) if k % 3 == 0), features_core=feats,
               core_designs_with_portless_instances=sum(1 for m in bases if any(not D.target_ports(m, x["of"]) for md in m["mods"] for x in md["insts"])),
               observed_before_the_call=sum(1 for m in bases + bbases if (m.get("hist") or {}).get("observe")),
               rule="a generated design counts when the specification (evaluated in Coq) calls it valid; it is non-trivial when it has at "
                    "least one instance connection (all do); each must be accepted by elaborate, to_proto and netlist")
    for lst, ds, outs, nm in ((bad1, bases, o1, "core"), (bad2, bbases, o2, "bundle")):
        lst = sorted(lst, key=lambda ic: len(json.dumps(ds[ic[0]])))
        for i, c in lst[:1]:
            what = {10: "a design that is valid by the specification is rejected by the implementation",
                    11: "the generator of valid designs produced a design the specification calls faulty",
                    2: "Model/C02Checks.v rejects a valid design that the implementation accepts"}[c]
            run.violation(f"C02:base-{nm}-{c}:" + json.dumps(ds[i], sort_keys=True), what,
                          dict(kind="spec-vs-impl-on-valid-design", case=ds[i], impl=outs[i], code=c, count=len(lst)), found_input=False)
    # ---- stream 2: single-fault mutants of the core designs
    muts, meta = gen_mutants(seed, bases, per_class)
    n1 = _mutant_stream(run, "single-fault-mutants", "design", muts, meta, MUTATORS, c_design, "chk_c02", "classes", None, REQUIRED_TAGS)
    # ---- stream 3: single-fault mutants of the bundle designs
    muts, meta = [], []
    for cls, m in _corpus_b():
        muts.append(m); meta.append(dict(cls=cls, base=-1, top=True, site_kind="corpus"))
    for k, base in enumerate(bbases):
        ss = B.sites(base)
        deep = [s for s in ss if s[0] != base["top"]]
        for cls, f in B.MUTATORS.items():
            for j in range(per_class + 1):
                rr = core.rng(seed, "C02", cls, k * 16 + j)
                m = None
                pl = B.portless_inst_sites(base) if cls == "b_extra" else []
                for attempt in range(6):                    # many classes apply to few sites: look for one
                    site = rr.choice(pl) if pl and rr.random() < 0.6 else rr.choice(deep) if deep and rr.random() < 0.5 else rr.choice(ss)
                    b = copy.deepcopy(base)
                    b.pop("hist", None)
                    m = f(rr, b, site)
                    if m is not None:
                        break
                if m is not None:
                    tags = m.pop("_tags", [])
                    if rr.random() < 0.3:
                        m["hist"] = dict(observe=True)
                        tags.append("observed")
                    muts.append(m); meta.append(dict(cls=cls, base=k, top=site[0] == base["top"], site_kind=B.site_kind(base, site), tags=tags))
    n2 = _mutant_stream(run, "bundle-mutants", "bdesign", muts, meta, B.MUTATORS, B.c_bdesign, "chk_c02b", "classes_b", None,
                        dict(b_extra=["portless-target"]))
    run.coverage["traces_validated_against_impl"] = n1 + n2 + len(bases) + len(bbases)
    # C02E: the checked pipeline model (coq Model/C02EPipeline.v) against the implementation on the core designs and mutants
    from . import c02e
    c02e.run_tie(run, tier, seed, bases, per_class)
    # C02F: the checked pipeline with nested references (coq Model/C02FPipeline.v) and with bundles (Model/C02FBundles.v) against the implementation
    from . import c02f
    c02f.run_tie(run, tier, seed, bases, per_class)
