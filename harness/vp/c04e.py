"""C04E — tie of the bridge books -> design (coq Model/C04EBridge.v) + pipeline model (Model/C01FElab.v) to the
implementation, per operation history of the C04 streams (Corr/C04E.v).

Called from the END of harness/vp/c04.py:run() with the histories of all C04 streams and what the implementation did
with them.  For every exported history Coq computes FROM THE OPERATIONS the final mapping (Spec/C04LastWrite.v:final), the
model state `run ops`, the design `design_of u (final . ops)` over the universe printed here (what the integers of the
history stand for: instances, port lanes, signals, what every pool object is), decides whether the history is inside the
hypotheses of Props/C04E.v (u_ok, shape_ok, closed_ok, wf_design, frag_ok2, xinfo_ok) and compares the pipeline model's
package with the package the implementation exported after performing the history.
Codes (Corr/C04E.v): 0 identical, 7 same nets (differences the property does not fix), 9 outside the fragment, 8 loop between
group sources, 1/6 implementation violates the property, 2 tie broken, 4/5 checker inconsistency, 3 harness.
The universe is NOT taken from the abstract design harness/vp/c04.py builds in Python for its own end-to-end check: the
connections come from `final` inside Coq; only the static tables (leaf module, names, widths, pool recipes) and the
terminal lists are printed here.
"""
import json, copy
from . import core, design as D, c04, c01e
from .core import cz, cstr, clist

IMPORTS = ("Require Import Hdl21.Base.PyInt Hdl21.Spec.PySlice Hdl21.Model.Slice Hdl21.Model.Resolve Hdl21.Base.Design "
           "Hdl21.Spec.Nets Hdl21.Spec.WfDesign Hdl21.Base.Package Hdl21.Corr.C03 Hdl21.Corr.C01 Hdl21.Model.C01EElab "
           "Hdl21.Corr.C01E Hdl21.Model.C04ConnOps Hdl21.Spec.C04LastWrite Hdl21.Model.C04EBridge Hdl21.Corr.C04E.")

LANES = {c04.A: [("a", c04.W)], c04.Bp: [("b", c04.W)], c04.BP: [("bp_x", 1), ("bp_y", 1)]}
NC_STRIDE = 16            # Model/C04EBridge.v:nc_site
FRAG_KINDS = ["sig", "slice", "concat", "ref", "noconn"]


def replay_mirror(job):
    mir = c04.Mirror()
    for op in job["ops"]:
        mir.apply(op)
    return mir


def lanes_of(kind, oid, recipe, dicts):
    """member-wise lowering of a pool object: one connection expression per lane"""
    if kind in ("sig", "slice", "concat"):
        return [c04.cexpr(recipe)]
    if kind == "bundle":
        return [["sig", f"{recipe[1]}_x"], ["sig", f"{recipe[1]}_y"]]
    if kind == "anon":
        return [c04.flat_member(recipe[1]["x"]), c04.flat_member(recipe[1]["y"])]
    return None


def c_universe(job, mir):
    design = job["design"]
    kinds = job["kinds"]
    top = design["mods"][1]
    tp = D.ModPrinter(design, top)
    objs = []
    for oid, (kind, recipe) in sorted(c04.POOL.items()):
        ls = lanes_of(kind, oid, recipe, None)
        if ls is None:
            continue
        if any(t[0] >= len(kinds) or kinds[t[0]] != 0 for t in c04.PREFS_IN.get(oid, [])):
            continue                       # a slice / concat of references to an instance this world does not have
        objs.append((c04.c_conn(("obj", kind, oid)), [tp.expr(e, 1) for e in ls]))
    for newid, dictid in sorted(mir.dicts.items()):
        mem = c04.DICTS[dictid]
        objs.append((c04.c_conn(("obj", "anon", newid)), [tp.expr(c04.flat_member(mem["x"]), 1), tp.expr(c04.flat_member(mem["y"]), 1)]))
    insts = []
    for i, n in enumerate(kinds):
        if n in (-1, -3):
            continue                       # the template of `n * Instance` is not part of the module
        if n == 0:
            for p in (c04.A, c04.Bp, c04.BP):
                for ln, _ in LANES[p]:
                    tp.leaf_id(("r", f"i{i}", ln), f"LRef {cstr(f'i{i}')} {cstr(ln)}")
        slots = []
        for p in (c04.A, c04.Bp, c04.BP):
            for k, (ln, w) in enumerate(LANES[p]):
                slots.append(f"{{| us_port := {cz(p)}; us_lane := {k}%nat; us_name := {cstr(ln)}; us_w := {cz(w)} |}}")
        insts.append(f"{{| ui_id := {cz(i)}; ui_name := {cstr(f'i{i}')}; ui_n := {cz(c04.arr_n(n))}; ui_of := TMod 0%nat; "
                     f"ui_slots := {clist(slots)} |}}")
    for oid in c04.BY_KIND["noconn"]:
        for k in (0, 1):
            site = oid * NC_STRIDE + k
            tp.leaf_id(("n", site), f"LNc {site}%N")
    leaves = clist(sorted(tp.leaves.values()), lambda l: f"({l[0]}%N, {l[1]})")
    pw = lambda p: f"({cstr(p[0])}, {cz(p[1])})"
    lib = D.ModPrinter(design, design["mods"][0]).module()
    # BundleFlattener takes the bundle instances with popitem(): the one added last is flattened first (only the ORDER of the
    # parent's signals depends on it - information for the syntactic comparison, nothing else reads it)
    plain = [s for s in top["sigs"] if not s[0].startswith("bi")]
    flat = [s for s in top["sigs"] if s[0].startswith("bi")]
    pairs = [flat[k:k + 2] for k in range(0, len(flat), 2)][::-1]
    sigs = plain + [s for pr in pairs for s in pr]
    return (f"{{| u_lib := [{lib}]; u_name := {cstr(top['name'])}; u_ports := {clist(top['ports'], pw)}; "
            f"u_sigs := {clist(sigs, pw)};\n   u_insts := {clist(insts)};\n   u_leaves := {leaves};\n"
            f"   u_objs := {clist(objs, lambda o: f'({o[0]}, {clist(o[1])})')} |}}")


def resited(design):
    """the abstract design of harness/vp/c04.py with the no-connect sites numbered as Model/C04EBridge.v:nc_site numbers them
    and the names of named no-connects on single-lane ports (only xinfo reads it: x_ncnames)"""
    d = copy.deepcopy(design)
    for x in d["mods"][1]["insts"]:
        for c in x["conns"]:
            e = c[1]
            if e[0] == "nc":
                oid, k = e[1] // 2, e[1] % 2
                name = c04.POOL[oid][1][1] if c[0] in ("a", "b") else None
                c[1] = ["nc", oid * NC_STRIDE + k, name]
    return d


def c_case(job, out):
    design = job["design"]
    mir = replay_mirror(job)
    spec_t, pkg_t = D.terminals(design)
    if out["pkg"] is None:
        pk = "None"
    else:
        pk = f"(Some {D.c_pkg(c01e.strip_qual(out['pkg'], design))})"
    return (f"{{| e_u := {c_universe(job, mir)};\n  e_xi := {c01e.c_xinfo(resited(design))};\n"
            f"  e_ops := {clist(job['ops'], c04.c_op)};\n  e_pkg := {pk}; e_top := {cstr(design['mods'][design['top']]['name'])};\n"
            f"  e_terms := {clist(spec_t, D.c_node)}; e_pterms := {clist(pkg_t, D.c_node)} |}}")


def measure_pairs(job, out, pairs, replaced, replacing):
    """(replaced kind, replacing kind) pairs the implementation executed in this history"""
    prev = {}
    for op, st in zip(job["ops"], out["steps"]):
        cur = {(e[0], e[1]): tuple(e[2]) for e in st["obs"]["conns"]}
        if op[0] != "getref":
            for q, c in cur.items():
                if q in prev and c04.touches(op, q) and (st["acc"] or prev[q] != c):
                    a, b = c04.kind_of(prev[q]), c04.kind_of(c)
                    pairs[(a, b)] = pairs.get((a, b), 0) + 1
                    replaced[a] = replaced.get(a, 0) + 1
                    replacing[b] = replacing.get(b, 0) + 1
        prev = cur


WHAT = {1: "the implementation's package does not have the nets / leaf devices of the design of the final mapping (pipeline model has)",
        6: "the complete valid final mapping (inside the fragment of Props/C04E.v) was rejected by elaboration/export",
        2: "tie broken: the property holds on the implementation's package but the bridge + pipeline model rejects / differs",
        4: "checker inconsistency: state_design (run ops) differs from design_of (final), or the model's package contradicts its theorems",
        5: "checker inconsistency: C01E and C01F models disagree on a frag_ok design",
        3: "harness inconsistency (universe tables, terminal lists or xinfo do not fit the design of the final mapping)"}


def run_tie(run, tier, seed, results):
    quick = tier == "quick"
    items = []
    for name, jobs, outs, _ in results:
        pick = list(zip(jobs, outs))
        if quick and name == "small":
            pick = pick[::2]               # quick tier: every other history of the exhaustive stream (all of the others)
        for j, o in pick:
            if j.get("export"):
                items.append((name, j, o))
    if not quick:
        items = items[:2500]
    cases = [c_case(j, o) for _, j, o in items]
    res = dict(core.coq_eval_cases("C04", "bridge", IMPORTS, "c04e_case", cases,
                                   "run_cases (fun c => 100 + 10 * c04e_why c + chk_c04e c)", chunk=30, timeout=1500))
    n = len(items)
    code = {i: (res[i] - 100) % 10 for i in range(n)}
    why = {i: (res[i] - 100) // 10 for i in range(n)}
    count = lambda c: sum(1 for v in code.values() if v == c)
    inside = [i for i in range(n) if code[i] in (0, 7, 1, 6, 2)]
    equal = [i for i in range(n) if code[i] in (0, 7)]
    pairs, replaced, replacing = {}, {}, {}
    for i in equal:
        measure_pairs(items[i][1], items[i][2], pairs, replaced, replacing)
    per_stream = {}
    for i in range(n):
        s = per_stream.setdefault(items[i][0], dict(histories=0, inside=0))
        s["histories"] += 1
        s["inside"] += int(i in set(inside))
    nontrivial = len({c04.key_of(items[i][1]) for i in inside if c04.nontrivial(items[i][1])})
    run.stream("bridge", n, nontrivial,
               inside_fragment=len(inside), model_package_equal_nets=len(equal), syntactically_identical=count(0),
               same_nets_only=count(7), outside_fragment=count(9), outside_shape_ok=sum(1 for i in range(n) if code[i] == 9 and why[i] & 1),
               outside_closed_ok=sum(1 for i in range(n) if code[i] == 9 and why[i] & 2),
               outside_wf_design=sum(1 for i in range(n) if code[i] == 9 and why[i] & 4),
               loops_outside_frag_ok2=count(8), rejected_by_impl=sum(1 for _, _, o in items if o["pkg"] is None),
               per_stream=per_stream,
               kind_pairs_inside={f"{a}->{b}": k for (a, b), k in sorted(pairs.items())},
               rule="every exported history of the C04 streams (quick tier: every other one of `small`); non-trivial = inside the fragment and the history re-connects a port; distinct by (instance kinds, operations)",
               compared="final mapping, model state and design_of computed in Coq from the operations; hypotheses of Props/C04E.v; net labels and leaf "
                        "devices of the pipeline model's package for design_of(final) against the implementation's package; syntactic identity as information")
    run.coverage["bridge_inside_fraction"] = round(len(inside) / max(n, 1), 4)
    # ---- failures
    by_code = {}
    for i in range(n):
        if code[i] in WHAT:
            by_code.setdefault(code[i], []).append((len(items[i][1]["ops"]), i))
    for c, lst in sorted(by_code.items()):
        lst.sort()
        _, i = lst[0]
        name, job, out = items[i]
        if c in (1, 6):
            run.violation("C04:history:" + c04.key_of(job), f"{WHAT[c]}: {json.dumps(out.get('err'))}",
                          dict(kind="impl-violates-spec", stream="bridge/" + name, code=c,
                               case=dict(kinds=job["kinds"], ops=job["user_ops"], export=True), expanded_ops=job["ops"],
                               impl=dict(pkg=out["pkg"], err=out.get("err")), failing_cases=len(lst), reproducer=c04.py_repro(job)))
        else:
            run.violation(f"C04:bridge-{'tie' if c == 2 else 'checker' if c in (4, 5) else 'harness'}:" + c04.key_of(job), WHAT[c],
                          dict(kind="tie-broken" if c == 2 else "harness-inconsistency", stream="bridge/" + name, code=c,
                               case=dict(kinds=job["kinds"], ops=job["user_ops"], export=True), failing_cases=len(lst)),
                          found_input=False)
    # ---- coverage targets (fail closed)
    if len(inside) * 10 < 3 * n:
        run.violation("C04:coverage:bridge", f"coverage target missed: only {len(inside)} of {n} exported histories inside the fragment of Props/C04E.v",
                      dict(kind="coverage", inside=len(inside), histories=n), found_input=False)
    miss = [k for k in FRAG_KINDS if replaced.get(k, 0) == 0] + [k + " (as replacing)" for k in FRAG_KINDS if replacing.get(k, 0) == 0]
    if miss:
        run.violation("C04:coverage:bridge-kinds", f"coverage target missed: kinds never replaced / replacing inside the fragment: {miss}",
                      dict(kind="coverage", missing=miss), found_input=False)
    if inside:
        j = items[inside[len(inside) // 2]][1]
        run.sample(dict(stream="bridge", kinds=j["kinds"], ops=j["user_ops"]))
