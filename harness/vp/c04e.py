"""C04E — tie of the bridge books -> design (coq Model/C04EBridge.v) + pipeline model (Model/C01FElab.v) to the
implementation, per operation history of the C04 streams (Corr/C04E.v).

Called from the END of harness/vp/c04.py:run() with the histories of all C04 streams and what the implementation did
with them.  For every exported history Coq computes FROM THE OPERATIONS the final mapping (Spec/C04LastWrite.v:final), the
model state `run ops`, the design `design_of u (final . ops)` over the universe printed here (what the integers of the
history stand for: instances, port lanes, signals, what every pool object is), decides whether the history is inside the
hypotheses of Props/C04E.v (u_ok, shape_ok, wf_design, frag_ok2, xinfo_ok; closed_mod_ok: no connection of a module instance on a name
that is no port) and compares the pipeline model's package for the design IN THE ORDER OF THE `conns` DICTS (Model/C04EOrd.v) with the
package the implementation exported after performing the history.
A second stream, `anonrefs` (below), runs histories of an extended world through the ordinary C04 evaluation.
Codes (Corr/C04E.v): 0 identical, 7 same nets (differences the property does not fix), 9 outside the fragment, 8 loop between
group sources, 1/6 implementation violates the property, 2 tie broken, 4/5 checker inconsistency, 3 harness.
The universe is NOT taken from the abstract design harness/vp/c04.py builds in Python for its own end-to-end check: the
connections come from `final` inside Coq; only the static tables (leaf module, names, widths, pool recipes) and the
terminal lists are printed here.
"""
import json, copy
from . import core, design as D, c04, c01e
from .core import cz, cstr, clist

IMPORTS = ("Require Import Hdl21.Base.PyInt Hdl21.Spec.PySlice Hdl21.Model.Slice Hdl21.Model.Resolve Hdl21.Base.Design "
           "Hdl21.Spec.Nets Hdl21.Spec.WfDesign Hdl21.Base.Package Hdl21.Corr.C03 Hdl21.Corr.C01 Hdl21.Model.C01EElab "
           "Hdl21.Corr.C01E Hdl21.Model.C04ConnOps Hdl21.Spec.C04LastWrite Hdl21.Model.C04EBridge Hdl21.Corr.C04E.")

LANES = {c04.A: [("a", c04.W)], c04.Bp: [("b", c04.W)], c04.BP: [("bp_x", 1), ("bp_y", 1)]}
NC_STRIDE = 16            # Model/C04EBridge.v:nc_site
FRAG_KINDS = ["sig", "slice", "concat", "ref", "noconn"]


def replay_mirror(job):
    mir = c04.Mirror()
    for op in job["ops"]:
        mir.apply(op)
    return mir


def lanes_of(kind, oid, recipe, dicts):
    """member-wise lowering of a pool object: one connection expression per lane"""
    if kind in ("sig", "slice", "concat"):
        return [c04.cexpr(recipe)]
    if kind == "bundle":
        return [["sig", f"{recipe[1]}_x"], ["sig", f"{recipe[1]}_y"]]
    if kind == "anon":
        return [c04.flat_member(recipe[1]["x"]), c04.flat_member(recipe[1]["y"])]
    return None


def c_universe(job, mir):
    design = job["design"]
    kinds = job["kinds"]
    top = design["mods"][1]
    tp = D.ModPrinter(design, top)
    objs = []
    for oid, (kind, recipe) in sorted(c04.POOL.items()):
        ls = lanes_of(kind, oid, recipe, None)
        if ls is None:
            continue
        if any(t[0] >= len(kinds) or kinds[t[0]] != 0 for t in c04.PREFS_IN.get(oid, [])):
            continue                       # a slice / concat of references to an instance this world does not have
        objs.append((c04.c_conn(("obj", kind, oid)), [tp.expr(e, 1) for e in ls]))
    for newid, dictid in sorted(mir.dicts.items()):
        mem = c04.DICTS[dictid]
        objs.append((c04.c_conn(("obj", "anon", newid)), [tp.expr(c04.flat_member(mem["x"]), 1), tp.expr(c04.flat_member(mem["y"]), 1)]))
    insts = []
    for i, n in enumerate(kinds):
        if n in (-1, -3):
            continue                       # the template of `n * Instance` is not part of the module
        if n == 0:
            for p in (c04.A, c04.Bp, c04.BP):
                for ln, _ in LANES[p]:
                    tp.leaf_id(("r", f"i{i}", ln), f"LRef {cstr(f'i{i}')} {cstr(ln)}")
        slots = []
        for p in (c04.A, c04.Bp, c04.BP):
            for k, (ln, w) in enumerate(LANES[p]):
                slots.append(f"{{| us_port := {cz(p)}; us_lane := {k}%nat; us_name := {cstr(ln)}; us_w := {cz(w)} |}}")
        insts.append(f"{{| ui_id := {cz(i)}; ui_name := {cstr(f'i{i}')}; ui_n := {cz(c04.arr_n(n))}; ui_of := TMod 0%nat; "
                     f"ui_slots := {clist(slots)} |}}")
    for oid in c04.BY_KIND["noconn"]:
        for k in (0, 1):
            site = oid * NC_STRIDE + k
            tp.leaf_id(("n", site), f"LNc {site}%N")
    leaves = clist(sorted(tp.leaves.values()), lambda l: f"({l[0]}%N, {l[1]})")
    pw = lambda p: f"({cstr(p[0])}, {cz(p[1])})"
    lib = D.ModPrinter(design, design["mods"][0]).module()
    # BundleFlattener takes the bundle instances with popitem(): the one added last is flattened first (only the ORDER of the
    # parent's signals depends on it - information for the syntactic comparison, nothing else reads it)
    plain = [s for s in top["sigs"] if not s[0].startswith("bi")]
    flat = [s for s in top["sigs"] if s[0].startswith("bi")]
    pairs = [flat[k:k + 2] for k in range(0, len(flat), 2)][::-1]
    sigs = plain + [s for pr in pairs for s in pr]
    return (f"{{| u_lib := [{lib}]; u_name := {cstr(top['name'])}; u_ports := {clist(top['ports'], pw)}; "
            f"u_sigs := {clist(sigs, pw)};\n   u_insts := {clist(insts)};\n   u_leaves := {leaves};\n"
            f"   u_objs := {clist(objs, lambda o: f'({o[0]}, {clist(o[1])})')} |}}")


def resited(design):
    """the abstract design of harness/vp/c04.py with the no-connect sites numbered as Model/C04EBridge.v:nc_site numbers them
    and the names of named no-connects on single-lane ports (only xinfo reads it: x_ncnames)"""
    d = copy.deepcopy(design)
    for x in d["mods"][1]["insts"]:
        for c in x["conns"]:
            e = c[1]
            if e[0] == "nc":
                oid, k = e[1] // 2, e[1] % 2
                name = c04.POOL[oid][1][1] if c[0] in ("a", "b") else None
                c[1] = ["nc", oid * NC_STRIDE + k, name]
    return d


def c_case(job, out):
    design = job["design"]
    mir = replay_mirror(job)
    spec_t, pkg_t = D.terminals(design)
    if out["pkg"] is None:
        pk = "None"
    else:
        pk = f"(Some {D.c_pkg(c01e.strip_qual(out['pkg'], design))})"
    return (f"{{| e_u := {c_universe(job, mir)};\n  e_xi := {c01e.c_xinfo(resited(design))};\n"
            f"  e_ops := {clist(job['ops'], c04.c_op)};\n  e_pkg := {pk}; e_top := {cstr(design['mods'][design['top']]['name'])};\n"
            f"  e_terms := {clist(spec_t, D.c_node)}; e_pterms := {clist(pkg_t, D.c_node)} |}}")


def measure_pairs(job, out, pairs, replaced, replacing):
    """(replaced kind, replacing kind) pairs the implementation executed in this history"""
    prev = {}
    for op, st in zip(job["ops"], out["steps"]):
        cur = {(e[0], e[1]): tuple(e[2]) for e in st["obs"]["conns"]}
        if op[0] != "getref":
            for q, c in cur.items():
                if q in prev and c04.touches(op, q) and (st["acc"] or prev[q] != c):
                    a, b = c04.kind_of(prev[q]), c04.kind_of(c)
                    pairs[(a, b)] = pairs.get((a, b), 0) + 1
                    replaced[a] = replaced.get(a, 0) + 1
                    replacing[b] = replacing.get(b, 0) + 1
        prev = cur


WHAT = {1: "the implementation's package does not have the nets / leaf devices of the design of the final mapping (pipeline model has)",
        6: "the complete valid final mapping (inside the fragment of Props/C04E.v) was rejected by elaboration/export",
        2: "tie broken: the property holds on the implementation's package but the bridge + pipeline model rejects / differs",
        4: "checker inconsistency: state_design (run ops) differs from design_of (final), or the model's package contradicts its theorems",
        5: "checker inconsistency: C01E and C01F models disagree on a frag_ok design",
        3: "harness inconsistency (universe tables, terminal lists or xinfo do not fit the design of the final mapping)"}


def run_tie(run, tier, seed, results):
    quick = tier == "quick"
    run_anonrefs(run, tier, seed)
    items = []
    for name, jobs, outs, _ in results:
        pick = list(zip(jobs, outs))
        if quick and name == "small":
            pick = pick[::2]               # quick tier: every other history of the exhaustive stream (all of the others)
        for j, o in pick:
            if j.get("export"):
                items.append((name, j, o))
    if not quick and len(items) > 2500:        # thorough tier: the corpus and an even sample over the other streams
        rest = [x for x in items if x[0] != "corpus"]
        items = [x for x in items if x[0] == "corpus"] + rest[::-(-len(rest) // 2500)]
    cases = [c_case(j, o) for _, j, o in items]
    res = dict(core.coq_eval_cases("C04", "bridge", IMPORTS, "c04e_case", cases,
                                   "run_cases (fun c => 100 + 10 * c04e_why c + chk_c04e c)", chunk=30, timeout=1500))
    n = len(items)
    code = {i: (res[i] - 100) % 10 for i in range(n)}
    why = {i: (res[i] - 100) // 10 for i in range(n)}
    count = lambda c: sum(1 for v in code.values() if v == c)
    inside = [i for i in range(n) if code[i] in (0, 7, 1, 6, 2)]
    equal = [i for i in range(n) if code[i] in (0, 7)]
    pairs, replaced, replacing = {}, {}, {}
    for i in equal:
        measure_pairs(items[i][1], items[i][2], pairs, replaced, replacing)
    per_stream = {}
    for i in range(n):
        s = per_stream.setdefault(items[i][0], dict(histories=0, inside=0))
        s["histories"] += 1
        s["inside"] += int(i in set(inside))
    nontrivial = len({c04.key_of(items[i][1]) for i in inside if c04.nontrivial(items[i][1])})
    run.stream("bridge", n, nontrivial,
               inside_fragment=len(inside), model_package_equal_nets=len(equal), syntactically_identical=count(0),
               same_nets_only=count(7), outside_fragment=count(9), outside_shape_ok=sum(1 for i in range(n) if code[i] == 9 and why[i] & 1),
               outside_closed_mod_ok=sum(1 for i in range(n) if code[i] == 9 and why[i] & 2),
               outside_wf_design=sum(1 for i in range(n) if code[i] == 9 and why[i] & 4),
               loops_outside_frag_ok2=count(8), rejected_by_impl=sum(1 for _, _, o in items if o["pkg"] is None),
               per_stream=per_stream,
               kind_pairs_inside={f"{a}->{b}": k for (a, b), k in sorted(pairs.items())},
               rule="every exported history of the C04 streams (quick tier: every other one of `small`); non-trivial = inside the fragment and the history re-connects a port; distinct by (instance kinds, operations)",
               compared="final mapping, model state and design_of computed in Coq from the operations; hypotheses of Props/C04E.v; net labels and leaf "
                        "devices of the pipeline model's package for design_of(final) against the implementation's package; syntactic identity as information")
    run.coverage["bridge_inside_fraction"] = round(len(inside) / max(n, 1), 4)
    # ---- failures
    by_code = {}
    for i in range(n):
        if code[i] in WHAT:
            by_code.setdefault(code[i], []).append((len(items[i][1]["ops"]), i))
    for c, lst in sorted(by_code.items()):
        lst.sort()
        _, i = lst[0]
        name, job, out = items[i]
        if c in (1, 6):
            run.violation("C04:history:" + c04.key_of(job), f"{WHAT[c]}: {json.dumps(out.get('err'))}",
                          dict(kind="impl-violates-spec", stream="bridge/" + name, code=c,
                               case=dict(kinds=job["kinds"], ops=job["user_ops"], export=True), expanded_ops=job["ops"],
                               impl=dict(pkg=out["pkg"], err=out.get("err")), failing_cases=len(lst), reproducer=c04.py_repro(job)))
        else:
            run.violation(f"C04:bridge-{'tie' if c == 2 else 'checker' if c in (4, 5) else 'harness'}:" + c04.key_of(job), WHAT[c],
                          dict(kind="tie-broken" if c == 2 else "harness-inconsistency", stream="bridge/" + name, code=c,
                               case=dict(kinds=job["kinds"], ops=job["user_ops"], export=True), failing_cases=len(lst)),
                          found_input=False)
    # ---- coverage targets (fail closed)
    if len(inside) * 10 < 3 * n:
        run.violation("C04:coverage:bridge", f"coverage target missed: only {len(inside)} of {n} exported histories inside the fragment of Props/C04E.v",
                      dict(kind="coverage", inside=len(inside), histories=n), found_input=False)
    miss = [k for k in FRAG_KINDS if replaced.get(k, 0) == 0] + [k + " (as replacing)" for k in FRAG_KINDS if replacing.get(k, 0) == 0]
    if miss:
        run.violation("C04:coverage:bridge-kinds", f"coverage target missed: kinds never replaced / replacing inside the fragment: {miss}",
                      dict(kind="coverage", missing=miss), found_input=False)
    if inside:
        j = items[inside[len(inside) // 2]][1]
        run.sample(dict(stream="bridge", kinds=j["kinds"], ops=j["user_ops"]))


# ================================================================================================ stream `anonrefs`
# Port references that live ONLY inside an anonymous bundle / dict connection of a bundle-valued port.
# World (harness/impl/c04e.py): the C04 world + two one-bit ports c, d on the leaf (a resistor between them), so that a bare
# reference `i.c` can be a member of B{x, y}.  Membership in an AnonymousBundle leaves no back-reference on the PortRef: a
# reference whose earlier DIRECT user was re-connected, on a port that has an explicit connection of its own, is used by nothing
# the books record - but it is part of the final mapping and has to be resolved.  (Outside the Base/Design.v fragment of the
# bridge above: evaluated per case by Corr/C04.v:chk_history - specification, model, exported nets against Spec/Nets.v.)
PORTS2 = ["a", "b", "bp", "zz", "c", "d"]
A2, B2, BP2, ZZ2, C2, D2 = range(6)
POOL2 = {
    0: ("sig", ["sig", "s0"]), 1: ("sig", ["sig", "s1"]),
    60: ("slice", ["sl", ["sig", "s0"], ["i", 0]]), 61: ("slice", ["sl", ["sig", "s1"], ["i", 1]]),
    62: ("slice", ["sl", ["sig", "wide"], ["i", 2]]), 63: ("slice", ["sl", ["sig", "wide"], ["i", 3]]),
    30: ("noconn", ["nc", None]),
    40: ("bundle", ["bundle", "bi0"]), 41: ("bundle", ["bundle", "bi1"]),
    70: ("anon", ["anon", {"x": ["pref", 0, C2], "y": ["pref", 0, D2]}]),
    71: ("anon", ["anon", {"x": ["pref", 1, D2], "y": ["sl", ["sig", "s1"], ["i", 0]]}]),
    72: ("anon", ["anon", {"x": ["pref", 1, C2], "y": ["pref", 0, C2]}]),
    73: ("anon", ["anon", {"x": ["sl", ["sig", "wide"], ["i", 0]], "y": ["pref", 2, D2]}]),
}
DICTS2 = {5: {"x": ["pref", 0, D2], "y": ["pref", 0, C2]},
          6: {"x": ["pref", 1, C2], "y": ["sl", ["sig", "wide"], ["i", 1]]},
          7: {"x": ["pref", 2, C2], "y": ["pref", 1, D2]}}
ONEBIT = [60, 61, 62, 63]


def members2(a):
    """the member recipes of an anonymous-bundle argument"""
    if a[0] == "obj" and POOL2[a[1]][0] == "anon":
        return POOL2[a[1]][1][1]
    if a[0] == "dict":
        return DICTS2[a[2]]
    return {}


def prefs2(a):
    return [(v[1], v[2]) for v in members2(a).values() if v[0] == "pref"]


def norm2(a):
    if a[0] == "obj":
        return ("obj", POOL2[a[1]][0], a[1])
    if a[0] == "ref":
        return ("ref", a[1], a[2])
    if a[0] == "dict":
        return ("obj", "anon", a[1])
    return None


def expand2(ops):
    """building an argument fetches the references it mentions: explicit operations before the user (idempotent later)"""
    out = []
    for op in ops:
        args = [a for _, a in op[2]] if op[0] == "call" else ([op[3]] if op[0] in ("set", "connect", "replace") else [])
        for a in args:
            if a[0] == "ref":
                out.append(["getref", a[1], a[2]])
            for t in prefs2(a):
                out.append(["getref", t[0], t[1]])
        out.append(op)
    return out


def final2(ops):
    """python mirror of Spec/C04LastWrite.v (Coq re-derives it from the operations: code 3 on disagreement)"""
    m, dicts = {}, {}
    for op in ops:
        t = op[0]
        if t == "getref":
            continue
        if t == "call":
            for p, a in op[2]:
                c = norm2(a)
                if c is None:
                    break
                if a[0] == "dict":
                    dicts[a[1]] = a[2]
                m[(op[1], p)] = c
            continue
        q = (op[1], op[2])
        if t == "disconnect":
            m.pop(q, None)
            continue
        c = norm2(op[3])
        if c is None or (t == "replace" and q not in m):
            continue
        if op[3][0] == "dict":
            dicts[op[3][1]] = op[3][2]
        m[q] = c
    return m, dicts


def cexpr2(e):
    if e[0] == "pref":
        return ["ref", f"i{e[1]}", PORTS2[e[2]]]
    if e[0] == "bref":
        return ["sig", f"{e[1]}_{e[2]}"]
    if e[0] == "sl":
        return ["sl", cexpr2(e[1]), e[2]]
    return e


def design2(m, kinds, dicts):
    leaf = dict(name="Leaf", ports=[["a", 2, "none"], ["b", 2, "none"], ["bp_x", 1, "none"], ["bp_y", 1, "none"], ["c", 1, "none"], ["d", 1, "none"]],
                sigs=[],
                insts=[dict(name="e", n=0, of=["ext", 0, 1], conns=[["x0", ["sig", "a"]], ["x1", ["sig", "b"]]]),
                       dict(name="r", n=0, of=["prim", "R", 1], conns=[["p", ["sig", "bp_x"]], ["n", ["sig", "bp_y"]]]),
                       dict(name="r2", n=0, of=["prim", "R", 2], conns=[["p", ["sig", "c"]], ["n", ["sig", "d"]]])])
    insts = []
    for i, n in enumerate(kinds):
        conns = []
        for p in (A2, B2, BP2, C2, D2):
            c = m.get((i, p))
            if c is None:
                continue
            pn = PORTS2[p]
            if c[0] == "ref":
                conns.append([pn, ["ref", f"i{c[1]}", PORTS2[c[2]]]])
                continue
            k, oid = c[1], c[2]
            if k == "noconn":
                conns.append([pn, ["nc", 2 * oid, None]])
            elif k == "bundle":
                b = POOL2[oid][1][1]
                conns += [["bp_x", ["sig", f"{b}_x"]], ["bp_y", ["sig", f"{b}_y"]]]
            elif k == "anon":
                mem = POOL2[oid][1][1] if oid in POOL2 else DICTS2[dicts[oid]]
                conns += [["bp_x", cexpr2(mem["x"])], ["bp_y", cexpr2(mem["y"])]]
            else:
                conns.append([pn, cexpr2(POOL2[oid][1])])
        insts.append(dict(name=f"i{i}", n=0, of=["mod", 0], conns=conns))
    top = dict(name="Top", ports=[], insts=insts,
               sigs=[["s0", 2], ["s1", 2], ["wide", 4], ["bi0_x", 1], ["bi0_y", 1], ["bi1_x", 1], ["bi1_y", 1]])
    return dict(mods=[leaf, top], exts=[dict(name="E", ports=[["x0", 2], ["x1", 2]])], top=1)


def c_arg2(a):
    if a[0] == "bad":
        return "ABad"
    if a[0] == "dict":
        return f"(ADict {cz(a[1])})"
    return f"(AConn {c04.c_conn(norm2(a))})"


def c_op2(op):
    t = op[0]
    if t == "call":
        return f"(Call {cz(op[1])} {clist(op[2], lambda kv: f'({cz(kv[0])}, {c_arg2(kv[1])})')})"
    if t == "getref":
        return f"(GetRef {cz(op[1])} {cz(op[2])})"
    if t == "disconnect":
        return f"(Disconnect {cz(op[1])} {cz(op[2])})"
    ctor = dict(set="SetAttr", connect="Connect", replace="Replace")[t]
    return f"({ctor} {cz(op[1])} {cz(op[2])} {c_arg2(op[3])})"


def mk_job2(kinds, user_ops):
    ops = expand2(user_ops)
    m, dicts = final2(ops)
    return dict(kinds=list(kinds), ports=PORTS2, pool={str(k): [v[0], v[1]] for k, v in POOL2.items()},
                dicts={str(k): v for k, v in DICTS2.items()}, ops=ops, user_ops=user_ops, export=True, world="c04e",
                final=sorted(m.items()), design=design2(m, kinds, dicts))


def c_case2(job, out):
    steps = clist(list(zip(job["ops"], out["steps"])), lambda os: f"IS {c_op2(os[0])} {core.cbool(os[1]['acc'])} {c04.c_obs(os[1]['obs'])}")
    final = clist(sorted(job["final"]), lambda e: f"({c04.c_pid(e[0])}, {c04.c_conn(e[1])})")
    design = job["design"]
    spec_t, pkg_t = D.terminals(design)
    if out["pkg"] is None:
        pk, top = "None", "Top"
    else:
        pk, top = f"(Some {D.c_pkg(out['pkg'])})", D.pkg_top_name(out["pkg"], design)
    net = (f"(Some {{| cc_design := {D.c_design(design)};\n  cc_terms := {clist(spec_t, D.c_node)};\n  cc_pkg := {pk};\n"
           f"  cc_top := {cstr(top)}; cc_pterms := {clist(pkg_t, D.c_node)} |}})")
    return (f"{{| h_insts := {clist(range(len(job['kinds'])), cz)}; h_ports := {clist(range(len(PORTS2)), cz)};\n"
            f"  h_steps := {steps};\n  h_final := {final};\n  h_net := {net} |}}")


def evaluate2(tag, jobs):
    wires = [dict(kinds=j["kinds"], ports=j["ports"], pool=j["pool"], dicts=j["dicts"], ops=j["ops"], export=True) for j in jobs]
    outs = core.run_worker_sharded("c04e", wires)
    cases = [c_case2(j, o) for j, o in zip(jobs, outs)]
    bad = core.coq_eval_cases("C04", tag, c04.IMPORTS, "hcase", cases, "run_cases chk_history", chunk=40)
    return outs, {i: (r % 10, r // 10 - 1) for i, r in bad}


def write2(r, connected, q, a):
    styles = ["set", "connect", "call"] + (["replace"] if connected else [])
    s = r.choice(styles)
    if s == "call":
        return ["call", q[0], [[q[1], a]]]
    return [s, q[0], q[1], a]


def anonref_history(r, ids):
    """All ports of three instances explicitly connected; the bundle-valued port of a host ends on an anonymous bundle / dict
    whose members are references to one-bit ports (with explicit connections of their own) of OTHER instances; before that the
    references had direct users, which were re-connected (mostly), and the host's bp was tied to other things."""
    kinds = [0, 0, 0]
    ops, conn = [], set()

    def put(q, a):
        ops.append(write2(r, q in conn, q, a))
        conn.add(q)
    base = {}
    for i in range(3):
        base[(i, A2)] = ["obj", r.choice([0, 1])]
        base[(i, B2)] = ["obj", r.choice([0, 1])]
        base[(i, C2)] = ["obj", r.choice(ONEBIT)]
        base[(i, D2)] = ["obj", r.choice(ONEBIT)]
        base[(i, BP2)] = ["obj", r.choice([40, 41])]
    order = sorted(base)
    r.shuffle(order)
    late = [q for q in order if r.random() < 0.25]           # some explicit connections are only made at the end
    for q in order:
        if q not in late:
            put(q, base[q])
    # the final connection of the host's bundle-valued port: an anonymous bundle or a dict with reference members
    host = r.randrange(3)
    cands = [["obj", k] for k in (70, 71, 72, 73)] + [["dictreq", k] for k in DICTS2]
    cands = [a for a in cands if all(t[0] != host for t in prefs2(["dict", 0, a[1]] if a[0] == "dictreq" else a))]
    fin = r.choice(cands)
    targets = prefs2(["dict", 0, fin[1]] if fin[0] == "dictreq" else fin)
    # direct users of the references, mostly re-connected before the host takes the anonymous bundle
    undo_later = []
    for t in targets:
        if r.random() < 0.8:
            k = r.choice([i for i in range(3) if i != t[0]])
            q = (k, r.choice([C2, D2]))
            if q in targets:
                continue
            put(q, ["ref", t[0], t[1]])
            back = ["obj", r.choice(ONEBIT)]
            u = r.random()
            if u < 0.7:
                put(q, back)
            elif u < 0.9:
                undo_later.append((q, back))
            # else: the direct user stays
        elif r.random() < 0.5:
            ops.append(["getref", t[0], t[1]])
    # the host's bp on its way: other bundles, other anonymous bundles, a disconnect
    for _ in range(r.randint(0, 2)):
        u = r.random()
        if u < 0.3 and (host, BP2) in conn:
            ops.append(["disconnect", host, BP2])
            conn.discard((host, BP2))
        else:
            other = r.choice(cands + [["obj", 40], ["obj", 41]])
            if other[0] == "dictreq":
                other = ["dict", ids(), other[1]]
            put((host, BP2), other)
    if r.random() < 0.2:
        ops.append(["replace", host, ZZ2, ["obj", 0]])       # refused
    if r.random() < 0.2:
        ops.append(["set", host, A2, ["bad", r.randrange(4)]])   # refused
    put((host, BP2), ["dict", ids(), fin[1]] if fin[0] == "dictreq" else fin)
    for q, back in undo_later:
        put(q, back)
    for q in late:
        put(q, base[q])
    # every target has an explicit connection of its own by now (base); make sure of the ports re-used as direct users
    return kinds, ops


def anonref_corpus():
    """the history of the independent seeded change C04r3-C, transcribed into this world"""
    return [([0, 0, 0], [
        ["call", 0, [[A2, ["obj", 0]], [B2, ["obj", 1]], [C2, ["obj", 60]], [D2, ["obj", 61]], [BP2, ["obj", 40]]]],
        ["call", 1, [[A2, ["obj", 0]], [B2, ["obj", 1]], [C2, ["ref", 0, C2]], [D2, ["obj", 62]]]],      # a first, direct user of i0.c
        ["call", 2, [[A2, ["obj", 1]], [B2, ["obj", 1]], [C2, ["obj", 62]], [D2, ["obj", 63]], [BP2, ["obj", 41]]]],
        ["set", 1, C2, ["obj", 62]],                                                                    # ... re-connected
        ["set", 1, BP2, ["obj", 70]],                                                                   # AnonymousBundle(x=i0.c, y=i0.d)
        ["connect", 1, BP2, ["dict", 1001, 5]]]),                                                       # {"x": i0.d, "y": i0.c}
        ([0, 0, 0], [
        ["call", 0, [[A2, ["obj", 0]], [B2, ["obj", 1]], [C2, ["obj", 60]], [D2, ["obj", 61]], [BP2, ["obj", 40]]]],
        ["call", 1, [[A2, ["obj", 0]], [B2, ["obj", 1]], [C2, ["obj", 63]], [D2, ["obj", 62]], [BP2, ["obj", 41]]]],
        ["call", 2, [[A2, ["obj", 1]], [B2, ["obj", 1]], [C2, ["obj", 62]], [D2, ["obj", 63]]]],
        ["set", 2, BP2, ["obj", 72]]])]                                                                 # never a direct user


def key2(job):
    return json.dumps(dict(world="c04e", kinds=job["kinds"], ops=job["user_ops"]), sort_keys=True)


def repro2(job):
    def arg(a):
        if a[0] == "obj":
            return f"obj2[{a[1]}]"
        if a[0] == "ref":
            return f"i{a[1]}.{PORTS2[a[2]]}"
        if a[0] == "dict":
            return f"dict(DICTS2[{a[2]}])"
        return repr([5, None, "s0", 1.5][a[1]])
    lines = []
    for op in job["user_ops"]:
        t = op[0]
        if t == "call":
            lines.append(f"i{op[1]}({', '.join(f'{PORTS2[p]}={arg(a)}' for p, a in op[2])})")
        elif t == "getref":
            lines.append(f"i{op[1]}.{PORTS2[op[2]]}")
        elif t == "disconnect":
            lines.append(f"i{op[1]}.disconnect('{PORTS2[op[2]]}')")
        elif t == "set":
            lines.append(f"i{op[1]}.{PORTS2[op[2]]} = {arg(op[3])}")
        else:
            lines.append(f"i{op[1]}.{t}('{PORTS2[op[2]]}', {arg(op[3])})")
    return ("harness/impl/c04e.py world (Leaf(a,b: width 2, bp: bundle B{x,y}, c,d: width 1); Top with s0,s1 (2), wide (4), bi0, bi1; three Leaf "
            "instances i0..i2; obj2[k] = POOL2[k], DICTS2 of harness/vp/c04e.py, e.g. obj2[70] = AnonymousBundle(x=i0.c, y=i0.d)): "
            + "; ".join(lines) + "; h.to_proto(Top)")


def only_in_anon(job):
    """rule of the stream: in the final mapping some reference is used ONLY as a member of an anonymous bundle / dict connection
    (no port is connected to it directly) and its port has an explicit connection of its own"""
    m, dicts = final2(job["ops"])
    direct = {(c[1], c[2]) for c in m.values() if c[0] == "ref"}
    for q, c in m.items():
        if c[0] == "obj" and c[1] == "anon":
            a = ["obj", c[2]] if c[2] in POOL2 else ["dict", c[2], dicts[c[2]]]
            for t in prefs2(a):
                tc = m.get(t)
                if t not in direct and tc is not None and tc[0] == "obj" and tc[1] != "noconn":
                    return True
    return False


def anonref_jobs(seed, n):
    jobs = [mk_job2(k, ops) for k, ops in anonref_corpus()]
    for k in range(n):
        r = core.rng(seed, "C04", "anonrefs", k)
        kinds, ops = anonref_history(r, c04.IdGen())
        jobs.append(mk_job2(kinds, ops))
    return jobs


def report2(run, jobs, outs, res):
    by_code = {}
    for i, (c, st) in res.items():
        by_code.setdefault(c, []).append((len(jobs[i]["ops"]), i, st))
    for c, lst in sorted(by_code.items()):
        lst.sort()
        _, i, st = lst[0]
        job, out = jobs[i], outs[i]
        if c in (1, 6):
            # shrink: drop single user operations while the verdict class stays
            cur = job
            for _ in range(3):
                cands = []
                for k in range(len(cur["user_ops"])):
                    try:
                        cands.append(mk_job2(cur["kinds"], cur["user_ops"][:k] + cur["user_ops"][k + 1:]))
                    except Exception:
                        pass
                if not cands:
                    break
                _, cres = evaluate2("anonrefs_shrink", cands)
                better = [j for j, (cc, _) in cres.items() if cc == c]
                if not better:
                    break
                cur = cands[min(better, key=lambda j: len(cands[j]["ops"]))]
            souts, sres = evaluate2("anonrefs_final", [cur])
            if 0 in sres and sres[0][0] == c:
                job, out, st = cur, souts[0], sres[0][1]
            step_err = out["steps"][st]["err"] if 0 <= st < len(out["steps"]) else out.get("err")
            run.violation("C04:history:" + key2(job), f"{c04.WHAT[c]} at step {st}: {json.dumps(step_err)}",
                          dict(kind="impl-violates-spec", stream="anonrefs", world="c04e", code=c, step=st,
                               case=dict(world="c04e", kinds=job["kinds"], ops=job["user_ops"], export=True), expanded_ops=job["ops"],
                               impl=out, failing_cases=len(lst), reproducer=repro2(job)))
        else:
            run.violation(f"C04:{'tie' if c == 2 else 'harness'}:" + key2(job), f"{c04.WHAT.get(c, 'code %d' % c)} at step {st}",
                          dict(kind="tie-broken" if c == 2 else "harness-inconsistency", stream="anonrefs", world="c04e", code=c, step=st,
                               case=dict(world="c04e", kinds=job["kinds"], ops=job["user_ops"], export=True), impl=outs[i], failing_cases=len(lst)),
                          found_input=False)


def run_anonrefs(run, tier, seed):
    jobs = anonref_jobs(seed, 60 if tier == "quick" else 600)
    outs, res = evaluate2("anonrefs", jobs)
    hit = [j for j in jobs if only_in_anon(j)]
    run.stream("anonrefs", len(jobs), len({key2(j) for j in hit}), steps=sum(len(j["ops"]) for j in jobs),
               exported=len(jobs), rejected_by_impl=sum(1 for o in outs if o["pkg"] is None),
               reference_only_inside_anonymous_bundle=len(hit),
               rule="non-trivial = the final mapping holds a port reference that is used ONLY as a member of an anonymous bundle / dict connection "
                    "of a bundle-valued port (nothing is connected to it directly) and whose port has an explicit connection of its own; distinct by operations")
    report2(run, jobs, outs, res)
    if len(hit) * 2 < len(jobs):
        run.violation("C04:coverage:anonrefs", f"coverage target missed: only {len(hit)} of {len(jobs)} histories end with a reference that lives only inside an anonymous bundle",
                      dict(kind="coverage"), found_input=False)
    run.sample(dict(stream="anonrefs", world="c04e", kinds=jobs[2]["kinds"], ops=jobs[2]["user_ops"]))


def replay2(run, replay):
    c = replay["case"]
    job = mk_job2(c["kinds"], c["ops"])
    outs, res = evaluate2("replay", [job])
    print("replay verdict:", res.get(0, "ok"), json.dumps(outs[0])[:3000])
    if res:
        run.violation("C04:replay", "replayed case still fails", dict(kind="replay", case=c, impl=outs[0]))
