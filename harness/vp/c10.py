"""C10 — bundle ports flatten to the documented names, directions and visibility (DESIGN.md 6.3).

Case language (also the input of harness/impl/c10.py):
  defs   : list of bundle definitions {name, style, rstyle, roles, sigs:[{n,w,k,src,dest}], subs:[{n,cf,fc,role,d}], ops?}, d < own index
           ops (optional) = the construction HISTORY of the definition, in order, names may be re-used:
           [{t:"sig",via?,n,w,k,src,dest} | {t:"sub",via?,n,cf,fc,role,d} | {t:"junk",via?,n}]  (via = add | addn | set);
           sigs/subs are then the FINAL members as this harness reads the history (finalize); Coq recomputes them from the
           history with Model/C10Build.v and answers 3 when the two readings differ
  top    : index of the definition of the bundle instance under test
  child  : {n, port, cf, fc, role, extra}      instance in the module under test M (extra = other signal names of M)
  probe  : connect a one-port instance to every member reference (gives member path -> flattened signal)
  parent : null | {kind:"inst", n, port, cf, fc, role, extra, sibling, d, via} | {kind:"anon", shape, extra}
"""
import json, itertools
from . import core
from .core import cz, clist, cstr, cbool

IMPORTS = ("From Coq Require Import String.\n"
           "Require Import Hdl21.Base.PyInt Hdl21.Spec.BundleSpec Hdl21.Model.BundleFlat Hdl21.Model.C10Build Hdl21.Corr.C03 Hdl21.Corr.C10.\n"
           "Open Scope string_scope.\nOpen Scope list_scope.")

ROLES = ["HOST", "DEVICE", "OTHER"]
DIRS = {"INPUT": "DIn", "OUTPUT": "DOut", "INOUT": "DInout", "NONE": "DNone"}
KIND = {"in": ("true", "DIn"), "out": ("true", "DOut"), "inout": ("true", "DInout"), "none": ("true", "DNone"),
        "pin": ("true", "DIn"), "pout": ("true", "DOut"), "sig": ("false", "DNone")}


# ------------------------------------------------------------------------------------------------ Coq printers
def c_ostr(s):
    return "None" if s is None else f"(Some {cstr(s)})"


def c_leaf(l):
    pt, d = KIND[l["k"]]
    return f"(L {cstr(l['n'])} {cz(l['w'])} {pt} {d} {c_ostr(l.get('src'))} {c_ostr(l.get('dest'))})"


def c_tree(defs, idx, inst):
    d = defs[idx]
    subs = clist([c_tree(defs, s["d"], s) for s in d["subs"]])
    return (f"(BT {cstr(inst['n'])} {cbool(bool(inst.get('cf')))} {int(inst.get('fc', 0))} {c_ostr(inst.get('role'))} "
            f"{clist([c_leaf(l) for l in d['sigs']])} {subs})")


def eff_class(d):
    """the construction style the driver really uses: roles written in the body force a class body"""
    return d.get("style", "proc") == "class" or (bool(d.get("roles")) and d.get("rstyle", "names") in ("anon", "mul"))


def finalize(d, ops):
    """The members a definition has after the history `ops` (this harness's own reading, with Python dicts):
    class body = a dict of the assignments, values that are no attributes forgotten; procedural = every addition in order,
    a name re-used for the other kind leaves the old container, a value that is no attribute is refused."""
    if eff_class(d):
        body = {}
        for o in ops:
            body[o["n"]] = o
        ops = list(body.values())
    sigs, subs = {}, {}
    for o in ops:
        if o["t"] == "sig":
            subs.pop(o["n"], None)
            sigs[o["n"]] = o
        elif o["t"] == "sub":
            sigs.pop(o["n"], None)
            subs[o["n"]] = o
    strip = lambda o: {k: v for k, v in o.items() if k not in ("t", "via")}
    return [strip(o) for o in sigs.values()], [strip(o) for o in subs.values()]


def set_ops(d, ops):
    d["ops"] = ops
    d["sigs"], d["subs"] = finalize(d, ops)
    return d


def c_htree(defs, idx, inst):
    d = defs[idx]
    ops = []
    for o in d["ops"]:
        if o["t"] == "sig":
            ops.append(f"(OSig {c_leaf(o)})")
        elif o["t"] == "sub":
            ops.append(f"(OSub {c_htree_or_plain(defs, o['d'], o)})")
        else:
            ops.append(f"(OJunk {cstr(o['n'])})")
    return (f"(HT {cstr(inst['n'])} {cbool(bool(inst.get('cf')))} {int(inst.get('fc', 0))} {c_ostr(inst.get('role'))} "
            f"{cbool(eff_class(d))} {clist(ops)})")


def c_htree_or_plain(defs, idx, inst):
    """a definition without a written history is the history `signals first, then sub-bundles, each once`"""
    d = defs[idx]
    if d.get("ops") is None:
        d = dict(d, ops=[dict(l, t="sig") for l in d["sigs"]] + [dict(x, t="sub") for x in d["subs"]])
        defs = list(defs)
        defs[idx] = d
    return c_htree(defs, idx, inst)


HDUMMY = dict(n="d", cf=False, fc=0, role=None)


def c_hist(case):
    """(history tree, final tree) of every definition with a written history"""
    defs = case["defs"]
    return clist([f"({c_htree(defs, i, HDUMMY)}, {c_tree(defs, i, HDUMMY)})" for i, d in enumerate(defs) if d.get("ops") is not None])


def c_path(p):
    return clist([cstr(x) for x in p])


def c_obs(o, probe):
    ports = clist([f"({cstr(n)}, {cz(w)}, {DIRS[d]})" for n, w, d in o["ports"]])
    sigs = clist([f"({cstr(n)}, {cz(w)})" for n, w in o["sigs"]])
    pr = "None" if not probe else "(Some " + clist([f"({c_path(p)}, {cstr(n)})" for p, n in o["probes"]]) + ")"
    return f"(O3 {ports} {sigs} {pr})"


def parent_layout(case):
    """Mirror of the driver's construction of the parent: (bundle instances in insertion order as (port, def idx, inst spec),
    index of the probed instance, other names of the parent, source term)."""
    par = case["parent"]
    ch = case["child"]
    ns = list(par.get("extra", [])) + ["dut"]
    if par["kind"] == "inst":
        pdef = par.get("d", case["top"])
        main = (bool(par.get("port")), pdef, dict(n=par["n"], cf=par.get("cf"), fc=par.get("fc", 0), role=par.get("role")))
        sib = par.get("sibling")
        # the net constructor-visible flip flag of the original is cf xor parity(fc); a flipped copy toggles once more
        insts = [main]
        if sib in ("flipped", "flipped_before"):
            s = (main[0], pdef, dict(main[2], n=par["n"] + "sib", fc=main[2]["fc"] + 1))
            insts = [s, main] if sib == "flipped_before" else [main, s]
        elif sib == "mul":
            insts = [main, (main[0], pdef, dict(main[2], n=par["n"] + "sib"))]
        k = insts.index(main)
        if case.get("probe"):
            from_paths = leaf_paths(case["defs"], pdef)
            ns += [f"zq{i}" for i in range(len(from_paths))]
        src = f"(CInst {k} {c_path(par.get('via', []))})"
        return insts, k, ns, src
    insts = []
    cnt = [0]
    prefix = par.get("prefix", "ps")

    def go(shape):
        t = shape["t"]
        if t == "sig":
            nm = f"{prefix}{cnt[0]}"
            cnt[0] += 1
            ns.append(nm)
            return f"(CSig {cstr(nm)})"
        if t == "anon":
            return "(CAnon " + clist([f"({cstr(n)}, {go(s)})" for n, s in shape["m"]]) + ")"
        nm = f"{prefix}{cnt[0]}"
        cnt[0] += 1
        insts.append((False, shape["d"], dict(n=nm, cf=shape.get("cf"), fc=shape.get("fc", 0), role=shape.get("role"))))
        return f"(CInst {len(insts) - 1} {c_path(shape.get('via', []))})"
    src = go(par["shape"])
    return insts, 0, ns, src


def c_case(case, out):
    defs = case["defs"]
    ch = case["child"]
    t = c_tree(defs, case["top"], ch)
    npaths = len(leaf_paths(defs, case["top"]))
    ns = list(ch.get("extra", [])) + ([f"zp{i}" for i in range(npaths)] if case.get("probe") else [])
    par = case.get("parent")
    if par is None:
        cpar = "PNone"
    else:
        insts, k, pns, src = parent_layout(case)
        cins = clist([f"({cbool(p)}, {c_tree(defs, d, spec)})" for p, d, spec in insts])
        cpar = f"(PConn {cins} {k} {clist([cstr(x) for x in pns])} {src})"
    if out["err"] is not None:
        im = "IRej"
    else:
        if par is None:
            po = "None"
        else:
            conns = clist([f"({cstr(a)}, {cstr(b)})" for a, b in out["parent"]["conns"]])
            po = f"(Some ({c_obs(out['parent'], case.get('probe') and par['kind'] == 'inst')}, {conns}))"
        im = f"(IAcc {c_obs(out['child'], case.get('probe'))} {po})"
    return f"({c_hist(case)}, ({t}, {cbool(ch['port'])}, {clist([cstr(x) for x in ns])}, {cpar}, {im}))"


# ------------------------------------------------------------------------------------------------ case helpers
def leaf_paths(defs, idx):
    d = defs[idx]
    out = [[l["n"]] for l in d["sigs"]]
    for s in d["subs"]:
        out += [[s["n"]] + p for p in leaf_paths(defs, s["d"])]
    return out


def depth_of(defs, idx):
    d = defs[idx]
    return 1 + max([depth_of(defs, s["d"]) for s in d["subs"]], default=0)


def flips_total(defs, idx):
    return sum(int(bool(s.get("cf"))) + s.get("fc", 0) + flips_total(defs, s["d"]) for s in defs[idx]["subs"])


def case_size(case):
    return (len(leaf_paths(case["defs"], case["top"])), len(json.dumps(case)))


def nontrivial(case):
    """non-trivial = at least 2 leaves AND (a flip somewhere, or a role on an instance, or a nested bundle, or a connection)."""
    defs, top = case["defs"], case["top"]
    ch = case["child"]
    flips = flips_total(defs, top) + int(bool(ch.get("cf"))) + ch.get("fc", 0)
    roles = ch.get("role") is not None
    return len(leaf_paths(defs, top)) >= 2 and (flips > 0 or roles or depth_of(defs, top) > 1 or case.get("parent") is not None)


LEAF_KINDS8 = [("in", None, None), ("out", None, None), ("inout", None, None), ("none", None, None),
               ("sig", "HOST", "DEVICE"), ("sig", "DEVICE", "HOST"), ("sig", "OTHER", None), ("sig", None, None)]


def leaves8(prefix, w, rot=0):
    out = []
    for i, (k, s, d) in enumerate(LEAF_KINDS8):
        out.append(dict(n=f"{prefix}{i}", w=(w if (i + rot) % 2 == 0 else 4 - w), k=k, src=s, dest=d))
    return out


FLIPMECH = [dict(cf=False, fc=0), dict(cf=True, fc=0), dict(cf=False, fc=1)]


def context_cases():
    """Every leaf context: (8 leaf kinds) x (every placement of none/constructor/flipped() flips over chains of depth 1..3)
    x (role of the containing instance: none, HOST, DEVICE, OTHER) x (port / internal) x (width 1 / 3)."""
    cases = []
    k = 0
    for depth in (1, 2, 3):
        for mech in itertools.product(range(3), repeat=depth):
            for ri in range(4):
                for port in (True, False):
                    for w in (1, 3):
                        roles = [None] + ROLES
                        defs = []
                        # deepest definition first
                        for lvl in range(depth - 1, -1, -1):
                            d = dict(name=f"D{lvl}", style=["proc", "add", "class"][(k + lvl) % 3],
                                     rstyle=["names", "enum", "roleset", "anon", "mul"][(k + lvl) % 5], roles=ROLES,
                                     sigs=leaves8("m", w, lvl), subs=[])
                            if lvl < depth - 1:
                                d["subs"] = [dict(n="s", d=len(defs) - 1, role=roles[(ri + lvl + 1) % 4], **FLIPMECH[mech[lvl + 1]])]
                            if k % 4 == 1:
                                # every name had an earlier take: leaf m1 was a sub-bundle (when a deeper definition exists) or a
                                # signal of another shape, m2 a value that is no attribute, the sub-bundle s a 5 bit output
                                early = [dict(t="sub", n="m1", d=len(defs) - 1, cf=True, fc=0, role=None) if defs else
                                         dict(t="sig", n="m1", w=5, k="inout", src=None, dest=None),
                                         dict(t="junk", n="m2"), dict(t="sig", n="m6", w=2, k="in", src=None, dest=None)]
                                if d["subs"]:
                                    early.append(dict(t="sig", n="s", w=5, k="out", src=None, dest=None))
                                via = VIAS[(k // 12 + lvl) % 3]
                                set_ops(d, [dict(o, via=via) for o in early + [dict(l, t="sig") for l in d["sigs"]] + [dict(x, t="sub") for x in d["subs"]]])
                            defs.append(d)
                        child = dict(n="b", port=port, role=roles[ri], extra=[], **FLIPMECH[mech[0]])
                        case = dict(defs=defs, top=len(defs) - 1, child=child, probe=(k % 2 == 0), parent=None)
                        if port and k % 3 == 0:
                            case["parent"] = dict(kind="inst", n="x", port=(k % 2 == 1), cf=(k % 5 == 0), fc=k % 2, role=roles[(ri + 1) % 4],
                                                  extra=[], sibling=[None, "flipped", "mul", "flipped_before"][(k // 3) % 4])
                        elif port and k % 3 == 1 and depth == 1:
                            case["parent"] = dict(kind="anon", shape=dict(t="anon", m=[[l["n"], dict(t="sig", w=l["w"])] for l in defs[-1]["sigs"]]))
                        cases.append(case)
                        k += 1
    return cases


CLEAN = ["a", "b", "c", "d", "e", "f", "g", "q", "r"]
TRICKY = ["a", "b", "a_b", "b_a", "a_", "b_", "ab", "a__b", "b__"]


def gen_leaf(r, name):
    k, s, d = r.choice(LEAF_KINDS8 + [("pin", None, None), ("pout", None, None), ("in", "HOST", "DEVICE"), ("sig", "HOST", "HOST")])
    return dict(n=name, w=r.choice([1, 1, 2, 3, 5]), k=k, src=s, dest=d)


def gen_def(r, defs, depth, fan, alphabet, hist=True):
    """Append a definition (and its sub-definitions) to defs; returns its index."""
    ns = r.randint(0 if depth > 1 else 1, fan)
    nb = r.randint(1 if ns == 0 else 0, fan) if depth > 1 else 0
    names = r.sample(alphabet, ns + nb)
    subs = []
    for i in range(nb):
        if defs and r.random() < 0.2:
            cand = [j for j in range(len(defs)) if depth_of(defs, j) < depth]
            di = r.choice(cand) if cand else gen_def(r, defs, depth - 1, fan, alphabet, hist)
        else:
            di = gen_def(r, defs, depth - 1, fan, alphabet, hist)
        subs.append(dict(n=names[ns + i], d=di, cf=r.random() < 0.3, fc=r.choice([0, 0, 1, 1, 2]),
                         role=r.choice([None, None] + ROLES)))
    d = dict(name=f"D{len(defs)}", style=r.choice(["proc", "add", "class"]),
             rstyle=r.choice(["names", "enum", "roleset", "anon", "mul"]), rcap=r.random() < 0.5, roles=ROLES,
             sigs=[gen_leaf(r, names[i]) for i in range(ns)], subs=subs)
    if hist and r.random() < 0.55:
        gen_history(r, defs, d, depth, alphabet)
    defs.append(d)
    return len(defs) - 1


VIAS = ["add", "addn", "set"]


def gen_history(r, defs, d, depth, alphabet):
    """Give definition d (not yet in defs) a construction history: its members added in a random order (signals and
    sub-bundles interleaved), with 1-3 EARLIER TAKES inserted - the name of a member (mostly) or another name, first given to
    a value of the other kind, of the same kind, or to a value that is no attribute - and per-addition spelling
    (Bundle.add(name=), Bundle.add of a named value, attribute assignment; one class body for the class style)."""
    final = [dict(l, t="sig") for l in d["sigs"]] + [dict(x, t="sub") for x in d["subs"]]
    r.shuffle(final)
    ops = list(final)
    shallower = [j for j in range(len(defs)) if depth_of(defs, j) < depth]
    for _ in range(r.choice([1, 1, 2, 3])):
        tgt = r.choice(final) if r.random() < 0.85 else None
        name = tgt["n"] if tgt is not None else r.choice(alphabet)
        u = r.random()
        if u < 0.45 and shallower:
            early = dict(t="sub", n=name, d=r.choice(shallower), cf=r.random() < 0.3, fc=r.choice([0, 1]), role=r.choice([None] + ROLES))
        elif u < 0.88:
            early = dict(gen_leaf(r, name), t="sig")
        else:
            early = dict(t="junk", n=name)
        hi = [i for i, o in enumerate(ops) if o is tgt][0] if tgt is not None else len(ops)
        ops.insert(r.randint(0, hi), early)
    if not eff_class(d):
        for o in ops:
            if r.random() < 0.4:
                o["via"] = r.choice(VIAS)
    old = (d["sigs"], d["subs"])
    set_ops(d, ops)
    if not d["sigs"] and not d["subs"]:
        del d["ops"]
        d["sigs"], d["subs"] = old


def anon_shape(r, defs, idx, drop=None, path=(), allow_inst=True):
    """An anonymous bundle offering every member of definition idx (sub-bundles as nested anonymous bundles, bundle
    instances or sub-bundle references)."""
    d = defs[idx]
    m = []
    for l in d["sigs"]:
        if drop == list(path) + [l["n"]]:
            continue
        m.append([l["n"], dict(t="sig", w=l["w"])])
    for s in d["subs"]:
        u = r.random()
        if u < 0.5 or not allow_inst:
            m.append([s["n"], anon_shape(r, defs, s["d"], drop, tuple(path) + (s["n"],), allow_inst)])
        else:
            m.append([s["n"], dict(t="inst", d=s["d"], cf=r.random() < 0.3, fc=r.choice([0, 1]), role=None, via=[])])
    return dict(t="anon", m=m)


def gen_case(r, malformed=False):
    depth = r.choice([1, 2, 2, 3, 3])
    fan = r.choice([1, 2, 2, 3, 3])
    probe = r.random() < 0.6
    alphabet = TRICKY if (probe and r.random() < 0.6) else CLEAN
    defs = []
    top = gen_def(r, defs, depth, fan, alphabet)
    paths = leaf_paths(defs, top)
    iname = r.choice(["b", "n", "a", "a_b"] if alphabet is TRICKY else ["b", "n", "io"])
    extra = []
    if r.random() < 0.4 and paths:
        for p in r.sample(paths, min(len(paths), r.choice([1, 1, 2]))):
            extra.append("_".join([iname] + p) + r.choice(["", "", "_"]))
        extra = sorted(set(extra))
    port = r.random() < 0.75
    child = dict(n=iname, port=port, cf=r.random() < 0.3, fc=r.choice([0, 0, 1, 1, 2, 3]), role=r.choice([None] + ROLES), extra=extra, rfresh=r.random() < 0.3)
    case = dict(defs=defs, top=top, child=child, probe=probe, parent=None)
    u = r.random()
    if not port or (u < 0.2 and not malformed):
        return case
    if u < 0.6 and not malformed:
        par = dict(kind="inst", n=r.choice(["x", "pb", iname]), port=r.random() < 0.3, cf=r.random() < 0.3, fc=r.choice([0, 1, 2]),
                   role=r.choice([None] + ROLES), extra=[], sibling=r.choice([None, None, "flipped", "mul", "flipped_before"]) if alphabet is CLEAN else None)
        if r.random() < 0.3:
            # the parent holds a bigger bundle that contains the child's definition as a sub-bundle
            sub_n = r.choice(alphabet)
            others = [x for x in alphabet if x != sub_n]
            wrap = dict(name=f"W{len(defs)}", style="proc", rstyle="names", roles=ROLES,
                        sigs=[gen_leaf(r, n) for n in r.sample(others, r.randint(0, 2))],
                        subs=[dict(n=sub_n, d=top, cf=r.random() < 0.3, fc=r.choice([0, 1]), role=r.choice([None] + ROLES))])
            defs.append(wrap)
            par["d"] = len(defs) - 1
            par["via"] = [sub_n]
        if r.random() < 0.3:
            pp = leaf_paths(defs, par.get("d", top))
            par["extra"] = sorted({"_".join([par["n"]] + p) for p in r.sample(pp, 1)})
        case["parent"] = par
        return case
    drop = None
    if malformed and paths:
        drop = r.choice(paths)
    shape = anon_shape(r, defs, top, drop, allow_inst=alphabet is CLEAN)
    if not malformed and r.random() < 0.15:
        shape["m"].append(["zextra", dict(t="sig", w=1)])
    case["parent"] = dict(kind="anon", shape=shape, extra=[])
    return case


def small_tree_cases():
    """Whole trees: depth <= 2, at most 2 sub-bundles, one leaf per node, 6 leaf kinds, root flips {none, flipped()},
    sub flips {none, constructor, flipped()}; port instantiation; role HOST on every instance."""
    kinds = [LEAF_KINDS8[i] for i in (0, 1, 2, 3, 4, 7)]
    cases = []

    def leaf(n, k):
        return dict(n=n, w=1, k=k[0], src=k[1], dest=k[2])
    for rk in kinds:
        for rf in (0, 2):
            for nsub in (0, 1, 2):
                for combo in itertools.product(itertools.product(range(3), kinds), repeat=nsub):
                    defs = []
                    subs = []
                    for i, (sf, sk) in enumerate(combo):
                        defs.append(dict(name=f"S{i}", style="proc", rstyle="names", roles=ROLES, sigs=[leaf("l", sk)], subs=[]))
                        subs.append(dict(n=f"s{i}", d=i, role="HOST", **FLIPMECH[sf]))
                    defs.append(dict(name="R", style="proc", rstyle="names", roles=ROLES, sigs=[leaf("l", rk)], subs=subs))
                    cases.append(dict(defs=defs, top=len(defs) - 1, child=dict(n="b", port=True, role="HOST", extra=[], **FLIPMECH[rf]),
                                      probe=False, parent=None))
    return cases


def history_cases(maxlen=3):
    """Every history of 1..maxlen additions over the names p, q with the values {1 bit input, 2 bit output, instance of a
    two-leaf bundle, a value that is no attribute}, in each construction style (Bundle.add(name=), Bundle.add of a named value,
    attribute assignment, class body); the definition instantiated as a flipped port; every third case also instantiated by a
    parent that connects a bundle instance of the same definition."""
    leafdef = dict(name="Pn", style="proc", rstyle="names", roles=ROLES,
                   sigs=[dict(n="x", w=1, k="in", src=None, dest=None), dict(n="y", w=3, k="out", src=None, dest=None)], subs=[])
    vals = [lambda n: dict(t="sig", n=n, w=1, k="in", src=None, dest=None), lambda n: dict(t="sig", n=n, w=2, k="out", src=None, dest=None),
            lambda n: dict(t="sub", n=n, d=0, cf=False, fc=0, role=None), lambda n: dict(t="junk", n=n)]
    cases = []
    k = 0
    for ln in range(1, maxlen + 1):
        for seq in itertools.product(itertools.product(("p", "q"), range(4)), repeat=ln):
            for style in ("add", "addn", "set", "class"):
                d = dict(name="H", style="class" if style == "class" else "proc", rstyle="names", roles=ROLES)
                ops = [vals[v](n) for n, v in seq]
                if style != "class":
                    ops = [dict(o, via=style) for o in ops]
                set_ops(d, ops)
                case = dict(defs=[dict(leafdef), d], top=1, child=dict(n="b", port=True, cf=True, fc=0, role=None, extra=[]), probe=False, parent=None)
                if k % 3 == 0 and (d["sigs"] or d["subs"]):
                    case["parent"] = dict(kind="inst", n="x", port=False, cf=False, fc=0, role=None, extra=[], sibling=None)
                cases.append(case)
                k += 1
    return cases


def reachable_defs(case):
    defs = case["defs"]
    seen = set()

    def go(i):
        if i in seen:
            return
        seen.add(i)
        for x in defs[i]["subs"]:
            go(x["d"])
    go(case["top"])
    par = case.get("parent")
    if par is not None and par.get("d") is not None:
        go(par["d"])
    return seen


HIST_TARGETS = ([f"{a}->{b}:{v}" for v in ("add", "addn", "set", "class") for a, b in (("sig", "sub"), ("sub", "sig"), ("sig", "sig"), ("sub", "sub"))]
                + ["junk-refused:add", "junk-refused:set", "junk-over-member:class", "member-over-junk:class", "interleaved-kinds"])


def history_events(case):
    """Re-use events of the definitions whose members are observed (reachable from the instance under test through FINAL
    members): `<kind before> -> <kind now> : <spelling of the later addition>`."""
    ev = []
    for i in sorted(reachable_defs(case)):
        d = case["defs"][i]
        if d.get("ops") is None:
            continue
        cls = eff_class(d)
        held = {}
        kinds = []
        for o in d["ops"]:
            via = "class" if cls else (o.get("via") or ("add" if d.get("style") == "add" else "set"))
            prev = held.get(o["n"])
            if o["t"] == "junk":
                if not cls:
                    ev.append("junk-refused:" + ("set" if via == "set" else "add"))
                    continue
                if prev in ("sig", "sub"):
                    ev.append("junk-over-member:class")
            else:
                kinds.append(o["t"])
                if prev == "junk":
                    ev.append("member-over-junk:class")
                elif prev is not None:
                    ev.append(f"{prev}->{o['t']}:{via}")
            held[o["n"]] = o["t"]
        if any(a == "sub" and b == "sig" for a, b in zip(kinds, kinds[1:])):
            ev.append("interleaved-kinds")
    return ev


def history_stats(cases, outs):
    cnt = {t: 0 for t in HIST_TARGETS}
    with_hist = 0
    for c, o in zip(cases, outs):
        if o["err"] is not None:
            continue
        ev = history_events(c)
        with_hist += bool(ev)
        for e in set(ev):
            cnt[e] = cnt.get(e, 0) + 1
    return with_hist, cnt


def corpus():
    base = dict(name="Base", style="class", roles=[], sigs=[dict(n="i", w=1, k="in"), dict(n="o", w=1, k="out")], subs=[])
    nested = dict(name="Nested", style="class", roles=[], sigs=[dict(n="ni", w=1, k="in"), dict(n="no", w=1, k="out")],
                  subs=[dict(n="b", d=0, cf=False, fc=1, role=None)])
    nested2 = dict(name="NestedSquared", style="class", roles=[], sigs=[dict(n="n2i", w=1, k="in"), dict(n="n2o", w=1, k="out")],
                   subs=[dict(n="n", d=1, cf=False, fc=1, role=None)])
    rb = dict(name="RB", style="class", rstyle="anon", roles=["Host", "Device"],
              sigs=[dict(n="tx", w=1, k="sig", src="Host", dest="Device"), dict(n="rx", w=3, k="sig", src="Device", dest="Host")], subs=[])
    b4 = dict(name="B", style="class", roles=[], sigs=[dict(n="i", w=1, k="in"), dict(n="o", w=2, k="out"), dict(n="io", w=1, k="inout"), dict(n="p", w=1, k="none")], subs=[])
    coll = dict(name="Coll", style="proc", roles=[], sigs=[dict(n="a_i", w=2, k="in"), dict(n="i", w=3, k="out")],
                subs=[dict(n="a", d=0, cf=True, fc=0, role=None)])
    pn = dict(name="Pn", style="add", roles=[], sigs=[dict(n="p", w=1, k="out"), dict(n="n", w=1, k="out")], subs=[])
    bus = set_ops(dict(name="Bus", style="add", roles=[]),
                  [dict(t="sig", via="addn", n="clk", w=1, k="in"), dict(t="sig", via="addn", n="d", w=4, k="out"),
                   dict(t="sub", via="addn", n="d", d=0, cf=False, fc=0, role=None)])
    sub = set_ops(dict(name="Sub", style="proc", roles=[]),
                  [dict(t="sub", via="add", n="d", d=0, cf=False, fc=1, role=None), dict(t="sig", via="add", n="clk", w=1, k="in"),
                   dict(t="sig", via="add", n="d", w=4, k="out")])
    return [
        # S1 (seeded change C10r4-C): member d, first a 4 bit bus, re-added with Bundle.add as a differential sub-bundle
        dict(defs=[pn, bus], top=1, child=dict(n="bus", port=True, cf=True, fc=0, role=None, extra=[]), probe=False,
             parent=dict(kind="inst", n="bus", port=False, cf=False, fc=0, role=None, extra=[], sibling=None)),
        # S2: the reverse - a sub-bundle re-added as a signal
        dict(defs=[pn, sub], top=1, child=dict(n="b", port=True, cf=False, fc=0, role=None, extra=[]), probe=True, parent=None),
        # W1 (pinned tree): anonymous roles h.Roles(2) all compare equal -> tx of a Device-roled port exported as OUTPUT
        dict(defs=[rb], top=0, child=dict(n="b", port=True, cf=False, fc=0, role="Device", extra=[]), probe=False, parent=None),
        # W2 (pinned tree): a flipped copy shares _connected_ports with the original -> the child is wired to the copy
        dict(defs=[b4], top=0, child=dict(n="b", port=True, cf=False, fc=0, role=None, extra=[]), probe=False,
             parent=dict(kind="inst", n="x", port=False, cf=False, fc=0, role=None, extra=[], sibling="flipped")),
        # W3 (pinned tree): the copy also shares refs_to_me -> member references of the original fail to resolve
        dict(defs=[b4], top=0, child=dict(n="b", port=True, cf=False, fc=0, role=None, extra=[]), probe=True,
             parent=dict(kind="inst", n="x", port=False, cf=False, fc=0, role=None, extra=[], sibling="flipped")),
        dict(defs=[b4], top=0, child=dict(n="b", port=True, cf=False, fc=0, role=None, extra=[]), probe=False,
             parent=dict(kind="inst", n="x", port=False, cf=False, fc=0, role=None, extra=[], sibling="mul")),
        # the suite's trees: test_flipped, test_nested_flipping
        dict(defs=[b4], top=0, child=dict(n="b", port=True, cf=True, fc=0, role=None, extra=[]), probe=False,
             parent=dict(kind="inst", n="x", port=False, cf=False, fc=0, role=None, extra=[], sibling=None)),
        dict(defs=[base, nested, nested2], top=2, child=dict(n="n", port=True, cf=False, fc=1, role=None, extra=[]), probe=True, parent=None),
        # colliding joined names: leaf a_i and member i of sub-bundle a; a pre-existing signal b_i
        dict(defs=[base, coll], top=1, child=dict(n="b", port=True, cf=False, fc=0, role=None, extra=["b_i"]), probe=True,
             parent=dict(kind="inst", n="b", port=False, cf=False, fc=1, role=None, extra=["b_a_i"], sibling=None)),
        # internal instantiation
        dict(defs=[base, nested], top=1, child=dict(n="n", port=False, cf=True, fc=1, role=None, extra=[]), probe=True, parent=None),
    ]


# ------------------------------------------------------------------------------------------------ run
def evaluate(run, stream, cases, chunk=60):
    outs = core.run_worker_sharded("c10", cases)
    strs = [c_case(c, o) for c, o in zip(cases, outs)]
    bad = core.coq_eval_cases("C10", stream, IMPORTS, "hcase", strs, "run_cases chkh", chunk=chunk)
    return outs, bad


def category(case, out):
    """Coarse class of a failing case, so that one stream reports the smallest case of EACH kind of failure."""
    par = case.get("parent")
    if any("->" in e or "junk" in e for e in history_events(case)):
        return "re-used-name"
    if par is not None and par.get("sibling"):
        return "copied-instance"
    if out["err"] is not None:
        return "rejected"
    if any(d.get("rstyle") in ("anon", "mul") and d.get("roles") for d in case["defs"]):
        return "unnamed-roles"
    return "other"


def report(run, stream, bad, cases, outs):
    v1 = sorted([i for i, c in bad if c == 1], key=lambda i: case_size(cases[i]))
    v2 = sorted([i for i, c in bad if c == 2], key=lambda i: case_size(cases[i]))
    seen = {}
    for i in v1:
        seen.setdefault(category(cases[i], outs[i]), i)
    for cat, i in sorted(seen.items()):
        key = "C10:" + json.dumps(cases[i], sort_keys=True)
        n_cat = sum(1 for j in v1 if category(cases[j], outs[j]) == cat)
        run.violation(key, f"flattened bundle ports/connections violate the specification (stream {stream}, class {cat}): impl={json.dumps(outs[i])[:400]}",
                      dict(kind="impl-violates-spec", stream=stream, failure_class=cat, case=cases[i], impl=outs[i], failing_cases=len(v1),
                           failing_cases_of_class=n_cat,
                           reproducer="./check C10 --replay <this file>   (or: echo '{\"jobs\":[<case>]}' | PYTHONPATH=$VERIF_REPO:harness/impl /venv/bin/python harness/impl/c10.py)"))
    if v2 and not v1:
        i = v2[0]
        run.violation(f"C10:{stream}:tie", f"model and implementation differ on a case of stream {stream} (specification holds on every explored input)",
                      dict(kind="correspondence-broken", stream=stream, case=cases[i], impl=outs[i], disagreeing_cases=len(v2),
                           theorem="C10 correspondence stream " + stream), found_input=False)
    return len(v1), len(v2)


def coverage_check(run, stream, cnt, wanted):
    """fail closed: a declared re-use class that no accepted case of the stream exercised is reported"""
    missed = [t for t in wanted if cnt.get(t, 0) == 0]
    if missed:
        run.violation(f"C10:coverage:{stream}:" + ",".join(missed),
                      f"coverage target missed in stream {stream}: no accepted case whose observed definition has the re-use class(es) {missed} (fail closed)",
                      dict(kind="coverage-target-missed", stream=stream, missed=missed, counts=cnt), found_input=False)


CORE_TARGETS = [f"{a}->{b}:{v}" for v in ("add", "addn", "set", "class") for a, b in (("sig", "sub"), ("sub", "sig"), ("sig", "sig"))] + \
               ["junk-refused:add", "junk-refused:set", "junk-over-member:class", "interleaved-kinds"]


def stats(cases, outs):
    n = len(cases)
    with_hist, cnt = history_stats(cases, outs)
    return dict(
        defs_with_history=sum(1 for c in cases for d in c["defs"] if d.get("ops") is not None),
        accepted_cases_with_reuse_in_an_observed_definition=with_hist,
        reuse_classes=cnt,
        rejected=sum(1 for o in outs if o["err"] is not None),
        port=sum(1 for c in cases if c["child"]["port"]),
        internal=sum(1 for c in cases if not c["child"]["port"]),
        with_probes=sum(1 for c in cases if c.get("probe")),
        parent_inst=sum(1 for c in cases if c.get("parent") and c["parent"]["kind"] == "inst"),
        parent_anon=sum(1 for c in cases if c.get("parent") and c["parent"]["kind"] == "anon"),
        parent_sibling=sum(1 for c in cases if c.get("parent") and c["parent"].get("sibling")),
        parent_via=sum(1 for c in cases if c.get("parent") and c["parent"].get("via")),
        depth={d: sum(1 for c in cases if depth_of(c["defs"], c["top"]) == d) for d in (1, 2, 3)},
        leaves_total=sum(len(leaf_paths(c["defs"], c["top"])) for c in cases),
        renamed=sum(1 for c, o in zip(cases, outs) if o["err"] is None and any(nm.endswith("_") for nm, _, _ in o["child"]["ports"])),
    )


def run(run, tier, seed, replay=None):
    quick = tier == "quick"
    total = 0
    if replay is not None and "case" in replay:
        cases = [replay["case"]]
        outs, bad = evaluate(run, "replay", cases)
        run.stream("replay", 1, 1)
        report(run, "replay", bad, cases, outs)
        run.sample(dict(stream="replay", case=cases[0], impl=outs[0], codes=bad))
        return
    # ---------------------------------------------------------------- corpus
    cases = corpus()
    outs, bad = evaluate(run, "corpus", cases)
    run.stream("corpus", len(cases), sum(1 for c in cases if nontrivial(c)), rule="pinned-tree witnesses and the test-suite's trees", **stats(cases, outs))
    report(run, "corpus", bad, cases, outs)
    run.sample(dict(stream="corpus", case=cases[0], impl=outs[0]))
    total += len(cases)
    # ---------------------------------------------------------------- every leaf context (exhaustive)
    cases = context_cases()
    outs, bad = evaluate(run, "contexts", cases)
    nctx = sum(len(leaf_paths(c["defs"], c["top"])) for c in cases)
    run.stream("leaf-contexts", len(cases), len({json.dumps(c, sort_keys=True) for c in cases if nontrivial(c)}), exhaustive=True,
               leaf_contexts=nctx,
               box="8 leaf kinds x every placement of none/constructor/flipped() over chains of depth 1..3 x role of the containing instance "
                   "(none/HOST/DEVICE/OTHER) x port/internal x width 1/3; all 8 kinds at every level of every chain",
               rule="non-trivial = >= 2 leaves and (a flip, a role, a nested bundle or a connection); distinct by case", **stats(cases, outs))
    report(run, "contexts", bad, cases, outs)
    run.sample(dict(stream="contexts", case=cases[len(cases) // 2], impl=outs[len(cases) // 2]))
    total += len(cases)
    # ---------------------------------------------------------------- every short construction history (exhaustive)
    cases = history_cases(3 if quick else 4)
    outs, bad = evaluate(run, "histories", cases, chunk=150)
    st = stats(cases, outs)
    run.stream("construction-histories", len(cases), len({json.dumps(c, sort_keys=True) for c in cases if history_events(c)}), exhaustive=True,
               box=f"every sequence of 1..{3 if quick else 4} additions over 2 names x 4 values (1 bit input, 2 bit output, instance of a two-leaf bundle, "
                   "a value that is no attribute) x 4 construction styles (Bundle.add(name=), Bundle.add of a named value, attribute assignment, class body)",
               rule="non-trivial = the observed definition has a re-used name, a refused/forgotten value or interleaved kinds; distinct by case", **st)
    report(run, "histories", bad, cases, outs)
    coverage_check(run, "histories", st["reuse_classes"], HIST_TARGETS)
    run.sample(dict(stream="histories", case=cases[len(cases) // 2], impl=outs[len(cases) // 2]))
    total += len(cases)
    # ---------------------------------------------------------------- whole small trees (thorough)
    if not quick:
        cases = small_tree_cases()
        outs, bad = evaluate(run, "smalltrees", cases, chunk=150)
        run.stream("small-trees", len(cases), len({json.dumps(c, sort_keys=True) for c in cases if nontrivial(c)}), exhaustive=True,
                   box="depth <= 2, <= 2 sub-bundles, one leaf per node, 6 leaf kinds, root flips none/flipped(), sub flips none/constructor/flipped()",
                   rule="non-trivial = >= 2 leaves and (a flip, a role, a nested bundle or a connection)", **stats(cases, outs))
        report(run, "smalltrees", bad, cases, outs)
        total += len(cases)
    # ---------------------------------------------------------------- structured random trees
    n = 700 if quick else 20000
    cases = [gen_case(core.rng(seed, "C10", "random", k)) for k in range(n)]
    outs, bad = evaluate(run, "random", cases)
    st = stats(cases, outs)
    run.stream("random-trees", len(cases), len({json.dumps(c, sort_keys=True) for c in cases if nontrivial(c)}),
               rule="non-trivial = >= 2 leaves and (a flip, a role, a nested bundle or a connection); distinct by case", **st)
    report(run, "random", bad, cases, outs)
    coverage_check(run, "random", st["reuse_classes"], CORE_TARGETS)
    run.sample(dict(stream="random", case=cases[-1], impl=outs[-1]))
    total += len(cases)
    # ---------------------------------------------------------------- malformed: a member missing on the parent side
    n = 150 if quick else 2000
    cases = [gen_case(core.rng(seed, "C10", "malformed", k), malformed=True) for k in range(n)]
    cases = [c for c in cases if c.get("parent") is not None]
    outs, bad = evaluate(run, "malformed", cases)
    run.stream("malformed-connections", len(cases), len({json.dumps(c, sort_keys=True) for c in cases}),
               rule="anonymous bundle lacking one member of the port's definition (must be rejected); distinct by case", **stats(cases, outs))
    report(run, "malformed", bad, cases, outs)
    total += len(cases)
    run.coverage["traces_validated_against_impl"] = total
