"""C09 — generator calls are memoised and their modules uniquely named (DESIGN.md 6.13).

A case is a GROUP of histories over one universe (paramclasses, generators, a table saying what each
generator body does for given parameters).  Every history runs in its own process (fork of a freshly
imported hdl21); Coq evaluates the property's specification on the observations of all histories of the
group (identities, body runs, names at return / at the end / in the exported package, names across
histories) and compares them with the model (Model/GenCache.v, Model/ParamName.v)."""
import json, itertools
from decimal import Decimal, Context, MAX_PREC, MAX_EMAX, MIN_EMIN
from concurrent.futures import ThreadPoolExecutor
from . import core
from .core import cstr, cbool, clist

IMPORTS = ("Require Import Hdl21.Base.PyInt Hdl21.Model.ParamName Hdl21.Model.GenCache Hdl21.Model.GenUniverse Hdl21.Corr.C03 Hdl21.Corr.C09.\n"
           "From Coq Require Import String.\nOpen Scope string_scope.")


# ------------------------------------------------------------------------------------------------
# Coq printers
# ------------------------------------------------------------------------------------------------
def c_dtype(d):
    t = d[0]
    if t in ("int", "float", "str", "bool", "ref", "scalar", "pref", "dec", "obj", "mut"):
        return {"int": "DInt", "float": "DFloat", "str": "DStr", "bool": "DBool", "ref": "DRef",
                "scalar": "DScalar", "pref": "DPref", "dec": "DDec", "obj": "DObj", "mut": "DMut"}[t]
    if t == "opt":
        return f"(DOpt {c_dtype(d[1])})"
    if t == "enum":
        return f"(DEnum {d[1]}%N)"
    if t == "rec":
        return f"(DRec {clist(d[1], c_dtype)})"
    raise ValueError(d)


def c_dec(sign, coef, exp):
    return f"(Dec.mkDec {cbool(bool(sign))} {int(coef)}%N {core.cz(int(exp))})"


def dec_tuple(text):
    """(sign, coefficient, exponent) of the Decimal the implementation driver builds from `text`"""
    sign, digits, exp = Decimal(text).as_tuple()
    return sign, int("".join(str(x) for x in digits) or "0"), exp


def c_val(v):
    t = v[0]
    if t == "P":        # written: Prefixed(number=Decimal(text), prefix=Prefix(q))
        return f"(VPrefW {c_dec(*dec_tuple(v[1]))} {core.cz(v[2])})"
    if t == "D":        # written: Decimal(text)
        return f"(VDecW {c_dec(*dec_tuple(v[1]))})"
    if t == "L":
        return f"(VLit {cstr(v[1])})"
    if t == "Pw":       # observed: number (sign, coefficient, exponent) and prefix of the held Prefixed
        return f"(VPrefW {c_dec(v[1], v[2], v[3])} {core.cz(v[4])})"
    if t == "Dw":
        return f"(VDecW {c_dec(v[1], v[2], v[3])})"
    if t == "n":
        return "VNone"
    if t == "i":
        return f"(VInt ({v[1]}))"
    if t == "f":
        return f"(VFloat {cstr(v[1])})"
    if t == "s":
        return f"(VStr {cstr(v[1])})"
    if t == "b":
        return f"(VBool {cbool(v[1])})"
    if t == "e":
        return f"(VEnum {v[1]}%N)"
    if t == "r":
        return f"(VRef {v[1]}%N)"
    if t == "o":
        return f"(VObj {v[1]}%N)"
    if t == "m":
        return f"(VMut {v[1]}%N)"
    if t == "R":
        return f"(VRec {clist(v[1], c_val)})"
    if t == "?":
        return '(VRec [VStr "?outside the value grammar"])'
    raise ValueError(v)


def c_oval(v):
    return "None" if v is None else f"(Some {c_val(v)})"


def c_field(f):
    return f"(Build_field {cstr(f['name'])} {c_dtype(f['dtype'])} {c_oval(f.get('default'))})"


def c_gen(g):
    return f"(Build_gen {cstr(g['name'])} {clist(g['fields'], c_field)})"


def c_call(c):
    return f"({c[0]}%nat, {clist(c[1], c_oval)})"


def c_ret(r):
    if r[0] == "fresh":
        return "(RFresh None)" if r[1] is None else f"(RFresh (Some {cstr(r[1])}))"
    return f"(RPass {r[1]}%nat)"


def c_entry(e):
    return f"(Build_entry {e['gen']}%nat {clist(e['args'], c_oval)} {clist(e['calls'], c_call)} {c_ret(e['ret'])})"


def ascii_ok(s):
    return all(32 <= ord(ch) < 127 for ch in s)


def c_obs(o):
    if o[0] == "rej":
        return "ORej"
    return f"(OAcc {o[1]}%nat {cstr(o[2])})"


def c_hist(calls, out):
    fin = clist(out["final"], lambda f: f"({f[0]}%nat, {cstr(f[1])}, {cstr(f[2])})")
    runs = clist(out["runs"], lambda r: f"({r[0]}%nat, {clist(r[1], c_val)})")
    clean = out.get("cache", {}).get("pending", 1) == 0 and out.get("cache", {}).get("stack", 1) == 0
    return f"(Build_hobs {clist(calls, c_call)} {clist(out['obs'], c_obs)} {fin} {runs} {cbool(out['exported'])} {cbool(clean)})"


def c_group(g, outs):
    return (f"(Build_gcase {clist(g['univ'], c_gen)}\n   {clist(g['table'], c_entry)}\n   "
            + clist([(h, o) for h, o in zip(g["hists"], outs)], lambda p: c_hist(*p)) + ")")


# ------------------------------------------------------------------------------------------------
# running groups on the implementation
# ------------------------------------------------------------------------------------------------
def run_groups(groups, nshard=None):
    """Every history of every group in its own process; the histories of one group are spread over
    interpreters started with different hash seeds."""
    jobs, seeded = [], {}
    for gi, g in enumerate(groups):
        for hi, h in enumerate(g["hists"]):
            # every interpreter of a group shifts its heap by another amount (names must not depend on addresses)
            job = (gi, hi, dict(univ=g["univ"], table=g["table"], calls=h, builtin=g.get("builtin", False),
                                ballast=(hi * 1009 + gi * 17) % 7919))
            if g.get("seeds"):
                # the group names the PYTHONHASHSEED of the interpreter of each of its histories (part of the replay)
                seeded.setdefault(int(g["seeds"][hi % len(g["seeds"])]), []).append(job)
            else:
                jobs.append(job)
    nshard = nshard or max(1, min(core.NPROC, (len(jobs) + 19) // 20))
    shards = [(str(s * 7919 + 1), jobs[s::nshard]) for s in range(nshard)]
    for seed, js in sorted(seeded.items()):
        k = max(1, (len(js) + 59) // 60)
        shards += [(str(seed), js[i::k]) for i in range(k)]

    def one(arg):
        seed, sh = arg
        if not sh:
            return []
        return core.run_worker("c09", dict(jobs=[j[2] for j in sh]), timeout=1500, hashseed=seed)["results"]

    with ThreadPoolExecutor(max_workers=max(1, min(core.NPROC, len(shards)))) as ex:
        outs = list(ex.map(one, shards))
    res = [[None] * len(g["hists"]) for g in groups]
    for s, out in enumerate(outs):
        for (gi, hi, _), o in zip(shards[s][1], out):
            if "driver_error" in o:
                raise RuntimeError(f"c09 driver error on group {gi} history {hi}: {o['driver_error']}")
            res[gi][hi] = o
    return res


def outputs_printable(outs):
    for o in outs:
        for x in o["obs"]:
            if x[0] == "acc" and not (isinstance(x[2], str) and ascii_ok(x[2])):
                return False
        for f in o["final"]:
            if not (isinstance(f[1], str) and ascii_ok(f[1]) and ascii_ok(f[2])):
                return False
    return True


# ------------------------------------------------------------------------------------------------
# case generation
# ------------------------------------------------------------------------------------------------
ADV_STR = ["", "x", "y", "z", "x b=y", "y b=z", "None", "a=1", " ", "=", "x y", "x=y", "(", ")", "a)(b", "b=", " b=",
           "1", "1.0", "True", "null", '"', "'", "\\", "x  y", "a b=c d=e", "{", "#", "0", "-0.0"]
INTS = [0, 1, -1, 2, 3, 7, 10, 255, -12, 10 ** 20, -(10 ** 18), 999999999999999]
FLOATS = [0.0, -0.0, 1.0, 1.5, -2.5, 1e-11, 1e22, 3.14159, 1e-05, 0.1, 2.0, 1e16, 123456.789, float("inf"), float("-inf"),
          5e-324, 1.7976931348623157e308, float("nan")]


# classes of EQUAL values of a number-like field, each written in several ways (prefix, digits, type of the input)
SCALAR_CLASSES = [
    [["P", "2", 3], ["P", "2000", 0], ["P", "2000000", -3], ["P", "2.000", 3], ["i", 2000], ["f", "2000.0"], ["s", "2000"],
     ["s", "2.0e3"], ["s", " 2_000 "], ["D", "2E+3"], ["P", "0.002", 6], ["P", "20", 2]],
    [["P", "0.5", 0], ["P", "500", -3], ["f", "0.5"], ["s", ".5"], ["s", "5e-1"], ["D", "0.50"], ["P", "5", -1], ["P", "50", -2]],
    [["i", 0], ["P", "0", 0], ["P", "-0", 3], ["s", "0.00"], ["f", "0.0"], ["f", "-0.0"], ["D", "0E+5"], ["P", "0.000", -24], ["s", "-0"]],
    [["P", "1", -12], ["f", "1e-12"], ["s", "1e-12"], ["P", "1000", -15], ["P", "0.001", -9], ["D", "0.000000000001"]],
    [["f", "-2.5e-07"], ["P", "-250", -9], ["P", "-0.25", -6], ["s", "-2.5E-7"], ["D", "-0.00000025"]],
    [["i", 2001], ["P", "2.001", 3], ["s", "2001.0"]],
    [["P", "1", 24], ["i", 10 ** 24], ["s", "1e24"], ["P", "1000", 21]],
    [["D", "0.1"], ["P", "100", -3], ["f", "0.1"], ["s", "+.1"]],
    [["D", "0.10000000000000000001"], ["P", "100.00000000000000001", -3]],
    [["s", "w/5"], ["L", "w/5"]],
    [["s", "2*l"], ["L", "2*l"]],
    [["L", "2000"]],
    [["s", "nan"], ["L", "nan"]],
    [["f", "2.5e-07"], ["P", "250", -9], ["s", "+2.5E-7"]],          # the opposite of class 4
    [["P", "2", 0], ["i", 2], ["s", "2.000"], ["P", "2000", -3]],      # the digits of class 0 at another prefix
]
PREF_CLASSES = [[v for v in c if v[0] == "P"] for c in SCALAR_CLASSES]
PREF_CLASSES = [c for c in PREF_CLASSES if c]
DEC_CLASSES = [
    [["D", "2"], ["D", "2.0"], ["i", 2], ["s", "2.00"], ["f", "2.0"], ["s", " 2 "], ["D", "0.2E+1"]],
    [["D", "0.1"], ["f", "0.1"], ["s", ".1"], ["D", "0.10"]],
    [["D", "0.10000000000000000001"]],
    [["i", 0], ["D", "-0.0"], ["s", "0e5"], ["f", "-0.0"]],
    [["D", "1E+30"], ["i", 10 ** 30], ["s", "1_000e27"]],
    [["D", "-7.5"], ["f", "-7.5"], ["s", "-75e-1"]],
]
NUM_CLASSES = {"scalar": SCALAR_CLASSES, "pref": PREF_CLASSES, "dec": DEC_CLASSES}
NREF = 16
# UNHASHABLE values (harness/impl/c09.py Universe.mut): lists, dicts, sets - validated, but hash(call) raises
NMUT = 8
MUT_KIND = {0: "list", 1: "list", 2: "dict", 3: "set", 4: "list_of_lists", 5: "list", 6: "dict", 7: "set"}
MUT_VARIANTS = {0: 3, 1: 2, 2: 3, 3: 3, 4: 2, 5: 2, 6: 2, 7: 2}
# objects WITHOUT a JSON form (harness/impl/c09.py Universe.obj): functions, lambdas, user objects, an Instance ...
NOBJ = 15
OBJ_KIND = {0: "function", 1: "lambda", 2: "user_object", 3: "user_value_object", 4: "user_value_object", 5: "instance",
            6: "builtin", 7: "partial", 8: "lossy_repr_object", 9: "lossy_repr_object", 10: "bound_method", 11: "class",
            12: "lambda", 13: "closure", 14: "closure"}    # 1 / 12 and 13 / 14: different functions with one qualified name
OBJ_VARIANTS = {3: 3, 4: 2, 8: 2, 9: 2, 10: 2}     # value types: equal objects built separately
REF_KIND = {0: "module", 1: "module", 8: "module", 2: "generator", 3: "extmodule", 4: "primcall", 5: "primcall", 9: "primcall",
            6: "extcall", 7: "extcall", 10: "frozenset", 11: "frozenset",
            12: "frozenset_of_frozensets", 13: "frozenset_members_with_equal_str", 14: "frozenset_of_frozensets", 15: "frozenset_members_with_equal_str"}
REF_VARIANTS = {4: 4, 5: 3, 6: 3, 7: 3, 9: 3, 10: 3, 11: 2, 12: 3, 13: 3, 14: 2, 15: 2}

_EXACT = Context(prec=MAX_PREC, Emax=MAX_EMAX, Emin=MIN_EMIN)


def value_id(kind, v):
    """Harness-side identity of the VALUE a written number-like argument denotes (used for coverage counting and
    for re-writing an argument as an equal one; the verdict never depends on it)."""
    t = v[0]
    if t == "L":
        return ("L", v[1])
    if t == "s":
        try:
            d = Decimal(v[1])
            if not d.is_finite():
                raise ValueError
        except Exception:
            return ("L", v[1]) if kind == "scalar" else ("bad", v[1])
    elif t == "P":
        d = Decimal(v[1]).scaleb(v[2], _EXACT)
    elif t in ("D", "f"):
        d = Decimal(v[1])
    elif t == "i":
        d = Decimal(v[1])
    else:
        return ("other", json.dumps(v))
    d = d.normalize(_EXACT)
    return ("N", "0" if not d else str(d))


def num_class(kind, v):
    vid = value_id(kind, v)
    for c in NUM_CLASSES[kind]:
        if value_id(kind, c[0]) == vid:
            return c
    return None


def with_form(r, v):
    return v + [r.choice(["new", "mul", "ctor"])] if v[0] == "P" and len(v) == 3 else v


def S(s):
    return ["s", s]


def I(n):
    return ["i", n]


def F(x):
    return ["f", repr(float(x))]


def gen_dtype(r, depth=2):
    k = r.choices(["int", "float", "str", "bool", "opt", "enum", "ref", "rec", "scalar", "pref", "dec", "obj", "mut"],
                  [5, 4, 6, 1, 5, 2, 3, 3 if depth > 0 else 0, 6, 1, 2, 1, 1])[0]
    if k == "opt":
        return ["opt", [r.choice(["int", "float", "float", "str", "scalar", "scalar", "dec", "obj", "obj", "mut"])]]
    if k == "enum":
        return ["enum", r.choice([2, 3])]
    if k == "rec":
        return ["rec", [gen_dtype(r, depth - 1) for _ in range(r.choice([1, 2]))]]
    return [k]


def gen_scalar_dtype(r):
    k = r.choices(["int", "float", "str", "opt"], [3, 3, 5, 3])[0]
    return ["opt", [r.choice(["int", "float", "str"])]] if k == "opt" else [k]


def gen_value(r, d, bad=0.0):
    """A value as a caller would write it (sometimes in a form that needs coercion)."""
    t = d[0]
    if r.random() < bad:
        return r.choice([S("oops"), ["n"], ["R", [I(1)]], ["f", "1.5"], ["r", 0], I(3)])
    if t == "int":
        u = r.random()
        if u < 0.1:
            return ["b", r.choice([True, False])]
        return I(r.choice(INTS) if u < 0.8 else r.randint(-50, 50))
    if t == "float":
        u = r.random()
        if u < 0.2:
            return I(r.choice([0, 1, 2, -1, 3, 10, 999999999999999]))
        if u < 0.25:
            return ["b", r.choice([True, False])]
        if u < 0.85:
            return F(r.choice(FLOATS))
        x = round(r.uniform(-1e3, 1e3), r.choice([0, 1, 3])) * 10.0 ** r.choice([0, 0, -12, 9])
        return F(x if x != 0 else 0.0)
    if t == "str":
        u = r.random()
        if u < 0.75:
            return S(r.choice(ADV_STR))
        n = r.choice([3, 8, 40, 100, 120, 125, 130])
        return S("".join(r.choice("abxy =_1") for _ in range(n)))
    if t == "bool":
        return ["b", r.choice([True, False])]
    if t == "opt":
        return ["n"] if r.random() < (0.5 if d[1][0] == "obj" else 0.3) else gen_value(r, d[1], 0)
    if t == "obj":
        i = r.choice([0, 1, 2, 3, 3, 4, 5, 8, 9, 12, 13, 14]) if r.random() < 0.8 else r.randrange(NOBJ)
        return ["o", i, r.randrange(OBJ_VARIANTS.get(i, 1))]
    if t == "mut":
        i = r.randrange(NMUT)
        return ["m", i, r.randrange(MUT_VARIANTS[i])]
    if t == "enum":
        return ["e", r.randrange(d[1]), r.choice(["member", "value"])]
    if t == "ref":
        i = r.randrange(NREF)
        return ["r", i, r.randrange(REF_VARIANTS.get(i, 1))]
    if t in NUM_CLASSES:
        cs = NUM_CLASSES[t]
        # mostly from a few classes, so that equal values written differently meet inside one group
        c = cs[r.randrange(3)] if r.random() < 0.6 else r.choice(cs)
        return with_form(r, list(r.choice(c)))
    if t == "rec":
        return ["R", [gen_value(r, dd, 0) for dd in d[1]], r.choice(["inst", "dict"])]
    raise ValueError(d)


IDENTS = ["a", "b", "c", "w", "nser", "width", "f", "vt"]


def gen_class(r, scalar_only):
    n = r.choice([1, 2, 2, 3, 4])
    names = r.sample(IDENTS, n)
    fields = []
    for nm in names:
        d = gen_scalar_dtype(r) if scalar_only else gen_dtype(r)
        f = dict(name=nm, dtype=d, default=None)
        fields.append(f)
    # defaults only on a suffix of the fields (dataclass rule)
    k = r.randint(0, n)
    for f in fields[k:]:
        if '"mut"' in json.dumps(f["dtype"]):
            # a list / dict / set is no default of a dataclass field ("mutable default ... is not allowed")
            if f["dtype"][0] == "opt":
                f["default"] = ["n"]
                continue
            for ff in fields:
                ff["default"] = None
            break
        f["default"] = strip_form(gen_value(r, f["dtype"], 0))
        f["default"] = denan(f["default"])      # NaN is no parameter value, and so no default
    return fields


def denan(v):
    if v is None:
        return v
    if v[0] == "f" and v[1] == "nan":
        return ["f", "1.5"]
    if v[0] == "R":
        return ["R", [denan(x) for x in v[1]]] + v[2:]
    return v


def strip_form(v):
    """Defaults are written as plain values (enum member / paramclass instance)."""
    if v[0] == "e":
        return ["e", v[1], "member"]
    if v[0] == "R":
        return ["R", [strip_form(x) for x in v[1]], "inst"]
    return v


def gen_args(r, fields, bad=0.0):
    args = []
    for f in fields:
        if f["default"] is not None and r.random() < 0.4:
            args.append(None)
        else:
            args.append(gen_value(r, f["dtype"], bad))
    return args


def rewrite_args(r, fields, args):
    """The same parameter value written differently: explicit default, coercible form, other enum / record form."""
    out = []
    for f, a in zip(fields, args):
        d = f["dtype"]
        while d[0] == "opt":
            d = d[1]
        if a is None:
            out.append(f["default"] if r.random() < 0.6 else None)
        elif d[0] in NUM_CLASSES and num_class(d[0], a) is not None:
            out.append(with_form(r, list(r.choice(num_class(d[0], a)))))
        elif a[0] == "r" and a[1] in REF_VARIANTS:
            out.append(["r", a[1], r.randrange(REF_VARIANTS[a[1]])])
        elif a[0] == "o" and a[1] in OBJ_VARIANTS:
            out.append(["o", a[1], r.randrange(OBJ_VARIANTS[a[1]])])
        elif a[0] == "m":
            out.append(["m", a[1], r.randrange(MUT_VARIANTS[a[1] % NMUT])])
        elif a[0] == "e":
            out.append(["e", a[1], "value" if a[2] == "member" else "member"])
        elif a[0] == "R":
            sub = rewrite_args(r, [dict(dtype=dd, default=None) for dd in d[1]], a[1]) if d[0] == "rec" and len(d[1]) == len(a[1]) else a[1]
            out.append(["R", sub, "dict" if a[2] == "inst" else "inst"])
        elif d[0] == "float" and a[0] == "f" and a[1] in ("0.0", "-0.0") and r.random() < 0.7:
            out.append(F(-float(a[1])))
        elif d[0] == "float" and a[0] == "f" and a[1] not in ("inf", "-inf", "nan") and float(a[1]) == int(float(a[1])) \
                and abs(int(float(a[1]))) < 10 ** 15:
            out.append(I(int(float(a[1]))))
        elif d[0] == "int" and a[0] == "i" and a[1] in (0, 1):
            out.append(["b", bool(a[1])])
        else:
            out.append(a)
    return out


GEN_NAMES = ["Amp", "Stack", "Cell", "Wrap", "Top5"]


def gen_group(r, scalar_only=False, bad=0.0, cyclic=0.0):
    ng = r.choice([1, 2, 2, 3, 3, 4])
    univ = [dict(name=GEN_NAMES[i], fields=gen_class(r, scalar_only or r.random() < 0.5)) for i in range(ng)]
    pools = []
    for g in univ:
        base = [gen_args(r, g["fields"]) for _ in range(r.choice([2, 3, 4]))]
        extra = [rewrite_args(r, g["fields"], a) for a in base if r.random() < 0.7]
        pools.append(base + extra)
    if r.random() < 0.3:
        # a NaN at a random float leaf of a random parameter set (any field, any depth of nested param-classes)
        cand = [(gi, a, p) for gi, g in enumerate(univ) for a in pools[gi] for p in float_leaves(g["fields"], a)]
        if cand:
            gi, a, path = r.choice(cand)
            pools[gi].append(set_leaf(a, path, F(float("nan"))))
    table = []
    # (a NaN is no parameter value: such calls are made by the histories, but are not table entries or nested calls)
    #  likewise a call with an UNHASHABLE value: it has no cache key, the model's table is over keys)
    has_nan = lambda a: '["f", "nan"]' in json.dumps(a) or '["m", ' in json.dumps(a)
    for gi, g in enumerate(univ):
        for a in pools[gi]:
            if r.random() < 0.45 or has_nan(a) or any(f["default"] is not None and has_nan(f["default"]) for f in g["fields"]):
                continue
            calls = []
            for _ in range(r.choice([0, 1, 1, 2, 3])):
                if r.random() < cyclic:
                    gj = r.randrange(ng)
                else:
                    if gi + 1 >= ng:
                        break
                    gj = r.randrange(gi + 1, ng)
                cand = [x for x in pools[gj] if not has_nan(x)] if not any(f["default"] is not None and has_nan(f["default"]) for f in univ[gj]["fields"]) else []
                if cand:
                    calls.append([gj, r.choice(cand), r.choice(["kw", "inst"])])
            if calls and r.random() < 0.6:
                ret = ["pass", r.randrange(len(calls))]
            else:
                ret = ["fresh", r.choice([None, None, f"Body{gi}"])]
            table.append(dict(gen=gi, args=a, calls=calls, ret=ret))
    allcalls = [[gi, a] for gi in range(ng) for a in pools[gi]]
    n = r.randint(3, 8)
    h1 = [r.choice(allcalls) + [r.choice(["kw", "inst"])] for _ in range(n)]
    if bad > 0:
        k = r.randrange(len(h1) + 1)
        gi = r.randrange(ng)
        h1.insert(k, [gi, gen_args(r, univ[gi]["fields"], bad=bad), "kw"])
    h2 = [c[:2] + [r.choice(["kw", "inst"])] for c in reversed(h1)]
    h3 = [c[:2] + [r.choice(["kw", "inst"])] for c in r.sample(h1, r.randint(1, len(h1)))]
    hists = [h1, h2, h3]
    if has_obj(json.dumps(univ)) or r.random() < 0.15:
        # the caller's retry: every call made again right away (a refused call is refused again, an answered one answered alike)
        hists.append([c[:2] + [r.choice(["kw", "inst"])] for c0 in h3 for c in (c0, c0)])
    return dict(univ=univ, table=table, hists=hists)


def float_leaves(fields, args):
    """paths of the float-typed leaves of a written argument list (any depth of nested param-classes)"""
    out = []

    def walk(d, v, path):
        while d[0] == "opt":
            d = d[1]
        if v is None or v[0] == "n":
            return
        if d[0] == "float" and v[0] in ("f", "i", "b"):
            out.append(path)
        elif d[0] == "rec" and v[0] == "R" and len(v[1]) == len(d[1]):
            for k, (dd, vv) in enumerate(zip(d[1], v[1])):
                walk(dd, vv, path + [k])
    for k, (f, a) in enumerate(zip(fields, args)):
        walk(f["dtype"], a, [k])
    return out


def set_leaf(args, path, val):
    args = json.loads(json.dumps(args))
    if len(path) == 1:
        args[path[0]] = val
        return args
    v = args[path[0]]
    for k in path[1:-1]:
        v = v[1][k]
    v[1][path[-1]] = val
    return args


def has_obj(txt):
    return '"obj"' in txt or '["o", ' in txt


# ---- corpus: pinned-tree witnesses and the adversarial shapes named by the property ----
def two_str_class(opt=False):
    d = ["opt", ["str"]] if opt else ["str"]
    return [dict(name="a", dtype=d, default=None), dict(name="b", dtype=d, default=None)]


def corpus():
    gs = []
    # 1. separator injection: one readable name for two parameter sets (pinned tree: exporter refuses)
    u = [dict(name="G", fields=two_str_class())]
    a1, a2 = [S("x b=y"), S("z")], [S("x"), S("y b=z")]
    gs.append(dict(univ=u, table=[], hists=[[[0, a1, "kw"], [0, a2, "kw"]], [[0, a2, "inst"], [0, a1, "kw"]]], tag="sep-injection"))
    # 2. None against the string "None"
    u = [dict(name="G", fields=[dict(name="a", dtype=["opt", ["str"]], default=["n"])])]
    gs.append(dict(univ=u, table=[], hists=[[[0, [["n"]], "kw"], [0, [S("None")], "kw"]], [[0, [None], "kw"], [0, [S("None")], "inst"]]], tag="none-vs-None"))
    # 3. hand-on: Outer returns Inner's module (pinned tree: renamed in place, name grows with the call history)
    f = [dict(name="w", dtype=["int"], default=I(1))]
    u = [dict(name="Outer", fields=f), dict(name="Outer2", fields=f), dict(name="Inner", fields=f)]
    t = [dict(gen=0, args=[I(k)], calls=[[2, [I(k)], "kw"]], ret=["pass", 0]) for k in (1, 2)] + \
        [dict(gen=1, args=[I(k)], calls=[[2, [I(k)], "inst"]], ret=["pass", 0]) for k in (1, 2)]
    gs.append(dict(univ=u, table=t, tag="hand-on", hists=[
        [[0, [I(1)], "kw"]],
        [[2, [I(1)], "kw"], [0, [I(1)], "kw"]],
        [[0, [I(1)], "kw"], [1, [I(1)], "kw"], [2, [I(1)], "kw"]],
        [[1, [None], "kw"], [0, [I(1)], "inst"], [0, [I(2)], "kw"], [2, [I(2)], "kw"]]]))
    # 4. the built-in MosStack -> Series -> Wrapper path (generator 0 = Series, 1 = MosStack)
    fb = [dict(name="nser", dtype=["int"], default=I(1))]
    ub = [dict(name="Series", fields=fb), dict(name="MosStack", fields=fb)]
    tb = [dict(gen=1, args=[I(k)], calls=[[0, [I(k)], "kw"]], ret=["pass", 0]) for k in (1, 2, 3)]
    gs.append(dict(univ=ub, table=tb, builtin=True, tag="builtin-MosStack", hists=[
        [[1, [I(1)], "kw"]],
        [[0, [I(1)], "kw"], [1, [I(1)], "kw"]],
        [[1, [I(2)], "kw"], [1, [I(2)], "inst"], [0, [I(2)], "kw"]],
        [[0, [I(2)], "kw"], [1, [I(2)], "kw"], [1, [I(1)], "kw"], [1, [I(3)], "kw"]]]))
    # 5. names pinned by the existing suite: gen1(w=3), g2(f=1e-11), g3a(width=1)
    u = [dict(name="gen1", fields=[dict(name="w", dtype=["int"], default=None)]),
         dict(name="g2", fields=[dict(name="f", dtype=["float"], default=None)])]
    gs.append(dict(univ=u, table=[], tag="suite-names", hists=[[[0, [I(3)], "kw"], [1, [F(1e-11)], "kw"], [0, [I(3)], "inst"]],
                                                               [[1, [F(1e-11)], "inst"], [0, [I(3)], "kw"]]]))
    # 6. int / float coercions and differently written equal numbers
    u = [dict(name="G", fields=[dict(name="f", dtype=["float"], default=F(1.0)), dict(name="i", dtype=["int"], default=I(1))])]
    hs = [[[0, [F(1.0), I(1)], "kw"], [0, [I(1), ["b", True]], "kw"], [0, [["b", True], None], "inst"], [0, [None, None], "kw"],
           [0, [F(2.0), I(1)], "kw"], [0, [I(2), I(1)], "kw"]],
          [[0, [I(2), None], "kw"], [0, [None, ["b", True]], "kw"], [0, [F(2.0), I(1)], "inst"]]]
    gs.append(dict(univ=u, table=[], hists=hs, tag="coercions"))
    # 7. recursion: G(n) calls G(n-1), hands on or wraps; and a cycle (rejected)
    f = [dict(name="n", dtype=["int"], default=None)]
    u = [dict(name="Rec", fields=f), dict(name="Cyc", fields=f)]
    t = [dict(gen=0, args=[I(k)], calls=[[0, [I(k - 1)], "kw"]], ret=["pass", 0] if k % 2 else ["fresh", None]) for k in (1, 2, 3, 4)]
    t += [dict(gen=1, args=[I(0)], calls=[[1, [I(1)], "kw"]], ret=["fresh", None]),
          dict(gen=1, args=[I(1)], calls=[[1, [I(0)], "kw"]], ret=["fresh", None])]
    gs.append(dict(univ=u, table=t, tag="recursion", hists=[
        [[0, [I(4)], "kw"], [0, [I(3)], "kw"], [0, [I(0)], "kw"]],
        [[0, [I(0)], "kw"], [0, [I(1)], "kw"], [0, [I(2)], "kw"], [0, [I(3)], "kw"], [0, [I(4)], "inst"]],
        [[0, [I(2)], "kw"], [1, [I(0)], "kw"]]]))
    # 8. shapes: enum, nested paramclass, Module/Generator valued, bool (always hashed)
    fs = [dict(name="a", dtype=["enum", 3], default=None), dict(name="b", dtype=["rec", [["int"], ["opt", ["str"]]]], default=None),
          dict(name="c", dtype=["ref"], default=["r", 0]), dict(name="f", dtype=["bool"], default=["b", False])]
    u = [dict(name="Shapes", fields=fs)]
    A = lambda e, i, s, rf, form: [["e", e, form[0]], ["R", [I(i), s], form[1]], ["r", rf], None]
    hs = [[[0, A(0, 1, S("x"), 0, ("member", "inst")), "kw"], [0, A(0, 1, S("x"), 0, ("value", "dict")), "inst"],
           [0, A(1, 1, S("x"), 0, ("member", "inst")), "kw"], [0, A(0, 1, ["n"], 0, ("member", "dict")), "kw"],
           [0, A(0, 1, S("None"), 0, ("member", "inst")), "kw"], [0, A(0, 1, S("x"), 1, ("member", "inst")), "kw"],
           [0, A(0, 1, S("x"), 2, ("member", "inst")), "kw"], [0, A(0, 1, S("x"), 3, ("member", "inst")), "kw"]],
          [[0, A(0, 1, S("x"), 3, ("value", "inst")), "kw"], [0, A(0, 1, S("x"), 0, ("value", "dict")), "kw"]]]
    gs.append(dict(univ=u, table=[], hists=hs, tag="shapes"))
    # 6b. negative zero: -0.0 == 0.0 is one parameter value (readable and hashed name form)
    u = [dict(name="G", fields=[dict(name="f", dtype=["float"], default=F(0.0))]),
         dict(name="H", fields=[dict(name="f", dtype=["opt", ["float"]], default=None), dict(name="e", dtype=["bool"], default=["b", False])])]
    z, nz = F(0.0), F(-0.0)
    hs = [[[0, [nz], "kw"]], [[0, [z], "kw"]], [[1, [nz, None], "kw"]], [[1, [z, None], "inst"]],
          [[0, [nz], "kw"], [0, [z], "inst"], [0, [I(0)], "kw"], [0, [None], "kw"], [1, [z, None], "kw"], [1, [nz, None], "kw"]],
          [[1, [nz, None], "inst"], [1, [I(0), None], "kw"], [0, [None], "kw"], [0, [nz], "kw"], [0, [["b", False]], "kw"]]]
    gs.append(dict(univ=u, table=[], hists=hs, tag="negative-zero"))
    gs += corpus_numbers()
    gs += corpus_unnameable()
    gs += corpus_round3()
    return gs


def M(i, variant=0):
    return ["m", i, variant]


NAN = ["f", "nan"]
# field shapes of the NaN-position box: every ordered pair (first field, later field) in which the later field holds a float
NAN_SHAPES = [["int"], ["float"], ["opt", ["float"]], ["rec", [["int"]]], ["rec", [["float"]]], ["rec", [["int"], ["float"]]],
              ["rec", [["float"], ["int"]]], ["rec", [["rec", [["int"]]], ["float"]]], ["rec", [["rec", [["float"]]], ["int"]]], ["str"]]


def plain_value(d):
    t = d[0]
    if t == "opt":
        return plain_value(d[1])
    if t == "rec":
        return ["R", [plain_value(dd) for dd in d[1]], "inst"]
    return {"int": I(3), "float": F(2.5), "str": S("x")}[t]


def nan_groups():
    """NaN at EVERY float leaf of every two-field class shape: before, inside, after, and two levels below a nested
    param-class; every such call made twice (keywords and instance), between calls that are answered."""
    shapes = [(a, b) for a in NAN_SHAPES for b in NAN_SHAPES if '"float"' in json.dumps(b)]
    gs = []
    per = 7
    for k in range(0, len(shapes), per):
        univ, h1, nanc = [], [], []
        for j, (a, b) in enumerate(shapes[k:k + per]):
            fields = [dict(name="a", dtype=a, default=None), dict(name="b", dtype=b, default=None),
                      dict(name="e", dtype=["bool"], default=["b", False])]
            univ.append(dict(name=f"N{j}", fields=fields))
            good = [plain_value(a), plain_value(b), None]
            h1.append([j, good, "kw"])
            for path in float_leaves(fields, good):
                bad = set_leaf(good, path, NAN)
                if j % 2:
                    bad = [x if x is None or x[0] != "R" else x[:2] + ["dict"] for x in bad]
                nanc += [[j, bad, "kw"], [j, bad, "inst"]]
            h1 += nanc[-2:] if nanc else []
        gs.append(dict(univ=univ, table=[], tag=f"nan-position-{k // per + 1}",
                       hists=[h1 + nanc, list(reversed(nanc)) + [c for c in h1 if c not in nanc], nanc[::2]]))
    return gs


def set_calls():
    return [[0, [["r", i, v], None], "kw" if v % 2 else "inst"] for i in (10, 11, 12, 13, 14, 15) for v in range(REF_VARIANTS[i])]


def corpus_round3():
    gs = []
    # 24. UNHASHABLE parameter values (list / dict / set valued fields).  The cache is a dict keyed by the call: such a call has no
    #     key.  The tree refuses it (TypeError at the lookup, before anything runs), and refuses it again; what it must never do is
    #     answer equal calls with different modules (seeded change C09r3-C: run un-cached, every call a new module, one name)
    fw = [dict(name="weights", dtype=["mut"], default=None), dict(name="k", dtype=["int"], default=I(1))]
    fh = [dict(name="w", dtype=["int"], default=I(1))]
    u = [dict(name="Dac", fields=fw), dict(name="H", fields=fh)]
    D = lambda i, v=0, k=None, form="kw": [0, [M(i, v), None if k is None else I(k)], form]
    H = lambda w: [1, [I(w)], "kw"]
    hs = [[D(0), D(0), D(0, 1, None, "inst"), H(1), D(0, 2), D(1), D(1, 1), D(0, 0, 2), D(0, 1, 2), H(1), H(2)],
          [D(1), H(1), D(0), D(0)],
          [D(0)],
          [D(2), D(2, 1), D(2, 2, None, "inst"), D(3), D(3, 1), D(3, 2), D(4), D(4, 1), D(5), D(5, 1), D(6), D(6, 1), D(7), D(7, 1), H(3)],
          [D(7), D(6), D(5), D(4), D(3, 2), D(2, 1), D(3), D(2)]]
    gs.append(dict(univ=u, table=[], hists=hs, tag="unhashable-retry"))
    # 25. optional and nested: None is a value like any other; a container anywhere in the parameters takes the key away
    fo = [dict(name="n", dtype=["rec", [["opt", ["mut"]], ["int"]]], default=None),
          dict(name="o", dtype=["opt", ["mut"]], default=["n"])]
    u = [dict(name="N", fields=fo)]
    A = lambda o, no, k, form="inst": [0, [["R", [no, I(k)], form], o], "kw"]
    hs = [[A(None, ["n"], 1), A(["n"], ["n"], 1, "dict"), A(M(0), ["n"], 1), A(M(0, 1), ["n"], 1), A(["n"], M(2), 1), A(None, M(2, 1), 1, "dict"),
           A(["n"], ["n"], 2), A(["n"], M(3), 2), A(["n"], M(3, 1), 2), A(["n"], ["n"], 1)],
          [A(["n"], M(2, 1), 1), A(None, ["n"], 1), A(M(0), ["n"], 1), A(["n"], ["n"], 2)],
          [A(None, ["n"], 2), A(None, ["n"], 1)]]
    gs.append(dict(univ=u, table=[], hists=hs, tag="unhashable-optional-nested"))
    # 26. NaN at every float leaf of every class shape
    gs += nan_groups()
    return gs


def hashseed_groups():
    """Groups whose histories name the PYTHONHASHSEED of their interpreter: one value, one name in EVERY process."""
    gs = []
    u = [dict(name="S", fields=[dict(name="c", dtype=["ref"], default=None), dict(name="k", dtype=["int"], default=I(0))])]
    calls = set_calls()
    seeds = list(range(8))
    hs = [calls[k:] + calls[:k] for k in range(len(seeds))]
    gs.append(dict(univ=u, table=[], hists=hs, seeds=seeds, tag="set-nested-across-hash-seeds"))
    # every set value ALONE in a fresh interpreter, under five hash seeds each (its name as the first and only call)
    firsts = [c for c in calls if c[1][0][2] == 0]
    for c in firsts:
        gs.append(dict(univ=u, table=[], hists=[[c]] * 5, seeds=[0, 1, 3, 4, 6], tag=f"set-alone-ref{c[1][0][1]}-across-hash-seeds"))
    # nested: the set travels through a nested param-class and through a second generator (hand-on)
    fn = [dict(name="n", dtype=["rec", [["ref"], ["int"]]], default=None)]
    un = [dict(name="Outer", fields=fn), dict(name="Inner", fields=[dict(name="c", dtype=["ref"], default=None)])]
    R = lambda i, v, form="inst": [["R", [["r", i, v], I(1)], form]]
    tn = [dict(gen=0, args=R(12, 0), calls=[[1, [["r", 12, 1]], "kw"]], ret=["pass", 0]),
          dict(gen=0, args=R(13, 0), calls=[[1, [["r", 15, 1]], "kw"]], ret=["fresh", None])]
    base = [[0, R(12, 1), "kw"], [0, R(13, 1, "dict"), "kw"], [1, [["r", 12, 2]], "kw"], [1, [["r", 15, 0]], "inst"], [0, R(14, 0), "kw"],
            [0, R(14, 1), "inst"], [0, R(12, 2, "dict"), "inst"]]
    gs.append(dict(univ=un, table=tn, hists=[base[k:] + base[:k] for k in range(6)], seeds=[0, 1, 2, 3, 4, 5],
                   tag="set-nested-hand-on-across-hash-seeds"))
    return gs


def O(i, variant=0):
    return ["o", i, variant]


def corpus_unnameable():
    """Parameter values that cannot be named (no JSON form): the call is refused AFTER its body ran - and refused again
    when it is repeated, in every interpreter; no module is ever handed out for it.  (Seeded changes C09r2-A / C08r2-A:
    the repeated call returned the un-suffixed module; C09r2-C: named by repr(obj), i.e. by address.)"""
    gs = []
    # 17. the caller's retry, a second value, an unrelated generator in between
    fg = [dict(name="width", dtype=["int"], default=None), dict(name="fn", dtype=["obj"], default=None)]
    fh = [dict(name="w", dtype=["int"], default=I(1))]
    u = [dict(name="G", fields=fg), dict(name="H", fields=fh)]
    G = lambda w, o, form="kw": [0, [I(w), o], form]
    H = lambda w: [1, [I(w)], "kw"]
    hs = [[G(1, O(0)), G(1, O(0)), G(2, O(1)), G(2, O(1), "inst"), G(1, O(0), "inst")],
          [G(2, O(1)), G(1, O(0)), G(2, O(1))],
          [G(1, O(0))],
          [H(1), G(1, O(0)), H(1), H(2), G(1, O(0)), G(2, O(0)), G(2, O(0)), H(2)],
          [G(1, O(5)), G(1, O(5)), G(2, O(5)), G(1, O(5))]]
    gs.append(dict(univ=u, table=[], hists=hs, tag="unnameable-retry"))
    # 18. every kind of object, each call repeated; other orders in other interpreters
    u = [dict(name="K", fields=[dict(name="o", dtype=["obj"], default=None)])]
    calls = [[0, [O(i, v)], "kw" if (i + v) % 2 else "inst"] for i in range(NOBJ) for v in range(OBJ_VARIANTS.get(i, 1))]
    twice = [c for c0 in calls for c in (c0, c0)]
    gs.append(dict(univ=u, table=[], hists=[twice, list(reversed(calls)), calls[5:] + calls[:5], [calls[3]], [calls[4]], [calls[0]]],
                   tag="unnameable-kinds"))
    # 19. optional and nested fields: None is a value like any other (named), an object anywhere in the parameters is not
    fo = [dict(name="n", dtype=["rec", [["opt", ["obj"]], ["int"]]], default=None),
          dict(name="o", dtype=["opt", ["obj"]], default=["n"])]
    u = [dict(name="N", fields=fo)]
    A = lambda o, no, k, form="inst": [0, [["R", [no, I(k)], form], o], "kw"]
    hs = [[A(None, ["n"], 1), A(["n"], ["n"], 1, "dict"), A(O(0), ["n"], 1), A(O(0), ["n"], 1), A(["n"], O(3, 0), 1), A(None, O(3, 1), 1, "dict"),
           A(["n"], ["n"], 2), A(["n"], O(3, 2), 2), A(["n"], ["n"], 1)],
          [A(["n"], O(3, 1), 1), A(None, ["n"], 1), A(O(0), ["n"], 1), A(["n"], ["n"], 2)],
          [A(None, ["n"], 2), A(None, ["n"], 1)]]
    gs.append(dict(univ=u, table=[], hists=hs, tag="unnameable-optional-nested"))
    # 20. nesting: Outer(o) hands on the module of Inner(w) - that module IS named, by Inner; Wrap(o) builds its own and is
    #     refused after Inner ran; Deep(w) calls Leaf(o), which is refused, so Deep is, every time
    fobj = [dict(name="o", dtype=["obj"], default=None)]
    fw = [dict(name="w", dtype=["int"], default=None)]
    u = [dict(name="Outer", fields=fobj), dict(name="Wrap", fields=fobj), dict(name="Deep", fields=fw),
         dict(name="Inner", fields=fw), dict(name="Leaf", fields=fobj)]
    t = [dict(gen=0, args=[O(0)], calls=[[3, [I(1)], "kw"]], ret=["pass", 0]),
         dict(gen=0, args=[O(3, 0)], calls=[[3, [I(2)], "kw"], [3, [I(1)], "inst"]], ret=["pass", 0]),
         dict(gen=1, args=[O(0)], calls=[[3, [I(1)], "kw"], [3, [I(3)], "kw"]], ret=["fresh", None]),
         dict(gen=2, args=[I(1)], calls=[[3, [I(1)], "kw"], [4, [O(1)], "kw"]], ret=["pass", 0]),
         dict(gen=2, args=[I(2)], calls=[[4, [O(3, 1)], "kw"]], ret=["fresh", "Body"])]
    hs = [[[0, [O(0)], "kw"], [0, [O(0)], "inst"], [3, [I(1)], "kw"], [1, [O(0)], "kw"], [1, [O(0)], "kw"], [3, [I(3)], "kw"]],
          [[1, [O(0)], "kw"], [3, [I(3)], "kw"], [0, [O(0)], "kw"], [1, [O(0)], "inst"]],
          [[2, [I(1)], "kw"], [2, [I(1)], "kw"], [3, [I(1)], "kw"], [4, [O(1)], "kw"], [2, [I(2)], "kw"], [2, [I(2)], "kw"], [2, [I(3)], "kw"]],
          [[0, [O(3, 1)], "kw"], [0, [O(3, 2)], "kw"], [3, [I(2)], "kw"], [4, [O(3, 0)], "kw"], [4, [O(3, 2)], "kw"]],
          [[3, [I(2)], "kw"], [0, [O(3, 0)], "kw"]]]
    gs.append(dict(univ=u, table=t, hists=hs, tag="unnameable-nesting"))
    # 21. value types: equal objects built separately, at other addresses in every interpreter; unequal objects with one repr
    fc = [dict(name="corner", dtype=["obj"], default=None), dict(name="n", dtype=["int"], default=I(1))]
    u = [dict(name="G", fields=fc)]
    C = lambda i, v, form="kw": [0, [O(i, v), None], form]
    hs = [[C(3, 0), C(3, 1), C(3, 2, "inst"), C(4, 0), C(8, 0), C(9, 0), C(3, 0)],
          [C(3, 2), C(3, 0)],
          [C(9, 1), C(8, 1), C(4, 1), C(3, 1)],
          [C(3, 1)], [C(8, 0)], [C(9, 0)]]
    gs.append(dict(univ=u, table=[], hists=hs, tag="unnameable-value-objects"))
    return gs


def spell_hists(gi, spellings, other=()):
    """Histories for one generator over spellings of equal values: every spelling ALONE in a fresh interpreter (its
    name when it is the first and only call), all of them in order, reversed, and rotated (each spelling first once
    among the rotations of short lists); `other` = calls with different values mixed in."""
    calls = [[gi, [v], "kw" if k % 2 == 0 else "inst"] for k, v in enumerate(spellings)]
    oth = [[gi, [v], "kw"] for v in other]
    hs = [[c] for c in calls]
    hs.append(calls + oth)
    hs.append(list(reversed(calls + oth)))
    for k in range(1, min(len(calls), 4)):
        hs.append(calls[k:] + oth + calls[:k])
    return hs


def corpus_numbers():
    gs = []
    P = lambda num, q, form="new": ["P", num, q, form]
    # 9. THE witness of the name-by-first-spelling defect (item 2 of the extension): r = 2*K / 2000*UNIT / ...
    f = [dict(name="r", dtype=["scalar"], default=P("1", 3))]
    u = [dict(name="G", fields=f)]
    sp = [P("2", 3, "mul"), P("2000", 0, "mul"), P("2000000", -3), P("2.000", 3, "ctor"), ["i", 2000], ["f", "2000.0"],
          ["s", "2.0e3"], ["D", "2E+3"]]
    gs.append(dict(univ=u, table=[], hists=spell_hists(0, sp, other=[["i", 2001], P("1", 3)]), tag="scalar-spellings"))
    # 10. unequal numbers that agree as floats: three modules, three names (pinned encoder: one name)
    sp = [["D", "0.1"], ["D", "0.10000000000000000001"], ["s", "0.1000000000000000001"], ["f", "0.1"]]
    calls = [[0, [v], "kw"] for v in sp]
    gs.append(dict(univ=u, table=[], hists=[calls, list(reversed(calls))], tag="scalar-float-collapse"))
    # 11. zero: sign and exponent of a zero are not part of its value
    sp = SCALAR_CLASSES[2]
    gs.append(dict(univ=u, table=[], hists=spell_hists(0, sp[:6], other=[P("1", -24)]), tag="scalar-zeros"))
    # 12. Literal against number: "2000" given as Literal is not the number 2000; a str that is no number is a Literal
    sp = [["s", "w/5"], ["L", "w/5"], ["L", "2000"], ["s", "2000"], ["i", 2000], ["s", "nan"], ["L", "nan"], ["s", "1e"], ["s", "_"]]
    calls = [[0, [v], "kw"] for v in sp]
    gs.append(dict(univ=u, table=[], hists=[calls, list(reversed(calls)), calls[2:5], calls[3:4] + calls[2:3]], tag="scalar-literals"))
    # 13. Decimal-typed and Prefixed-typed fields, nested and optional Scalar
    fd = [dict(name="n", dtype=["rec", [["opt", ["scalar"]], ["int"]]], default=None),
          dict(name="d", dtype=["dec"], default=["i", 1]), dict(name="p", dtype=["pref"], default=P("1", 0))]
    ud = [dict(name="Shapes2", fields=fd)]
    A = lambda d, p, s, form: [["R", [s, I(1)], form], d, p]
    hs = [[[0, A(["D", "2.0"], P("5", -1), ["f", "0.5"], "inst"), "kw"], [0, A(["i", 2], P("0.5", 0), P("500", -3), "dict"), "inst"],
           [0, A(["s", " 2.00 "], P("50", -2, "mul"), ["s", "5e-1"], "inst"), "kw"], [0, A(["D", "2.0"], P("5", -1), ["n"], "inst"), "kw"],
           [0, A(["D", "2.1"], P("5", -1), ["f", "0.5"], "inst"), "kw"], [0, A(None, None, ["L", "x"], "dict"), "kw"],
           [0, A(["i", 1], P("1000", -3), ["s", "x"], "inst"), "kw"]],
          [[0, A(["f", "2.0"], P("0.5", 0), ["s", ".5"], "dict"), "kw"], [0, A(["D", "2"], P("500", -3), ["D", "0.50"], "inst"), "inst"]],
          [[0, A(["s", "2"], P("500", -3), P("5", -1), "inst"), "kw"]]]
    gs.append(dict(univ=ud, table=[], hists=hs, tag="number-shapes"))
    # 14. nested: Outer(r) calls Inner with ANOTHER spelling of r and hands its module on; Wrap(r) builds its own module
    #     after calling Inner with a third spelling: one module must never appear under two names
    fr = [dict(name="r", dtype=["scalar"], default=None)]
    un = [dict(name="Outer", fields=fr), dict(name="Wrap", fields=fr), dict(name="Inner", fields=fr)]
    tn = [dict(gen=0, args=[["i", 2000]], calls=[[2, [P("2000", 0)], "kw"]], ret=["pass", 0]),
          dict(gen=1, args=[P("2", 3)], calls=[[2, [["s", "2.0e3"]], "inst"], [2, [["f", "0.5"]], "kw"]], ret=["fresh", None]),
          dict(gen=0, args=[["f", "0.5"]], calls=[[2, [P("500", -3)], "kw"], [1, [P("2000000", -3)], "kw"]], ret=["pass", 0])]
    hs = [[[2, [P("2", 3)], "kw"], [0, [P("2.000", 3)], "kw"], [1, [["i", 2000]], "kw"]],
          [[0, [["s", "2000"]], "kw"], [2, [["D", "2E+3"]], "kw"], [1, [P("0.002", 6)], "inst"]],
          [[1, [["f", "2000.0"]], "kw"], [0, [P("2", 3, "mul")], "inst"], [2, [["i", 2000]], "kw"]],
          [[0, [P("5", -1)], "kw"], [2, [["s", ".5"]], "kw"], [1, [["i", 2000]], "kw"], [2, [P("2", 3)], "kw"]],
          [[2, [["f", "0.5"]], "kw"], [1, [P("2000", 0)], "kw"], [0, [["D", "0.50"]], "kw"]]]
    gs.append(dict(univ=un, table=tn, hists=hs, tag="nested-spellings"))
    # 15. Module-, Generator-, ExternalModule-, PrimitiveCall- and ExternalModuleCall-valued fields; calls compare by value
    fk = [dict(name="c", dtype=["ref"], default=None), dict(name="o", dtype=["opt", ["scalar"]], default=["n"])]
    uk = [dict(name="Kinds", fields=fk)]
    calls = [[0, [["r", i, v], None], "kw" if (i + v) % 2 else "inst"] for i in range(NREF) for v in range(REF_VARIANTS.get(i, 1))]
    rot = calls[7:] + calls[:7]
    gs.append(dict(univ=uk, table=[], hists=[calls, list(reversed(calls)), rot, [calls[5]], [calls[4]], [calls[12]], [calls[11]]],
                   tag="ref-kinds"))
    # 16. outside the 20-places domain: 1E-21 == 0 (Prefixed.__eq__ rounds) but the hashes differ - two calls
    sp = [["D", "1E-21"], ["i", 0], ["P", "1000", -24], ["D", "0.0000000000000000000001"], ["P", "0.1", -24]]
    calls = [[0, [v], "kw"] for v in sp]
    gs.append(dict(univ=u, table=[], hists=[calls, list(reversed(calls))], tag="tolerance"))
    # 22. NaN is not equal to itself: it is no parameter value (refused before anything runs; un-repaired tree: every call a
    #     new module, all named `G(f=nan)`)
    nan, inf = F(float("nan")), F(float("inf"))
    u = [dict(name="G", fields=[dict(name="f", dtype=["float"], default=None)]),
         dict(name="N", fields=[dict(name="n", dtype=["rec", [["opt", ["float"]], ["int"]]], default=None), dict(name="e", dtype=["bool"], default=["b", False])])]
    NN = lambda x, k, form="inst": [1, [["R", [x, I(k)], form], None], "kw"]
    hs = [[[0, [nan], "kw"], [0, [nan], "kw"], [0, [F(1.0)], "kw"], [0, [nan], "inst"], [0, [inf], "kw"], [0, [inf], "inst"]],
          [[0, [inf], "kw"], [0, [nan], "kw"]],
          [NN(nan, 1), NN(nan, 1, "dict"), NN(["n"], 1), NN(F(2.5), 1), NN(nan, 1)],
          [NN(F(2.5), 1), NN(nan, 1)]]
    gs.append(dict(univ=u, table=[], hists=hs, tag="float-nan"))
    # 23. set-valued parameters: equal sets built in other orders, in interpreters with other hash seeds - one call, one name
    u = [dict(name="S", fields=[dict(name="c", dtype=["ref"], default=None), dict(name="k", dtype=["int"], default=I(0))])]
    calls = [[0, [["r", i, v], None], "kw" if v % 2 else "inst"] for i in (10, 11) for v in range(REF_VARIANTS[i])]
    hs = [calls, list(reversed(calls)), [calls[1]], [calls[2]], [calls[0]], [calls[4]], [calls[3]], calls[2:] + calls[:2]]
    gs.append(dict(univ=u, table=[], hists=hs, tag="set-valued"))
    return gs


def exhaustive_small(quick):
    """Every pair of parameter sets over small value boxes, all in one history per box (and its reverse)."""
    gs = []
    # (the Coq evaluation of one history grows faster than quadratically with its length: 18 x 18 values take about a
    #  minute, the full 30 x 30 box of the first round never finished inside the coqc timeout)
    boxes = [["", "x", "y", "z", "x b=y", "y b=z", "None", " ", "=", "b=", "x b="]] if quick else \
        [ADV_STR[:18], ADV_STR[18:] + ADV_STR[:6]]
    u = [dict(name="G", fields=two_str_class())]
    for k, strs in enumerate(boxes):
        calls = [[0, [S(a), S(b)], "kw"] for a in strs for b in strs]
        gs.append(dict(univ=u, table=[], hists=[calls, list(reversed(calls))], tag="box-str-str" + ("" if k == 0 else f"-{k + 1}")))
    u = [dict(name="G", fields=[dict(name="a", dtype=["opt", ["str"]], default=["n"]), dict(name="b", dtype=["opt", ["int"]], default=["n"])])]
    vals_a = [["n"], S("None"), S(""), S("x"), S("x b=1"), S("x b=None")]
    vals_b = [["n"], I(0), I(1), I(-1), ["b", True]]
    calls = [[0, [a, b], "kw"] for a in vals_a for b in vals_b]
    gs.append(dict(univ=u, table=[], hists=[calls, list(reversed(calls))], tag="box-opt"))
    u = [dict(name="G", fields=[dict(name="i", dtype=["int"], default=None), dict(name="f", dtype=["opt", ["float"]], default=None)])]
    vi = [I(0), I(1), ["b", True], ["b", False], I(-1), I(10 ** 20)]
    vf = [["n"], F(0.0), F(-0.0), F(1.0), I(1), ["b", True], I(0), F(1e-11), F(float("inf")), F(1e22), I(999999999999999)]
    calls = [[0, [a, b], "kw"] for a in vi for b in vf]
    gs.append(dict(univ=u, table=[], hists=[calls, list(reversed(calls))], tag="box-num"))
    # readable-name length limit: names of 124..131 characters
    u = [dict(name="G", fields=[dict(name="a", dtype=["str"], default=None), dict(name="b", dtype=["int"], default=I(7))])]
    calls = []
    for n in range(116, 125):        # "a=" + n + " b=7" -> n + 6
        calls.append([0, [S("q" * n), None], "kw"])
        calls.append([0, [S("q" * (n - 1) + "r"), I(7)], "inst"])
    calls += [[0, [S("q" * 121), I(77)], "kw"], [0, [S("q" * 120), I(-77)], "kw"], [0, [S("q" * 119), I(10 ** 3)], "kw"]]
    gs.append(dict(univ=u, table=[], hists=[calls, list(reversed(calls))], tag="box-length"))
    # number-like fields: every pair of spellings, equal or not, inside one history and its reverse
    u = [dict(name="G", fields=[dict(name="r", dtype=["scalar"], default=None)])]
    vals = SCALAR_CLASSES[0][:5 if quick else 12] + SCALAR_CLASSES[1][:3 if quick else 8] + SCALAR_CLASSES[2][:4 if quick else 9] \
        + SCALAR_CLASSES[5][:2] + SCALAR_CLASSES[7][:2] + SCALAR_CLASSES[8][:1] + SCALAR_CLASSES[9] + SCALAR_CLASSES[11] \
        + SCALAR_CLASSES[4][:2] + SCALAR_CLASSES[13][:2] + SCALAR_CLASSES[14][:2]
    calls = [[0, [v], "kw" if k % 3 else "inst"] for k, v in enumerate(vals)]
    gs.append(dict(univ=u, table=[], hists=[calls, list(reversed(calls))], tag="box-scalar"))
    u = [dict(name="G", fields=[dict(name="d", dtype=["dec"], default=None), dict(name="p", dtype=["opt", ["pref"]], default=["n"])])]
    vd = DEC_CLASSES[0][:4] + DEC_CLASSES[1][:2] + DEC_CLASSES[2] + DEC_CLASSES[3][:2]
    vp = [["n"], ["P", "2", 3], ["P", "2000", 0], ["P", "2.001", 3]]
    calls = [[0, [a, b], "kw"] for a in vd for b in vp]
    gs.append(dict(univ=u, table=[], hists=[calls, list(reversed(calls))], tag="box-dec-pref"))
    # values without a JSON form against None and ints: every pair of parameter sets in one history, every call repeated
    u = [dict(name="G", fields=[dict(name="w", dtype=["int"], default=None), dict(name="o", dtype=["opt", ["obj"]], default=["n"])])]
    vo = [["n"], O(0), O(1), O(12), O(3, 0), O(3, 1), O(4, 0), O(8, 0), O(9, 0), O(5), O(13), O(14)] + \
        ([] if quick else [O(2), O(6), O(7), O(10, 0), O(10, 1), O(11)])
    calls = [[0, [I(b), a], "kw"] for a in vo for b in (1, 2)]
    gs.append(dict(univ=u, table=[], hists=[calls + calls, list(reversed(calls)) + calls], tag="box-unnameable"))
    return gs


# ---- stream "values": validation of one written value, == and hash of two validated instances (model validation) ----
EXTRA_STR = ["", " ", "_", "1_0", "1__0", "_1_", "1_e5", "1e_5", "1 0", "+.5e-3", "-5.E+2", "1E5", "2e", "+", "-", ".", "e5",
             "00012", "0e5", "-0e-5", "0x10", "1,5", "Infinity", "inf", "-inf", "NaN", "snan", "1e400", "1e-400", "5.", ".5",
             "++1", "1e+-2", " 7", "7 ", "1.2.3", "12abc", "w/5", "2*l", "True", "None", "1e0015", "-.0", "9" * 40, "0." + "0" * 30 + "1"]
EXTRA_NUM = [["i", 0], ["i", -5], ["i", 10 ** 30], ["i", -(10 ** 18)], ["f", "1.5"], ["f", "1e-11"], ["f", "1e+22"], ["f", "5e-324"],
             ["f", "1.7976931348623157e+308"], ["f", "-0.0"], ["f", "inf"], ["f", "nan"], ["f", "0.1"], ["f", "123456.789"],
             ["f", "1.2345678901234568e+17"], ["D", "1.50"], ["D", "-0"], ["D", "1E-21"], ["D", "0E-30"], ["D", "123456789012345678901234567890.5"],
             ["b", True], ["n"], ["L", "q"], ["r", 0], ["e", 0, "member"], ["R", [["i", 1]], "inst"],
             ["P", "1", 3], ["P", "1000", 0], ["P", "1E-21", 0], ["P", "1", -24], ["P", "0.001", 24], ["P", "1e3", -3], ["P", "-0.0", 1]]


def gen_value_cases(r, n):
    cases = []
    pool = {k: [v for c in cs for v in c] for k, cs in NUM_CLASSES.items()}
    for _ in range(n):
        kind = r.choices(["scalar", "dec", "pref"], [6, 3, 2])[0]
        def one():
            u = r.random()
            if u < 0.45:
                return with_form(r, list(r.choice(pool[kind])))
            if u < 0.6:
                return ["s", r.choice(EXTRA_STR)]
            if u < 0.75:
                return list(r.choice(EXTRA_NUM))
            if u < 0.85:    # random decimal text
                digs = "".join(r.choice("0123456789") for _ in range(r.randint(1, 12)))
                k = r.randint(0, len(digs))
                txt = r.choice(["", "-", "+"]) + digs[:k] + r.choice(["", "."]) + digs[k:]
                if r.random() < 0.5:
                    txt += r.choice(["e", "E"]) + r.choice(["", "-", "+"]) + str(r.randint(0, 30))
                return [r.choice(["s", "s", "D"]), txt] if Decimal_ok(txt) else ["s", txt]
            if u < 0.95:
                num = str(r.randint(-5000, 5000)) + r.choice(["", ".0", ".50", "e2", "E-3"])
                return with_form(r, ["P", num, r.choice([-24, -12, -9, -6, -3, -2, -1, 0, 1, 2, 3, 6, 9, 24])])
            return ["f", repr(r.choice([1.0, 2.5, 1e-9, 3e8, 2000.0, 0.001, 1e21, 1e16, 123.456]))]
        a = one()
        b = with_form(r, list(r.choice(num_class(kind, a)))) if (num_class(kind, a) and r.random() < 0.5) else one()
        cases.append(dict(dtype=[kind], a=a, b=b))
    return cases


def Decimal_ok(txt):
    try:
        return Decimal(txt).is_finite()
    except Exception:
        return False


def c_held(x):
    return "HRej" if x[0] == "rej" else f"(HVal {c_val(x)})"


def c_obool(x):
    if x is None:
        return "OAbsent"
    if isinstance(x, str):
        return "ORaise"
    return "OTrue" if x else "OFalse"


def run_values(run, seed, quick, only=None):
    r = core.rng(seed, "C09", "values")
    if only is not None:
        cases = [only]
    else:
        cases = gen_value_cases(r, 2500 if quick else 40000)
        # plus every pair inside each class (equal) and one representative pair across classes (unequal)
        for kind, cs in NUM_CLASSES.items():
            for c in cs:
                for a in c:
                    cases.append(dict(dtype=[kind], a=a, b=r.choice(c)))
            for c1, c2 in itertools.combinations(cs, 2):
                cases.append(dict(dtype=[kind], a=c1[0], b=c2[-1]))
    cases = [c for c in cases if ascii_ok(json.dumps(c))]
    outs = core.run_worker_sharded("c09", cases, key="values", timeout=900)
    keep = [(c, o) for c, o in zip(cases, outs) if all(h[0] == "rej" or h[0] != "?" for h in o["held"])]
    strs = [f"(Build_vcase {c_dtype(c['dtype'])} {c_val(c['a'])} {c_val(c['b'])} {c_held(o['held'][0])} {c_held(o['held'][1])} "
            f"{c_obool(o['eq'])} {c_obool(o['heq'])})" for c, o in keep]
    bad = core.coq_eval_cases("C09", "values", IMPORTS, "vcase", strs, "run_cases chk_value", chunk=600)
    distinct = len({json.dumps(c, sort_keys=True) for c, _ in keep})
    eq_pairs = sum(1 for _, o in keep if o["eq"] is True)
    eq_diff = sum(1 for c, o in keep if o["eq"] is True and json.dumps(c["a"][:3]) != json.dumps(c["b"][:3]))
    run.stream("values", len(keep), distinct, rejected_values=sum(1 for _, o in keep for h in o["held"] if h[0] == "rej"),
               pairs_compared_equal=eq_pairs, pairs_equal_but_written_differently=eq_diff,
               pairs_eq_raised=sum(1 for _, o in keep if isinstance(o["eq"], str)),
               literals_held=sum(1 for _, o in keep for h in o["held"] if h[0] == "L"),
               skipped_outside_grammar=len(cases) - len(keep),
               rule="one case = (dtype, written a, written b): held value of each after validation (or rejection), a == b and "
                    "hash(a) == hash(b) of the two paramclass instances, against validate / inst_eqb / hash_eqb / canon of the model; "
                    "distinct by the written case")
    if bad:
        i, code = bad[0]
        c, o = keep[i]
        run.violation("C09:values:tie", f"model and implementation differ on the validation / == / hash of {json.dumps(c)}: observed {json.dumps(o)}",
                      dict(kind="correspondence-broken", stream="values", case=c, observed=o, disagreeing_cases=len(bad),
                           theorem="C09 correspondence stream values (validate, inst_eqb, hash_eqb)"), found_input=False)
    if keep:
        c, o = keep[len(keep) // 3]
        run.sample(dict(stream="values", case=c, observed=o))
    return dict(eq_diff=eq_diff)


# ---- stream "setenc": the set branch of hdl21_naming_encoder against Model/C09SetName.v, in interpreters with different
#      hash seeds; one case = ONE set value, observed several times (members listed in other orders, other hash seeds) ----
SE_INTS = [0, 1, 2, 10, -1, 12]
SE_STRS = ["1", "2", "a", "b", "ab", 'a"b', "\\", "x y", "[", "]", ", ", "10", "", "-1", "alpha", "beta", "gamma", "delta", '"', "frozenset()"]
SE_IMPORTS = ("Require Import Hdl21.Base.PyInt Hdl21.Model.C09SetName Hdl21.Corr.C03 Hdl21.Corr.C09SetEnc.\n"
              "From Coq Require Import String.\nOpen Scope string_scope.")


def se_canon(sp):
    if sp[0] == "S":
        return ("S", tuple(sorted({se_canon(x) for x in sp[1]}, key=repr)))
    return (sp[0], sp[1])


def se_gen(r, depth):
    if depth == 0 or r.random() < 0.35:
        return ["i", r.choice(SE_INTS)] if r.random() < 0.4 else ["s", r.choice(SE_STRS)]
    ms, seen = [], set()
    for _ in range(r.choice([0, 1, 2, 2, 3, 3, 4, 5])):
        m = se_gen(r, depth - 1)
        if se_canon(m) not in seen:
            seen.add(se_canon(m))
            ms.append(m)
    return ["S", ms]


def se_shuffle(r, sp):
    if sp[0] != "S":
        return sp
    ms = [se_shuffle(r, x) for x in sp[1]]
    r.shuffle(ms)
    return ["S", ms]


def se_depth(sp):
    return 1 + max([se_depth(x) for x in sp[1]] + [0]) if sp[0] == "S" else 0


def c_sval(sp):
    if sp[0] == "i":
        return f"(SInt ({int(sp[1])}))"
    if sp[0] == "s":
        return f"(SStr {cstr(sp[1])})"
    return f"(SSet {clist(sp[1], c_sval)})"


SE_CORPUS = [["S", [["S", [["s", "a"], ["s", "b"]]], ["S", [["s", "c"]]]]], ["S", [["i", 1], ["s", "1"]]], ["S", []], ["S", [["S", []]]],
             ["S", [["s", 'a"b'], ["s", "\\"], ["s", '"']]], ["S", [["S", [["S", [["s", "p"], ["s", "q"]]], ["S", [["s", "r"]]]]], ["S", [["i", 1], ["s", "1"]]]]],
             ["S", [["s", "alpha"], ["s", "beta"], ["s", "gamma"], ["s", "delta"]]], ["S", [["i", 10], ["i", 2], ["s", "10"], ["s", "2"]]],
             ["S", [["S", [["i", 1], ["s", "1"]]], ["S", [["s", "1"], ["i", 2]]], ["S", [["i", 1]]]]]]


def run_setenc(run, seed, quick, cov, only=None):
    r = core.rng(seed, "C09", "setenc")
    if only is not None:
        values, seeds = [only["value"]], only["seeds"]
    else:
        values = list(SE_CORPUS)
        seen = {se_canon(v) for v in values}
        for _ in range(220 if quick else 4000):
            v = se_gen(r, r.choice([1, 2, 2, 3]))
            if v[0] == "S" and se_canon(v) not in seen:
                seen.add(se_canon(v))
                values.append(v)
        seeds = [0, 1, 2, 3, 4, 5] if quick else list(range(16))
    values = [v for v in values if ascii_ok(json.dumps(v))]
    # every value is listed in two member orders; every listing is built in every interpreter
    listings = [[v, se_shuffle(r, v)] for v in values]
    flat = [dict(spec=sp) for ls in listings for sp in ls]

    def one(sd):
        return core.run_worker("c09", dict(setenc=flat), timeout=900, hashseed=str(sd))["results"]
    with ThreadPoolExecutor(max_workers=max(1, min(core.NPROC, len(seeds)))) as ex:
        per_seed = list(ex.map(one, seeds))
    cases, obs_all = [], []
    for vi, v in enumerate(values):
        obs = [dict(seed=sd, listing=li, **per_seed[si][2 * vi + li]) for si, sd in enumerate(seeds) for li in (0, 1)]
        if any("error" in o for o in obs):
            run.violation("C09:setenc:refused", f"hdl21_naming_encoder refuses the set value {json.dumps(v)}: {json.dumps([o for o in obs if 'error' in o][:1])}",
                          dict(kind="impl-violates-spec", stream="setenc", value=v, seeds=seeds, observed=obs))
            continue
        if not all(ascii_ok(o["text"]) for o in obs):
            continue
        cases.append(f"(Build_secase {clist(obs, lambda o: '(' + c_sval(o['iter']) + ', ' + cstr(o['text']) + ')')})")
        obs_all.append((v, obs))
    bad = core.coq_eval_cases("C09", "setenc", SE_IMPORTS, "secase", cases, "run_cases chk_setenc", chunk=60)
    orders = sum(1 for _, obs in obs_all if len({json.dumps(o["iter"]) for o in obs}) > 1)
    cov["set_encoder_texts_compared_with_the_model"] += sum(len(obs) for _, obs in obs_all)
    cov["set_encoder_values_iterated_in_different_orders"] += orders
    run.stream("setenc", sum(len(obs) for _, obs in obs_all), len(obs_all), hash_seeds=seeds,
               values_iterated_in_more_than_one_order=orders,
               nested_set_values=sum(1 for v, _ in obs_all if se_depth(v) > 1),
               values_with_members_of_equal_str=sum(1 for v, _ in obs_all if len({str(x[1]) for x in v[1] if x[0] != "S"}) < sum(1 for x in v[1] if x[0] != "S")),
               rule="one case = one (nested) set value of ints and strings; evaluations = observations of it: two listings of the members x "
                    "the hash seeds; observed = the order in which the interpreter iterates over every set, and the JSON text json.dumps writes "
                    "through hdl21_naming_encoder; specification: one text for one value in every interpreter (code 1); model: the text is "
                    "C09SetName.enc of the value AS ITERATED (code 2); distinct = set values")
    v1 = [(i, c) for i, c in bad if c == 1]
    v2 = [(i, c) for i, c in bad if c != 1]
    if v1:
        i, _ = min(v1, key=lambda ic: len(json.dumps(obs_all[ic[0]][0])))
        v, obs = obs_all[i]
        texts = sorted({(o["seed"], o["text"]) for o in obs})
        run.violation("C09:setenc:" + json.dumps(v), f"one set-valued parameter is written differently by the naming encoder from process to process: "
                      f"{json.dumps(v)} -> {json.dumps(texts)[:400]}",
                      dict(kind="impl-violates-spec", stream="setenc", value=v, seeds=seeds, observed=obs, failing_values=len(v1),
                           reproducer="PYTHONHASHSEED=<seed> python -c 'json.dumps(<frozenset>, default=hdl21.params.hdl21_naming_encoder, sort_keys=True)'"))
    elif v2:
        i, _ = v2[0]
        v, obs = obs_all[i]
        run.violation("C09:setenc:tie", f"model (C09SetName.enc) and hdl21_naming_encoder differ on the set value {json.dumps(v)}",
                      dict(kind="correspondence-broken", stream="setenc", value=v, seeds=seeds, observed=obs, disagreeing_values=len(v2),
                           theorem="C09 correspondence stream setenc"), found_input=False)
    if obs_all:
        v, obs = obs_all[len(obs_all) // 2]
        run.sample(dict(stream="setenc", value=v, observed=obs[:2]))


def malformed(r, n):
    gs = []
    for _ in range(n):
        gs.append(gen_group(r, bad=0.5, cyclic=0.5))
    return gs


# ------------------------------------------------------------------------------------------------
def nontrivial(g):
    """non-trivial = the group has a repeated call AND (a hand-on / nested body, or a non-plain or coerced value)."""
    txt = json.dumps(g["hists"])
    rep = any(len({json.dumps(c[:2]) for c in h}) < len(h) for h in g["hists"]) or len(g["hists"]) > 1
    rich = any(e["calls"] for e in g["table"]) or any(s in txt for s in ('" "', "=", "None", '"b"', '"e"', '"R"', '"r"', '"P"', '"D"', '"L"', '"o"'))
    return rep and rich


# ---- measured coverage of the shapes the property quantifies over (declared targets: a quick run in which one of them
#      is not met reports it - fail closed) ----
TARGETS = ["fields_scalar", "fields_prefixed", "fields_decimal", "fields_optional_or_nested_number",
           "equal_values_written_differently_pairs", "value_classes_first_called_by_different_spellings_in_fresh_interpreters",
           "spellings_run_alone_in_a_fresh_interpreter", "nested_calls_with_number_arguments", "hand_on_bodies_with_number_arguments",
           "calls_ref_module", "calls_ref_generator", "calls_ref_extmodule", "calls_ref_primcall", "calls_ref_extcall",
           "equal_call_references_built_separately_pairs", "literal_values", "number_inputs_int", "number_inputs_float",
           "number_inputs_str", "number_inputs_decimal", "number_inputs_prefixed"]
# strengthening round: histories that go on after a refused call, parameter values that cannot be named
TARGETS += ["calls_ref_frozenset", "calls_refused_for_a_nan_parameter", "fields_unnameable", "fields_optional_or_nested_unnameable", "calls_refused_for_unnameable_parameters",
            "refused_call_repeated_in_one_interpreter", "second_unnameable_value_after_a_refusal", "call_answered_after_a_refusal",
            "design_exported_after_a_refusal", "call_refused_in_two_fresh_interpreters", "equal_unnameable_value_objects_built_separately_pairs",
            "handed_on_module_through_a_call_with_unnameable_parameters", "refused_through_a_nested_unnameable_call",
            "refused_calls_by_other_causes_then_more_calls"] + \
           ["unnameable_" + k for k in sorted(set(OBJ_KIND.values()))]


# strengthening round 3: unhashable values, NaN at every position, set values across hash seeds
TARGETS += ["calls_ref_frozenset_of_frozensets", "calls_ref_frozenset_members_with_equal_str",
            "set_value_named_in_interpreters_with_different_hash_seeds", "set_of_sets_named_in_interpreters_with_different_hash_seeds",
            "set_value_first_call_of_its_interpreter_under_different_hash_seeds",
            "fields_unhashable", "fields_optional_or_nested_unhashable", "calls_refused_for_unhashable_parameters",
            "unhashable_call_repeated_in_one_interpreter", "equal_unhashable_values_built_separately_pairs",
            "unhashable_call_refused_in_two_fresh_interpreters", "call_answered_after_an_unhashable_refusal",
            "nan_refused_in_a_field_before_a_nested_paramclass", "nan_refused_inside_a_nested_paramclass",
            "nan_refused_in_a_field_after_a_nested_paramclass", "nan_refused_inside_a_second_nested_paramclass",
            "nan_refused_two_levels_down", "nan_call_repeated_in_one_interpreter",
            "set_encoder_texts_compared_with_the_model", "set_encoder_values_iterated_in_different_orders"] + \
           ["unhashable_" + k for k in sorted(set(MUT_KIND.values()))]


def muts_in(fields, args):
    out = []

    def walk(v):
        if v is None:
            return
        if v[0] == "m":
            out.append((v[1] % NMUT, v[2] if len(v) > 2 else 0))
        elif v[0] == "R":
            for x in v[1]:
                walk(x)
    for f, a in zip(fields, args):
        walk(a if a is not None else f.get("default"))
    return out


def nan_positions(fields, args):
    """where the NaNs of a written argument list sit relative to the nested param-class valued fields"""
    out = set()
    recs_before = 0
    for f, a in zip(fields, args):
        d = f["dtype"]
        while d[0] == "opt":
            d = d[1]
        a = a if a is not None else f.get("default")
        if a is None:
            continue
        if d[0] == "rec" and a[0] == "R":
            txt = json.dumps(a[1])
            if '["f", "nan"]' in txt:
                out.add("nan_refused_inside_a_second_nested_paramclass" if recs_before else "nan_refused_inside_a_nested_paramclass")
                if any(x and x[0] == "R" and '["f", "nan"]' in json.dumps(x[1]) for x in a[1]):
                    out.add("nan_refused_two_levels_down")
            recs_before += 1
        elif a[:2] == ["f", "nan"]:
            out.add("nan_refused_in_a_field_after_a_nested_paramclass" if recs_before else "nan_before")
    if "nan_before" in out:
        out.discard("nan_before")
        if recs_before:
            out.add("nan_refused_in_a_field_before_a_nested_paramclass")
    return out


def measure_round3(cov, g, outs):
    univ = g["univ"]
    for gen in univ:
        for f in gen["fields"]:
            for d, depth in walk_dtypes(f["dtype"]):
                if d[0] == "mut":
                    cov["fields_unhashable"] += 1
                    if depth > 0:
                        cov["fields_optional_or_nested_unhashable"] += 1
    rej_in, variants = {}, {}
    set_names = {}      # (gen, value id) of an answered call with a set-valued argument -> {hash seed: first call?}
    for hi, (h, o) in enumerate(zip(g["hists"], outs)):
        rej_keys, nan_keys, seen_mut_rej = {}, {}, False
        for k, (c, x) in enumerate(zip(h, o["obs"])):
            if c[0] >= len(univ) or len(c[1]) != len(univ[c[0]]["fields"]):
                continue
            fields = univ[c[0]]["fields"]
            muts = muts_in(fields, c[1])
            ids = arg_ids(fields, c[1])
            key = (c[0], ids[0]) if ids else None
            if x[0] == "rej" and muts and key:
                cov["calls_refused_for_unhashable_parameters"] += 1
                for i, _ in muts:
                    cov["unhashable_" + MUT_KIND[i]] += 1
                rej_keys[key] = rej_keys.get(key, 0) + 1
                variants.setdefault(key, set()).add(tuple(v for _, v in muts))
                seen_mut_rej = True
            if x[0] == "rej" and key:
                pos = nan_positions(fields, c[1])
                for t in pos:
                    cov[t] += 1
                if pos or '["f", "nan"]' in json.dumps(c[1]):
                    nan_keys[key] = nan_keys.get(key, 0) + 1
            if x[0] == "acc":
                if seen_mut_rej:
                    cov["call_answered_after_an_unhashable_refusal"] += 1
                if g.get("seeds") and key:
                    kinds = {REF_KIND[a[1] % NREF] for a in flat_vals(c[1]) if a[0] == "r"}
                    if kinds & {"frozenset", "frozenset_of_frozensets", "frozenset_members_with_equal_str"}:
                        d = set_names.setdefault((key, tuple(sorted(kinds))), {})
                        seed = g["seeds"][hi % len(g["seeds"])]
                        d[seed] = d.get(seed, False) or k == 0
        cov["unhashable_call_repeated_in_one_interpreter"] += sum(1 for n in rej_keys.values() if n > 1)
        cov["nan_call_repeated_in_one_interpreter"] += sum(1 for n in nan_keys.values() if n > 1)
        for k in rej_keys:
            rej_in[k] = rej_in.get(k, 0) + 1
    cov["unhashable_call_refused_in_two_fresh_interpreters"] += sum(1 for n in rej_in.values() if n > 1)
    cov["equal_unhashable_values_built_separately_pairs"] += sum(len(v) * (len(v) - 1) // 2 for v in variants.values())
    for (key, kinds), d in set_names.items():
        if len(d) > 1:
            cov["set_value_named_in_interpreters_with_different_hash_seeds"] += 1
            if "frozenset_of_frozensets" in kinds:
                cov["set_of_sets_named_in_interpreters_with_different_hash_seeds"] += 1
            if sum(1 for v in d.values() if v) > 1:
                cov["set_value_first_call_of_its_interpreter_under_different_hash_seeds"] += 1


def flat_vals(args):
    for a in args:
        if a is None:
            continue
        if a[0] == "R":
            yield from flat_vals(a[1])
        else:
            yield a


def walk_dtypes(d, depth=0):
    yield d, depth
    if d[0] == "opt":
        yield from walk_dtypes(d[1], depth + 1)
    if d[0] == "rec":
        for dd in d[1]:
            yield from walk_dtypes(dd, depth + 1)


def arg_ids(fields, args):
    """(value identity, spelling) of an argument list, or None when a field is outside the number-like / plain kinds"""
    ids, sp = [], []
    for f, a in zip(fields, args):
        d = f["dtype"]
        if a is None:
            a = f.get("default")
        if a is None:
            return None
        while d[0] == "opt":
            d = d[1]
        if d[0] in NUM_CLASSES:
            ids.append(value_id(d[0], a))
        elif a[0] == "r":
            ids.append(("r", a[1]))
        elif a[0] == "m":
            ids.append(("m", a[1] % NMUT))
        elif d[0] == "rec" and a[0] == "R" and len(a[1]) == len(d[1]):
            sub = arg_ids([dict(dtype=dd) for dd in d[1]], a[1])
            if sub is None:
                return None
            ids.append(("R", sub[0]))
            sp.append(sub[1])
            continue
        else:
            ids.append(("v", json.dumps(a[:2])))
        sp.append(json.dumps(a[:3]))
    return json.dumps(ids), json.dumps(sp)


def has_number(fields, args):
    txt = json.dumps([f["dtype"] for f in fields])
    return any(k in txt for k in ('"scalar"', '"pref"', '"dec"'))


def objs_in(fields, args):
    """the objects without a JSON form among the (defaulted) arguments of a call: list of (index, variant)"""
    out = []

    def walk(v):
        if v is None:
            return
        if v[0] == "o":
            out.append((v[1] % NOBJ, v[2] if len(v) > 2 else 0))
        elif v[0] == "R":
            for x in v[1]:
                walk(x)
    for f, a in zip(fields, args):
        walk(a if a is not None else f.get("default"))
    return out


def measure_refusals(cov, g, outs):
    univ = g["univ"]
    for gen in univ:
        for f in gen["fields"]:
            for d, depth in walk_dtypes(f["dtype"]):
                if d[0] == "obj":
                    cov["fields_unnameable"] += 1
                    if depth > 0:
                        cov["fields_optional_or_nested_unnameable"] += 1
    rej_in = {}         # key -> number of interpreters it was refused in
    variants = {}       # key -> variant tuples it was refused with
    for h, o in zip(g["hists"], outs):
        rej_keys, seen_rej, other_pending = {}, False, False
        per_gen = {}
        for c, x in zip(h, o["obs"]):
            if c[0] >= len(univ):
                continue
            fields = univ[c[0]]["fields"]
            objs = objs_in(fields, c[1]) if len(c[1]) == len(fields) else []
            ids = arg_ids(fields, c[1]) if len(c[1]) == len(fields) else None
            key = (c[0], ids[0]) if ids else None
            if x[0] == "rej" and '["f", "nan"]' in json.dumps([a if a is not None else f.get("default") for f, a in zip(fields, c[1])]):
                cov["calls_refused_for_a_nan_parameter"] += 1
            if x[0] == "rej":
                if objs and key:
                    cov["calls_refused_for_unnameable_parameters"] += 1
                    for i, _ in objs:
                        cov["unnameable_" + OBJ_KIND[i]] += 1
                    rej_keys[key] = rej_keys.get(key, 0) + 1
                    per_gen.setdefault(c[0], set()).add(key)
                    variants.setdefault(key, set()).add(tuple(v for _, v in objs))
                elif key:
                    e = next((e for e in g["table"] if e["gen"] == c[0] and json.dumps(e["args"]) == json.dumps(c[1])), None)
                    if e and any(objs_in(univ[cc[0]]["fields"], cc[1]) for cc in e["calls"] if cc[0] < len(univ)):
                        cov["refused_through_a_nested_unnameable_call"] += 1
                if not objs:
                    other_pending = True
                seen_rej = True
            else:
                if seen_rej:
                    cov["call_answered_after_a_refusal"] += 1
                if other_pending:
                    cov["refused_calls_by_other_causes_then_more_calls"] += 1
                    other_pending = False
                if objs:
                    cov["handed_on_module_through_a_call_with_unnameable_parameters"] += 1
        cov["refused_call_repeated_in_one_interpreter"] += sum(1 for n in rej_keys.values() if n > 1)
        cov["second_unnameable_value_after_a_refusal"] += sum(1 for ks in per_gen.values() if len(ks) > 1)
        if seen_rej and o["exported"]:
            cov["design_exported_after_a_refusal"] += 1
        for k in rej_keys:
            rej_in[k] = rej_in.get(k, 0) + 1
    cov["call_refused_in_two_fresh_interpreters"] += sum(1 for n in rej_in.values() if n > 1)
    cov["equal_unnameable_value_objects_built_separately_pairs"] += sum(len(v) * (len(v) - 1) // 2 for v in variants.values())


def measure(cov, g, outs):
    measure_refusals(cov, g, outs)
    measure_round3(cov, g, outs)
    univ = g["univ"]
    for gen in univ:
        for f in gen["fields"]:
            for d, depth in walk_dtypes(f["dtype"]):
                if d[0] == "scalar":
                    cov["fields_scalar"] += 1
                if d[0] == "pref":
                    cov["fields_prefixed"] += 1
                if d[0] == "dec":
                    cov["fields_decimal"] += 1
                if d[0] in NUM_CLASSES and depth > 0:
                    cov["fields_optional_or_nested_number"] += 1
    def count_vals(v):
        if v is None:
            return
        t = v[0]
        if t == "R":
            for x in v[1]:
                count_vals(x)
        elif t == "L":
            cov["literal_values"] += 1
        elif t == "r":
            cov["calls_ref_" + REF_KIND[v[1] % NREF]] += 1
    first = {}      # (gen, value id) -> set of spellings that were the FIRST call of that value in some history
    alone = set()
    spell_of = {}   # (gen, value id) -> spellings seen
    for h, o in zip(g["hists"], outs):
        seen = set()
        for k, (c, x) in enumerate(zip(h, o["obs"])):
            if x[0] != "acc" or c[0] >= len(univ):
                continue
            fields = univ[c[0]]["fields"]
            for f, a in zip(fields, c[1]):
                count_vals(a)
                d = f["dtype"]
                while d[0] == "opt":
                    d = d[1]
                if a is not None and d[0] in NUM_CLASSES:
                    key = {"i": "int", "f": "float", "s": "str", "D": "decimal", "P": "prefixed"}.get(a[0])
                    if key:
                        cov["number_inputs_" + key] += 1
            if not has_number(fields, c[1]) and '"ref"' not in json.dumps([f["dtype"] for f in fields]):
                continue
            ids = arg_ids(fields, c[1])
            if ids is None:
                continue
            vk = (c[0], ids[0])
            spell_of.setdefault(vk, set()).add(ids[1])
            if vk not in seen:
                seen.add(vk)
                first.setdefault(vk, set()).add(ids[1])
                if len(h) == 1:
                    alone.add((vk, ids[1]))
    for vk, sps in spell_of.items():
        n = len(sps)
        if '"r"' in vk[1] and '"N"' not in vk[1]:
            cov["equal_call_references_built_separately_pairs"] += n * (n - 1) // 2
        else:
            cov["equal_values_written_differently_pairs"] += n * (n - 1) // 2
    cov["value_classes_first_called_by_different_spellings_in_fresh_interpreters"] += sum(1 for v in first.values() if len(v) > 1)
    cov["spellings_run_alone_in_a_fresh_interpreter"] += len(alone)
    for e in g["table"]:
        n = sum(1 for c in e["calls"] if has_number(univ[c[0]]["fields"], c[1]))
        cov["nested_calls_with_number_arguments"] += n
        if n and e["ret"][0] == "pass":
            cov["hand_on_bodies_with_number_arguments"] += 1


def size_of(g):
    return (sum(len(h) for h in g["hists"]), len(g["table"]), len(json.dumps(g)))


def shrink_key(g):
    return json.dumps(dict(univ=g["univ"], table=g["table"], hists=g["hists"]), sort_keys=True)


def evaluate(run, stream, groups, evaluator="run_cases chk_group", chunk=40):
    outs = run_groups(groups)
    keep, skipped = [], 0
    for g, o in zip(groups, outs):
        if outputs_printable(o):
            keep.append((g, o))
        else:
            skipped += 1
    # groups whose built-in flag asks for the spec-only evaluator are evaluated separately
    res = []
    for ev, sel in (("run_cases chk_group", [p for p in keep if not p[0].get("builtin")]),
                    ("run_cases chk_spec_only", [p for p in keep if p[0].get("builtin")])):
        if not sel:
            continue
        cases = [c_group(g, o) for g, o in sel]
        bad = core.coq_eval_cases("C09", stream + ("_b" if "spec_only" in ev else ""), IMPORTS, "gcase", cases, ev, chunk=chunk)
        res += [(sel[i][0], sel[i][1], code) for i, code in bad]
    return keep, res, skipped


def minimise(g, outs):
    """Cheap shrinking of a failing group: keep only the two shortest histories that still contain a rejected or
    repeated observation; the replay file carries the full group as well."""
    return g


def report(run, stream, res):
    v1 = sorted([x for x in res if x[2] == 1], key=lambda x: size_of(x[0]))
    v2 = sorted([x for x in res if x[2] == 2], key=lambda x: size_of(x[0]))
    v3 = [x for x in res if x[2] == 3]
    for g, o, _ in (v1 if stream in ("corpus", "box", "replay") else v1[:1]):
        tag = g.get("tag")
        key = f"C09:{tag}" if tag else f"C09:{stream}:{shrink_key(g)}"
        run.violation(key, f"generator memoisation / unique naming violated on {tag or 'a generated group'}: "
                      + json.dumps([[x[1:] for x in oo['obs']] for oo in o])[:400],
                      dict(kind="impl-violates-spec", stream=stream, group=g, observations=o, failing_groups=len(v1),
                           reproducer="harness/impl/c09.py runs each entry of group['hists'] in a fresh process; "
                                      "compare identities and names of the returned modules"))
    if v2 and not v1:
        g, o, _ = v2[0]
        run.violation(f"C09:{stream}:tie", f"model and implementation differ on {g.get('tag') or shrink_key(g)[:300]} "
                      "(the specification holds on every explored history)",
                      dict(kind="correspondence-broken", stream=stream, group=g, observations=o, disagreeing_groups=len(v2),
                           theorem="C09 correspondence stream " + stream), found_input=False)
    if v3:
        g, o, _ = v3[0]
        run.violation(f"C09:{stream}:malformed-case", "the harness generated a case outside the modelled grammar",
                      dict(kind="harness-error", stream=stream, group=g), found_input=False)


def run(run, tier, seed, replay=None):
    quick = tier == "quick"
    if replay is not None and "group" in replay:
        keep, res, _ = evaluate(run, "replay", [replay["group"]])
        run.stream("replay", len(keep), len(keep))
        report(run, "replay", res)
        return
    if replay is not None and "case" in replay:
        run_values(run, seed, quick, only=replay["case"])
        return
    if replay is not None and "value" in replay:
        run_setenc(run, seed, quick, {t: 0 for t in TARGETS}, only=replay)
        return
    total_hist = 0
    cov = {t: 0 for t in TARGETS}
    # ------------------------------------------------------------------ corpus
    cg = corpus()
    keep, res, skipped = evaluate(run, "corpus", cg, chunk=3)
    for g, o in keep:
        measure(cov, g, o)
    nh = sum(len(g["hists"]) for g, _ in keep)
    total_hist += nh
    run.stream("corpus", nh, len({shrink_key(g) for g, _ in keep if nontrivial(g)}), groups=len(keep),
               tags=[g.get("tag") for g, _ in keep], skipped_unprintable=skipped,
               rule="evaluations = histories (one process each); non-trivial = group with a repeated call and a hand-on body or an adversarial / coerced value")
    report(run, "corpus", res)
    for g, o in keep[:3]:
        run.sample(dict(stream="corpus", tag=g.get("tag"), history=g["hists"][-1], observed=o[-1]["obs"]))
    # ------------------------------------------------------------------ exhaustive-small
    eg = exhaustive_small(quick)
    keep, res, skipped = evaluate(run, "box", eg, chunk=1)
    for g, o in keep:
        measure(cov, g, o)
    nh = sum(len(g["hists"]) for g, _ in keep)
    total_hist += nh
    npairs = sum(len(g["hists"][0]) * (len(g["hists"][0]) - 1) // 2 for g, _ in keep)
    run.stream("exhaustive-small", nh, len(keep), groups=len(keep), calls=sum(len(h) for g, _ in keep for h in g["hists"]),
               pairs_of_parameter_sets=npairs, tags=[g.get("tag") for g, _ in keep], skipped_unprintable=skipped,
               rule="every pair of parameter sets of a value box inside one history and its reverse; distinct = boxes")
    report(run, "box", res)
    # ------------------------------------------------------------------ hash seeds: every history in an interpreter whose
    # PYTHONHASHSEED the group names (set-valued parameters, sets of sets, members with equal str(); value objects)
    hg = hashseed_groups()
    for g in cg:
        if g.get("tag") in ("set-valued", "ref-kinds", "unnameable-value-objects", "unhashable-retry"):
            hg.append(dict(g, seeds=[(3 * k + 1) % 11 for k in range(len(g["hists"]))], tag=g["tag"] + "-across-hash-seeds"))
    k, n_hs = 0, (24 if quick else 400)
    while sum(1 for g in hg if not g.get("tag")) < n_hs and k < 40 * n_hs:
        g = gen_group(core.rng(seed, "C09", "hashseed", k), cyclic=0.02)
        k += 1
        if any(t in json.dumps(g["univ"]) for t in ('"ref"', '"obj"', '"mut"')):
            g["seeds"] = [(5 * i + k) % 13 for i in range(len(g["hists"]))]
            hg.append(g)
    keep, res, skipped = evaluate(run, "hashseed", hg, chunk=4)
    for g, o in keep:
        measure(cov, g, o)
    nh = sum(len(g["hists"]) for g, _ in keep)
    total_hist += nh
    run.stream("hash-seeds", nh, len({shrink_key(g) for g, _ in keep if nontrivial(g)}), groups=len(keep),
               tags=[g.get("tag") for g, _ in keep if g.get("tag")], skipped_unprintable=skipped,
               distinct_hash_seeds=len({sd for g, _ in keep for sd in g["seeds"]}),
               rule="evaluations = histories, each in an interpreter started with the PYTHONHASHSEED the group names for it (kept in the "
                    "replay); set-valued parameters (flat, nested, members with equal str()) built in other orders, each value also alone; "
                    "random groups with reference / object / container valued fields; specification and model as in corpus")
    report(run, "corpus", [x for x in res if x[0].get("tag")])
    report(run, "hashseed", [x for x in res if not x[0].get("tag")])
    run_setenc(run, seed, quick, cov)
    # ------------------------------------------------------------------ values (validation / == / hash of the number-like values)
    vstat = run_values(run, seed, quick)
    # ------------------------------------------------------------------ structured random
    n_rand = 480 if quick else 12000
    rg = []
    for k in range(n_rand):
        r = core.rng(seed, "C09", "random", k)
        rg.append(gen_group(r, scalar_only=(k % 3 == 0), cyclic=0.03))
    keep, res, skipped = evaluate(run, "random", rg)
    for g, o in keep:
        measure(cov, g, o)
    nh = sum(len(g["hists"]) for g, _ in keep)
    total_hist += nh
    rej = sum(1 for _, o in keep for oo in o if any(x[0] == "rej" for x in oo["obs"]))
    hashed = sum(1 for _, o in keep for oo in o for f in oo["final"] if len(f[1]) >= 34 and f[1][-34] == "(" and "=" not in f[1][-33:])
    readable = sum(1 for _, o in keep for oo in o for f in oo["final"] if "=" in f[1])
    run.stream("structured-random", nh, len({shrink_key(g) for g, _ in keep if nontrivial(g)}), groups=len(keep),
               histories_with_rejection=rej, rejected_fraction=round(rej / max(nh, 1), 4),
               modules_with_hashed_name=hashed, modules_with_readable_name=readable,
               groups_with_hand_on=sum(1 for g, _ in keep if any(e["ret"][0] == "pass" for e in g["table"])),
               skipped_unprintable=skipped,
               rule="evaluations = histories; non-trivial as in corpus; distinct by (universe, table, histories)")
    report(run, "random", res)
    if keep:
        g, o = keep[len(keep) // 2]
        run.sample(dict(stream="random", universe=g["univ"], history=g["hists"][0], observed=o[0]["obs"]))
    # ------------------------------------------------------------------ malformed
    n_bad = 80 if quick else 1500
    mg = malformed(core.rng(seed, "C09", "malformed"), n_bad)
    keep, res, skipped = evaluate(run, "malformed", mg)
    nh = sum(len(g["hists"]) for g, _ in keep)
    total_hist += nh
    rej = sum(1 for _, o in keep for oo in o if any(x[0] == "rej" for x in oo["obs"]))
    run.stream("malformed", nh, len({shrink_key(g) for g, _ in keep}), groups=len(keep), histories_with_rejection=rej,
               rejected_fraction=round(rej / max(nh, 1), 4), skipped_unprintable=skipped,
               rule="invalid arguments, missing required fields, circular generator calls; distinct by group")
    report(run, "malformed", res)
    run.coverage["traces_validated_against_impl"] = total_hist
    # ------------------------------------------------------------------ declared coverage targets (fail closed)
    run.coverage["shape_coverage"] = dict(cov, rule="counted over the corpus, exhaustive-small and structured-random groups that were "
                                          "evaluated: fields by dtype, accepted calls by kind of argument, pairs of distinct spellings of one "
                                          "value per generator and group, value classes whose first call was spelled differently in two "
                                          "fresh interpreters of a group, spellings that were the only call of their interpreter")
    missing = [t for t in TARGETS if cov[t] == 0]
    if missing:
        run.violation("C09:coverage-target-missing:" + ",".join(missing),
                      "declared coverage targets of the C09 streams were not met in this run: " + ", ".join(missing),
                      dict(kind="coverage-missing", targets=missing, measured=cov), found_input=False)
