"""C19 — built-in generators build the documented topologies (DESIGN.md 6.17).

Series pairs are all ordered pairs of distinct signal-valued unit ports of ONE width, one bit or a bus (fixes/C19W-1);
pairs of different widths are among the calls on which nothing can be built (stream malformed).

Every case is one call of hdl21.generators.Series / MosStack / Wrapper on an abstractly described unit cell.  The
implementation driver (harness/impl/c19.py) makes the call and exports the result; Coq (Corr/C19.v:chk_c19) reads the
exported package as the netlisters do, and compares (1) its ports, unit instances and net partition with the
specification Spec/C19Topology.v (spec_series / spec_wrapper) and (2) the nets of every unit port with the model
Model/C19Series.v evaluated through Model/Arrays.v and Model/Resolve.v.
"""
import json
from . import core, design as D
from .core import cz, cstr, clist

IMPORTS = ("Require Import Hdl21.Base.PyInt Hdl21.Base.Design Hdl21.Base.Package Hdl21.Spec.C19Topology "
           "Hdl21.Model.C19Series Hdl21.Corr.C03 Hdl21.Corr.C19.\nOpen Scope string_scope.")

DIRCODE = {"in": 0, "out": 1, "inout": 2, "none": 3}
GEN = {"series": 0, "mosstack": 1, "wrapper": 2}


# ------------------------------------------------------------------------------------------ unit cells
def ext(name, ports, tag=1):
    return dict(kind="ext", name=name, ports=ports, tag=tag)


def mod(name, sigs, buns=()):
    return dict(kind="mod", name=name, sigs=sigs, buns=[list(b) for b in buns])


EXT_UNITS = [
    ext("E2", [["a", 1], ["b", 1]]),
    ext("E3bus", [["a", 1], ["b", 1], ["c", 3]]),
    ext("E4bus", [["x", 2], ["a", 1], ["y", 1], ["z", 1]]),
    ext("Ei", [["a", 1], ["i", 1]]),                          # a port called like the internal bus of Series
    ext("Eunits", [["units", 1], ["i", 1], ["i_", 1]]),       # ... and like its instance array
    ext("Einner", [["inner", 1], ["p", 1], ["w", 2]]),
    ext("Eelem", [["a", 1], ["units_0", 1], ["units_1", 1]]),  # ports called like the flattened array elements
    # bus-valued series ports (fixes/C19W-1): pairs of equally wide buses next to one-bit and differently wide ports
    ext("E2w", [["a", 2], ["b", 2], ["c", 1]]),
    ext("E3w", [["x", 3], ["k", 1], ["y", 3], ["z", 3]]),
    ext("Eiw", [["i", 2], ["units", 2], ["p", 4]]),             # wide ports called like the internal names of Series
]
MOD_UNITS = [
    mod("Ubus", [["x", 1, "in"], ["y", 1, "out"], ["z", 2, "inout"], ["w", 1, "none"]]),
    mod("Ubun", [["x", 1, "in"], ["y", 1, "out"]], [["b", [["p", 1], ["q", 2]]]]),
    mod("Ubun2", [["s0", 1, "inout"], ["s1", 1, "inout"], ["v", 3, "in"]], [["b0", [["m", 1]]], ["b1", [["m", 1], ["k", 1]]]]),
    mod("Ui", [["i", 1, "in"], ["units", 1, "out"]], [["i_", [["p", 1]]]]),
    mod("Uelem", [["units_0", 1, "in"], ["b", 1, "out"], ["units_1", 2, "inout"], ["units_2", 1, "none"]]),
    mod("Uw", [["p", 2, "inout"], ["q", 2, "inout"], ["en", 1, "in"], ["v", 3, "in"]], [["b", [["m", 1], ["k", 2]]]]),
]
MOS_UNITS = [
    None,                                                      # MosStack's default unit
    dict(kind="prim", name="Mos"),
    ext("Emos", [["d", 1], ["g", 1], ["s", 1], ["b", 1]]),
    ext("Emos5", [["d", 1], ["g", 2], ["s", 1], ["b", 1]]),
    mod("Umos", [["d", 1, "inout"], ["g", 1, "in"], ["s", 1, "inout"]], [["sub", [["b", 1]]]]),
    ext("Emosw", [["d", 2], ["g", 1], ["s", 2]]),              # drain and source are two-bit buses
]


def unit_sigs(u, prims):
    if u is None:
        u = dict(kind="prim", name="Mos")
    if u["kind"] == "prim":
        return [[n, w, "none"] for n, w in prims[u["name"]]]
    if u["kind"] == "ext":
        return [[n, w, "none"] for n, w in u["ports"]]
    return [list(s) for s in u["sigs"]]


def unit_buns(u):
    return u["buns"] if u is not None and u["kind"] == "mod" else []


def unit_io(u, prims):
    io = [(n, w, d) for n, w, d in unit_sigs(u, prims)]
    for bn, members in unit_buns(u):
        io += [(f"{bn}_{m}", w, "none") for m, w in members]
    return io


# ------------------------------------------------------------------------------------------ Coq printing
def c_pw(p):
    return f"({cstr(p[0])}, {cz(p[1])})"


def c_unit(u, prims):
    sigs = clist(unit_sigs(u, prims), c_pw)
    buns = clist(unit_buns(u), lambda b: f"({cstr(b[0])}, {clist(b[1], c_pw)})")
    return f"{{| u_sigs := {sigs}; u_buns := {buns} |}}"


def conn_name(c):
    """The port name a SeriesConn denotes; None when it is neither a str nor a Signal."""
    if c is None or c[0] in ("int", "bundleport"):
        return None
    return c[1]


def c_kind(job, out):
    u = job["unit"] or dict(kind="prim", name="Mos")
    if u["kind"] == "prim":
        return f"(UPrim {cstr(u['name'])})"
    if u["kind"] == "ext":
        return f"(UExt {cstr(u['name'])})"
    nm = u["name"]
    if out["pkg"] is not None:
        cands = [m["name"] for m in out["pkg"]["mods"][:-1] if m["name"] == nm or m["name"].endswith("." + nm)]
        if cands:
            nm = cands[-1]
    return f"(UMod {cstr(nm)})"


def c_case(job, out, prims):
    u = job["unit"]
    conns = job.get("conns") or [None, None]
    opt = lambda s: "None" if s is None else f"(Some {cstr(s)})"
    dirs = clist(unit_io(u, prims), lambda p: f"({cstr(p[0])}, {DIRCODE[p[2]]})")
    pk = "None" if out["pkg"] is None else f"(Some {D.c_pkg(out['pkg'])})"
    n = job.get("nser")
    return (f"{{| k_gen := {GEN[job['gen']]}; k_unit := {c_unit(u, prims)}; k_dirs := {dirs}; k_kind := {c_kind(job, out)};\n"
            f"  k_a := {opt(conn_name(conns[0]))}; k_b := {opt(conn_name(conns[1]))}; k_n := {cz(1 if n is None else n)};\n  k_pkg := {pk} |}}")


# ------------------------------------------------------------------------------------------ case generation
def series_jobs(units, prims, ns, modes, pre_modes=(False,)):
    """n x unit x all ordered pairs of distinct signal-valued ports of ONE width (one bit or a bus) x the way the pair is given."""
    jobs = []
    for u in units:
        sigs = [(n, w) for n, w, _ in unit_sigs(u, prims)]
        pairs = [(a, b, wa) for a, wa in sigs for b, wb in sigs if a != b and wa == wb]
        for n in ns:
            for a, b, w in pairs:
                for mode in modes:
                    for pre in (pre_modes if u["kind"] == "mod" else (False,)):
                        mk = lambda s: [mode, s] if mode != "fresh" else ["fresh", s, w]
                        jobs.append(dict(gen="series", unit=u, conns=[mk(a), mk(b)], nser=n, pre=pre))
    return jobs


def pair_width(j, prims):
    """Width of the series pair of a Series / MosStack job when both ports are signal-valued ports of one width, else None."""
    if j["gen"] == "wrapper":
        return None
    if j["gen"] == "mosstack":
        a, b = "d", "s"
    else:
        c = j.get("conns") or [None, None]
        a, b = conn_name(c[0]), conn_name(c[1])
    ws = dict((n, w) for n, w, _ in unit_sigs(j["unit"], prims))
    if a is None or b is None or a == b or a not in ws or b not in ws or ws[a] != ws[b]:
        return None
    return ws[a]


def is_wide(j, prims):
    w = pair_width(j, prims)
    return w is not None and w >= 2 and isinstance(j.get("nser"), int) and j["nser"] >= 2


def malformed_jobs(prims, ns):
    jobs = []
    r = dict(kind="prim", name="IdealResistor")
    for u in [r, EXT_UNITS[1], MOD_UNITS[1]]:
        for n in (0, -1, -3):
            a, b = [x for x, w, _ in unit_sigs(u, prims) if w == 1][:2]
            jobs.append(dict(gen="series", unit=u, conns=[["name", a], ["name", b]], nser=n))
    for n in ns:
        # a series port that does not exist / is bundle valued / is a flattened bundle member / is no SeriesConn
        jobs.append(dict(gen="series", unit=r, conns=[["name", "p"], ["name", "zz"]], nser=n))
        jobs.append(dict(gen="series", unit=r, conns=[["fresh", "q", 1], ["name", "n"]], nser=n))
        jobs.append(dict(gen="series", unit=r, conns=[["int", 3], ["name", "n"]], nser=n))
        jobs.append(dict(gen="series", unit=MOD_UNITS[1], conns=[["name", "x"], ["name", "b"]], nser=n))
        jobs.append(dict(gen="series", unit=MOD_UNITS[1], conns=[["name", "b_p"], ["name", "y"]], nser=n))
        jobs.append(dict(gen="series", unit=MOD_UNITS[1], conns=[["name", "b_p"], ["name", "y"]], nser=n, pre=True))
        jobs.append(dict(gen="series", unit=MOD_UNITS[1], conns=[["bundleport", "b"], ["name", "y"]], nser=n))
        # series ports of DIFFERENT widths (by name, and by a Signal): nothing can be built
        jobs.append(dict(gen="series", unit=EXT_UNITS[1], conns=[["name", "a"], ["name", "c"]], nser=n))
        jobs.append(dict(gen="series", unit=EXT_UNITS[2], conns=[["port", "x"], ["name", "a"]], nser=n))
        jobs.append(dict(gen="series", unit=MOD_UNITS[0], conns=[["name", "z"], ["name", "x"]], nser=n))
        jobs.append(dict(gen="series", unit=EXT_UNITS[7], conns=[["name", "c"], ["name", "b"]], nser=n))
        jobs.append(dict(gen="series", unit=EXT_UNITS[9], conns=[["name", "units"], ["name", "p"]], nser=n))
        jobs.append(dict(gen="series", unit=MOD_UNITS[5], conns=[["port", "v"], ["port", "p"]], nser=n))
        # MosStack over units without d / s, or with d and s of different widths
        jobs.append(dict(gen="mosstack", unit=r, nser=n))
        jobs.append(dict(gen="mosstack", unit=ext("Emosu", [["d", 2], ["g", 1], ["s", 1]]), nser=n))
    return jobs


def corpus_jobs():
    ubun = MOD_UNITS[1]
    return [
        # pinned tree: the bundle-valued port of the unit is neither exposed nor wired (DESIGN.md section 7 #30)
        dict(gen="series", unit=ubun, conns=[["name", "x"], ["name", "y"]], nser=2),
        # pinned tree: Wrapper of a module with a bundle-valued port raises (deepcopy of the BundleInstance)
        dict(gen="wrapper", unit=ubun),
        dict(gen="series", unit=ubun, conns=[["name", "x"], ["name", "y"]], nser=1),
        # pinned tree: ... and differently once the unit has been elaborated (flattened ports cloned)
        dict(gen="wrapper", unit=ubun, pre=True),
        # ... and when the unit was only part of a design whose elaboration failed elsewhere (flattened, never marked elaborated)
        dict(gen="wrapper", unit=ubun, pre="failed"),
        dict(gen="series", unit=ubun, conns=[["name", "x"], ["name", "y"]], nser=2, pre="failed"),
        dict(gen="series", unit=ubun, conns=[["name", "x"], ["name", "y"]], nser=1, pre="failed"),
        dict(gen="series", unit=ubun, conns=[["name", "x"], ["name", "y"]], nser=3, pre=True),
        # pinned tree: a unit port named like the internal bus / the instance array is replaced by it
        dict(gen="series", unit=EXT_UNITS[3], conns=[["name", "a"], ["name", "i"]], nser=3),
        dict(gen="series", unit=EXT_UNITS[4], conns=[["name", "units"], ["name", "i_"]], nser=2),
        dict(gen="series", unit=MOD_UNITS[3], conns=[["port", "i"], ["port", "units"]], nser=4),
        # pinned tree: series ports wider than one bit - the private bus had n-1 bits whatever the width of the pair, so every
        # such call was refused at elaboration (fixes/C19W-1)
        dict(gen="series", unit=EXT_UNITS[7], conns=[["name", "a"], ["name", "b"]], nser=2),
        dict(gen="series", unit=EXT_UNITS[8], conns=[["port", "y"], ["port", "x"]], nser=3),
        dict(gen="series", unit=MOD_UNITS[5], conns=[["name", "q"], ["name", "p"]], nser=2),
        dict(gen="mosstack", unit=MOS_UNITS[5], nser=2),
        # plain chains
        dict(gen="series", unit=dict(kind="prim", name="IdealResistor"), conns=[["name", "p"], ["name", "n"]], nser=3),
        dict(gen="mosstack", unit=None, nser=3),
        dict(gen="mosstack", unit=None, nser=None),
    ]


def job_key(j):
    return json.dumps(j, sort_keys=True)


def job_size(j):
    return (abs(j.get("nser") or 1), len(job_key(j)))


def describe(j):
    u = j["unit"]
    un = "default Mos" if u is None else f"{u['kind']} {u['name']}"
    if j["gen"] == "wrapper":
        return f"Wrapper({un})" + (" after the unit was exported once" if j.get("pre") else "")
    c = j.get("conns")
    cs = "" if c is None else f", conns=({c[0]}, {c[1]})"
    return f"{j['gen']}(unit={un}{cs}, nser={j.get('nser')})" + (" after the unit was exported once" if j.get("pre") else "")


def evaluate(jobs, stream, prims, chunk=120):
    outs = core.run_worker_sharded("c19", jobs)
    cases = [c_case(j, o, prims) for j, o in zip(jobs, outs)]
    bad = core.coq_eval_cases("C19", stream.replace("-", "_"), IMPORTS, "c19_case", cases, "run_cases chk_c19", chunk=chunk)
    return outs, bad


def report(run, stream, bad, jobs, outs):
    order = sorted(bad, key=lambda ic: job_size(jobs[ic[0]]))
    v1 = [i for i, c in order if c == 1]
    v2 = [i for i, c in order if c == 2]
    v3 = [i for i, c in order if c == 3]
    seen = set()
    shown = 0
    limit = 8 if stream == "corpus" else 2
    for i in v1:
        j, o = jobs[i], outs[i]
        if o["pkg"] is None and o["stage"] == "unit":
            run.violation("C19:unit-build", f"the unit cell of {describe(j)} could not be built with the public API: {o['err']}",
                          dict(kind="harness-error", case=j, impl=o), found_input=False)
            continue
        # one report per (generator, unit, pre): the smallest failing call
        grp = (j["gen"], json.dumps(j["unit"], sort_keys=True), bool(j.get("pre")), (j.get("nser") or 1) >= 2)
        if grp in seen or shown >= limit:
            continue
        seen.add(grp)
        shown += 1
        if o["pkg"] is None:
            what = f"valid call rejected at stage {o['stage']}: {o['err']['cls']}: {o['err']['msg']}"
        else:
            what = "exported module is not the documented topology (ports / unit instances / net partition), or a call that cannot be built was accepted"
        run.violation(f"C19:{job_key(j)}", f"{describe(j)}: {what}",
                      dict(kind="impl-violates-spec", stream=stream, case=j, impl=o, failing_cases=len(v1),
                           reproducer="harness/impl/c19.py builds the unit and calls hdl21.generators; compare h.to_proto(result) with the chain statement"))
    if v2 and not v1:
        i = v2[0]
        run.violation(f"C19:{stream}:tie", f"model and implementation differ on {describe(jobs[i])} (property holds on every explored input)",
                      dict(kind="correspondence-broken", stream=stream, case=jobs[i], impl=outs[i], disagreeing_cases=len(v2),
                           theorem="C19 correspondence stream " + stream), found_input=False)
    if v3 and not v1:
        run.violation("C19:generator", "a generated unit cell is not well-formed or disagrees with the regenerated primitive table (harness defect)",
                      dict(kind="harness-inconsistency", case=jobs[v3[0]]), found_input=False)


def nontrivial(j):
    return (j.get("nser") or 1) >= 2 or j["gen"] == "wrapper"


def run(run, tier, seed, replay=None):
    quick = tier == "quick"
    plist = core.run_worker("c19", dict(kind="list"))["results"]
    prims = {p["name"]: p["ports"] for p in plist}
    if replay is not None:
        jobs = [replay["case"]]
        outs, bad = evaluate(jobs, "replay", prims)
        print("replay verdict:", bad or "ok", json.dumps(outs[0])[:3000])
        if bad:
            run.violation("C19:replay", "replayed case still fails", dict(kind="replay", case=jobs[0], impl=outs[0]))
        return
    N = 6 if quick else 24
    ns = list(range(1, N + 1))
    prim_units = [dict(kind="prim", name=p["name"]) for p in plist if 2 <= len(p["ports"]) <= 4]
    r = core.rng(seed, "C19", "sample")

    streams = []
    streams.append(("corpus", corpus_jobs(), "non-trivial = nser >= 2 or Wrapper"))
    # every primitive with 2..4 ports x all ordered pairs x n, by name and by the unit's own port object
    pj = series_jobs(prim_units, prims, ns, ["name", "port"])
    if not quick:
        pj = [j for j in pj if j["nser"] <= 8 or r.random() < 0.35]
    streams.append(("series-primitives", pj, "non-trivial = nser >= 2; exhaustive in (primitive, ordered pair, n, name|Signal)" +
                    ("" if quick else " for n <= 8, a 35% sample above")))
    ej = series_jobs(EXT_UNITS + MOD_UNITS, prims, ns, ["name", "port", "fresh"], pre_modes=(False, True))
    if not quick:
        ej = [j for j in ej if j["nser"] <= 8 or r.random() < 0.35]
    streams.append(("series-ext-modules", ej, "non-trivial = nser >= 2; external modules and modules with bus and bundle ports, "
                    "names colliding with Series' internal names, every ordered pair of distinct signal-valued ports of one width (one bit "
                    "and buses), pairs by name / own port / unrelated Signal, unit fresh or already exported"))
    mj = [dict(gen="mosstack", unit=u, nser=n, **({"pre": True} if pre else {})) for u in MOS_UNITS for n in ns + [None]
          for pre in ((False, True) if u is not None and u["kind"] == "mod" else (False,))]
    streams.append(("mosstack", mj, "non-trivial = nser >= 2"))
    wj = [dict(gen="wrapper", unit=u, **({"pre": True} if pre else {})) for u in prim_units + EXT_UNITS + MOD_UNITS + MOS_UNITS[2:]
          for pre in ((False, True) if u["kind"] == "mod" else (False,))]
    streams.append(("wrapper", wj, "non-trivial = every Wrapper call (distinct unit cells)"))
    streams.append(("malformed", malformed_jobs(prims, [1, 2, 3] if quick else [1, 2, 3, 7, 24]),
                    "non-trivial = nser >= 2 (rejection demanded: nser < 1, a series port that is no signal-valued port of the unit, "
                    "series ports of different widths)"))

    total = 0
    wide_total = 0
    for name, jobs, rule in streams:
        outs, bad = evaluate(jobs, name, prims)
        rejected = sum(1 for o in outs if o["pkg"] is None)
        extras = dict(rejected_by_impl=rejected, max_nser=max([j.get("nser") or 1 for j in jobs]), rule=rule)
        if name.startswith("series"):
            extras["units"] = len({json.dumps(j["unit"], sort_keys=True) for j in jobs})
            extras["by_mode"] = {m: sum(1 for j in jobs if j["conns"][0][0] == m) for m in ("name", "port", "fresh")}
        wide = [k for k, j in enumerate(jobs) if is_wide(j, prims)]
        if wide:
            extras["bus_valued_series_pairs"] = len({job_key(jobs[k]) for k in wide})
            extras["bus_valued_series_pairs_accepted"] = sum(1 for k in wide if outs[k]["pkg"] is not None)
            extras["bus_valued_pair_widths"] = sorted({pair_width(jobs[k], prims) for k in wide})
        wide_total += len({job_key(jobs[k]) for k in wide})
        run.stream(name, len(jobs), len({job_key(j) for j in jobs if nontrivial(j)}), **extras)
        report(run, name, bad, jobs, outs)
        run.sample(dict(stream=name, case=jobs[len(jobs) // 2], impl_accepted=outs[len(jobs) // 2]["pkg"] is not None))
        total += len(jobs)
    run.coverage["traces_validated_against_impl"] = total
    run.coverage["bus_valued_series_pairs"] = wide_total
    need = 10
    if wide_total < need:
        run.violation("C19:coverage", f"only {wide_total} distinct calls with a bus-valued series pair and nser >= 2 were judged (target >= {need})",
                      dict(kind="harness-coverage"), found_input=False)
    # C19E: the written design of the generated module (coq Model/C19EDesign.v) + the pipeline model against the implementation's package
    from . import c19e
    c19e.run_tie(run, tier, seed, streams, prims)
