"""C04 — the last connection made to a port is the one that gets built (DESIGN.md 6.5).

A case is a history of connection operations (call / assignment / connect / replace / disconnect / fetching a port
reference) on three instances (optionally one of them an InstanceArray) of a leaf module with two scalar ports, a
bundle-valued port and one name that is no port.  The implementation (harness/impl/c04.py) is observed after EVERY
operation; at the end it elaborates and exports.  Coq (Corr/C04.v) replays the history through the specification
(Spec/C04LastWrite.v: the last successful operation per port) and the model (Model/C04ConnOps.v), and evaluates the
exported net partition against Spec/Nets.v of the FINAL mapping (Corr/C01.v:chk_c01 on an abstract design this module
builds from the final mapping; Coq checks that this final mapping is the specified one).
"""
import json, itertools
from . import core, design as D
from .core import cz, cstr, clist, cbool

IMPORTS = ("Require Import Hdl21.Base.PyInt Hdl21.Spec.PySlice Hdl21.Model.Slice Hdl21.Model.Resolve Hdl21.Base.Design "
           "Hdl21.Spec.Nets Hdl21.Spec.WfDesign Hdl21.Base.Package Hdl21.Corr.C03 Hdl21.Corr.C01 "
           "Hdl21.Model.C04ConnOps Hdl21.Spec.C04LastWrite Hdl21.Corr.C04.")

PORTS = ["a", "b", "bp", "zz"]            # a, b: width 2; bp: bundle B{x, y}; zz: not a port of the leaf
A, Bp, BP, ZZ = 0, 1, 2, 3
W = 2
KINDS = ["sig", "slice", "concat", "ref", "noconn", "bundle", "anon"]
CK = dict(sig="KSig", slice="KSlice", concat="KConcat", noconn="KNoConn", bundle="KBundle", anon="KAnon")

S0b0 = ["sl", ["sig", "s0"], ["i", 0]]
POOL = {
    0: ("sig", ["sig", "s0"]), 1: ("sig", ["sig", "s1"]), 2: ("sig", ["sig", "wide"]),
    10: ("slice", ["sl", ["sig", "wide"], ["s", 0, 2, None]]),
    11: ("slice", ["sl", ["sig", "s1"], ["s", None, None, -1]]),
    12: ("slice", ["sl", ["sig", "wide"], ["s", 1, 3, None]]),
    13: ("slice", ["sl", ["pref", 0, 0], ["s", None, None, -1]]),                       # i0.a[::-1]
    20: ("concat", ["cat", [S0b0, ["sl", ["sig", "wide"], ["i", 3]]]]),
    21: ("concat", ["cat", [["sl", ["sig", "s1"], ["i", 1]], ["sl", ["sig", "s0"], ["i", -1]]]]),
    22: ("concat", ["cat", [["sl", ["pref", 0, 1], ["i", 0]], ["sl", ["pref", 0, 0], ["i", 1]]]]),   # Concat(i0.b[0], i0.a[1])
    30: ("noconn", ["nc", None]), 31: ("noconn", ["nc", "ncx"]), 32: ("noconn", ["nc", None]),
    40: ("bundle", ["bundle", "bi0"]), 41: ("bundle", ["bundle", "bi1"]),
    50: ("anon", ["anon", {"x": S0b0, "y": ["sl", ["sig", "s1"], ["i", 0]]}]),
    51: ("anon", ["anon", {"x": ["bref", "bi0", "x"], "y": ["sl", ["sig", "wide"], ["i", 1]]}]),
}
DICTS = {0: {"x": ["sl", ["sig", "s1"], ["i", 1]], "y": ["sl", ["sig", "wide"], ["i", 2]]},
         1: {"x": ["bref", "bi1", "y"], "y": ["bref", "bi1", "x"]}}
BY_KIND = {k: [i for i, (kk, _) in POOL.items() if kk == k] for k in CK}
WIDTH = {0: 2, 1: 2, 2: 4, 10: 2, 11: 2, 12: 2, 13: 2, 20: 2, 21: 2, 22: 2}
PREFS_IN = {13: [(0, 0)], 22: [(0, 1), (0, 0)]}      # slices / concats OF port references: the ports they refer to


# ------------------------------------------------------------------------------------------ python mirror of the spec
# (used to GENERATE histories that end in a valid mapping and to build the abstract design; Coq re-derives the final
#  mapping from the operations and rejects the case with code 3 if this mirror disagrees)
def norm(a):
    if a[0] == "obj":
        return ("obj", POOL[a[1]][0], a[1])
    if a[0] == "ref":
        return ("ref", a[1], a[2])
    if a[0] in ("dict", "made"):     # "made": the AnonymousBundle an earlier dict argument was turned into
        return ("obj", "anon", a[1])
    return None


class Mirror:
    def __init__(self):
        self.m = {}
        self.dicts = {}        # new anon id -> dict id

    def write(self, q, a):
        c = norm(a)
        if c is None:
            return False
        if a[0] == "dict":
            self.dicts[a[1]] = a[2]
        self.m[q] = c
        return True

    def toarray_call(self, op):
        kvs = [[p, self.arg_of(c)] for (i, p), c in self.m.items() if i == op[1]]
        return ["call", op[2], kvs]

    @staticmethod
    def arg_of(c):
        if c[0] == "ref":
            return ["ref", c[1], c[2]]
        return ["obj", c[2]] if c[2] in POOL else ["made", c[2]]

    def apply(self, op):
        t = op[0]
        if t == "call":
            for p, a in op[2]:
                if not self.write((op[1], p), a):
                    return False
            return True
        if t == "getref":
            return True
        if t == "toarray":           # InstanceArray(..)( **template.conns ): a call on the new array
            return self.apply(self.toarray_call(op))
        q = (op[1], op[2])
        if t in ("set", "connect"):
            return self.write(q, op[3])
        if t == "replace":
            if norm(op[3]) is None or q not in self.m:
                return False
            return self.write(q, op[3])
        if t == "disconnect":
            if q not in self.m:
                return False
            del self.m[q]
            return True
        raise ValueError(t)


def kind_of(c):
    return "ref" if c[0] == "ref" else c[1]


def expand(ops):
    """Fetching `inst.port` as an argument hands the reference out: make that an explicit operation before the user."""
    out = []
    for op in ops:
        args = [a for _, a in op[2]] if op[0] == "call" else ([op[3]] if op[0] in ("set", "connect", "replace") else [])
        for a in args:
            if a[0] == "ref":
                out.append(["getref", a[1], a[2]])
            if a[0] == "obj":
                for t in PREFS_IN.get(a[1], []):
                    out.append(["getref", t[0], t[1]])
        out.append(op)
    return out


# ------------------------------------------------------------------------------------------ validity of a final mapping
# instance kinds: 0 = Instance, n >= 1 = InstanceArray(n), -3 = InstanceBundle (only in histories that are not exported), -1 = template Instance that never joins the module (it is
# consumed by `2 * template`), -2 = the InstanceArray made from the template by the "toarray" operation
def arr_n(k):
    return 2 if k == -2 else max(k, 0)


def referenced(m, kinds):
    """Ports referred to by a live connection of an instance of the module (the template is not part of it)."""
    out = {(c[1], c[2]) for q, c in m.items() if c[0] == "ref" and kinds[q[0]] != -1}
    for q, c in m.items():
        if c[0] == "obj" and kinds[q[0]] != -1:
            out |= set(PREFS_IN.get(c[2], []))
    return out


def conn_valid(m, kinds, q, c):
    i, p = q
    if p == ZZ:
        return False
    if c[0] == "ref":
        j, p2 = c[1], c[2]
        if j == i or kinds[j] != 0 or p2 == ZZ:
            return False
        return (p2 == BP) == (p == BP)
    k, oid = c[1], c[2]
    if k == "noconn":
        # NOT generated: a no-connect on a bundle-valued port of an InstanceArray. The elaborator broadcasts ONE copied
        # BundleInstance to all elements (shorting them) — a defect of the final-mapping semantics (C01/C05 class, it
        # needs no history), see notes/C04.md.
        if arr_n(kinds[i]) > 0 and p == BP:
            return False
        return q not in referenced(m, kinds)
    if p == BP:
        return k in ("bundle", "anon")
    if k in ("bundle", "anon"):
        return False
    if oid in PREFS_IN:
        # a slice/concat of references to ports of i0: not on i0 itself, and only while those ports end on a plain
        # object or are the root of their group (no loops through the slice)
        if i == 0 or kinds[0] != 0:
            return False
        for t in PREFS_IN[oid]:
            tc = m.get(t)
            if tc is not None and (tc[0] == "ref" or tc[1] == "noconn" or tc[2] in PREFS_IN):
                return False
    w = WIDTH[oid]
    return w == W or (arr_n(kinds[i]) > 0 and w == W * arr_n(kinds[i]))


def invalid_ports(m, kinds):
    bad = []
    refd = referenced(m, kinds)
    for i in range(len(kinds)):
        if kinds[i] == -1:
            continue                     # the template is not part of the design
        for p in range(len(PORTS)):
            q = (i, p)
            c = m.get(q)
            if c is None:
                if p != ZZ and (q not in refd or kinds[i] != 0):
                    bad.append(q)
            elif not conn_valid(m, kinds, q, c):
                bad.append(q)
    # a live reference to a no-connected or invalid target is the target's problem (reported above)
    return bad


def candidates(m, kinds, q, allow_ref=True, allow_nc=True):
    i, p = q
    out = []
    if p == BP:
        out += [["obj", k] for k in BY_KIND["bundle"] + BY_KIND["anon"]]
    else:
        out += [["obj", k] for k in (0, 1, 10, 11, 12, 20, 21)]
        out += [["obj", k] for k in PREFS_IN if conn_valid(m, kinds, q, ("obj", POOL[k][0], k))]
        if arr_n(kinds[i]) == 2:
            out.append(["obj", 2])
    if allow_nc and q not in referenced(m, kinds) and not (arr_n(kinds[i]) > 0 and p == BP):
        out += [["obj", k] for k in BY_KIND["noconn"]]
    if allow_ref:
        for j in range(len(kinds)):
            if j != i and kinds[j] == 0:
                for p2 in ([BP] if p == BP else [A, Bp]):
                    t = m.get((j, p2))
                    if t is not None and kind_of(t) == "noconn":
                        continue
                    # no reference cycles through this port's own referrers are excluded: cycles are valid designs
                    out.append(["ref", j, p2])
    return out


def write_op(r, m, q, a, newid):
    """A random way of writing `a` to port q."""
    if a[0] == "dictreq":
        a = ["dict", newid(), a[1]]
    styles = ["set", "connect", "call"] + (["replace"] if q in m else [])
    s = r.choice(styles)
    if s == "call":
        return ["call", q[0], [[q[1], a]]]
    return [s, q[0], q[1], a]


def complete(r, mir, kinds, newid, plain=False):
    """Completion step: operations that turn the current mapping into a complete valid one.
    plain: only whole signals and bundle instances, assigned (corpus witnesses stay free of everything else)."""
    ops = []
    for _ in range(60):
        bad = [q for q in invalid_ports(mir.m, kinds)]
        if not bad:
            return ops
        q = bad[0]
        if q[1] == ZZ:
            op = ["disconnect", q[0], q[1]]
        else:
            cands = candidates(mir.m, kinds, q, allow_ref=r.random() < 0.5, allow_nc=r.random() < 0.3)
            a = r.choice(cands)
            if q[1] == BP and r.random() < 0.15:
                a = ["dictreq", r.choice(list(DICTS))]
            if plain:
                a = ["obj", 40 + q[0] % 2] if q[1] == BP else ["obj", q[0] % 2]
                op = ["set", q[0], q[1], a]
            else:
                op = write_op(r, mir.m, q, a, newid)
        ops.append(op)
        mir.apply(op)
    raise RuntimeError("completion did not converge")


# ------------------------------------------------------------------------------------------ abstract design of a mapping
def flat_member(e):
    if e[0] == "bref":
        return ["sig", f"{e[1]}_{e[2]}"]
    return e


def cexpr(e):
    """pool recipe -> connection expression of the abstract design language"""
    if e[0] == "pref":
        return ["ref", f"i{e[1]}", PORTS[e[2]]]
    if e[0] == "sl":
        return ["sl", cexpr(e[1]), e[2]]
    if e[0] == "cat":
        return ["cat", [cexpr(x) for x in e[1]]]
    return e


def design_of(m, kinds, dicts):
    leaf = dict(name="Leaf", ports=[["a", W, "none"], ["b", W, "none"], ["bp_x", 1, "none"], ["bp_y", 1, "none"]], sigs=[],
                insts=[dict(name="e", n=0, of=["ext", 0, 1], conns=[["x0", ["sig", "a"]], ["x1", ["sig", "b"]]]),
                       dict(name="r", n=0, of=["prim", "R", 1], conns=[["p", ["sig", "bp_x"]], ["n", ["sig", "bp_y"]]])])
    insts = []
    for i, n in enumerate(kinds):
        if n == -1:
            continue
        n = arr_n(n)
        conns = []
        for p in (A, Bp, BP):
            c = m.get((i, p))
            if c is None:
                continue
            pn = PORTS[p]
            if c[0] == "ref":
                if p == BP:
                    conns += [["bp_x", ["ref", f"i{c[1]}", "bp_x"]], ["bp_y", ["ref", f"i{c[1]}", "bp_y"]]]
                else:
                    conns.append([pn, ["ref", f"i{c[1]}", PORTS[c[2]]]])
                continue
            k, oid = c[1], c[2]
            if k == "noconn":
                if p == BP:
                    conns += [["bp_x", ["nc", 2 * oid, None]], ["bp_y", ["nc", 2 * oid + 1, None]]]
                else:
                    conns.append([pn, ["nc", 2 * oid, None]])
            elif k == "bundle":
                b = POOL[oid][1][1]
                conns += [["bp_x", ["sig", f"{b}_x"]], ["bp_y", ["sig", f"{b}_y"]]]
            elif k == "anon":
                mem = POOL[oid][1][1] if oid in POOL else DICTS[dicts[oid]]
                conns += [["bp_x", flat_member(mem["x"])], ["bp_y", flat_member(mem["y"])]]
            else:
                conns.append([pn, cexpr(POOL[oid][1])])
        insts.append(dict(name=f"i{i}", n=n, of=["mod", 0], conns=conns))
    top = dict(name="Top", ports=[], insts=insts,
               sigs=[["s0", 2], ["s1", 2], ["wide", 4], ["bi0_x", 1], ["bi0_y", 1], ["bi1_x", 1], ["bi1_y", 1]])
    return dict(mods=[leaf, top], exts=[dict(name="E", ports=[["x0", 2], ["x1", 2]])], top=1)


# ------------------------------------------------------------------------------------------ Coq printers
def c_conn(c):
    if c[0] == "ref":
        return f"(CRef {cz(c[1])} {cz(c[2])})"
    if c[0] == "obj" and c[1] in CK:
        return f"(CObj {CK[c[1]]} {cz(c[2])})"
    return "(CObj KSig (-999))"       # an object the driver could not name: never equal to anything specified


def c_arg(a):
    if a[0] == "bad":
        return "ABad"
    if a[0] == "dict":
        return f"(ADict {cz(a[1])})"
    return f"(AConn {c_conn(norm(a))})"


def c_op(op):
    t = op[0]
    if t == "toarray":               # printed as the call it is specified to be (op[3] = the template's conns then)
        return c_op(["call", op[2], op[3]])
    if t == "call":
        return f"(Call {cz(op[1])} {clist(op[2], lambda kv: f'({cz(kv[0])}, {c_arg(kv[1])})')})"
    if t == "getref":
        return f"(GetRef {cz(op[1])} {cz(op[2])})"
    if t == "disconnect":
        return f"(Disconnect {cz(op[1])} {cz(op[2])})"
    ctor = dict(set="SetAttr", connect="Connect", replace="Replace")[t]
    return f"({ctor} {cz(op[1])} {cz(op[2])} {c_arg(op[3])})"


def c_pid(q):
    return f"({cz(q[0])}, {cz(q[1])})"


def c_obs(o):
    conns = clist(o["conns"], lambda e: f"({c_pid(e[:2])}, {c_conn(e[2])})")
    back = clist(o["back"], lambda e: f"({c_conn(e[0])}, {clist(e[1], c_pid)})")
    return (f"{{| o_conns := {conns}; o_back := {back}; o_handed := {clist(o['handed'], c_pid)}; "
            f"o_unique := {cbool(o['unique'])} |}}")


def c_case(job, out):
    steps = clist(list(zip(job["ops"], out["steps"])), lambda os: f"IS {c_op(os[0])} {cbool(os[1]['acc'])} {c_obs(os[1]['obs'])}")
    final = clist(sorted(job["final"]), lambda e: f"({c_pid(e[0])}, {c_conn(e[1])})")
    if job.get("export"):
        design = job["design"]
        spec_t, pkg_t = D.terminals(design)
        if out["pkg"] is None:
            pk, top = "None", "Top"
        else:
            pk, top = f"(Some {D.c_pkg(out['pkg'])})", D.pkg_top_name(out["pkg"], design)
        net = (f"(Some {{| cc_design := {D.c_design(design)};\n  cc_terms := {clist(spec_t, D.c_node)};\n  cc_pkg := {pk};\n"
               f"  cc_top := {cstr(top)}; cc_pterms := {clist(pkg_t, D.c_node)} |}})")
    else:
        net = "None"
    return (f"{{| h_insts := {clist(range(len(job['kinds'])), cz)}; h_ports := {clist(range(len(PORTS)), cz)};\n"
            f"  h_steps := {steps};\n  h_final := {final};\n  h_net := {net} |}}")


# ------------------------------------------------------------------------------------------ jobs
def mk_job(kinds, user_ops, export=True):
    """user_ops (without explicit getref for argument references) -> job for the driver + the mirror's final mapping."""
    ops = []
    mir = Mirror()
    for op in expand(user_ops):
        if op[0] == "toarray":
            op = op[:3] + [mir.toarray_call(op)[2]]
        mir.apply(op)
        ops.append(op)
    job = dict(kinds=list(kinds), ports=PORTS, pool={str(k): [v[0], v[1]] for k, v in POOL.items()},
               dicts={str(k): v for k, v in DICTS.items()}, ops=ops, user_ops=user_ops, export=export,
               final=sorted(mir.m.items()))
    if export:
        job["design"] = design_of(mir.m, kinds, mir.dicts)
    return job


def wire(job):
    """The part of a job the driver needs (JSON-able)."""
    return dict(kinds=job["kinds"], ports=job["ports"], pool=job["pool"], dicts=job["dicts"], ops=job["ops"],
                export=job["export"])


def evaluate(tag, jobs, chunk=40):
    outs = core.run_worker_sharded("c04", [wire(j) for j in jobs])
    cases = [c_case(j, o) for j, o in zip(jobs, outs)]
    bad = core.coq_eval_cases("C04", tag, IMPORTS, "hcase", cases, "run_cases chk_history", chunk=chunk)
    res = {i: (r % 10, r // 10 - 1) for i, r in bad}
    return outs, res


class IdGen:
    def __init__(self):
        self.k = 1000

    def __call__(self):
        self.k += 1
        return self.k


def rand_arg(r, kinds, q, newid, kind=None, bad_p=0.0):
    """Any connectable (valid for the port or not) — the replaced object need not make sense."""
    i, p = q
    if r.random() < bad_p:
        return ["bad", r.randrange(4)]
    k = kind or r.choice(KINDS)
    if k == "ref":
        js = [j for j in range(len(kinds)) if j != i and kinds[j] == 0] or [j for j in range(len(kinds)) if j != i and kinds[j] >= 0]
        j = r.choice(js)
        p2 = BP if p == BP else r.choice([A, Bp])
        if r.random() < 0.1:
            p2 = r.choice([A, Bp, BP])
        return ["ref", j, p2]
    if k == "anon" and r.random() < 0.3:
        return ["dict", newid(), r.choice(list(DICTS))]
    return ["obj", r.choice(BY_KIND[k])]


def rand_op(r, kinds, m, newid, ports=(A, Bp, BP, ZZ), avoid=(), bad_p=0.03, insts=None):
    for _ in range(50):
        i = r.choice(insts) if insts else r.randrange(len(kinds))
        p = r.choice(ports)
        q = (i, p)
        if q in avoid:
            continue
        u = r.random()
        if u < 0.10:
            if p == ZZ or kinds[i] == -1:
                continue
            return ["getref", i, p]
        if u < 0.22:
            return ["disconnect", i, p]
        if u < 0.34:
            n = r.randint(1, 3)
            ps = r.sample([x for x in ports if (i, x) not in avoid], min(n, len([x for x in ports if (i, x) not in avoid])))
            return ["call", i, [[x, rand_arg(r, kinds, (i, x), newid, bad_p=bad_p)] for x in ps]]
        t = "replace" if u < 0.52 else ("set" if u < 0.76 else "connect")
        return [t, i, p, rand_arg(r, kinds, q, newid, bad_p=bad_p)]
    return ["getref", 0, A]


def rand_history(r, kinds, n, newid, mir=None, avoid=(), bad_p=0.03, insts=None):
    mir = mir or Mirror()
    ops = []
    for _ in range(n):
        op = rand_op(r, kinds, mir.m, newid, avoid=avoid, bad_p=bad_p, insts=insts)
        ops.append(op)
        for e in expand([op]):
            mir.apply(e)
    return ops, mir


def finish(r, kinds, ops, newid, plain=False):
    mir = Mirror()
    for e in expand(ops):
        mir.apply(e)
    return ops + complete(r, mir, kinds, newid, plain=plain)


TKINDS = [0, 0, -1, -2]


def toarray_jobs(seed, n):
    """`2 * template`: the template Instance (never part of the module) is connected first, the array made from it takes
    over its connections (specified as a call on the new array), the history goes on; the template stays connected to
    whatever it was connected to — nothing of that may show in the elaborated design."""
    jobs = []
    for k in range(n):
        r = core.rng(seed, "C04", "toarray", k)
        ids = IdGen()
        pre, mir = rand_history(r, TKINDS, r.randint(1, 6), ids, insts=[0, 1, 2, 2])
        ops = pre + [["toarray", 2, 3]]
        mir.apply(["toarray", 2, 3])
        post, mir = rand_history(r, TKINDS, r.randint(0, 6), ids, mir=mir, insts=[0, 1, 3, 3, 2])
        jobs.append(mk_job(TKINDS, finish(r, TKINDS, ops + post, ids)))
    return jobs


def rand_kinds(r):
    return r.choice([[0, 0, 0], [0, 0, 0], [0, 0, 2], [0, 2, 0], [0, 0]])


# ------------------------------------------------------------------------------------------ streams
def corpus_jobs():
    r = core.rng(0, "C04", "corpus", 0)
    out = []
    hs = [
        # replace() with a dict / a non-connectable must be refused before anything is changed (fix C04-1)
        ([0, 0, 0], [["connect", 0, BP, ["obj", 40]], ["replace", 0, BP, ["dict", 1001, 0]]]),
        ([0, 0, 0], [["connect", 0, A, ["obj", 0]], ["replace", 0, A, ["bad", 0]], ["set", 0, A, ["obj", 1]]]),
        # a replaced port reference must not pull its former user into the group
        ([0, 0, 0], [["set", 1, A, ["ref", 0, A]], ["set", 1, A, ["obj", 1]], ["set", 0, A, ["obj", 0]]]),
        # a replaced no-connect gets no net and does not block a later reference
        ([0, 0, 0], [["set", 0, A, ["obj", 30]], ["set", 0, A, ["obj", 0]], ["set", 1, A, ["ref", 0, A]]]),
        # a replaced slice / concat of a group
        ([0, 0, 0], [["set", 0, A, ["obj", 10]], ["set", 1, A, ["ref", 0, A]], ["replace", 0, A, ["obj", 20]]]),
        # bundle replaced by anonymous bundle replaced by a reference, on an array
        ([0, 0, 2], [["set", 2, BP, ["obj", 40]], ["set", 2, BP, ["obj", 51]], ["set", 2, BP, ["ref", 0, BP]],
                     ["set", 0, BP, ["obj", 41]]]),
        # disconnect then reference: the port becomes the root of a group
        ([0, 0, 0], [["set", 0, Bp, ["obj", 1]], ["disconnect", 0, Bp], ["set", 1, Bp, ["ref", 0, Bp]],
                     ["set", 2, Bp, ["ref", 1, Bp]]]),
        # reference cycle left after replacing the signal that fed it
        ([0, 0, 0], [["set", 0, A, ["obj", 0]], ["set", 1, A, ["ref", 0, A]], ["set", 0, A, ["ref", 1, A]]]),
    ]
    # `2 * template` leaves the template in the back-reference set of i0.a; a reference cycle through i0.a then made
    # ResolvePortRefs pick a name among instances that are not part of the module (fix C04-2)
    hs.append((TKINDS, [["set", 2, A, ["ref", 0, A]], ["toarray", 2, 3], ["set", 0, A, ["ref", 1, A]], ["set", 1, A, ["ref", 0, A]]]))
    hs.append((TKINDS, [["set", 2, BP, ["ref", 0, BP]], ["set", 2, A, ["obj", 30]], ["toarray", 2, 3], ["set", 3, A, ["obj", 2]],
                        ["set", 0, BP, ["ref", 1, BP]], ["set", 1, BP, ["ref", 0, BP]]]))
    for kinds, ops in hs:
        out.append(mk_job(kinds, finish(r, kinds, ops, IdGen(), plain=True)))
    return out


WRITE_STYLES = ["set", "connect", "call", "replace"]


def small_jobs(quick):
    """Exhaustive: every ordered pair of (operation kind x argument kind) on ONE port, then the completion step."""
    r = core.rng(0, "C04", "small", 0)
    alphabet = []
    for t in WRITE_STYLES:
        for k in KINDS + ["bad", "dict"]:
            alphabet.append((t, k))
    alphabet.append(("disconnect", None))
    alphabet.append(("getref", None))
    jobs = []
    for (t1, k1), (t2, k2) in itertools.product(alphabet, alphabet):
        p = BP if k2 in ("bundle", "anon", "dict") else A
        ids = IdGen()

        def mk(t, k, which):
            if t in ("disconnect", "getref"):
                return [t, 0, p]
            if k == "bad":
                a = ["bad", which]
            elif k == "dict":
                a = ["dict", ids(), which]
            elif k == "ref":
                a = ["ref", 1, p]
            else:
                a = ["obj", BY_KIND[k][which]]
            return ["call", 0, [[p, a]]] if t == "call" else [t, 0, p, a]
        ops = [mk(t1, k1, 0), mk(t2, k2, 1)]
        jobs.append(mk_job([0, 0, 0], finish(r, [0, 0, 0], ops, ids)))
    if quick:                      # a fixed third of them in the quick tier
        jobs = jobs[::3]
    return jobs


def pair_jobs(seed, per_pair):
    """Every ordered pair (replaced kind, replacing kind) on one port, embedded in a seeded context."""
    jobs = []
    for k1, k2 in itertools.product(KINDS, KINDS):
        for n in range(per_pair):
            r = core.rng(seed, "C04", f"pair-{k1}-{k2}", n)
            kinds = rand_kinds(r)
            ids = IdGen()
            i = r.randrange(len(kinds))
            p = BP if k2 in ("bundle", "anon") else r.choice([A, Bp])
            if k2 == "sig" and kinds[i] == 0:
                pass
            q = (i, p)
            pre, mir = rand_history(r, kinds, r.randint(0, 5), ids)
            a1 = rand_arg(r, kinds, q, ids, kind=k1)
            op1 = write_op(r, mir.m, q, a1, ids)
            for e in expand([op1]):
                mir.apply(e)
            mid, mir = rand_history(r, kinds, r.randint(0, 3), ids, mir=mir, avoid=(q,))
            a2 = rand_arg(r, kinds, q, ids, kind=k2)
            if a2 == ["obj", 2] and kinds[i] == 0:
                a2 = ["obj", 0]
            op2 = write_op(r, mir.m, q, a2, ids)
            for e in expand([op2]):
                mir.apply(e)
            post, mir = rand_history(r, kinds, r.randint(0, 3), ids, mir=mir, avoid=(q,))
            ops = pre + [op1] + mid + [op2] + post
            jobs.append(mk_job(kinds, finish(r, kinds, ops, ids)))
    return jobs


def random_jobs(seed, n, maxlen):
    jobs = []
    for k in range(n):
        r = core.rng(seed, "C04", "random", k)
        kinds = rand_kinds(r)
        ids = IdGen()
        ops, _ = rand_history(r, kinds, r.randint(1, maxlen), ids)
        jobs.append(mk_job(kinds, finish(r, kinds, ops, ids)))
    return jobs


def malformed_jobs(seed, n):
    """Refused operations (non-connectables, replace/disconnect of an unconnected port) in bulk; half of the histories are
    NOT completed and not exported: only the books (conns, back-references) are compared."""
    jobs = []
    for k in range(n):
        r = core.rng(seed, "C04", "malformed", k)
        kinds = rand_kinds(r)
        ids = IdGen()
        if k % 4 == 0:
            kinds = [0, -3, r.choice([0, 2])]      # an InstanceBundle (h.Pair) among them: books only
        ops, _ = rand_history(r, kinds, r.randint(2, 12), ids, bad_p=0.3)
        if k % 2:
            jobs.append(mk_job(kinds, finish(r, kinds, ops, ids)))
        else:
            jobs.append(mk_job(kinds, ops, export=False))
    return jobs


# ------------------------------------------------------------------------------------------ measurement
def measure(jobs, outs, cov):
    """Ordered (replaced kind, replacing kind) pairs actually executed by the implementation, and refused operations."""
    for job, out in zip(jobs, outs):
        prev = {}
        for op, st in zip(job["ops"], out["steps"]):
            cur = {(e[0], e[1]): tuple(e[2]) for e in st["obs"]["conns"]}
            if op[0] != "getref":
                for q, c in cur.items():
                    if q in prev and touches(op, q) and (st["acc"] or prev[q] != c):
                        pk = (kind_of(prev[q]), kind_of(c))
                        cov["pairs"][pk] = cov["pairs"].get(pk, 0) + 1
            if not st["acc"]:
                cov["refused"] += 1
            cov["ops"][op[0]] = cov["ops"].get(op[0], 0) + 1
            prev = cur
        if out.get("pkg") is None and job.get("export"):
            cov["export_failed"] += 1
        cov["arrays"] += int(any(k != 0 for k in job["kinds"]))
        cov["instbundles"] = cov.get("instbundles", 0) + int(-3 in job["kinds"])


def touches(op, q):
    if op[0] == "toarray":
        return any((op[2], p) == q for p, _ in op[3])
    if op[0] == "call":
        return any((op[1], p) == q for p, _ in op[2])
    return (op[1], op[2]) == q


def nontrivial(job):
    """rule: the history re-connects at least one port (two successful writes, or a write after a disconnect)."""
    seen, mir = set(), Mirror()
    for op in job["ops"]:
        before = dict(mir.m)
        ok = mir.apply(op)
        if ok and op[0] not in ("getref", "toarray"):
            for q in ([(op[1], p) for p, _ in op[2]] if op[0] == "call" else [(op[1], op[2])]):
                if q in seen:
                    return True
                seen.add(q)
    return False


def key_of(job):
    return json.dumps(dict(kinds=job["kinds"], ops=job["user_ops"]), sort_keys=True)


def shrink(job, code, rounds=4):
    """Greedy deletion of single user operations that keeps the verdict class."""
    cur = job
    for _ in range(rounds):
        cands = []
        for k in range(len(cur["user_ops"])):
            ops = cur["user_ops"][:k] + cur["user_ops"][k + 1:]
            try:
                cands.append(mk_job(cur["kinds"], ops, export=cur["export"]))
            except Exception:
                pass
        if not cands:
            break
        _, res = evaluate("shrink", cands)
        better = [i for i, (c, _) in res.items() if c == code]
        if not better:
            break
        cur = cands[min(better, key=lambda i: len(cands[i]["ops"]))]
    return cur


WHAT = {1: "implementation leaves the specification (conns / back-references after an operation, or the exported nets of the final mapping)",
        6: "the complete valid final mapping was rejected by elaboration/export",
        2: "specification met, but the implementation differs from the model (dict order, back-reference sets, handed-out references)",
        3: "harness inconsistency: the final mapping or abstract design built by the harness is not the specified one"}


def report(run, stream, jobs, outs, res, any_code1):
    by_code = {}
    for i, (c, st) in res.items():
        by_code.setdefault(c, []).append((len(jobs[i]["ops"]), i, st))
    for c, lst in sorted(by_code.items()):
        lst.sort()
        _, i, st = lst[0]
        job = jobs[i]
        if c in (1, 6):
            if 0 <= st < len(job["ops"]):      # failure at an operation: the history up to it, not completed, not exported
                pres = [mk_job(job["kinds"], job["user_ops"][:k], export=False) for k in range(1, len(job["user_ops"]) + 1)]
                _, pres_res = evaluate("prefix", pres)
                hit = [k for k, (cc, _) in sorted(pres_res.items()) if cc == c]
                if hit:
                    job = pres[hit[0]]
            small = shrink(job, c)
            souts, sres = evaluate("final", [small])
            if 0 in sres and sres[0][0] == c:
                job, out, st = small, souts[0], sres[0][1]
            else:
                out = outs[i]
            step_err = out["steps"][st]["err"] if 0 <= st < len(out["steps"]) else out.get("err")
            run.violation("C04:history:" + key_of(job), f"{WHAT[c]} at step {st}: {json.dumps(step_err)}",
                          dict(kind="impl-violates-spec", stream=stream, code=c, step=st, case=dict(kinds=job["kinds"], ops=job["user_ops"], export=job["export"]),
                               expanded_ops=job["ops"], impl=out, failing_cases=len(lst),
                               reproducer=py_repro(job)))
        else:
            run.violation(f"C04:{'tie' if c == 2 else 'harness'}:" + key_of(job), f"{WHAT.get(c, 'code %d' % c)} at step {st}",
                          dict(kind="tie-broken" if c == 2 else "harness-inconsistency", stream=stream, code=c, step=st,
                               case=dict(kinds=job["kinds"], ops=job["user_ops"], export=job["export"]), impl=outs[i], failing_cases=len(lst)),
                          found_input=False)


def py_repro(job):
    def arg(a):
        if a[0] == "obj":
            return f"obj[{a[1]}]"
        if a[0] == "ref":
            return f"i{a[1]}.{PORTS[a[2]]}"
        if a[0] == "dict":
            return f"dict(DICTS[{a[2]}])"
        return repr([5, None, "s0", 1.5][a[1]])
    lines = []
    for op in job["user_ops"]:
        t = op[0]
        if t == "call":
            lines.append(f"i{op[1]}({', '.join(f'{PORTS[p]}={arg(a)}' for p, a in op[2])})")
        elif t == "toarray":
            lines.append(f"i{op[2]} = 2 * i{op[1]}; Top.add(i{op[2]})")
        elif t == "getref":
            lines.append(f"i{op[1]}.{PORTS[op[2]]}")
        elif t == "disconnect":
            lines.append(f"i{op[1]}.disconnect('{PORTS[op[2]]}')")
        elif t == "set":
            lines.append(f"i{op[1]}.{PORTS[op[2]]} = {arg(op[3])}")
        else:
            lines.append(f"i{op[1]}.{t}('{PORTS[op[2]]}', {arg(op[3])})")
    return ("harness/impl/c04.py world (Leaf(a,b: width 2, bp: bundle B{x,y}); Top with s0,s1 (2), wide (4), bi0, bi1; instance kinds "
            f"{job['kinds']}; obj[k] = POOL[k] of harness/vp/c04.py): " + "; ".join(lines) + "; h.to_proto(Top)")


def run(run, tier, seed, replay=None):
    quick = tier == "quick"
    if replay is not None:
        c = replay["case"]
        job = mk_job(c["kinds"], c["ops"], export=c.get("export", True))
        outs, res = evaluate("replay", [job])
        print("replay verdict:", res.get(0, "ok"), json.dumps(outs[0])[:3000])
        if res:
            run.violation("C04:replay", "replayed case still fails", dict(kind="replay", case=c, impl=outs[0]))
        return
    cov = dict(pairs={}, refused=0, ops={}, export_failed=0, arrays=0)
    streams = [("corpus", corpus_jobs()),
               ("small", small_jobs(quick)),
               ("pairs", pair_jobs(seed, 3 if quick else 16)),
               ("random", random_jobs(seed, 120 if quick else 2500, 12 if quick else 30)),
               ("toarray", toarray_jobs(seed, 60 if quick else 800)),
               ("malformed", malformed_jobs(seed, 80 if quick else 800))]
    results = []
    for name, jobs in streams:
        outs, res = evaluate(name, jobs)
        results.append((name, jobs, outs, res))
    any1 = any(c in (1, 6) for _, _, _, res in results for c, _ in res.values())
    for name, jobs, outs, res in results:
        before = dict(pairs=dict(cov["pairs"]))
        measure(jobs, outs, cov)
        distinct = len({key_of(j) for j in jobs if nontrivial(j)})
        rejected = sum(1 for j, o in zip(jobs, outs) if j["export"] and o["pkg"] is None)
        run.stream(name, len(jobs), distinct, steps=sum(len(j["ops"]) for j in jobs), exported=sum(1 for j in jobs if j["export"]),
                   rejected_by_impl=rejected,
                   rule="non-trivial = the history writes some port at least twice (re-connection) or after a disconnect; distinct by (instance kinds, operations)")
        report(run, name, jobs, outs, res, any1)
    missing = [f"{a}->{b}" for a in KINDS for b in KINDS if cov["pairs"].get((a, b), 0) == 0]
    run.coverage["kind_pairs"] = {f"{a}->{b}": n for (a, b), n in sorted(cov["pairs"].items())}
    run.coverage["ops"] = cov["ops"]
    run.coverage["refused_ops"] = cov["refused"]
    run.coverage["histories_with_array"] = cov["arrays"]
    run.coverage["histories_with_instance_bundle"] = cov.get("instbundles", 0)
    run.coverage["traces_validated_against_impl"] = sum(len(j) for _, j, _, _ in results)
    if missing:
        run.violation("C04:coverage:pairs", f"coverage target missed: ordered (replaced, replacing) kind pairs never executed: {missing}",
                      dict(kind="coverage", missing=missing), found_input=False)
    for t in ("call", "set", "connect", "replace", "disconnect", "getref"):
        if cov["ops"].get(t, 0) == 0:
            run.violation(f"C04:coverage:{t}", f"coverage target missed: no {t} operation", dict(kind="coverage"), found_input=False)
    j = results[2][1][len(results[2][1]) // 2]
    run.sample(dict(stream="pairs", kinds=j["kinds"], ops=j["user_ops"]))
    j = results[3][1][0]
    run.sample(dict(stream="random", kinds=j["kinds"], ops=j["user_ops"]))
    # C04E (appended hook): the bridge books -> design + the pipeline model against the implementation's package, per history
    from . import c04e
    c04e.run_tie(run, tier, seed, results)


# C04E (appended): cases of the stream `anonrefs` live in the extended world of harness/impl/c04e.py; their replay goes there
_run_c04 = run


def run(run_, tier, seed, replay=None):
    if replay is not None and replay.get("case", {}).get("world") == "c04e":
        from . import c04e
        return c04e.replay2(run_, replay)
    return _run_c04(run_, tier, seed, replay)
