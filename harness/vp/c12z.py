"""C12 strengthening round — three name-producing places OUTSIDE the set-iterating elaborator loops (notes/C12.md,
section "Strengthening round"; coq Model/C12ZCanon.v, Props/C12Z.v, Corr/C12Z.v).

Called from the END of harness/vp/c12.py:run().  The deciding comparison is the one of C12: the same design program in
several fresh interpreters (different PYTHONHASHSEED, different unrelated earlier work) -> the same bytes / the same refusal
(Coq `reproducible`, via c12.evaluate).  Streams:

  zcorpus     hand-written witnesses of the three neighbourhoods, each alone in its interpreter
  genparams   generator calls whose parameter is drawn from a grammar of VALUE KINDS: int, str (incl. quotes, backslashes,
              blanks), float, bool, None, enum, Prefixed, tuple, frozenset (of str, of int, of enum members, of tuples, of frozensets — chains,
              pairwise incomparable groups, overlapping groups —, of mixed types, of sets of sets), nested paramclass, typed
              (typing.FrozenSet[FrozenSet[str]] ... rebuilt by pydantic) or typing.Any.  Tie: the text the implementation names a
              value by (json.dumps(value, default=hdl21_naming_encoder, sort_keys=True)) against Model/C12ZCanon.v:jtext.
  longnames   reference-group designs and bundle designs whose instance / port / bundle / signal names are stretched so that
              the implicit and flattened names `<a>_<b>` fall just below, at and just above flatname's limit (read from the
              translated table Hdl21Gen.Limits), with and without an explicit signal already carrying the name, with unnamed no-connects.  Tie: the
              reference-group designs against which_repaired + BundleFlat.flatname (names, or refusal in EVERY process).
  pdkreg      whole design PROGRAMS over the PDK registry, one per interpreter: imports of PDK packages in some order,
              set_default, compile without pdk= / by name / by module.  Tie: the outcome of every operation (compiled to which
              PDK, or refused) against Model/C12ZCanon.v:reg_run.
Coverage targets are measured from what the processes report (did a set really iterate differently in two processes? did the
registry's set? was a name of exactly the limit exported, was a longer one refused?) and fail closed.
"""
import json, os, re
from . import core, c12
from .core import cstr, clist

IMPORTS = c12.IMPORTS + "\nRequire Import Hdl21.Model.C12ZCanon Hdl21.Corr.C12Z."
PK = ["sky130_hdl21", "gf180_hdl21", "asap7_hdl21", "hdl21.pdk.sample_pdk"]


def flatname_limit():
    """the limit as translated from the tree under test (coq/generated/Limits.v); fail closed"""
    p = os.path.join(core.COQDIR, "generated", "Limits.v")
    m = re.search(r"Definition flatname_maxlen : Z := (\d+)\.", open(p).read())
    if not m:
        raise RuntimeError("flatname_maxlen not found in coq/generated/Limits.v")
    return int(m.group(1))


# ------------------------------------------------------------------------------------------------
# generator parameter values
# ------------------------------------------------------------------------------------------------
WORDS = ["a", "b", "c", "d", "e", "f", "g", "vdd", "vss", "clk", "inp", "out", "n1", "p0", "x y", 'q"r', "back\\slash", "A", "Z",
         "_", "ab", "ba", "a,b", "[a]", "10", "9"]
ENUM_VALUE = {"A": "a", "B": "b", "C": "c"}


def S(w):
    return ["s", w]


def fs(ms):
    return ["fs", ms]


def gen_atom(r):
    u = r.random()
    if u < 0.45:
        return S(r.choice(WORDS))
    if u < 0.7:
        return ["i", r.randint(-3, 40)]
    if u < 0.78:
        return ["f", float(r.choice([0.5, 1.5, -2.25, 1e10, 3.0])).hex()]
    if u < 0.84:
        return ["b", r.random() < 0.5]
    if u < 0.9:
        return ["n"]
    if u < 0.95:
        return ["e", r.choice("ABC")]
    return ["px", r.choice(["2", "2.0", "1.50", "47"]), r.choice(["KILO", "MILLI", "UNIT", "MEGA"])]


def str_set(r, lo=2, hi=5, pool=None):
    return fs([S(w) for w in r.sample(pool or WORDS, r.randint(lo, hi))])


def incomparable_sets(r, n):
    """n groups of words, none a subset of another: disjoint cores, plus possibly shared extra words"""
    words = r.sample(WORDS, min(len(WORDS), 2 * n + 3))
    cores, rest = words[:n], words[n:]
    groups = []
    for c in cores:
        extra = r.sample(rest, r.randint(0, min(2, len(rest))))
        ms = [c] + extra
        r.shuffle(ms)
        groups.append(fs([S(w) for w in ms]))
    return fs(groups)


def gen_value(r, shape=None, depth=0):
    shape = shape or r.choice(SHAPES)
    if shape == "set_of_str":
        return str_set(r, 3, 6)
    if shape == "incomparable_sets":
        return incomparable_sets(r, r.randint(2, 5))
    if shape == "chain_and_more":               # comparable members (a chain) next to incomparable ones
        ws = r.sample(WORDS, 5)
        ms = [fs([S(w) for w in ws[:k]]) for k in range(1, r.randint(3, 4))] + [fs([S(ws[4])]), fs([S(ws[3]), S(ws[4])])]
        r.shuffle(ms)
        return fs(ms)
    if shape == "set_of_tuples":
        ws = r.sample(WORDS, r.randint(2, 5))
        return fs([["t", [S(w), ["i", r.randint(0, 9)]]] for w in ws])
    if shape == "mixed_set":
        ws = r.sample(WORDS, r.randint(2, 3))
        ms = [S(w) for w in ws] + [["i", k] for k in r.sample(range(20), r.randint(1, 3))] + ([["t", [S("a"), S("b")]]] if r.random() < 0.5 else [])
        r.shuffle(ms)
        return fs(ms)
    if shape == "set_of_sets_of_sets":
        return fs([incomparable_sets(r, 2), incomparable_sets(r, r.randint(2, 3)), fs([str_set(r, 1, 2)])])
    if shape == "sets_in_tuple":
        return ["t", [str_set(r), incomparable_sets(r, r.randint(2, 3)), ["i", 7]]]
    if shape == "set_in_paramclass":
        return ["pc", gen_value(r, r.choice(["incomparable_sets", "set_of_str", "set_of_tuples"]), depth + 1), gen_atom(r)]
    if shape == "set_of_enums":                 # enum members hash by their name (a str): hash-seed dependent order
        return fs([["e", x] for x in r.sample("ABC", r.randint(2, 3))] + ([S("a")] if r.random() < 0.3 else []))
    if shape == "set_of_int":
        return fs([["i", k] for k in r.sample(range(-5, 60), r.randint(2, 6))])
    if shape == "atoms":
        return ["t", [gen_atom(r) for _ in range(r.randint(1, 5))]]
    # random recursion
    if depth >= 3 or r.random() < 0.3:
        return gen_atom(r)
    kind = r.choice(["t", "fs", "fs", "pc"])
    if kind == "pc":
        return ["pc", gen_value(r, "random", depth + 1), gen_value(r, "random", depth + 1)]
    ms = [gen_value(r, "random", depth + 1) for _ in range(r.randint(0, 4))]
    if kind == "fs":
        ms = dedup([m for m in ms if m[0] != "pc" or True])
    return [kind, ms]


SHAPES = ["set_of_str", "incomparable_sets", "incomparable_sets", "chain_and_more", "set_of_tuples", "mixed_set", "set_of_sets_of_sets",
          "sets_in_tuple", "set_in_paramclass", "set_of_int", "set_of_enums", "atoms", "random", "random"]


def py(v):
    """the python value of a tree, as far as equality / subset tests need it (harness side, no hdl21)"""
    t = v[0]
    if t == "s":
        return v[1]
    if t == "i":
        return int(v[1])
    if t == "b":
        return bool(v[1])
    if t == "f":
        return float.fromhex(v[1])
    if t == "n":
        return None
    if t == "t":
        return tuple(py(x) for x in v[1])
    if t == "fs":
        return frozenset(py(x) for x in v[1])
    return (t, json.dumps(v[1:]))


def dedup(ms):
    """members of a set literal must be pairwise unequal as python values (1 == True == 1.0) — keep the first"""
    seen, out = [], []
    for m in ms:
        try:
            p = py(m)
            if m[0] == "pc":
                p = ("pc", json.dumps(m))
            if any(p == q for q in seen):
                continue
            seen.append(p)
        except TypeError:
            continue
        out.append(m)
    return out


def has_str(v):
    return v[0] in ("s", "e") or (v[0] in ("t", "fs") and any(has_str(x) for x in v[1])) or (v[0] == "pc" and any(has_str(x) for x in v[1:]))


def features(v, out, inside=None):
    t = v[0]
    if t == "fs":
        ms = v[1]
        kinds = {m[0] for m in ms}
        if len(ms) >= 2 and any(has_str(m) for m in ms):            # the iteration order can depend on the hash seed
            out.add("hash_ordered_set")
            if kinds == {"s"}:
                out.add("set_of_str")
            if kinds == {"t"}:
                out.add("set_of_tuples")
            if "e" in kinds:
                out.add("set_with_enum_members")
            if len(kinds) > 1:
                out.add("mixed_set")
            if kinds == {"fs"}:
                out.add("set_of_sets")
                ps = [py(m) for m in ms]
                if all(not (a <= b) and not (b <= a) for i, a in enumerate(ps) for b in ps[i + 1:]):
                    out.add("pairwise_incomparable_sets")
                    if len(ms) >= 3:
                        out.add("three_incomparable_sets")
                elif any(a < b or b < a for i, a in enumerate(ps) for b in ps[i + 1:]):
                    out.add("partly_comparable_sets")
            if inside:
                out.add("set_in_" + inside)
        for m in ms:
            features(m, out, "set")
    elif t == "t":
        for m in v[1]:
            features(m, out, "tuple")
    elif t == "pc":
        for m in v[1:]:
            features(m, out, "paramclass")
    return out


def job_features(job):
    out = set()
    for c in job["calls"]:
        features(c["v"], out)
        if c.get("typed") and "hash_ordered_set" in features(c["v"], set()) and typable(c["v"]):
            out.add("typed_set_parameter")
    return out


def typable(v):
    def ty(v):
        if v[0] in ("i", "s"):
            return v[0]
        if v[0] in ("t", "fs"):
            subs = {ty(x) for x in v[1]}
            if len(subs) == 1 and None not in subs:
                return v[0] + subs.pop()
        return None
    return ty(v) is not None


def gen_gparam(r, tag=""):
    calls = []
    for _ in range(r.randint(2, 4)):
        calls.append(dict(v=gen_value(r), w=r.randint(1, 3), typed=r.random() < 0.4))
    return dict(kind="gparam", calls=calls, tag=tag)


def in_fragment(v):
    t = v[0]
    if t in ("i", "b", "n", "f", "e"):
        return True
    if t == "s":
        return all(32 <= ord(ch) < 127 for ch in v[1])
    if t in ("t", "fs"):
        return all(in_fragment(x) for x in v[1])
    return False


def c_pv(v):
    t = v[0]
    if t == "i":
        return f"(PAtom {cstr(str(int(v[1])))})"
    if t == "b":
        return f"(PAtom {cstr('true' if v[1] else 'false')})"
    if t == "n":
        return '(PAtom "null")'
    if t == "f":
        return f"(PAtom {cstr(json.dumps(float.fromhex(v[1])))})"
    if t == "e":
        return f"(PStr {cstr(ENUM_VALUE[v[1]])})"
    if t == "s":
        return f"(PStr {cstr(v[1])})"
    return f"({'PTup' if t == 't' else 'PSet'} {clist(v[1], c_pv)})"


# ------------------------------------------------------------------------------------------------
# names at the length limit
# ------------------------------------------------------------------------------------------------
def pad(name, length, ch="x"):
    return name + ch * max(0, length - len(name))


def gen_long_cyc(r, limit, tag=""):
    """a reference-group design (c12.gen_cyc) with names stretched so that `<inst>_<port>` lies around the limit.
    At most ONE kind of name is over the limit per design (victim: a referenced port / an unnamed no-connect), so that every
    flatname site is met by an over-long name on its own; `short`: no stretching at all, but an explicit signal carries the
    name an implicit one would get (collisions far below the limit)."""
    cyc = c12.gen_cyc(r, tag=tag)
    short = r.random() < 0.2
    li = 0 if short else r.choice([3, 40, limit // 2, limit - 12])
    victim = None if short else r.choice([None, None, "port", "nc"])
    ports = sorted({p for _, ps in cyc["insts"] for p in ps})
    over = set(r.sample(ports, min(len(ports), r.randint(1, 2)))) if victim == "port" else set()
    imap = {n: pad(n, li, "y") for n, _ in cyc["insts"]}
    pmap = {}
    for p in ports:
        total = limit + (r.choice([1, 1, 2, 9]) if p in over else r.choice([0, 0, -1, -1, -2, -7]))
        pmap[p] = p if short else pad(p, total - li - 1, "x")
    out = dict(insts=[[imap[n], [pmap[p] for p in ps]] for n, ps in cyc["insts"]],
               edges=[[imap[a], pmap[p], imap[b], pmap[q]] for a, p, b, q in cyc["edges"]], tag=tag)
    if victim == "nc" or r.random() < 0.4:           # an instance whose ports go to unnamed no-connects (signals named <inst>_<port>)
        names = r.sample(["k", "m", "n"], r.randint(1, 2))
        totals = [limit + r.choice([0, 0, -1, -2, -5]) for _ in names]
        if victim == "nc":
            totals[0] = limit + r.choice([1, 1, 2, 9])
        nports = [p if short else pad(p, t - li - 1, "z") for p, t in zip(names, totals)]
        ninst = pad("nc0", li, "y")
        out["insts"].append([ninst, nports])
        out["ncs"] = [[ninst, p] for p in nports]
    if short or r.random() < 0.4:                    # an explicit signal already carries the name an implicit one would get
        namers = [tuple(x) for x in out.get("ncs", [])]       # the ports that name an implicit signal (harness-side reading; the tie decides)
        for g in c12.cyc_groups(out):
            un = [m for m in g if not m[2]]
            namers.append(tuple(un[0][:2]) if len(un) == 1 else min((i, p) for i, p, _ in g))
        i, p = r.choice(namers) if namers and r.random() < 0.85 else (out["insts"][0][0], out["insts"][0][1][0])
        out["sigs"] = [f"{i}_{p}"[:limit]]
        if r.random() < 0.3 and len(out["sigs"][0]) < limit:
            out["sigs"].append(out["sigs"][0] + "_")             # ... and the next candidate as well
    return dict(kind="cyc", cyc=out, long=True, victim=victim or ("short" if short else "none"))


def rename_bd(bd, f_b, f_s, f_p, f_i, f_t):
    """consistent renaming of a bundle design: bundle instances, bundle signals / sub-bundle signals, ports, instances, scalars"""
    def src(e):
        t = e[0]
        if t == "sig":
            return ["sig", f_t(e[1])]
        if t in ("bun", "bref", "anonref"):
            return [t, f_b(e[1])]
        if t == "sref":
            return ["sref", f_b(e[1]), f_s(e[2])]
        if t == "subsref":
            return ["subsref", f_b(e[1]), f_s(e[2])]
        if t == "anon":
            return ["anon", e[1], {f_s(m): f_t(s) for m, s in e[2].items()}]
        if t == "pref":
            return ["pref", f_i(e[1]), f_p(e[2])]
        raise ValueError(t)
    return dict(bsigs=[f_s(x) for x in bd["bsigs"]], sub=[f_s(x) for x in bd["sub"]] if bd.get("sub") else None,
                ports=[[f_p(n), k] for n, k in bd["ports"]], tb=[f_b(b) for b in bd["tb"]], tsigs=[f_t(s) for s in bd["tsigs"]],
                insts=[dict(name=f_i(x["name"]), n=x["n"], conns=[[f_p(p), src(e)] for p, e in x["conns"]]) for x in bd["insts"]],
                tag=bd.get("tag", ""))


def gen_long_bd(r, limit, tag=""):
    """a bundle design (c12.gen_bd) with names stretched so that the flattened names `<bundle>_<signal>`, `<port>_<signal>`,
    `<array>_<k>` lie around the limit"""
    bd = c12.gen_bd(r, tag=tag)
    ls = r.choice([5, 60, limit // 2])                                  # bundle signal names
    d = r.choice([0, 0, -1, -1, -3, 1, 2])                               # where the longest joined name lies relative to the limit
    lb = limit + d - ls - 1                                             # bundle instances and bundle-valued ports
    li = r.choice([8, limit + d - 2, limit + d - 2])                    # instances: `<array>_<k>`
    bmap = {b: pad(b, lb - r.choice([0, 0, 1]), "B") for b in bd["tb"]}
    pmap = {p: pad(p, lb - r.choice([0, 1, 2]), "P") for p, _ in bd["ports"]}
    return dict(kind="bd", bd=rename_bd(bd, lambda b: bmap[b], lambda s: pad(s, ls, "s"), lambda p: pmap[p], lambda i: pad(i, li, "I"),
                                        lambda t: t), long=True)


def long_nontrivial(job, limit):
    """some joined name `<a>_<b>` of the design lies within 2 characters of the limit"""
    if job["kind"] == "cyc":
        tot = [len(n) + 1 + len(p) for n, ps in job["cyc"]["insts"] for p in ps]
    else:
        bd = job["bd"]
        tot = [len(b) + 1 + len(s) for b in bd["tb"] + [p for p, k in bd["ports"] if k != "s"] for s in bd["bsigs"]]
        tot += [len(x["name"]) + 2 for x in bd["insts"] if x["n"]]
    return any(abs(t - limit) <= 2 for t in tot)


def c_lcase(job, rs):
    cyc = job["cyc"]
    groups = c12.cyc_groups(cyc) + [[[i, p, False]] for i, p in cyc.get("ncs", [])]     # a no-connect: a group of its own, named by its port
    avoid = [n for n, _ in cyc["insts"]] + list(cyc.get("sigs", []))
    obs = []
    for r in rs:
        sigs = c12.top_sigs(r, "G")
        obs.append("None" if sigs is None else f"(Some {clist(sigs, cstr)})")
    g = clist(groups, lambda g: clist(g, lambda m: f"(PR {cstr(m[0])} {cstr(m[1])} {core.cbool(m[2])})"))
    return f"({g}, {clist(avoid, cstr)}, {clist(obs)})"


# ------------------------------------------------------------------------------------------------
# PDK registry programs
# ------------------------------------------------------------------------------------------------
def gen_prog(r):
    ops, imported = [], []
    first = r.sample(PK, r.randint(1, 3))
    style = r.choice(["ambiguous", "ambiguous", "single", "default", "free"])
    if style == "single":
        first = first[:1]
    for p in first:
        ops.append(["import", p])
        imported.append(p)
    if style == "default":
        ops.append(["default", r.choice(imported)])
    for _ in range(r.randint(1, 4)):
        u = r.random()
        if u < 0.45:
            ops.append(["compile", None])
        elif u < 0.6:
            ops.append(["compile", ["name", r.choice(imported if r.random() < 0.8 else PK)]])
        elif u < 0.7:
            p = r.choice(PK)
            ops.append(["compile", ["module", p]])
            if p not in imported:
                imported.append(p)
        elif u < 0.85:
            p = r.choice(PK)
            ops.append(["import", p])
            if p not in imported:
                imported.append(p)
        else:
            ops.append(["default", r.choice(imported if r.random() < 0.8 else PK)])
    ops.append(["compile", None])
    return dict(kind="pdkreg", ops=ops, family="CORE")


def prog_features(ops):
    """what the program exercises (a plain reading of the program, used for coverage only)"""
    out, reg, dflt = set(), [], None
    for op in ops:
        if op[0] == "import":
            if op[1] not in reg:
                reg.append(op[1])
        elif op[0] == "default":
            if op[1] in reg:
                dflt = op[1]
                out.add("set_default")
            else:
                out.add("set_default_unregistered")
        elif op[1] is None:
            if dflt is None and len(reg) >= 2:
                out.add("ambiguous_default")            # several registered, none chosen: must be refused in every process
            elif dflt is None and len(reg) == 1:
                out.add("single_registered_default")
            elif dflt is None:
                out.add("nothing_registered")
            else:
                out.add("explicit_default_used")
        elif op[1][0] == "name":
            out.add("by_name" if op[1][1] in reg else "by_unregistered_name")
        else:
            out.add("by_module")
            if op[1][1] not in reg:
                reg.append(op[1][1])
    return out


def c_pop(op):
    if op[0] == "import":
        return f"(ORegister {cstr(op[1])})"
    if op[0] == "default":
        return f"(OSetDefault {cstr(op[1])})"
    if op[1] is None:
        return "(OCompile None)"
    if op[1][0] == "name":
        return f"(OCompile (Some {cstr(op[1][1])}))"
    return f"(OCompileMod {cstr(op[1][1])})"


def c_pout(s):
    if s == "none":
        return "PNone"
    if s == "refused":
        return "PRefused"
    return f"(PTarget {cstr(s.split(':', 1)[1])})"


# ------------------------------------------------------------------------------------------------
# corpus
# ------------------------------------------------------------------------------------------------
def corpus(limit):
    g = lambda *ws: fs([S(w) for w in ws])
    a1 = dict(kind="gparam", tag="", calls=[
        dict(v=fs([g("a", "b"), g("c", "d"), g("e"), g("f", "g")]), w=1, typed=True),          # groups of shorted nets: FrozenSet[FrozenSet[str]]
        dict(v=fs([g("a", "b"), g("c", "d"), g("e"), g("f", "g")]), w=1, typed=False),
        dict(v=g("w", "x", "y", "z"), w=2, typed=True),
        dict(v=["pc", fs([g("vdd", "a"), g("vss", "a"), g("clk")]), ["e", "B"]], w=1, typed=False)])
    a2 = dict(kind="gparam", tag="", calls=[
        dict(v=fs([["t", [S("a"), ["i", 1]]], ["t", [S("b"), ["i", 2]]], ["t", [S("c"), ["i", 0]]]]), w=1, typed=False),
        dict(v=fs([S("a"), ["i", 1], S('q"r'), ["i", 10]]), w=1, typed=False),
        dict(v=["t", [fs([g("a"), g("a", "b"), g("c")]), ["px", "2.0", "KILO"], ["n"]]], w=3, typed=False)])
    li = limit // 2
    inst, other = pad("stage", li, "y"), "second"
    over, at, under = pad("tap", limit + 1 - li - 1), pad("tap", limit - li - 1), pad("tap", limit - 1 - li - 1)

    def two(port, sigs=None):
        c = dict(insts=[[inst, [port, "q"]], [other, [port, "q"]]], edges=[[other, port, inst, port], [inst, "q", other, "q"]], tag="")
        if sigs:
            c["sigs"] = sigs
        return dict(kind="cyc", cyc=c, long=True)
    b = [two(over), two(at), two(under), two(at, [f"{inst}_{at}"]), two(under, [f"{inst}_{under}"])]
    c = [dict(kind="pdkreg", family="CORE", ops=[["import", "sky130_hdl21"], ["import", "gf180_hdl21"], ["compile", None]]),
         dict(kind="pdkreg", family="CORE", ops=[["import", "gf180_hdl21"], ["import", "sky130_hdl21"], ["import", "asap7_hdl21"], ["compile", None],
                                                 ["default", "asap7_hdl21"], ["compile", None], ["compile", ["name", "gf180_hdl21"]]]),
         dict(kind="pdkreg", family="CORE", ops=[["import", "sky130_hdl21"], ["compile", None], ["compile", ["module", "gf180_hdl21"]], ["compile", None]])]
    return [a1, a2] + b, c


# ------------------------------------------------------------------------------------------------
# ties and coverage
# ------------------------------------------------------------------------------------------------
def tie(run, stream, name, case_type, evaluator, cases, refs, jobs, bad, what, chunk=40):
    """cases[k] belongs to jobs[refs[k]]. code 1 where chk_repro was silent / code 2,3 -> a violation line each (smallest job)."""
    if not cases:
        return 0
    res = dict(core.coq_eval_cases("C12", f"{stream}_{name}", IMPORTS, case_type, cases, f"run_cases {evaluator}", chunk=chunk))
    one = sorted([k for k, c in res.items() if c == 1 and refs[k] not in bad], key=lambda k: c12.job_size(jobs[refs[k]]))
    for k in one[:1]:
        run.violation(f"C12:{stream}:{name}-differs:" + c12.canon(jobs[refs[k]]), f"{what} differ between the processes",
                      dict(kind="impl-violates-spec", stream=stream, case=jobs[refs[k]]))
    two = sorted([k for k, c in res.items() if c in (2, 3)], key=lambda k: c12.job_size(jobs[refs[k]]))
    if two and not any(c == 1 for c in bad.values()):
        k = two[0]
        run.violation(f"C12:{stream}:{name}-tie", f"all processes agree, but {what} differ from the model's (code {res[k]}) for "
                      + c12.canon(jobs[refs[k]])[:300],
                      dict(kind="correspondence-broken", stream=stream, case=jobs[refs[k]], disagreeing_cases=len(two),
                           theorem="Props/C12Z.v (model tie)"), found_input=False)
    return len(cases)


def need(run, stream, label, have, want):
    if have < want:
        run.violation(f"C12:coverage:{stream}:{label}", f"coverage target missed: {label}: {have} < {want} in stream {stream} (fail closed)",
                      dict(kind="coverage"), found_input=False)


def avoided(job, o):
    """an exported signal is `<explicit signal>_`: the implicit name had to step aside"""
    names = {s for _, ns in o[0][1].get("sigs", []) for s in ns}
    sigs = job.get("cyc", {}).get("sigs", [])
    return any((x + "_" in names and x + "_" not in sigs) or x + "__" in names for x in sigs)


def differs(o, key):
    vals = [json.dumps(r.get(key)) for _, r in o if not r["pkg"].startswith("!build")]
    return len(set(vals)) > 1


def run_streams(run, tier, seed, hashseeds):
    quick = tier == "quick"
    limit = flatname_limit()

    # ---- zcorpus: every witness alone in its interpreter
    jobs, reg_corpus = corpus(limit)
    obs, bad, _ = c12.evaluate(run, "zcorpus", jobs, hashseeds, seed, len(jobs),
                               rule="hand-written witnesses: sets of incomparable sets / of tuples / mixed as generator parameters, names one over / at / one under "
                                    "the flatname limit with and without a colliding explicit signal (the PDK registry witnesses lead the pdkreg stream: one "
                                    "program per interpreter); all non-trivial")
    ties = run_ties(run, "zcorpus", jobs, obs, bad)
    collided_corpus = sum(1 for j, o in zip(jobs, obs) if avoided(j, o))
    run.coverage["streams"]["zcorpus"].update(model_tie_cases=ties, exported_with_an_implicit_name_that_avoided_an_explicit_signal=collided_corpus)

    # ---- genparams
    n = 28 if quick else 120
    jobs = [gen_gparam(core.rng(seed, "C12", "genparams", k), tag=f"_{k}") for k in range(n)]
    obs, bad, _ = c12.evaluate(run, "genparams", jobs, hashseeds, seed, 14 if quick else 40,
                               nontrivial=lambda j: "hash_ordered_set" in job_features(j),
                               rule="non-trivial = some call whose parameter value holds (at any depth) a set of >= 2 members with a str inside, i.e. a set whose "
                                    "iteration order depends on PYTHONHASHSEED; distinct by call list")
    ties = run_ties(run, "genparams", jobs, obs, bad)
    feats = {}
    for j in jobs:
        for f in job_features(j):
            feats[f] = feats.get(f, 0) + 1
    iter_differs = sum(1 for o in obs if differs(o, "iters"))
    inc_differs = sum(1 for j, o in zip(jobs, obs) if differs(o, "iters") and "three_incomparable_sets" in job_features(j))
    st = run.coverage["streams"]["genparams"]
    st.update(model_tie_cases=ties, value_features=dict(sorted(feats.items())), designs_whose_sets_iterated_differently=iter_differs,
              designs_with_3_incomparable_sets_iterated_differently=inc_differs)
    for f, want in (("set_of_str", 3), ("pairwise_incomparable_sets", 4), ("three_incomparable_sets", 3), ("partly_comparable_sets", 1),
                    ("set_of_tuples", 2), ("set_with_enum_members", 1), ("mixed_set", 2), ("set_in_set", 2), ("set_in_tuple", 2), ("set_in_paramclass", 2),
                    ("typed_set_parameter", 2)):
        need(run, "genparams", f, feats.get(f, 0), want)
    need(run, "genparams", "designs whose sets iterated in different orders in different processes", iter_differs, 5)
    need(run, "genparams", "designs with >= 3 incomparable sets that iterated in different orders", inc_differs, 2)
    need(run, "genparams", "naming texts tied to the model", ties, 10)

    # ---- longnames
    n = 36 if quick else 100
    jobs = []
    for k in range(n):
        r = core.rng(seed, "C12", "longnames", k)
        jobs.append(gen_long_cyc(r, limit, tag=f"_{k}") if k % 3 != 2 else gen_long_bd(r, limit, tag=f"_{k}"))
    obs, bad, _ = c12.evaluate(run, "longnames", jobs, hashseeds, seed, 18 if quick else 40, nontrivial=lambda j: long_nontrivial(j, limit) or j.get("victim") == "short",
                               rule=f"non-trivial = some joined name <a>_<b> (instance_port, bundle_signal, port_signal, array_index) within 2 characters of the "
                                    f"flatname limit {limit}, or a short-named design in which an explicit signal carries an implicit signal's name; distinct by design")
    ties = run_ties(run, "longnames", jobs, obs, bad)
    refused = sum(1 for o in obs if all(r["pkg"] == "!RuntimeError" for _, r in o))
    longest = [max([len(s) for _, names in o[0][1].get("sigs", []) for s in names] + [0]) for o in obs]
    at_limit = sum(1 for x in longest if x == limit)
    near = sum(1 for x in longest if limit - 2 <= x <= limit)
    collided = sum(1 for j, o in zip(jobs, obs) if avoided(j, o))
    all_refused = lambda o: all(r["pkg"] == "!RuntimeError" for _, r in o)
    by_victim = {v: sum(1 for j, o in zip(jobs, obs) if j.get("victim") == v and all_refused(o)) for v in ("port", "nc")}
    short_collided = sum(1 for j, o in zip(jobs, obs) if j.get("victim") == "short" and avoided(j, o))
    st = run.coverage["streams"]["longnames"]
    st.update(refused_where_only_a_referenced_port_name_is_over_long=by_victim["port"], refused_where_only_a_noconnect_name_is_over_long=by_victim["nc"],
              short_named_designs_whose_implicit_name_avoided_an_explicit_signal=short_collided,
              exported_with_an_implicit_name_that_avoided_an_explicit_signal=collided, with_unnamed_noconnects=sum(1 for j in jobs if j.get("cyc", {}).get("ncs")),
              model_tie_cases=ties, limit=limit, refused_in_every_process=refused, exported_with_a_name_of_exactly_the_limit=at_limit,
              exported_with_a_name_within_2_of_the_limit=near, with_colliding_explicit_signal=sum(1 for j in jobs if j.get("cyc", {}).get("sigs")))
    need(run, "longnames", "designs refused (RuntimeError) in every process", refused, 4)
    need(run, "longnames", "designs exported with a signal name within 2 characters of the limit", near, 4)
    need(run, "longnames", "designs exported with a signal name of exactly the limit", at_limit, 1)
    need(run, "longnames", "reference-group designs tied to the model", ties, 8)
    need(run, "longnames", "designs refused where only the name of a referenced port is over-long", by_victim["port"], 1)
    need(run, "longnames", "designs refused where only the name of an unnamed no-connect is over-long", by_victim["nc"], 1)
    need(run, "longnames", "short-named designs whose implicit name had to avoid an explicit signal", short_collided, 1)
    need(run, "longnames", "designs (zcorpus + longnames) exported with an implicit name that had to avoid an explicit signal", collided + collided_corpus, 1)

    # ---- pdkreg: one program per interpreter
    n = 5 if quick else 12
    jobs = reg_corpus + [gen_prog(core.rng(seed, "C12", "pdkreg", k)) for k in range(n)]
    obs, bad, _ = c12.evaluate(run, "pdkreg", jobs, hashseeds, seed, 1,
                               nontrivial=lambda j: bool(prog_features(j["ops"]) & {"ambiguous_default", "single_registered_default", "explicit_default_used"}),
                               rule="non-trivial = the program compiles without pdk= (the registry decides: the only one registered, the explicit default, or a refusal "
                                    "when several are registered and none is chosen); one program per fresh interpreter; distinct by program")
    ties = run_ties(run, "pdkreg", jobs, obs, bad)
    feats = {}
    for j in jobs:
        for f in prog_features(j["ops"]):
            feats[f] = feats.get(f, 0) + 1
    amb_differs = sum(1 for j, o in zip(jobs, obs) if "ambiguous_default" in prog_features(j["ops"]) and differs(o, "regorder"))
    st = run.coverage["streams"]["pdkreg"]
    st.update(model_tie_cases=ties, program_features=dict(sorted(feats.items())),
              ambiguous_programs_whose_module_set_iterated_differently=amb_differs)
    for f, want in (("ambiguous_default", 3), ("single_registered_default", 1), ("explicit_default_used", 1), ("by_name", 1), ("by_module", 1)):
        need(run, "pdkreg", f, feats.get(f, 0), want)
    need(run, "pdkreg", "ambiguous programs in which a set of the registered modules iterated in different orders in different processes", amb_differs, 1)
    need(run, "pdkreg", "programs tied to the model", ties, len(jobs))
    run.sample(dict(stream="genparams", job=corpus(limit)[0][0]))
    run.sample(dict(stream="pdkreg", job=reg_corpus[1]))


def run_ties(run, stream, jobs, obs, bad):
    total = 0
    # naming texts
    cases, refs = [], []
    for j, (job, o) in enumerate(zip(jobs, obs)):
        if job["kind"] != "gparam":
            continue
        rs = [r for _, r in o]
        if not all("texts" in r for r in rs):
            continue
        for k, c in enumerate(job["calls"]):
            if in_fragment(c["v"]) and all(all(32 <= ord(ch) < 127 for ch in r["texts"][k]) for r in rs):
                cases.append(f"({c_pv(c['v'])}, {clist([r['texts'][k] for r in rs], cstr)})")
                refs.append(j)
    total += tie(run, stream, "gtext", "gcase", "chk_gtext", cases, refs, jobs, bad, "the texts a parameter value is named by")
    # implicit names at the limit
    cases, refs = [], []
    for j, (job, o) in enumerate(zip(jobs, obs)):
        if job["kind"] == "cyc" and job.get("long"):
            rs = [r for _, r in o]
            if all(r["pkg"] == "!RuntimeError" or not r["pkg"].startswith("!") for r in rs):
                cases.append(c_lcase(job, rs))
                refs.append(j)
    total += tie(run, stream, "long", "lcase", "chk_long", cases, refs, jobs, bad, "the implicit signal names / the refusal of an over-long name", chunk=3)
    # registry programs
    cases, refs = [], []
    for j, (job, o) in enumerate(zip(jobs, obs)):
        if job["kind"] == "pdkreg":
            rs = [r for _, r in o]
            if all("steps" in r for r in rs):
                cases.append(f"({clist(job['ops'], c_pop)}, {clist([clist(r['steps'], c_pout) for r in rs])})")
                refs.append(j)
    total += tie(run, stream, "reg", "pcase", "chk_reg", cases, refs, jobs, bad, "the outcomes of the PDK registry operations")
    return total
