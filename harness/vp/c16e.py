"""C16E — tie of the PACKAGE-LEVEL flatten model (coq Model/C16EPkg.v:flatten_pkg) to the implementation.

Called from the END of harness/vp/c16.py:run().  For every design of the C16 streams (corpus, exhaustive-small, hierarchies,
unsupported - regenerated with the same generators and seeds) and for a new stream `bus` (hierarchies of depth >= 3 with buses,
bus slices / concatenations at instance connections crossing two levels, shared sub-modules, and harness/vp/design.py:gen_design
designs) the implementation driver (harness/impl/c16.py, unchanged) returns h.to_proto(m) and h.to_proto(flatten(m)); Coq
(Corr/C16E.v:chk_c16e) runs flatten_pkg on the hierarchical package and compares its ONE module with the implementation's
flattened module syntactically.  Codes: 0 equal (or both reject), 2 differ, 4 the model contradicts its theorems, 3 malformed.
The new stream also goes through Corr/C16.v:chk_c16 (the property itself on the implementation's outputs).

Only the Python-module qualifier the exporter prefixes to module names is stripped (`designlib.Top` -> `Top`,
`hdl21.flatten.Top_flat` -> `Top_flat`): it says where the h.Module object was created, not what flatten computed.

Replay of a tie case:  /venv/bin/python -m harness.vp.c16e work/C16/replay-N.json
"""
import json, copy, sys
from . import core, design as D, c16
from .core import cstr

IMPORTS = ("Require Import Hdl21.Base.PyInt Hdl21.Spec.PySlice Hdl21.Model.Slice Hdl21.Model.Resolve Hdl21.Base.Design "
           "Hdl21.Spec.Nets Hdl21.Base.Package Hdl21.Corr.C03 Hdl21.Corr.C01 Hdl21.Spec.C16Flat Hdl21.Model.C16Flatten Hdl21.Corr.C16 "
           "Hdl21.Model.C16EPkg Hdl21.Corr.C16E.")


def unq(n):
    return n.rsplit(".", 1)[-1]


def strip_qual(pkg):
    if pkg is None:
        return None
    p = copy.deepcopy(pkg)
    for m in p["mods"]:
        m["name"] = unq(m["name"])
        for i in m["insts"]:
            if i["ref"][0] == "local":
                i["ref"][1] = unq(i["ref"][1])
    return p


def c_case(out):
    o = dict(out, hpkg=strip_qual(out["hpkg"]), fpkg=strip_qual(out["fpkg"]), htop=unq(out["htop"]), ftop=unq(out["ftop"] or ""))
    return c16.c_case(o)


# ---------------------------------------------------------------------------------------------
# the new stream: buses through three and more levels; slices / concatenations of buses at instance connections
# ---------------------------------------------------------------------------------------------
def gen_bus_chain(r, sliced):
    """Leaf <- Mid (x2 or shared) <- ... <- Top: a bus enters at the top and is handed down level by level, whole (sliced=False: the
    supported fragment with wide signals) or cut by slices / concatenations at the instance connections of two successive levels."""
    depth = r.choice([3, 3, 4])
    w = r.choice([2, 3, 4])
    exts = [dict(name="E0", ports=[["x0", w], ["x1", 1]])] if r.random() < 0.5 else []
    mods = []
    design = dict(mods=mods, exts=exts, top=depth - 1)
    # level 0: the cell holding the leaves
    cell = dict(name="M0", ports=[["d", w, "inout"], ["g", 1, "in"]], sigs=[["n", 1]], insts=[])
    mods.append(cell)
    for k in range(r.randint(1, 3)):
        if exts and r.random() < 0.5:
            cell["insts"].append(dict(name=f"e{k}", n=0, of=["ext", 0, r.randint(1, 3)], conns=[["x0", ["sig", "d"]], ["x1", ["sig", r.choice(["g", "n"])]]]))
        else:
            bit = r.randrange(w)
            tgt = ["sl", ["sig", "d"], ["i", bit]] if sliced and r.random() < 0.6 else ["sig", r.choice(["g", "n"])]
            cell["insts"].append(dict(name=f"r{k}", n=0, of=["prim", "R", r.randint(1, 3)], conns=[["p", tgt], ["n", ["sig", r.choice(["g", "n"])]]]))
    for lv in range(1, depth):
        is_top = lv == depth - 1
        pw = w + (lv if sliced else 0)               # each level up owns a wider bus and hands a slice of it down
        below_w = w + (lv - 1 if sliced else 0)
        md = dict(name=f"M{lv}", ports=[] if is_top and r.random() < 0.3 else [["d", pw, "inout"], ["g", 1, "in"]], sigs=[], insts=[])
        if not md["ports"]:
            md["sigs"] += [["d", pw], ["g", 1]]
        md["sigs"].append(["k", 1])
        if not sliced:
            md["sigs"].append(["b", below_w])
        mods.append(md)
        for k in range(r.choice([1, 2, 2])):         # the same module below, once or twice: sharing
            if sliced:
                u = r.random()
                lo = r.randint(0, pw - below_w)
                if u < 0.5 or below_w < 2:
                    tgt = ["sl", ["sig", "d"], ["s", lo, lo + below_w, None]]
                elif u < 0.8:
                    tgt = ["cat", [["sl", ["sig", "d"], ["s", 0, below_w - 1, None]], ["sig", "k"]]]
                else:
                    tgt = ["sl", ["sig", "d"], ["s", None, None, None]] if pw == below_w else ["sl", ["sig", "d"], ["s", 1, 1 + below_w, None]]
            else:
                tgt = ["sig", "d" if k == 0 or r.random() < 0.5 else "b"]
            md["insts"].append(dict(name=["a", "b", "c"][k], n=0, of=["mod", lv - 1], conns=[["d", tgt], ["g", ["sig", r.choice(["g", "k"])]]]))
        if r.random() < 0.5:
            md["insts"].append(dict(name="rr", n=0, of=["prim", "R", 1], conns=[["p", ["sig", "g"]], ["n", ["sig", "k"]]]))
    return design


def slice_levels(d):
    """number of successive hierarchy levels (below the top included) whose sub-module instance connections cut a bus"""
    mods = d["mods"]

    def cut(mi):
        return any(x["of"][0] == "mod" and any(e[0] in ("sl", "cat") for _, e in x["conns"]) for x in mods[mi]["insts"])

    def chain(mi):
        if not cut(mi):
            return 0
        return 1 + max([chain(x["of"][1]) for x in mods[mi]["insts"] if x["of"][0] == "mod"] or [0])
    return chain(d["top"])


def bus_stream(seed, n):
    designs = []
    for k in range(n):
        r = core.rng(seed, "C16E", "bus", k)
        u = k % 4
        if u == 0:
            designs.append(gen_bus_chain(r, sliced=False))
        elif u == 1:
            designs.append(gen_bus_chain(r, sliced=True))
        elif u == 2:
            designs.append(D.gen_design(r, size=r.choice([2, 3, 3]), refs=False, ncs=False, arrays=False))
        else:
            designs.append(c16.gen_hier(r, size=3, unsupported=r.choice([0.0, 0.0, 0.1])))
    return designs


# ---------------------------------------------------------------------------------------------
def evaluate(designs, stream, also_property=False):
    outs = core.run_worker_sharded("c16", [dict(design=d) for d in designs])
    idx = [i for i, o in enumerate(outs) if o["err"] is None]
    cases = [c_case(outs[i]) for i in idx]
    bad = core.coq_eval_cases("C16", "c16e_" + stream, IMPORTS, "c16_case", cases, "run_cases chk_c16e", chunk=40)
    bad = [(idx[i], c) for i, c in bad]
    pbad = []
    if also_property:
        pcases = [c16.c_case(outs[i]) for i in idx]
        pbad = [(idx[i], c) for i, c in core.coq_eval_cases("C16", "c16e_prop_" + stream, c16.IMPORTS, "c16_case", pcases, "run_cases chk_c16", chunk=30)]
    return outs, bad, pbad


WHAT = {2: "the package-level model flatten_pkg and the implementation's flatten differ (accepted/rejected, or the flat module: name, "
           "signals, ports, instances, references, parameters, connections)",
        4: "the model contradicts its theorems (result not flat / not wf_pkg although the hierarchy package is)",
        3: "malformed case (top module not in the package)"}


def report(run, stream, bad, designs, outs):
    order = sorted(bad, key=lambda ic: c16.design_size(designs[ic[0]]))
    if order:
        i, c = order[0]
        o = outs[i]
        run.violation("C16E:tie:" + json.dumps(designs[i], sort_keys=True), f"{WHAT.get(c, str(c))}: flatten -> "
                      f"{json.dumps(o['ferr']) if o['ferr'] else 'module ' + str(o['ftop'])}",
                      dict(kind="model-differs" if c == 2 else "harness-inconsistency", stream="c16e_" + stream, code=c, case=designs[i],
                           failing_cases=len(order), impl=dict(ferr=o["ferr"], ftop=o["ftop"], same=o["same"], fpkg=o["fpkg"]),
                           reproducer="/venv/bin/python -m harness.vp.c16e <this file>"), found_input=False)


def c16_streams(tier, seed):
    """the designs of harness/vp/c16.py:run(), stream by stream (same generators, same seeds)"""
    quick = tier == "quick"
    yield "corpus", c16.corpus()
    yield "small", c16.exhaustive_small()
    n = 260 if quick else 5000
    designs = []
    for k in range(n):
        r = core.rng(seed, "C16", "hier", k)
        d = c16.gen_hier(r, size=r.choice([1, 2, 2, 3]) if quick else r.choice([1, 2, 3, 3]))
        if r.random() < 0.35:
            d = c16.adversarial(r, d)
        designs.append(d)
    yield "hier", designs
    n = 60 if quick else 1000
    designs = []
    for k in range(n):
        r = core.rng(seed, "C16", "unsup", k)
        if k % 2 == 0:
            designs.append(c16.gen_hier(r, size=2, unsupported=r.choice([0.05, 0.15, 0.4])))
        else:
            designs.append(D.gen_design(r, size=r.choice([1, 2, 2, 3])))
    yield "unsup", designs


def run_tie(run, tier, seed):
    quick = tier == "quick"
    total, agree, st_all = 0, 0, {}
    for stream, designs in c16_streams(tier, seed):
        outs, bad, _ = evaluate(designs, stream)
        built = sum(1 for o in outs if o["err"] is None)
        total += built
        agree += built - len(bad)
        st_all[stream] = dict(cases=built, differ=len(bad), **c16.stats(designs, outs))
        report(run, stream, bad, designs, outs)
    run.stream("c16e-tie", total, total, agree=agree, per_stream=st_all,
               rule="every design of the four C16 streams that elaborates: flatten_pkg (Coq) on the implementation's hierarchical package "
                    "against the implementation's flattened package; all counted (the comparison is syntactic)")

    designs = bus_stream(seed, 80 if quick else 1200)
    outs, bad, pbad = evaluate(designs, "bus", also_property=True)
    feats = c16.feat_counts(designs)
    two = sum(1 for d in designs if slice_levels(d) >= 2)
    accepted_bus = sum(1 for d, o in zip(designs, outs) if o["err"] is None and o["fpkg"] is not None and not o["same"] and c16.features(d)["bus"])
    run.stream("c16e-bus", len(designs), len({json.dumps(d) for d in designs if c16.features(d)["bus"] and c16.features(d)["depth3"]}),
               features=feats, slices_crossing_two_levels=two, flattened_with_buses=accepted_bus, tie_differ=len(bad),
               rule="non-trivial = depth >= 3 and a bus; distinct by design.  Slices / concatenations at instance connections of a "
                    "non-flat hierarchy are REJECTED by flatten.py (NotImplementedError) and by the model alike: counted in flatten_rejected",
               **c16.stats(designs, outs))
    for name, cnt in (("depth3", feats.get("depth3", 0)), ("sharing", feats.get("sharing", 0)), ("slices_two_levels", two),
                      ("flattened_with_buses", accepted_bus)):
        if cnt == 0:
            run.violation(f"C16E:coverage:{name}", f"generator coverage target missed: no design with {name}", dict(kind="coverage"), found_input=False)
    c16.report(run, "c16e_bus", pbad, designs, outs)
    report(run, "bus", bad, designs, outs)
    run.sample(dict(stream="c16e-bus", design=designs[1]))
    run.coverage["traces_validated_against_impl"] = run.coverage.get("traces_validated_against_impl", 0) + len(designs)


if __name__ == "__main__":
    rp = json.load(open(sys.argv[1]))
    outs, bad, pbad = evaluate([rp["case"]], "replay", also_property=True)
    o = outs[0]
    print("replay verdict: tie", bad or "ok", "property", pbad or "ok",
          json.dumps(dict(err=o["err"], ferr=o["ferr"], ftop=o["ftop"], same=o["same"]))[:2000])
    sys.exit(1 if bad or pbad else 0)
