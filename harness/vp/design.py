"""Abstract design language (mirror of coq/theories/Base/Design.v): generator, Coq printers, terminals.

Design JSON (also consumed by harness/impl/designlib.py):
  {"mods":[{"name","ports":[[n,w,dir]],"sigs":[[n,w]],"insts":[{"name","n","of":[...],"conns":[[port,cexpr]]}]}],
   "exts":[{"name","ports":[[n,w]]}], "top":k}
  of    = ["mod",k] | ["prim",kind,tag] | ["ext",k,tag]
  cexpr = ["sig",n] | ["sl",cexpr,ix] | ["cat",[cexpr]] | ["ref",inst,port] | ["nc",site,name|None]
"""
import json
from .core import cz, copt, clist, cstr
from .c03 import c_index

PRIM_PORTS = {"Mos": ["d", "g", "s", "b"], "R": ["p", "n"], "C": ["p", "n"], "Bjt": ["c", "b", "e"], "D": ["p", "n"],
              "Res3": ["p", "n", "b"]}


def dev_string(design, of):
    """Canonical device identity = domain/name{params} exactly as Base/Package.v:pinst_target builds it from a package."""
    if of[0] == "prim":
        kind, tag = of[1], of[2]
        if kind == "Mos":
            return f"hdl21.primitives/Mos{{nf=pre:UNIT:i{tag};tp=lit:NMOS;vth=lit:STD;family=lit:NONE;}}"
        if kind == "R":
            return f"vlsir.primitives/resistor{{r=pre:UNIT:i{tag};}}"
        if kind == "C":
            return f"vlsir.primitives/capacitor{{c=pre:UNIT:i{tag};}}"
        if kind == "Bjt":
            return f"hdl21.primitives/Bipolar{{tp=lit:NPN;mult=pre:UNIT:i{tag};}}"
        if kind == "D":
            return f"hdl21.primitives/Diode{{model=lit:d{tag};}}"
        if kind == "Res3":
            return f"hdl21.primitives/ThreeTerminalResistor{{model=lit:m{tag};}}"
    if of[0] == "ext":
        return f"/{design['exts'][of[1]]['name']}{{tag=int:{of[2]};}}"
    raise ValueError(of)


def target_ports(design, of):
    if of[0] == "mod":
        return [(n, w) for n, w, _ in design["mods"][of[1]]["ports"]]
    if of[0] == "prim":
        return [(p, 1) for p in PRIM_PORTS[of[1]]]
    if of[0] == "ext":
        return [(n, w) for n, w in design["exts"][of[1]]["ports"]]
    raise ValueError(of)


def find_inst(md, name):
    for x in md["insts"]:
        if x["name"] == name:
            return x
    return None


def sig_width(md, n):
    for a, w, _ in md["ports"]:
        if a == n:
            return w
    for a, w in md["sigs"]:
        if a == n:
            return w
    return None


# ---------------------------------------------------------------------------------------------
# Coq printing
# ---------------------------------------------------------------------------------------------
class ModPrinter:
    def __init__(self, design, md):
        self.design, self.md = design, md
        self.leaves = {}     # key -> (id, coq leaf)

    def leaf_id(self, key, coq):
        if key not in self.leaves:
            self.leaves[key] = (len(self.leaves), coq)
        return self.leaves[key][0]

    def expr(self, e, ncw):
        t = e[0]
        if t == "sig":
            w = sig_width(self.md, e[1])
            return f"(XSig {self.leaf_id(('s', e[1]), f'LSig {cstr(e[1])}')}%N {cz(w if w is not None else 1)})"
        if t == "ref":
            x = find_inst(self.md, e[1])
            w = dict(target_ports(self.design, x["of"])).get(e[2], 1) if x else 1
            return f"(XSig {self.leaf_id(('r', e[1], e[2]), f'LRef {cstr(e[1])} {cstr(e[2])}')}%N {cz(w)})"
        if t == "nc":
            return f"(XSig {self.leaf_id(('n', e[1]), f'LNc {e[1]}%N')}%N {cz(ncw)})"
        if t == "orphan":
            return f"(XSig {self.leaf_id(('o', e[1]), 'LSig \"?orphan\"')}%N {cz(e[1])})"
        if t == "foreign":
            w = sig_width(self.design["mods"][e[1]], e[2])
            return f"(XSig {self.leaf_id(('f', e[1], e[2]), 'LSig \"?foreign\"')}%N {cz(w or 1)})"
        if t == "foreignref":
            return f"(XSig {self.leaf_id(('fr', e[1], e[2], e[3]), 'LRef \"?foreign\" ' + cstr(e[3]))}%N {cz(ncw)})"
        if t == "sl":
            return f"(XSlice {self.expr(e[1], ncw)} {c_index(e[2])})"
        if t == "cat":
            return f"(XConcat {clist(e[1], lambda p: self.expr(p, ncw))})"
        raise ValueError(t)

    def inst(self, x):
        of = x["of"]
        ports = dict(target_ports(self.design, of))
        if of[0] == "mod":
            tgt = f"(TMod {of[1]}%nat)"
        else:
            tgt = f"(TDev {cstr(dev_string(self.design, of))} {clist(target_ports(self.design, of), lambda pw: f'({cstr(pw[0])}, {cz(pw[1])})')})"
        conns = clist(x["conns"], lambda c: f"({cstr(c[0])}, {self.expr(c[1], ports.get(c[0], 1))})")
        return f"{{| i_name := {cstr(x['name'])}; i_n := {cz(x['n'])}; i_of := {tgt}; i_conns := {conns} |}}"

    def module(self):
        md = self.md
        insts = clist(md["insts"], self.inst)
        leaves = clist(sorted(self.leaves.values()), lambda l: f"({l[0]}%N, {l[1]})")
        pw = lambda p: f"({cstr(p[0])}, {cz(p[1])})"
        return (f"{{| m_name := {cstr(md['name'] or '')}; m_ports := {clist(md['ports'], pw)}; m_sigs := {clist(md['sigs'], pw)};\n"
                f"     m_insts := {insts};\n     m_leaves := {leaves} |}}")


def c_design(design):
    mods = clist(design["mods"], lambda md: ModPrinter(design, md).module())
    return f"{{| d_mods := {mods}; d_top := {design['top']}%nat |}}"


def c_path(p):
    return clist(p, lambda ie: f"({cstr(ie[0])}, {cz(ie[1])})")


def c_node(n):
    if n[0] == "sig":
        return f"(NSig {c_path(n[1])} {cstr(n[2])} {cz(n[3])})"
    return f"(NPort {c_path(n[1])} {cstr(n[2])} {cz(n[3])} {cstr(n[4])} {cz(n[5])})"


def terminals(design, elem_name=lambda i, k: f"{i}_{k}"):
    """(spec terminals, package terminals) in corresponding order; paths innermost first."""
    spec, pkg = [], []
    top = design["mods"][design["top"]]
    for n, w, _ in top["ports"]:
        for k in range(w):
            spec.append(["sig", [], n, k])
            pkg.append(["sig", [], n, k])

    def walk(md, sp, pp):
        for x in md["insts"]:
            elems = range(x["n"]) if x["n"] > 0 else [0]
            for e in elems:
                pname = elem_name(x["name"], e) if x["n"] > 0 else x["name"]
                if x["of"][0] == "mod":
                    walk(design["mods"][x["of"][1]], [[x["name"], e]] + sp, [[pname, 0]] + pp)
                else:
                    for port, w in target_ports(design, x["of"]):
                        for k in range(w):
                            spec.append(["port", sp, x["name"], e, port, k])
                            pkg.append(["port", pp, pname, 0, port, k])
    walk(top, [], [])
    return spec, pkg


# ---------------------------------------------------------------------------------------------
# package JSON -> Coq
# ---------------------------------------------------------------------------------------------
def c_ptarget(t):
    if t[0] == "sig":
        return f"(PSig {cstr(t[1])})"
    if t[0] == "slice":
        return f"(PSlice {cstr(t[1])} {cz(t[2])} {cz(t[3])})"
    if t[0] == "concat":
        return f"(PConcat {clist(t[1], c_ptarget)})"
    raise ValueError(t)


def c_pkg(p):
    def pinst(i):
        ref = f"(PLocal {cstr(i['ref'][1])})" if i["ref"][0] == "local" else f"(PExt {cstr(i['ref'][1])} {cstr(i['ref'][2])})"
        return (f"{{| pi_name := {cstr(i['name'])}; pi_ref := {ref}; "
                f"pi_params := {clist(i['params'], lambda kv: f'({cstr(kv[0])}, {cstr(kv[1])})')}; "
                f"pi_conns := {clist(i['conns'], lambda c: f'({cstr(c[0])}, {c_ptarget(c[1])})')} |}}")

    def pmod(m):
        return (f"{{| pm_name := {cstr(m['name'])}; pm_sigs := {clist(m['sigs'], lambda s: f'({cstr(s[0])}, {cz(s[1])})')}; "
                f"pm_ports := {clist(m['ports'], lambda s: f'({cstr(s[0])}, {cz(s[1])})')};\n   pm_insts := {clist(m['insts'], pinst)}; "
                f"pm_literals := {clist(m['literals'], cstr)} |}}")

    def pext(x):
        return (f"{{| px_domain := {cstr(x['domain'])}; px_name := {cstr(x['name'])}; "
                f"px_ports := {clist(x['ports'], lambda s: f'({cstr(s[0])}, {cz(s[1])}, {cz(s[2])})')}; px_spicetype := {cstr(x['spicetype'])} |}}")
    return f"{{| pk_domain := {cstr(p['domain'])}; pk_exts := {clist(p['exts'], pext)}; pk_mods := {clist(p['mods'], pmod)} |}}"


def pkg_top_name(p, design):
    want = design["mods"][design["top"]]["name"]
    cands = [m["name"] for m in p["mods"] if m["name"] == want or m["name"].endswith("." + want)]
    return cands[-1] if cands else want


# ---------------------------------------------------------------------------------------------
# generation
# ---------------------------------------------------------------------------------------------
def rand_expr(r, pool, w, depth, allow_reverse=True):
    """A sliceable expression of exact width w over the (name, width) pool; None if impossible."""
    cands = [n for n, sw in pool if sw == w]
    u = r.random()
    if depth > 0 and r.random() < 0.06:
        inner = rand_expr(r, pool, w, depth - 1, allow_reverse)     # a concatenation of ONE part (e.g. Concat(*taps) with one tap)
        if inner is not None:
            return ["cat", [inner]]
    if cands and w >= 2 and allow_reverse and r.random() < 0.12:
        # a slice as wide as its parent that is NOT the parent: full-width reversal, written in several styles
        a, b = r.choice([(None, None), (w - 1, None), (-1, None), (None, -w - 1), (-1, -w - 1)])
        return ["sl", ["sig", r.choice(cands)], ["s", a, b, -1]]
    if cands and (u < 0.35 or depth <= 0):
        return ["sig", r.choice(cands)]
    wider = [(n, sw) for n, sw in pool if sw > w]
    if wider and (u < 0.6 or depth <= 0):
        n, sw = r.choice(wider)
        return ["sl", ["sig", n], rand_slice(r, sw, w, allow_reverse)]
    if depth <= 0:
        if cands:
            return ["sig", r.choice(cands)]
        if wider:
            n, sw = r.choice(wider)
            return ["sl", ["sig", n], rand_slice(r, sw, w, allow_reverse)]
        # concat of single bits
        parts = []
        for _ in range(w):
            n, sw = r.choice(pool)
            parts.append(["sig", n] if sw == 1 else ["sl", ["sig", n], ["i", r.randint(-sw, sw - 1)]])
        return ["cat", parts] if len(parts) > 1 else parts[0]
    if u < 0.85 and w >= 2:
        # concat of 2..3 parts
        k = r.randint(2, min(3, w))
        cuts = sorted(r.sample(range(1, w), k - 1))
        ws = [b - a for a, b in zip([0] + cuts, cuts + [w])]
        return ["cat", [rand_expr(r, pool, x, depth - 1, allow_reverse) for x in ws]]
    # slice of a wider sub-expression
    w2 = w + r.randint(1, 2)
    return ["sl", rand_expr(r, pool, w2, depth - 1, allow_reverse), rand_slice(r, w2, w, allow_reverse)]


def rand_slice(r, pw, w, allow_reverse=True):
    """An index selecting exactly w bits out of pw, in a random writing style."""
    if w == 1 and r.random() < 0.5:
        i = r.randint(0, pw - 1)
        return ["i", i if r.random() < 0.6 else i - pw]
    steps = [1, 1, 1]
    if allow_reverse:
        steps += [-1]
    for s in (2, -2, 3):
        if (w - 1) * abs(s) + 1 <= pw and (allow_reverse or s > 0):
            steps.append(s)
    st = r.choice(steps)
    span = (w - 1) * abs(st) + 1
    lo = r.randint(0, pw - span)
    if st > 0:
        start, stop = lo, lo + span
        a = None if start == 0 and r.random() < 0.4 else (start - pw if r.random() < 0.25 and start > 0 else start)
        b = None if stop >= pw and r.random() < 0.4 else (stop - pw if r.random() < 0.25 and stop < pw else stop)
        return ["s", a, b, None if st == 1 and r.random() < 0.6 else st]
    hi = lo + span - 1
    start, stop = hi, lo - 1
    a = None if start == pw - 1 and r.random() < 0.4 else (start - pw if r.random() < 0.3 else start)
    b = None if stop < 0 else (stop - pw if r.random() < 0.3 else stop)
    return ["s", a, b, st]


DEVS = [("Mos", 4), ("R", 2), ("C", 2), ("Bjt", 3), ("D", 2), ("Res3", 3)]


def gen_design(r, size=2, refs=True, ncs=True, arrays=True, nested=True, devs=None, reconnect=False):
    """A valid hierarchical design of the core fragment. `size` scales modules/instances/widths."""
    devs = devs or DEVS
    maxw = r.choice([1, 2, 3, 4]) if size <= 2 else r.choice([2, 4, 6, 8])
    exts = []
    for k in range(r.choice([0, 1, 1, 2])):
        exts.append(dict(name=f"E{k}", ports=[[f"x{j}", r.choice([1, 1, 2, maxw])] for j in range(r.randint(1, 3))]))
    nmods = r.randint(1, 2 + size)
    mods = []
    design = dict(mods=mods, exts=exts, top=nmods - 1)
    site = [0]
    ncnames = {}
    for mi in range(nmods):
        is_top = mi == nmods - 1
        nports = r.randint(0, 2) if is_top else r.randint(1, 3)
        ports = [[f"p{j}", r.choice([1, 1, 2, maxw]), r.choice(["in", "out", "inout", "none"])] for j in range(nports)]
        sigs = [[f"s{j}", r.choice([1, 1, 2, 3, maxw])] for j in range(r.randint(1, 2 + size))]
        md = dict(name=f"M{mi}", ports=ports, sigs=sigs, insts=[])
        mods.append(md)
        pool = [(n, w) for n, w, _ in ports] + [(n, w) for n, w in sigs]
        ninst = r.randint(1, 2 + size)
        for ii in range(ninst):
            u = r.random()
            if mi > 0 and u < 0.45:
                of = ["mod", r.randrange(mi)]
            elif exts and u < 0.6:
                of = ["ext", r.randrange(len(exts)), r.randint(1, 3)]
            else:
                of = ["prim", r.choice(devs)[0], r.randint(1, 3)]
            n = r.choice([2, 2, 3]) if arrays and r.random() < 0.2 else 0
            md["insts"].append(dict(name=f"i{ii}", n=n, of=of, conns=[]))
        # connections
        single = [x for x in md["insts"] if x["n"] == 0]
        referenced = set()
        for x in md["insts"]:
            for port, w in target_ports(design, x["of"]):
                u = r.random()
                others = [(y["name"], q) for y in single if y is not x for q, qw in target_ports(design, y["of"]) if qw == w]
                if refs and x["n"] == 0 and others and u < 0.22:
                    y, q = r.choice(others)
                    x["conns"].append([port, ["ref", y, q]])
                    referenced.add((y, q))
                elif ncs and u < 0.30:
                    if site[0] == 0 or r.random() < 0.7:
                        site[0] += 1
                        ncnames[site[0]] = r.choice([None, None, f"nc{site[0]}", "ncx", sigs[0][0]])
                        st = site[0]
                    else:
                        st = r.randint(1, site[0])       # a shared no-connect object
                    x["conns"].append([port, ["nc", st, ncnames[st]]])
                elif refs and x["n"] == 0 and u < 0.34:
                    x["conns"].append([port, None])       # left unconnected: must end up referenced
                else:
                    tw = w * x["n"] if x["n"] > 0 and r.random() < 0.5 else w
                    x["conns"].append([port, rand_expr(r, pool, tw, r.choice([0, 1, 2]) if nested else 0)])
        # repair: no-connected ports must not be referenced; unconnected ports must be referenced
        for x in md["insts"]:
            for c in x["conns"]:
                key = (x["name"], c[0])
                w = dict(target_ports(design, x["of"]))[c[0]]
                if c[1] is not None and c[1][0] == "nc" and key in referenced:
                    c[1] = rand_expr(r, pool, w, 0)
                if c[1] is None and key not in referenced:
                    c[1] = rand_expr(r, pool, w, 1 if nested else 0)
            x["conns"] = [c for c in x["conns"] if c[1] is not None]
        # connection histories: some ports are first tied to something else and re-connected afterwards ("pre" is applied by the
        # builder before "conns"; the written circuit is the final mapping, so the specification ignores it)
        if reconnect:
            for x in md["insts"]:
                final = {c[0] for c in x["conns"]}
                for port, w in target_ports(design, x["of"]):
                    if port in final and r.random() < 0.12:
                        safe = [(y["name"], q) for y in single if y is not x for q, qw in target_ports(design, y["of"])
                                if qw == w and any(c[0] == q and c[1][0] in ("sig", "sl", "cat") for c in y["conns"])]
                        if safe and r.random() < 0.4:
                            y, q = r.choice(safe)
                            decoy = ["ref", y, q]
                        else:
                            decoy = rand_expr(r, pool, w * x["n"] if x["n"] > 0 and r.random() < 0.3 else w, 1)
                        if decoy is not None:
                            x.setdefault("pre", []).append([port, decoy])
    return design


def features(design):
    s = json.dumps(design)
    return dict(refs='"ref"' in s, ncs='"nc"' in s, arrays=any(x["n"] > 0 for m in design["mods"] for x in m["insts"]),
                slices='"sl"' in s, concats='"cat"' in s, hier=len(design["mods"]) > 1, exts='"ext"' in s,
                negstep=any(k in s for k in (', -1]', ', -2]')), reconnected='"pre"' in s)
