"""C17 — simulation input export is complete and faithful (DESIGN.md 6.16).

Streams: spec validation (nearest_double / round_dbl against CPython, generated names), corpus, exhaustive-small,
float-midpoints (many-digit Scalars beside float midpoints in every float field, all forms / prefixes, range ends),
float-path (hdl21.sim.proto.export_float on single Prefixed values), random-valid, malformed.  Per case Coq evaluates the
specification on the implementation's SimInput (every double against nearest_double), the symbolic model against it through the
tree's float() table, and the model with computed float fields (Model/C17Float.v, round_dec) bit for bit.  Second-rounding
coverage targets (Cover) are measured on the accepted calls and fail closed."""
import json, copy, math, time, posixpath
from pathlib import PurePosixPath
from decimal import Decimal, Context
from fractions import Fraction
from . import core
from .core import copt, clist, cstr, cbool


def cz(z):
    """Coq Z literal; long numbers in hexadecimal (Coq reads a decimal literal in quadratic time: 30 ms for 120 digits)"""
    if abs(z) < 10 ** 18:
        return core.cz(z)
    return f"(-{hex(-z)})" if z < 0 else hex(z)


IMPORTS = ("From Coq Require Import String Ascii.\n"
           "Require Import Hdl21.Base.PyInt Hdl21.Spec.SimSpec Hdl21.Model.SimExport Hdl21.Model.C17Path Hdl21.Corr.C03 Hdl21.Corr.C17.\n"
           "Open Scope string_scope.\nSet Printing Width 1000000.")
PREFIXES = [-24, -21, -18, -15, -12, -9, -6, -3, -2, -1, 0, 1, 2, 3, 6, 9, 12, 15, 18, 21, 24]
KINDS = ["op", "dc", "ac", "tran", "noise", "sweep", "monte", "custom"]
KCON = dict(op="KOp", dc="KDc", ac="KAc", tran="KTran", noise="KNoise", sweep="KSweep", monte="KMonte", custom="KCustom")
ANALYSES = set(KINDS)
CONTROLS = {"include", "lib", "save", "meas", "param", "literal"}


# ------------------------------------------------------------------------------------------------
# Coq printers
# ------------------------------------------------------------------------------------------------
def c_ostr(s):
    return "None" if s is None else f"(Some {cstr(s)})"


def c_num(n):
    if n[0] == "lit":
        return f"(NLit {cstr(n[1])})"
    return f"(NPre {cz(n[1])} {cz(n[2])} {cz(n[3])})"


def c_sweep(s):
    if s[0] == "lin":
        return f"(SwLin {c_num(s[1])} {c_num(s[2])} {c_num(s[3])})"
    if s[0] == "log":
        return f"(SwLog {c_num(s[1])} {c_num(s[2])} {cz(s[3])})"
    return f"(SwPts {clist(s[1], c_num)})"


def c_var(v):
    return f"(VStr {cstr(v[1])})" if v[0] == "s" else f"(VPar {c_ostr(v[1])})"


def c_nout(o):
    if o[0] == "tuple":
        return f"(OTuple {clist(o[1], c_ostr)})"
    if o[0] == "conn":
        return f"(OConn {cstr(o[1])})"
    if o[0] == "str":
        return f"(OStr {cstr(o[1])})"
    return "OOther"


def c_nsrc(s):
    return f"({'SInst' if s[0] == 'inst' else 'SStr'} {cstr(s[1])})"


def c_analysis(a):
    t = a[0]
    if t == "op":
        return f"(AOp {c_ostr(a[1])})"
    if t == "dc":
        return f"(ADc {c_var(a[1])} {c_sweep(a[2])} {c_ostr(a[3])})"
    if t == "ac":
        return f"(AAc {c_num(a[1])} {c_num(a[2])} {cz(a[3])} {c_ostr(a[4])})"
    if t == "tran":
        return f"(ATran {c_num(a[1])} {copt(a[2], c_num)} {c_ostr(a[3])})"
    if t == "noise":
        return f"(ANoise {c_nout(a[1])} {c_nsrc(a[2])} {c_num(a[3])} {c_num(a[4])} {cz(a[5])} {c_ostr(a[6])})"
    if t == "sweep":
        return f"(ASweep {clist(a[1], c_analysis)} {c_var(a[2])} {c_sweep(a[3])} {c_ostr(a[4])})"
    if t == "monte":
        return f"(AMonte {clist(a[1], c_analysis)} {cz(a[2])} {c_ostr(a[3])})"
    if t == "custom":
        return f"(ACustom {cstr(a[1])} {c_ostr(a[2])})"
    raise ValueError(a)


def c_starg(g):
    if g[0] == "mode":
        return f"(TMode {dict(ALL='MAll', NONE='MNone', SELECTED='MSelected')[g[1]]})"
    if g[0] == "sig":
        return f"(TSig {cstr(g[1])})"
    if g[0] == "sigs":
        return f"(TSigs {clist(g[1], cstr)})"
    if g[0] == "name":
        return f"(TName {cstr(g[1])})"
    return f"(TNames {clist(g[1], cstr)})"


def c_attr(a, raw=False):
    """raw: a read-back attribute (the text str(path) of the Path the Sim holds, verbatim); otherwise the generator's intent:
    the designer wrote the text a[1], the control holds pathlib's path of it, whose text is path_str (Model/C17Path.v)"""
    t = a[0]
    if t in ANALYSES:
        return f"(AtAn {c_analysis(a)})"
    if t == "include":
        return f"(AtCtrl (CInclude {cstr(a[1])}))" if raw else f"(AtCtrl (CInclude (path_str {cstr(a[1])})))"
    if t == "lib":
        return f"(AtCtrl (CLib {cstr(a[1])} {cstr(a[2])}))" if raw else f"(AtCtrl (CLib (path_str {cstr(a[1])}) {cstr(a[2])}))"
    if t == "save":
        return f"(AtCtrl (CSave {c_starg(a[1])}))"
    if t == "meas":
        an = f"(MStr {cstr(a[1][1])})" if a[1][0] == "s" else f"(MAn {KCON[a[1][1]]})"
        return f"(AtCtrl (CMeas {an} {cstr(a[2])} {c_ostr(a[3])}))"
    if t == "param":
        return f"(AtCtrl (CParam {c_ostr(a[1])} {c_num(a[2])}))"
    if t == "literal":
        return f"(AtCtrl (CLiteral {cstr(a[1])}))"
    if t == "options":
        v = a[2]
        return f"(AtOpt {cstr(a[1])} {'(VBool ' + cbool(v[1]) + ')' if v[0] == 'bool' else '(VNum ' + c_num(v) + ')'})"
    raise ValueError(a)


def c_hmod(mods, mid):
    d = mods[str(mid)]
    return f"(HMod {mid}%N {cstr(d['name'])} {clist(d.get('kids', []), lambda k: c_hmod(mods, k))})"


def tb_ports(d):
    pre = list(d.get("ports", []))
    post = pre + [w for ws in d.get("bports", []) for w in ws]
    return pre, post


def c_tb(mods, mid):
    pre, post = tb_ports(mods[str(mid)])
    return f"{{| tb_mod := {c_hmod(mods, mid)}; tb_pre_ports := {clist(pre, cz)}; tb_ports := {clist(post, cz)} |}}"


def c_dbl(d):
    if d == "nan":
        return "DNan"
    if d == "inf":
        return "(DInf false)"
    if d == "-inf":
        return "(DInf true)"
    return f"(DFin {cbool(d[0])} {cz(d[1])} {cz(d[2])})"


def c_f(d):
    return f"(FDbl {c_dbl(d)})"


def c_osweep(s):
    if s[0] == "lin":
        return f"(OLin {c_f(s[1])} {c_f(s[2])} {c_f(s[3])})"
    if s[0] == "log":
        return f"(OLog {c_f(s[1])} {c_f(s[2])} {c_f(s[3])})"
    if s[0] == "pts" and len(s) == 2:
        return f"(OPts {clist(s[1], c_f)})"
    return "(OPts [FDbl DNan])"       # an unset / unexpected sweep never matches


def c_oan(a):
    t = a[0]
    if t == "op":
        return f"(OOp {cstr(a[1])})"
    if t == "dc":
        return f"(ODc {cstr(a[1])} {cstr(a[2])} {c_osweep(a[3])})"
    if t == "ac":
        return f"(OAc {cstr(a[1])} {c_f(a[2])} {c_f(a[3])} {cz(a[4])})"
    if t == "tran":
        return f"(OTran {cstr(a[1])} {c_f(a[2])} {c_f(a[3])})"
    if t == "noise":
        return f"(ONoise {cstr(a[1])} {cstr(a[2])} {cstr(a[3])} {cstr(a[4])} {c_f(a[5])} {c_f(a[6])} {cz(a[7])})"
    if t == "sweep":
        return f"(OSweep {cstr(a[1])} {cstr(a[2])} {c_osweep(a[3])} {clist(a[4], c_oan)})"
    if t == "monte":
        return f"(OMonte {cstr(a[1])} {cz(a[2])} {cz(a[3])} {clist(a[4], c_oan)})"
    if t == "custom":
        return f"(OCustom {cstr(a[1])} {cstr(a[2])})"
    return '(OCustom "<unexpected analysis message>" "")'


def c_pval(v):
    if v[0] == "dec":
        return f"(PDec {cz(v[1])} {cz(v[2])})"
    if v[0] == "lit":
        return f"(PLit {cstr(v[1])})"
    if v[0] == "int":
        return f"(PInt {cz(v[1])})"
    if v[0] == "bool":
        return f"(PBool {cbool(v[1])})"
    return "POther"


def c_octrl(c):
    t = c[0]
    if t == "include":
        return f"(XInclude {cstr(c[1])})"
    if t == "lib":
        return f"(XLib {cstr(c[1])} {cstr(c[2])})"
    if t == "savemode":
        return f"(XSaveMode {dict(ALL='MAll', NONE='MNone').get(c[1], 'MSelected')})"
    if t == "savesig":
        return f"(XSaveSig {cstr(c[1])})"
    if t == "meas":
        return f"(XMeas {cstr(c[1])} {cstr(c[2])} {cstr(c[3])})"
    if t == "param":
        return f"(XParam {cstr(c[1])} {c_pval(c[2])})"
    if t == "literal":
        return f"(XLiteral {cstr(c[1])})"
    return '(XLiteral "<unexpected control message>")'


def c_siminput(o):
    pkg = clist(o["pkg"], lambda e: f"({max(e[0], 0) if e[0] >= 0 else 999999}%N, {cstr(e[1])})")
    opts = clist(o["opts"], lambda e: f"({cstr(e[0])}, {c_pval(e[1])})")
    return (f"{{| o_top := {cstr(o['top'])}; o_pkg := {pkg}; o_opts := {opts}; "
            f"o_an := {clist(o['an'], c_oan)}; o_ctrls := {clist(o['ctrls'], c_octrl)} |}}")


# ------------------------------------------------------------------------------------------------
# intended abstract Sims of a case description (aliases resolved)
# ------------------------------------------------------------------------------------------------
def strip_num(n):
    return n[:4] if n[0] == "pre" else n[:2]


def final_name(style, key, a):
    """name of top-level item after construction"""
    t = a[0]
    own = a[-1] if t in ANALYSES else (a[3] if t == "meas" else a[1] if t == "param" else None)
    if style == "class" and key != "_" and (t in ANALYSES or t in ("meas", "param")):
        return key
    return own


def resolve(style, items, a, as_top_of=None):
    """description attr -> abstract attr (refs replaced by the final state of the aliased object)"""
    t = a[0]

    def var(v):
        if v[0] == "pref":
            k, tgt = items[v[1]]
            return ["p", final_name(style, k, tgt)]
        return v

    def sweep(s):
        if s[0] == "lin":
            return ["lin"] + [strip_num(x) for x in s[1:4]]
        if s[0] == "log":
            return ["log", strip_num(s[1]), strip_num(s[2]), s[3]]
        return ["pts", [strip_num(x) for x in s[1]]]

    def inner(l):
        out = []
        for x in l:
            if x[0] == "ref":
                k, tgt = items[x[1]]
                y = resolve(style, items, tgt)
                y[-1] = final_name(style, k, tgt)
                out.append(y)
            else:
                out.append(resolve(style, items, x))
        return out

    if t == "op":
        return ["op", a[1]]
    if t == "dc":
        return ["dc", var(a[1]), sweep(a[2]), a[3]]
    if t == "ac":
        return ["ac", strip_num(a[1]), strip_num(a[2]), a[3], a[4]]
    if t == "tran":
        return ["tran", strip_num(a[1]), None if a[2] is None else strip_num(a[2]), a[3]]
    if t == "noise":
        return ["noise", a[1], a[2], strip_num(a[3]), strip_num(a[4]), a[5], a[6]]
    if t == "sweep":
        return ["sweep", inner(a[1]), var(a[2]), sweep(a[3]), a[4]]
    if t == "monte":
        return ["monte", inner(a[1]), a[2], a[3]]
    if t == "custom":
        return ["custom", a[1], a[2]]
    if t == "meas":
        an = a[1]
        if an[0] == "anref":
            an = ["an", items[an[1]][1][0]]
        return ["meas", an, a[2], a[3]]
    if t == "param":
        return ["param", a[1], strip_num(a[2])]
    if t == "options":
        return ["options", a[1], a[2] if a[2][0] == "bool" else strip_num(a[2])]
    return copy.deepcopy(a)


def c_build(case, s):
    mods = case["mods"]
    style, items = s["style"], s["items"]
    if style == "class":
        ents = []
        for key, v in items:
            if v[0] == "tb":
                ents.append(f"({cstr(key)}, CeTb {c_tb(mods, v[1])})")
            elif v[0] == "badtb":
                ents.append(f"({cstr(key)}, CeOther)")
            elif v[0] == "simname":
                ents.append(f"({cstr(key)}, CeName {cstr(v[1])})")
            elif v[0] == "other":
                ents.append(f"({cstr(key)}, CeOther)")
            else:
                ents.append(f"({cstr(key)}, CeAttr {c_attr(resolve(style, items, v))})")
        return f"(BClass [{'; '.join(ents)}])"
    attrs = [resolve(style, items, v) for _, v in items]
    if style == "proc":
        return f"(BProc {c_tb(mods, s['tb'])} {clist(attrs, c_attr)})"
    groups, pos = [], 0
    for n, _ in s["groups"]:
        groups.append(attrs[pos:pos + n])
        pos += n
    return f"(BAdd {c_tb(mods, s['tb'])} {clist(groups, lambda g: clist(g, c_attr))})"


def c_case(case, out):
    builds = clist(case["sims"], lambda s: c_build(case, s))
    if out["read"] is None:
        rd = "None"
    else:
        def c_sim(rb):
            tb = rb["tb"]
            tbs = c_tb(case["mods"], tb) if str(tb) in case["mods"] else \
                '{| tb_mod := HMod 999999%N "<unknown testbench>" []; tb_pre_ports := []; tb_ports := [] |}'
            return f"{{| s_tb := {tbs}; s_attrs := {clist(rb['attrs'], lambda x: c_attr(x, raw=True))} |}}"
        rd = f"(Some {clist(out['read'], c_sim)})"
    o = "None" if out["out"] is None else f"(Some {clist(out['out'], c_siminput)})"
    ft = clist(out["ftab"], lambda e: f"({cz(e[0])}, {cz(e[1])}, {c_dbl(e[2])})")
    return f"({builds}, {rd}, {o}, {ft})"


# ------------------------------------------------------------------------------------------------
# generators
# ------------------------------------------------------------------------------------------------
def _auto_prefix():
    """the prefix of the names of unnamed analyses in the tree under test (regenerated table entry
    Hdl21Gen.C17Names.auto_name_prefix): user names that LOOK generated are spelled with it"""
    import os, re
    try:
        m = re.search(r'Definition auto_name_prefix : string := "([ -!#-~]*)"\.', open(os.path.join(core.COQDIR, "generated", "C17Names.v")).read())
        return m.group(1) if m else "Analysis"
    except OSError:
        return "Analysis"


AUTO = _auto_prefix()
NAMES = ["a", "mytran", "x1", "dc_1", AUTO + "0", AUTO + "1", AUTO, "tr2", "an_7", "Sweep"]
STRS = ["x", "vdd", "out_p", "trig_targ_something", ".option temp=27", "v(out) / v(in)", "a b  c", "tt", "fast", "1+2"]
PATHS = ["/home/models", "a/b.sp", "models.lib", "/x/y/z.scs", "lib"]
# every class of written path text: plain; `..` after a named segment (absolute / relative / several / at the end), leading `..`,
# `..` directly below the root; `.` segments, doubled and trailing slashes (pathlib drops those: the text of the path differs
# from the written text); the three kinds of root (`/`, exactly `//`, three or more); the empty path; segments that
# os.path.expanduser / expandvars / case folding would touch; dots and blanks inside names
PATH_SHAPES = PATHS + [
    "/pdk/current/../corners.lib", "tb/../../shared/models.lib", "a/../b/../c.lib", "/pdk/v2/models/../../corners.lib",
    "models/..", "/pdk/current/..", "a/b/../../../c", "./tb/../m.lib", "//server/share/../m.lib", "a/../..",
    "../shared/models.lib", "../../x.lib", "..", "../..", "/..", "/../pdk/m.lib", "//../x.lib", "/../../m.lib",
    ".", "", "./", "./models.lib", "a/./b.sp", "a/.", "/.", "/./pdk/m.lib", "./../m.lib",
    "a//b.sp", "/pdk//models.lib", "models/", "/pdk/models/", "a//", ".//a", "/pdk/./models//tt.lib/",
    "/", "//", "///", "//server/share/m.lib", "///pdk/m.lib", "////pdk//m.lib//",
    "~/models/tt.lib", "~eda/pdk/m.lib", "$HOME/models.lib", "${HOME}/../m.lib", "Models/TT.lib", ".hidden/m.lib", ".../m.lib",
    "..x/a..b", "my models/lib 1.sp", "/pdk/~/x.lib",
]
PATH_NAMES = ["pdk", "current", "models", "tb", "shared", "v2", "corners.lib", "models.lib", "a", "b.sp", "x_1", "TT", "Models", "~", "~eda",
              "$HOME", "${HOME}", ".hidden", "...", "..x", "a..b", "lib 1", "all.spice", "home"]
PATH_FORMS = ["str", "path"]      # Include("text") / Include(pathlib.Path("text"))


def gen_path(r):
    """a written path text: the whole alphabet of segments (names, `..`, `.`, empty = doubled slash), every kind of root"""
    if r.random() < 0.3:
        return r.choice(PATH_SHAPES)
    w = r.choice(["", "", "", "/", "/", "/", "//", "///", "./", "../", "../../"])
    for i in range(r.choice([1, 2, 2, 3, 3, 4, 5])):
        v = r.random()
        if i:
            w += "//" if r.random() < 0.08 else "/"
        w += ".." if v < 0.22 else "." if v < 0.3 else r.choice(PATH_NAMES)
    if r.random() < 0.12:
        w += r.choice(["/", "//", "/."])
    return w


def path_props(w):
    """features of a written path text (for the coverage targets; stdlib only)"""
    lead = len(w) - len(w.lstrip("/"))
    rooted = lead > 0
    body = w[lead:]
    segs = body.split("/")
    kept = [x for x in segs if x not in ("", ".")]
    f = {"absolute" if rooted else "relative"}
    if lead == 2:
        f.add("two-leading-slashes")
    if lead > 2:
        f.add("many-leading-slashes")
    if "//" in body:
        f.add("doubled-slash")
    if body.endswith("/"):
        f.add("trailing-slash")
    if "." in segs:
        f.add("dot-segment")
    if not kept:
        f.add("no-segment")
    for i, x in enumerate(kept):
        if x == "..":
            if i == 0:
                f.add("dotdot-below-root" if rooted else "dotdot-leading")
            elif kept[i - 1] == "..":
                f.add("dotdot-after-dotdot")
            else:
                f.add("dotdot-after-name:" + ("absolute" if rooted else "relative"))
    if any(x.startswith("~") for x in kept):
        f.add("tilde")
    if "$" in w:
        f.add("dollar")
    if any(ch.isupper() for ch in w):
        f.add("upper-case")
    if " " in w:
        f.add("blank")
    if any(x not in ("..",) and ".." in x or x == "..." or (x.startswith(".") and x not in (".", "..")) for x in kept):
        f.add("dots-in-name")
    if posixpath.normpath(w) != str(PurePosixPath(w)):
        f.add("normpath-differs")
    if str(PurePosixPath(w)) != w:
        f.add("text-differs-from-written")
    return f


PATH_FEATURES = ["absolute", "relative", "two-leading-slashes", "many-leading-slashes", "doubled-slash", "trailing-slash", "dot-segment",
                 "no-segment", "dotdot-below-root", "dotdot-leading", "dotdot-after-dotdot", "dotdot-after-name:absolute",
                 "dotdot-after-name:relative", "tilde", "dollar", "upper-case", "blank", "dots-in-name", "normpath-differs",
                 "text-differs-from-written"]
SIGS = ["out", "inp", "n1", "vdd", "x_0"]
FLOATS = [1e-9, 0.1, 1.5, 3.3, 1e10, 2.5e-12, 1e-3, 4.7e3, 0.3, 1e23, 8.41e21, 9007199254740993.0, 5e-324, 1.7976931348623157e308,
          0.001, 1e-15, 6.02e23, 2.0 ** -30, 123456.789, 1e22]


def dec_me(d):
    sign, digits, exp = d.as_tuple()
    m = int("".join(map(str, digits)) or "0")
    return (-m if sign else m), exp


# ------------------------------------------------------------------------------------------------
# numbers that expose a second rounding: more than 28 significant digits, within 10^-29 .. 10^-60 (relative) of the
# exact midpoint between two neighbouring doubles.  The double nearest to such a value is decided by digits that any
# detour through a decimal context of finite precision (28 digits by default), a float product, or a shortened text
# throws away.  Built from the float grid: a = M*2^E, b = (M+1)*2^E, mid = (2M+1)*2^(E-1) is a finite decimal.
# ------------------------------------------------------------------------------------------------
MID_FORMS = ["pre", "dmul", "smul", "dec", "str", "mul"]
MID_K = [29, 29, 30, 31, 32, 33, 34, 35, 36, 38, 40, 40, 45, 50, 60]
NATURAL = [1.0, 2.5e-9, 0.33, 750.0, 1e-12, 1e10, 3.3, 1e-3, 4.7e3, 0.1, 1e-15, 6.02e23, 5e-7, 2.0 ** 40, 2.0 ** -30, 123456.789]


def midpoint_dec(M, E):
    """exact midpoint of the doubles M*2^E and (M+1)*2^E as (coefficient, decimal exponent)"""
    c, k2 = 2 * M + 1, E - 1
    return (c << k2, 0) if k2 >= 0 else (c * 5 ** (-k2), k2)


def float_ME(f):
    m, ex = math.frexp(abs(f))
    return int(m * (1 << 53)), ex - 53


def near_mid(M, E, side, k):
    """(m, e): the decimal mid + side * 10^q, q = (decade of mid) - k: relative distance ~10^-k from the midpoint"""
    coef, exp = midpoint_dec(M, E)
    q = len(str(coef)) - 1 + exp - k
    e = min(q, exp)
    return coef * 10 ** (exp - e) + side * 10 ** (q - e), e


def mid_num(M, E, side, k, pe, form, neg=False):
    m, e = near_mid(M, E, side, k)
    if form in ("dec", "str"):
        pe = 0
    return ["pre", -m if neg else m, e - pe, pe, form]


def gen_ME(r):
    u = r.random()
    if u < 0.35:
        M, E = float_ME(r.choice(NATURAL) * r.choice([1, 1, 3, 7, 0.1]))
    elif u < 0.5:
        M, E = r.choice([2 ** 52, 2 ** 53 - 1, 2 ** 53 - 2, 2 ** 52 + 1]), r.randint(-110, 30)
    else:
        M, E = r.randint(2 ** 52, 2 ** 53 - 1), r.randint(-140, 40)
    return M, E


def gen_mid(r, forms=None, pe=None, side=None):
    """a many-digit Scalar just beside a float midpoint, in one of the Scalar forms"""
    form = r.choice(forms or MID_FORMS[:5])
    if form == "mul":        # an int times a prefix: the value is an integer number of 10^pe, pe = -24 .. -1
        M, E = r.randint(2 ** 52, 2 ** 53 - 1), r.randint(-14, 30)
        k = r.choice([29, 30, 31, 32, 33])
        m, e = near_mid(M, E, side or r.choice([1, -1]), k)
        pes = [p for p in PREFIXES if p <= e] if pe is None else [pe]
        pe = r.choice(pes)
        assert e - pe >= 0, (M, E, k, pe)
        return ["pre", m * 10 ** (e - pe), 0, pe, "mul"]
    M, E = gen_ME(r)
    return mid_num(M, E, side or r.choice([1, -1]), r.choice(MID_K), r.choice(PREFIXES) if pe is None else pe, form,
                   neg=r.random() < 0.15)


def exact_nearest(v):
    """the double nearest to the Fraction v (CPython int / int is correctly rounded)"""
    try:
        return v.numerator / v.denominator
    except OverflowError:
        return math.inf if v > 0 else -math.inf


CTX28 = Context(prec=28)


def second_rounding(n, prec=28):
    """properties of a numeric description that make a second rounding visible (measured, for the coverage targets):
    digits = significant digits of the number; near = "above"/"below" when the value lies within 10^-28 (relative) of
    the midpoint of two neighbouring doubles (on the far / near side of the midpoint, by magnitude); dr28 = evaluating
    number * Decimal(10) ** prefix in the default 28-digit context and then float() gives another double than rounding once"""
    _, nm, ne, pe = n[:4]
    digits = len(str(abs(nm)).rstrip("0")) if nm else 1
    v = Fraction(nm) * Fraction(10) ** (ne + pe)
    f = exact_nearest(v)
    near = None
    if nm and f not in (math.inf, -math.inf) and f != 0.0:
        F = Fraction(f)
        for g in (math.nextafter(f, math.inf), math.nextafter(f, -math.inf)):
            if g in (math.inf, -math.inf):
                continue
            mid = (F + Fraction(g)) / 2
            if v != mid and abs(v - mid) * 10 ** 28 <= abs(mid):
                near = "above" if abs(v) > abs(mid) else "below"
    d = Decimal((1 if nm < 0 else 0, tuple(int(c) for c in str(abs(nm))), ne))
    try:
        f28 = float(Context(prec=prec).multiply(d, Context(prec=prec).power(Decimal(10), pe)))
    except OverflowError:
        f28 = math.inf if nm > 0 else -math.inf
    end = None
    if nm:
        end = "overflow" if f in (math.inf, -math.inf) else "underflow" if f == 0.0 else "subnormal" if abs(f) < 2.0 ** -1022 else None
    return dict(digits=digits, near=near, dr28=(f28 != f), end=end)


def gen_num(r, allow_lit=0.0, small=False):
    if r.random() < allow_lit:
        return ["lit", r.choice(["w/5", "vdd*2", "1n", "tstop", "{x}"]), r.choice(["lit", "str"])]
    if r.random() < 0.12:
        return gen_mid(r, forms=MID_FORMS)
    form = r.choice(["int", "float", "str", "dec", "pre", "mul", "float", "pre"])
    if form == "int":
        return ["pre", r.choice([0, 1, 2, 5, 10, 11, 1000, r.randint(-50, 50), r.randint(0, 10 ** 12)]), 0, 0, "int"]
    if form == "float":
        f = r.choice(FLOATS) if r.random() < 0.6 else r.choice([r.uniform(0, 10), r.uniform(-1, 1) * 10 ** r.randint(-20, 20),
                                                                  r.random() * 10 ** r.randint(-12, 12)])
        if r.random() < 0.2:
            f = -f
        m, e = dec_me(Decimal(repr(f)))
        return ["pre", m, e, 0, "float"]
    if form in ("str", "dec"):
        nd = r.choice([1, 2, 3, 8, 17, 20, 30])
        m = r.randint(0, 10 ** nd) * r.choice([1, 1, 1, -1])
        e = r.choice([0, -1, -3, -9, -12, 3, 6, r.randint(-40, 40)]) if not small else r.randint(-6, 0)
        if m == 0:
            e = min(e, 0)      # "0e5" and Decimal("0E+5") are fine, keep them simple
        return ["pre", m, e, 0, form]
    pe = r.choice(PREFIXES)
    if form == "pre":
        m = r.choice([1, 5, 11, 25, 999, 1234567, r.randint(1, 10 ** r.choice([3, 9, 17, 22]))]) * r.choice([1, 1, 1, -1])
        e = r.choice([0, 0, -1, -2, -3, -5, 2])
        return ["pre", m, e, pe, "pre"]
    return ["pre", r.choice([1, 3, 11, 100, 250, r.randint(1, 10 ** 6)]), 0, pe, "mul"]


def gen_name(r, style):
    if style == "class":
        return None if r.random() < 0.85 else r.choice(NAMES)
    u = r.random()
    if u < 0.45:
        return None
    if u < 0.5:
        return ""
    return r.choice(NAMES) if u < 0.8 else f"n{r.randint(0, 30)}"


def gen_sweep(r, lit):
    k = r.choice(["lin", "log", "pts"])
    if k == "lin":
        return ["lin", gen_num(r, lit), gen_num(r, lit), gen_num(r, lit)]
    if k == "log":
        return ["log", gen_num(r, lit), gen_num(r, lit), r.choice([1, 10, 20, 100, r.randint(0, 1000)])]
    return ["pts", [gen_num(r, lit) for _ in range(r.choice([0, 1, 1, 2, 3, 5]))]]


def gen_var(r, items):
    params = [i for i, (_, a) in enumerate(items) if a[0] == "param"]
    u = r.random()
    if params and u < 0.3:
        return ["pref", r.choice(params)]
    if u < 0.5:
        return ["p", r.choice([None, "x", "vdd_val"])]
    return ["s", r.choice(["x", "y", "temp", "vdd_val"])]


def gen_analysis(r, style, items, depth, lit=0.0, nested=False):
    ks = ["op", "dc", "ac", "tran", "noise", "custom"] + (["sweep", "monte"] * (2 if depth > 0 else 0))
    t = r.choice(ks)
    name = gen_name(r, style if not nested else "proc")
    if t == "op":
        return ["op", name]
    if t == "dc":
        return ["dc", gen_var(r, items), gen_sweep(r, lit), name]
    if t == "ac":
        return ["ac", gen_num(r, lit), gen_num(r, lit), r.choice([1, 10, 20, 101]), name]
    if t == "tran":
        return ["tran", gen_num(r, lit), None if r.random() < 0.5 else gen_num(r, lit), name]
    if t == "noise":
        out = r.choice([["conn", r.choice(SIGS)], ["str", r.choice(SIGS)], ["tuple", [r.choice(SIGS), r.choice(SIGS)]]])
        src = r.choice([["inst", "vin"], ["str", "vsrc"], ["inst", "v_1"]])
        return ["noise", out, src, gen_num(r, lit), gen_num(r, lit), r.choice([1, 10, 50]), name]
    if t == "custom":
        return ["custom", r.choice(STRS), name]
    inner = []
    for _ in range(r.choice([0, 1, 1, 2, 3])):
        ans = [i for i, (_, a) in enumerate(items) if a[0] in ANALYSES]
        if ans and r.random() < 0.25:
            inner.append(["ref", r.choice(ans)])
        else:
            inner.append(gen_analysis(r, style, items, depth - 1, lit, nested=True))
    if t == "sweep":
        return ["sweep", inner, gen_var(r, items), gen_sweep(r, lit), name]
    return ["monte", inner, r.choice([1, 10, 11, 100]), name]


def gen_save(r):
    k = r.choice(["mode", "sig", "sigs", "name", "names"])
    if k == "mode":
        return ["save", ["mode", r.choice(["ALL", "NONE"])]]
    if k in ("sig", "name"):
        return ["save", [k, r.choice(SIGS)]]
    n = r.choice([1, 2, 3]) if k == "sigs" else r.choice([0, 1, 2, 3])
    return ["save", [k, [r.choice(SIGS) for _ in range(n)]]]


def gen_control(r, style, items, lit):
    t = r.choice(["include", "lib", "save", "save", "meas", "param", "literal"])
    if t == "include":
        return ["include", gen_path(r), r.choice(PATH_FORMS)]
    if t == "lib":
        return ["lib", gen_path(r), r.choice(["tt", "ff", "fast", "s s"]), r.choice(PATH_FORMS)]
    if t == "save":
        return gen_save(r)
    if t == "meas":
        ans = [i for i, (_, a) in enumerate(items) if a[0] in ANALYSES]
        u = r.random()
        if ans and u < 0.35:
            an = ["anref", r.choice(ans)]
        elif u < 0.6:
            an = ["an", r.choice(KINDS)]
        else:
            an = ["s", r.choice(["tran", "ac", "mytr", "dc"])]
        return ["meas", an, r.choice(STRS), None if (style == "class" or r.random() < 0.2) else r.choice(NAMES)]
    if t == "param":
        return ["param", None if (style == "class" or r.random() < 0.1) else r.choice(["x", "y", "vdd_val", "w"]),
                gen_num(r, max(lit, 0.15), small=True)]
    return ["literal", r.choice(STRS)]


def gen_options(r, lit):
    v = ["bool", r.random() < 0.5] if r.random() < 0.2 else gen_num(r, max(lit, 0.15), small=True)
    return ["options", r.choice(["reltol", "abstol", "temp", "gmin", "method"]), v]


def gen_items(r, style, n, depth, lit=0.0):
    items, keys = [], set()
    for i in range(n):
        u = r.random()
        if u < 0.5:
            a = gen_analysis(r, style, items, depth, lit)
        elif u < 0.85:
            a = gen_control(r, style, items, lit)
        else:
            a = gen_options(r, lit)
        key = f"k{i}"
        if style == "class":
            if "_" not in keys and r.random() < 0.1:
                key = "_"
            else:
                key = r.choice([f"k{i}", f"an{i}", f"my_{i}", f"{AUTO}{i}"])
            keys.add(key)
        items.append([key, a])
    return items


def finish_sim(r, style, tb, items):
    s = dict(style=style, tb=tb, items=items)
    if style == "class":
        ents = list(items)
        ents.insert(r.randint(0, len(ents)) if r.random() < 0.3 else 0, [r.choice(["tb", "Tb"]), ["tb", tb]])
        if r.random() < 0.3:
            ents.insert(r.randint(0, len(ents)), ["a_path", ["other", "/home/models"]])
        if r.random() < 0.2:
            ents.insert(r.randint(0, len(ents)), ["name", ["simname", "SimName"]])
        # references are positions in the item list: re-index
        s["items"] = reindex(items, ents)
    elif style == "add":
        groups, left = [], len(items)
        while left:
            n = r.choice([1, 1, 1, 2, 3])
            n = min(n, left)
            groups.append([n, r.random() < 0.6])
            left -= n
        s["groups"] = groups
    return s


def reindex(old, new):
    pos = {id(it): i for i, it in enumerate(new)}
    m = {i: pos[id(it)] for i, it in enumerate(old)}

    def fix(a):
        if isinstance(a, list):
            if len(a) == 2 and a[0] in ("ref", "anref", "pref") and isinstance(a[1], int):
                return [a[0], m[a[1]]]
            return [fix(x) for x in a]
        return a
    return [[k, fix(a) if a[0] not in ("tb", "other", "simname", "badtb") else a] for k, a in new]


def gen_case(r, k, lit=0.0):
    nsims = r.choice([1, 1, 1, 1, 2, 2, 3])
    as_list = nsims > 1 or r.random() < 0.15
    mods = {}
    nleaf = r.choice([0, 0, 1, 2])
    for i in range(nleaf):
        mods[str(100 + i)] = dict(name=f"Leaf{i}", kids=[] if i == 0 or r.random() < 0.5 else [100])
    ntb = r.randint(1, nsims)
    for i in range(ntb):
        d = dict(name=f"Tb{i}", ports=[1], kids=[100 + r.randrange(nleaf) for _ in range(r.choice([0, 1, 2]))] if nleaf else [])
        if r.random() < 0.06:
            d["ports"], d["bports"] = [], [[1]]
        mods[str(i)] = d
    sims = []
    for j in range(nsims):
        style = r.choice(["proc", "add", "class"])
        n = r.choice([0, 1, 2, 3, 3, 4, 5, 6, 8])
        items = gen_items(r, style, n, depth=r.choice([0, 1, 2, 2, 3]), lit=lit)
        sims.append(finish_sim(r, style, j if j < ntb else r.randrange(ntb), items))
    return dict(mods=mods, sims=sims, as_list=as_list)


def one(style, attr_items, mods=None, tb=0, as_list=False, groups=None):
    """a single-Sim case from explicit items [[key, attr], ...]"""
    mods = mods or {"0": dict(name="Tb", ports=[1])}
    s = dict(style=style, tb=tb, items=[list(x) for x in attr_items])
    if style == "class":
        s["items"] = [["tb", ["tb", tb]]] + s["items"]
        s["items"] = reindex_shift(s["items"], 1)
    if style == "add":
        s["groups"] = groups or [[1, True] for _ in attr_items]
    return dict(mods=mods, sims=[s], as_list=as_list)


def reindex_shift(items, by):
    def fix(a):
        if isinstance(a, list):
            if len(a) == 2 and a[0] in ("ref", "anref", "pref") and isinstance(a[1], int):
                return [a[0], a[1] + by]
            return [fix(x) for x in a]
        return a
    return [[k, a if a[0] in ("tb", "other", "simname", "badtb") else fix(a)] for k, a in items]


N1 = ["pre", 1, 0, 0, "int"]
N11P = ["pre", 11, 0, -12, "mul"]


def corpus():
    c = []
    # pinned tree: the list forms and the name form of SaveTarget raise TypeError inside export_save
    c.append(one("proc", [["k0", ["save", ["sigs", ["out", "inp"]]]]]))
    c.append(one("proc", [["k0", ["save", ["names", ["a", "b"]]]]]))
    c.append(one("proc", [["k0", ["save", ["name", "out"]]]]))
    c.append(one("proc", [["k0", ["save", ["sig", "out"]]]]))
    c.append(one("proc", [["k0", ["save", ["mode", "ALL"]]], ["k1", ["save", ["mode", "NONE"]]]]))
    # pinned tree: a Literal control in an @sim class raises FrozenInstanceError
    c.append(one("class", [["lit", ["literal", ".option temp=27"]]]))
    c.append(one("class", [["_", ["literal", ".option temp=27"]]]))
    # pinned tree: @sim replaces the name of an Options by the class attribute
    c.append(one("class", [["opts", ["options", "reltol", ["pre", 1, -9, 0, "float"]]]]))
    # pinned tree: a module below the testbench with the testbench's name -> `top` is twice in the package
    c.append(one("proc", [["k0", ["op", None]]], mods={"0": dict(name="E", ports=[1], kids=[1]), "1": dict(name="E", kids=[])}))
    # naming counter across nesting, user names that look generated, empty names
    c.append(one("proc", [["k0", ["op", None]], ["k1", ["sweep", [["tran", N1, None, None], ["monte", [["op", None], ["op", "in"]], 3, None]],
                                                          ["s", "x"], ["lin", N1, N1, N1], None]],
                          ["k2", ["op", ""]], ["k3", ["custom", "c", AUTO + "0"]]]))
    # the readme's simulation, three ways
    readme = [["x", ["param", "x", ["pre", 5, 0, 0, "int"]]],
              ["mydc", ["dc", ["pref", 0], ["pts", [N1]], "mydc"]],
              ["myac", ["ac", ["pre", 1, 1, 0, "float"], ["pre", 1, 10, 0, "float"], 10, "myac"]],
              ["mytran", ["tran", N11P, None, "mytran"]],
              ["mysweep", ["sweep", [["ref", 3]], ["pref", 0], ["lin", ["pre", 0, 0, 0, "int"], N1, ["pre", 2, 0, 0, "int"]], "mysweep"]],
              ["mymc", ["monte", [["dc", ["s", "y"], ["pts", [N1]], "swpdc"]], 11, "mymc"]],
              ["save_all", ["save", ["mode", "ALL"]]],
              ["a_delay", ["meas", ["anref", 3], "trig_targ_something", "a_delay"]],
              ["inc", ["include", "/home/models"]],
              ["fast_lib", ["lib", "/home/models", "fast"]],
              ["reltol", ["options", "reltol", ["pre", 1, -9, 0, "float"]]]]
    for st in ("proc", "add", "class"):
        c.append(one(st, copy.deepcopy(readme)))
    # lists of Sims sharing / not sharing a testbench
    two = {"0": dict(name="TbA", ports=[1], kids=[2]), "1": dict(name="TbB", ports=[1], kids=[2]), "2": dict(name="Leaf", kids=[])}
    mk = lambda tb, st: dict(style=st, tb=tb, items=[["k0", ["tran", N11P, None, None]], ["k1", ["op", None]]],
                             **(dict(groups=[[2, False]]) if st == "add" else {}))
    c.append(dict(mods=two, sims=[mk(0, "proc"), mk(1, "add"), mk(0, "proc")], as_list=True))
    c.append(dict(mods=two, sims=[mk(0, "proc")], as_list=True))
    c.append(dict(mods=two, sims=[], as_list=True))
    # seeded C17r4-C: paths exported through os.path.normpath (`name/..` struck out: another file when `name` is a link)
    seeded_paths = ["/pdk/models/all.spice", "models/all.spice", "/pdk/current/../corners.lib", "../shared/models.lib", "tb/../../shared/models.lib"]
    for st in ("proc", "add", "class"):
        c.append(one(st, [x for i, w in enumerate(seeded_paths) for x in ([f"i{i}", ["include", w, "str"]], [f"l{i}", ["lib", w, "tt", "str"]])]))
    c.append(one("proc", [["i", ["include", "/pdk/current/../corners.lib", "path"]]]))
    c.append(one("add", [["l", ["lib", "tb/../../shared/models.lib", "tt", "path"]]]))
    # float values where float(number) * 10**prefix is not the nearest double (counted, not alarmed: C14)
    c.append(one("proc", [["k0", ["tran", ["pre", 3, 0, -9, "mul"], ["pre", 7, 0, -15, "pre"], "t"]]]))
    return c


def exhaustive_small():
    c = []
    num = ["pre", 25, -1, -9, "pre"]
    saves = [["mode", "ALL"], ["mode", "NONE"], ["mode", "SELECTED"], ["sig", "out"], ["sigs", ["out"]], ["sigs", ["out", "inp", "n1"]],
             ["name", "out"], ["names", []], ["names", ["a"]], ["names", ["a", "b", "c"]]]
    sweeps = [["lin", N1, num, num], ["log", N1, num, 10], ["pts", []], ["pts", [num]], ["pts", [N1, num, N11P]]]
    for st in ("proc", "add", "class"):
        for g in saves:
            c.append(one(st, [["sv", ["save", g]]]))
        for nm in ([None, "nm", ""] if st != "class" else [None]):
            ans = [["op", nm], ["tran", num, None, nm], ["tran", num, N11P, nm], ["ac", N1, num, 10, nm], ["custom", "cmd x", nm],
                   ["noise", ["conn", "out"], ["inst", "vin"], N1, num, 5, nm], ["noise", ["str", "out"], ["str", "vin"], N1, num, 5, nm],
                   ["noise", ["tuple", ["out", "inp"]], ["str", "vin"], N1, num, 5, nm],
                   ["monte", [], 3, nm], ["monte", [["op", None], ["op", None]], 3, nm]]
            ans += [["dc", v, sw, nm] for v in (["s", "x"], ["p", "par"], ["p", None]) for sw in sweeps]
            ans += [["sweep", [["op", None]], ["s", "x"], sw, nm] for sw in sweeps]
            for a in ans:
                c.append(one(st, [["an", a]]))
                c.append(one(st, [["an0", ["op", None]], ["an", a], ["an2", ["op", None]]]))
        ctr = [["include", "/home/models"], ["lib", "a/b.sp", "tt"], ["meas", ["s", "tran"], "e", "m"], ["meas", ["s", "tran"], "e", None],
               ["param", "x", num], ["param", None, num], ["param", "x", ["lit", "w/5", "lit"]], ["param", "x", ["lit", "w/5", "str"]],
               ["literal", "lit text"], ["options", "reltol", num], ["options", "flag", ["bool", True]], ["options", "flag", ["bool", False]],
               ["options", "method", ["lit", "gear", "str"]]]
        ctr += [["meas", ["an", k], "e", "m"] for k in KINDS]
        for a in ctr:
            c.append(one(st, [["ct", a]]))
        # every shape of written path x Include / Lib, both written forms (rotating with the shape and the style)
        for i, w in enumerate(PATH_SHAPES):
            fm = PATH_FORMS[(i + len(st)) % 2]
            c.append(one(st, [["inc", ["include", w, fm]]]))
            c.append(one(st, [["lb", ["lib", w, "tt", PATH_FORMS[(i + len(st) + 1) % 2]]]]))
        # every scalar form of a numeric field
        for form_num in (["pre", 5, 0, 0, "int"], ["pre", 15, -1, 0, "float"], ["pre", 1, -9, 0, "float"], ["pre", 15, -1, 0, "str"],
                         ["pre", 150, -2, 0, "dec"], ["pre", 15, -1, -9, "pre"], ["pre", 11, 0, -12, "mul"], ["pre", 1, 0, 24, "mul"]):
            c.append(one(st, [["t", ["tran", form_num, form_num, None]]]))
        # testbench shapes
        for ports, bports in (([], []), ([2], []), ([1, 1], []), ([1], []), ([], [[1]]), ([], [[1, 1]]), ([1], [[1]]), ([3], [[1]])):
            c.append(one(st, [["an", ["op", None]]], mods={"0": dict(name="TbS", ports=ports, bports=bports)}))
    return c


def malformed(r, n):
    c = []
    base = lambda: [["k0", ["op", None]], ["k1", ["tran", N1, None, None]]]
    c.append(one("proc", [["k0", ["tran", ["lit", "tstop", "lit"], None, None]]]))
    c.append(one("proc", [["k0", ["tran", N1, ["lit", "ts", "str"], None]]]))
    c.append(one("proc", [["k0", ["ac", N1, N1, -1, None]]]))
    c.append(one("proc", [["k0", ["ac", N1, N1, 2 ** 64, None]]]))
    c.append(one("proc", [["k0", ["monte", [], 2 ** 63, None]]]))
    c.append(one("proc", [["k0", ["monte", [], -2 ** 63, None]]]))
    c.append(one("proc", [["k0", ["noise", ["tuple", ["a"]], ["str", "v"], N1, N1, 1, None]]]))
    c.append(one("proc", [["k0", ["noise", ["tuple", ["a", "b", "c"]], ["str", "v"], N1, N1, 1, None]]]))
    c.append(one("proc", [["k0", ["noise", ["tuple", ["a", None]], ["str", "v"], N1, N1, 1, None]]]))
    c.append(one("proc", [["k0", ["noise", ["other"], ["str", "v"], N1, N1, 1, None]]]))
    c.append(one("proc", [["k0", ["param", "x", ["pre", 2 ** 63, 0, 0, "int"]]]]))
    c.append(one("proc", [["k0", ["param", "x", ["pre", 2 ** 63 - 1, 0, 0, "int"]]]]))
    c.append(one("proc", [["k0", ["options", "o", ["pre", 10 ** 19, 1, 3, "pre"]]]]))
    c.append(one("proc", [["k0", ["dc", ["s", "x"], ["pts", [N1, ["lit", "p", "lit"]]], None]]]))
    # distinct testbenches / modules sharing a name
    same = {"0": dict(name="TbX", ports=[1]), "1": dict(name="TbX", ports=[1])}
    c.append(dict(mods=same, sims=[dict(style="proc", tb=0, items=base()), dict(style="proc", tb=1, items=base())], as_list=True))
    deep = {"0": dict(name="TbY", ports=[1], kids=[1]), "1": dict(name="Mid", kids=[2]), "2": dict(name="TbY", kids=[])}
    c.append(dict(mods=deep, sims=[dict(style="proc", tb=0, items=base())], as_list=False))
    sib = {"0": dict(name="TbZ", ports=[1], kids=[1, 2]), "1": dict(name="L", kids=[]), "2": dict(name="L", kids=[])}
    c.append(dict(mods=sib, sims=[dict(style="proc", tb=0, items=base())], as_list=False))
    # one bad testbench among good ones
    mix = {"0": dict(name="TbG", ports=[1]), "1": dict(name="TbBad", ports=[])}
    c.append(dict(mods=mix, sims=[dict(style="proc", tb=0, items=base()), dict(style="proc", tb=1, items=base())], as_list=True))
    # @sim classes: protected names, no testbench, a testbench that is not a module
    m0 = {"0": dict(name="Tb", ports=[1])}
    for bad in ("attrs", "add", "run", "namespace"):
        c.append(dict(mods=m0, sims=[dict(style="class", tb=0, items=[["tb", ["tb", 0]], [bad, ["op", None]]])], as_list=False))
        c.append(dict(mods=m0, sims=[dict(style="class", tb=0, items=[["tb", ["tb", 0]], [bad, ["other", 3]]])], as_list=False))
    c.append(dict(mods=m0, sims=[dict(style="class", tb=0, items=[["k", ["op", None]]])], as_list=False))
    c.append(dict(mods=m0, sims=[dict(style="class", tb=0, items=[["tb", ["badtb"]], ["k", ["op", None]]])], as_list=False))
    c.append(dict(mods=m0, sims=[dict(style="class", tb=0, items=[["tb", ["tb", 0]], ["Tb", ["tb", 0]], ["k", ["op", None]]])], as_list=False))
    # random cases with Literal-valued numeric fields and odd testbenches
    for k in range(n):
        rr = core.rng(0, "C17", "malformed-gen", k) if r is None else r
        case = gen_case(rr, k, lit=0.12)
        if rr.random() < 0.4:
            tbid = rr.choice([m for m in case["mods"] if int(m) < 100])
            case["mods"][tbid]["ports"] = rr.choice([[], [2], [1, 1], [1, 4]])
            case["mods"][tbid].pop("bports", None)
        c.append(case)
    return c


# ------------------------------------------------------------------------------------------------
# float fields: positions, the dedicated midpoint stream, coverage targets
# ------------------------------------------------------------------------------------------------
SWEEP_FIELDS = ["lin.start", "lin.stop", "lin.step", "log.start", "log.stop", "pts.point"]
FLOAT_FIELDS = (["tran.tstop", "tran.tstep", "ac.fstart", "ac.fstop", "noise.fstart", "noise.fstop"]
                + ["dc." + f for f in SWEEP_FIELDS] + ["sweep." + f for f in SWEEP_FIELDS])


def sweep_fields(s, owner):
    if s[0] == "lin":
        return [(f"{owner}.lin.start", s[1]), (f"{owner}.lin.stop", s[2]), (f"{owner}.lin.step", s[3])]
    if s[0] == "log":
        return [(f"{owner}.log.start", s[1]), (f"{owner}.log.stop", s[2])]
    return [(f"{owner}.pts.point", x) for x in s[1]]


def float_fields(a, depth=0):
    """(field label, nesting depth, numeric description) of every float field of an analysis description"""
    t = a[0]
    if t == "tran":
        return [("tran.tstop", depth, a[1])] + ([("tran.tstep", depth, a[2])] if a[2] is not None else [])
    if t == "ac":
        return [("ac.fstart", depth, a[1]), ("ac.fstop", depth, a[2])]
    if t == "noise":
        return [("noise.fstart", depth, a[3]), ("noise.fstop", depth, a[4])]
    if t == "dc":
        return [(l, depth, x) for l, x in sweep_fields(a[2], "dc")]
    if t == "sweep":
        return [(l, depth, x) for l, x in sweep_fields(a[3], "sweep")] + [y for x in a[1] for y in float_fields(x, depth + 1)]
    if t == "monte":
        return [y for x in a[1] for y in float_fields(x, depth + 1)]
    return []


def place(field, x):
    """an analysis description that carries the number x in the float field `field`"""
    own, _, sub = field.partition(".")
    if own in ("dc", "sweep"):
        sw = {"lin.start": ["lin", x, N1, N1], "lin.stop": ["lin", N1, x, N1], "lin.step": ["lin", N1, N11P, x],
              "log.start": ["log", x, N1, 10], "log.stop": ["log", N1, x, 10], "pts.point": ["pts", [N1, x, N11P]]}[sub]
        return ["dc", ["s", "x"], sw, None] if own == "dc" else ["sweep", [["op", None]], ["s", "x"], sw, None]
    return {"tran.tstop": ["tran", x, None, None], "tran.tstep": ["tran", N1, x, None],
            "ac.fstart": ["ac", x, N1, 10, None], "ac.fstop": ["ac", N1, x, 10, None],
            "noise.fstart": ["noise", ["conn", "out"], ["inst", "vin"], x, N1, 5, None],
            "noise.fstop": ["noise", ["str", "out"], ["str", "vin"], N1, x, 5, None]}[field]


def nest(a, ctx):
    for c in reversed(ctx):
        a = ["sweep", [["op", None], a], ["s", "y"], ["pts", [N1]], None] if c == "s" else ["monte", [a, ["op", "last"]], 3, None]
    return a


def midpoint_cases(seed):
    """every float field x nesting context x side of the midpoint, the value in rotating forms / prefixes; then every
    prefix x prefixed form x side on one field; then whole Sims in which every float field carries such a value"""
    c, i = [], 0
    styles = ["proc", "add", "class"]
    for field in FLOAT_FIELDS:
        for ctx in ("", "s", "m", "ms", "sm"):
            for side in (1, -1):
                for rep in range(2):
                    r = core.rng(seed, "C17", "midpoint", i)
                    form = MID_FORMS[i % len(MID_FORMS)]
                    x = gen_mid(r, forms=[form], side=side)
                    c.append(one(styles[i % 3], [["an", nest(place(field, x), ctx)]]))
                    i += 1
    for pe in PREFIXES:
        for form in ("pre", "dmul", "smul"):
            for side in (1, -1):
                r = core.rng(seed, "C17", "midpoint", i)
                x = gen_mid(r, forms=[form], pe=pe, side=side)
                c.append(one(styles[i % 3], [["an", place(FLOAT_FIELDS[i % len(FLOAT_FIELDS)], x)]]))
                i += 1
    # the ends of the range: beside the overflow threshold (midpoint of the largest double and 2^1024), beside the midpoints
    # of the smallest subnormals (0 | 2^-1074 | 2^-1073), at the subnormal / normal border, far beyond both ends
    j = 0
    for M, E in [(2 ** 53 - 1, 971), (0, -1074), (1, -1074), (2 ** 52 - 1, -1074), (2 ** 52, -1074)]:
        for side in (1, -1):
            form, pe = [("pre", 24 if E > 0 else -24), ("dec", 0), ("str", 0), ("dmul", 3 if E > 0 else -3)][j % 4]
            x = mid_num(M, E, side, [29, 33, 40][j % 3], pe, form, neg=(j % 5 == 4))
            c.append(one(styles[j % 3], [["an", place(FLOAT_FIELDS[j % len(FLOAT_FIELDS)], x)]]))
            j += 1
    for x in (["pre", 1, 400, 0, "dec"], ["pre", -1, 400, 0, "str"], ["pre", 1, -400, 0, "dec"], ["pre", 17, 300, 9, "pre"], ["pre", 3, -330, -15, "dmul"]):
        c.append(one(styles[j % 3], [["an", place(FLOAT_FIELDS[j % len(FLOAT_FIELDS)], x)]]))
        j += 1
    for j, form in enumerate(MID_FORMS * 2):          # the same many-digit values as Param / Options values (exact decimals)
        r = core.rng(seed, "C17", "midpoint-param", j)
        x = gen_mid(r, forms=[form])
        c.append(one(styles[j % 3], [["p", ["param", "x", x]]] if j % 2 else [["o", ["options", "reltol", x]]]))
    for j in range(24):
        r = core.rng(seed, "C17", "midpoint-all", j)
        g = lambda: gen_mid(r, forms=MID_FORMS)
        items = [["t", ["tran", g(), g(), None]], ["a", ["ac", g(), g(), 10, None]],
                 ["n", ["noise", ["conn", "out"], ["inst", "vin"], g(), g(), 5, None]],
                 ["d", ["dc", ["s", "x"], ["lin", g(), g(), g()], None]],
                 ["s", ["sweep", [["tran", g(), g(), None], ["monte", [["dc", ["s", "y"], ["pts", [g(), g()]], None]], 2, None]],
                        ["s", "x"], ["log", g(), g(), 7], None]],
                 ["p", ["param", "x", g()]], ["o", ["options", "reltol", g()]]]
        c.append(one(styles[j % 3], items))
    return c


class Cover:
    """second-rounding coverage of the float fields that were really exported and compared (accepted calls only)"""

    def __init__(self):
        self.field = {f"{f}@{d}:{sd}": 0 for f in FLOAT_FIELDS for d in ("top", "nested") for sd in ("above", "below")}
        self.form = {f: 0 for f in MID_FORMS}
        self.prefix = {str(p): 0 for p in PREFIXES}
        self.dr28 = 0
        self.ends = dict(overflow=0, subnormal=0, underflow=0)
        self.near = 0
        self.long = 0
        self.fields = 0
        self._memo = {}

    def props(self, n):
        k = json.dumps(n[:4])
        if k not in self._memo:
            self._memo[k] = second_rounding(n)
        return self._memo[k]

    def add(self, cases, outs):
        for case, o in zip(cases, outs):
            if o["out"] is None:
                continue
            for s in case["sims"]:
                for _, a in s["items"]:
                    if a[0] not in ANALYSES:
                        continue
                    for label, depth, n in float_fields(a):
                        if n[0] != "pre":
                            continue
                        self.fields += 1
                        pr = self.props(n)
                        self.long += pr["digits"] > 28
                        if pr["end"]:
                            self.ends[pr["end"]] += 1
                        if pr["digits"] > 28 and pr["near"]:
                            self.near += 1
                            self.dr28 += pr["dr28"]
                            self.field[f"{label}@{'top' if depth == 0 else 'nested'}:{pr['near']}"] += 1
                            if len(n) > 4 and n[4] in self.form:
                                self.form[n[4]] += 1
                            self.prefix[str(n[3])] += 1

    def targets(self):
        t = dict(self.field)
        t.update({f"form:{k}": v for k, v in self.form.items()})
        t.update({f"prefix:{k}": v for k, v in self.prefix.items()})
        t["dr28-sensitive-fields"] = self.dr28
        t.update({f"range-end:{k}": v for k, v in self.ends.items()})
        return t


class PathCover:
    """which written path texts were really exported and compared (Include / Lib controls of accepted calls)"""

    def __init__(self):
        self.feat = {f"{k}:{f}": 0 for k in ("include", "lib") for f in PATH_FEATURES}
        self.struck = {f"normpath-differs:{st}:{fm}": 0 for st in ("proc", "add", "class") for fm in PATH_FORMS}
        self.paths = 0
        self.distinct = set()

    def add(self, cases, outs):
        for case, o in zip(cases, outs):
            if o["out"] is None:
                continue
            for s in case["sims"]:
                for _, a in s["items"]:
                    if a[0] not in ("include", "lib"):
                        continue
                    self.paths += 1
                    self.distinct.add(a[1])
                    fs = path_props(a[1])
                    for f in fs:
                        self.feat[f"{a[0]}:{f}"] += 1
                    if "normpath-differs" in fs:
                        self.struck[f"normpath-differs:{s['style']}:{path_form(a)}"] += 1

    def targets(self):
        return {**{"path:" + k: v for k, v in self.feat.items()}, **{"path:" + k: v for k, v in self.struck.items()}}


def path_form(a):
    n = 3 if a[0] == "include" else 4
    return a[n - 1] if len(a) >= n else "str"


# ------------------------------------------------------------------------------------------------
# sizes, classification
# ------------------------------------------------------------------------------------------------
def n_attrs(a):
    if a[0] in ("sweep", "monte"):
        return 1 + sum(n_attrs(x) for x in a[1] if x[0] != "ref") + sum(1 for x in a[1] if x[0] == "ref")
    return 1


def case_size(case):
    return (sum(n_attrs(a) for s in case["sims"] for _, a in s["items"] if a[0] not in ("tb", "other", "simname", "badtb")),
            len(case["sims"]), len(json.dumps(case)))


def nontrivial(case):
    sz = case_size(case)
    deep = any(a[0] in ("sweep", "monte") and a[1] for s in case["sims"] for _, a in s["items"])
    return sz[0] >= 3 or deep or len(case["sims"]) > 1


def canon(case):
    return json.dumps(case, sort_keys=True, separators=(",", ":"))


def eval_stream(run, name, cases, chunk=150):
    outs = core.run_worker_sharded("c17", cases, common=dict(kind="case"))
    strs = [c_case(c, o) for c, o in zip(cases, outs)]
    fname = name.replace("-", "_")
    # one pass per case file: code = chk_main + 4 * chk_round (parsing the cases dominates); chunks sized to occupy all workers
    chunk = min(chunk, max(20, -(-len(strs) // (2 * core.NPROC))))
    both = core.coq_eval_cases("C17", fname, IMPORTS, "main_case", strs, "run_cases chk_both", chunk=chunk)
    bad = [(i, c % 4) for i, c in both if c % 4]
    rnd = [(i, c // 4) for i, c in both if c // 4]
    return outs, bad, rnd


def report(run, stream, bad, cases, outs):
    v1 = sorted([i for i, c in bad if c == 1], key=lambda i: case_size(cases[i]))
    v2 = sorted([i for i, c in bad if c not in (0, 1)], key=lambda i: case_size(cases[i]))
    seen = set()
    n = 0
    for i in v1:
        o = outs[i]
        sig = json.dumps([o["read_err"] and o["read_err"].get("cls"), o["out_err"] and o["out_err"].get("cls"),
                          sorted({a[0] for s in cases[i]["sims"] for _, a in s["items"]})][:3])
        if sig in seen:
            continue
        seen.add(sig)
        n += 1
        if n > 6:
            break
        run.violation(f"C17:{canon(cases[i])}",
                      f"exported SimInput is not a complete and faithful image of the Sim (stream {stream}): "
                      f"{json.dumps(dict(read_err=o['read_err'], out_err=o['out_err'], out=o['out']))[:400]}",
                      dict(kind="impl-violates-spec", stream=stream, case=cases[i], impl=o, failing_cases=len(v1),
                           reproducer="harness/impl/c17.py do_case(case): build the Sims as described (style proc/add/class), hdl21.sim.to_proto, compare"))
    if v2 and not v1:
        i = v2[0]
        run.violation(f"C17:{stream}:tie", f"model and implementation differ on {canon(cases[i])[:300]} (property holds on every explored input)",
                      dict(kind="correspondence-broken", stream=stream, case=cases[i], impl=outs[i], disagreeing_cases=len(v2),
                           theorem="C17 correspondence stream " + stream), found_input=False)


def stream_stats(cases, outs):
    acc = sum(1 for o in outs if o["out"] is not None)
    styles = {}
    for c in cases:
        for s in c["sims"]:
            styles[s["style"]] = styles.get(s["style"], 0) + 1
    return dict(accepted=acc, rejected=len(cases) - acc,
                rejected_fraction=round((len(cases) - acc) / max(1, len(cases)), 4),
                construction_rejected=sum(1 for o in outs if o["read"] is None),
                sims_by_style=styles,
                multi_sim_calls=sum(1 for c in cases if len(c["sims"]) > 1),
                nested_depth2=sum(1 for c in cases if any(a[0] in ("sweep", "monte") and any(x[0] in ("sweep", "monte") for x in a[1])
                                                          for s in c["sims"] for _, a in s["items"])),
                float_fields=sum(len(o["ftab"]) for o in outs))


RULE = "non-trivial = at least 3 attributes (nested ones counted), or a non-empty sweep/Monte-Carlo nesting, or several Sims in one call; distinct by case description"


def run(run, tier, seed, replay=None):
    quick = tier == "quick"
    total_round = 0
    py_round = 0
    all_cases = 0

    cover = Cover()
    pcover = PathCover()

    def do(name, cases, **extra):
        nonlocal total_round, py_round, all_cases
        t0 = time.time()
        outs, bad, rnd = eval_stream(run, name, cases)
        extra["wall_s"] = round(time.time() - t0, 1)
        cover.add(cases, outs)
        pcover.add(cases, outs)
        coq_cnt = sum(c for _, c in rnd)
        py_cnt = sum(1 for o in outs for e in o["ftab"] if not e[3])
        total_round += coq_cnt
        py_round += py_cnt
        all_cases += len(cases)
        run.stream(name, len(cases), len({canon(c) for c in cases if nontrivial(c)}), rule=RULE,
                   float_double_rounding_cases=coq_cnt, **stream_stats(cases, outs), **extra)
        report(run, name, bad, cases, outs)
        if coq_cnt != py_cnt:
            run.violation("C17:spec-validation:nearest", f"nearest_double (Coq) and fractions.Fraction (CPython) count {coq_cnt} vs {py_cnt} "
                          f"non-nearest float fields in stream {name}", dict(kind="spec-validation", stream=name), found_input=False)
        return outs

    def do_fpath(name, nums):
        t0 = time.time()
        fouts = core.run_worker_sharded("c17", nums, common=dict(kind="fpath"))
        fstrs = []
        for n, o in zip(nums, fouts):
            rd, dc = o["read"], o["dec"]
            if Fraction(rd[0]) * Fraction(10) ** (rd[1] + rd[2]) != Fraction(n[1]) * Fraction(10) ** (n[2] + n[3]):
                raise RuntimeError(f"harness: {n} was built as {rd}")
            fstrs.append(f"({cz(rd[0])}, {cz(rd[1])}, {cz(rd[2])}, ({cbool(dc[0])}, {cz(dc[1])}, {cz(dc[2])}), {copt(o['out'], c_dbl)})")
        both = core.coq_eval_cases("C17", name.replace("-", "_"), IMPORTS, "fpath_case", fstrs, "run_cases chk_fpath_both",
                                   chunk=max(50, -(-len(fstrs) // (2 * core.NPROC))))
        fbad = sorted([(i, c % 4) for i, c in both if c % 4], key=lambda t: (len(json.dumps(nums[t[0]])), t[0]))
        props = [second_rounding(n) for n in nums]
        run.stream(name, len(nums), len({json.dumps(n[:4]) for n in nums if n[1] != 0}),
                   rule="hdl21.sim.proto.export_float on one Prefixed: the Decimal handed to float() digit for digit against the model, the double "
                        "against nearest_double; non-trivial = non-zero; distinct by (number, prefix)",
                   over_28_digits=sum(1 for p_ in props if p_["digits"] > 28),
                   beside_midpoint_over_28_digits=sum(1 for p_ in props if p_["digits"] > 28 and p_["near"]),
                   changed_by_a_28_digit_detour=sum(1 for p_ in props if p_["dr28"]),
                   results_matching_a_28_digit_detour=sum(1 for _, c in both if c // 4), wall_s=round(time.time() - t0, 1))
        v1 = [i for i, c in fbad if c == 1]
        if v1:
            i = v1[0]
            run.violation(f"C17:export_float:{json.dumps(nums[i])}",
                          f"export_float({json.dumps(nums[i])}) = {fouts[i]['out']} is not the double nearest to the prefixed value "
                          f"({len(v1)} such values; {sum(1 for _, c in both if c // 4)} results are what a 28-digit decimal context gives)",
                          dict(kind="impl-violates-spec", stream="float-path", num=nums[i], impl=fouts[i], failing_cases=len(v1),
                               reproducer="harness/impl/c17.py do_fpath(num): hdl21.sim.proto.export_float(Prefixed)"))
        elif fbad:
            i = fbad[0][0]
            run.violation("C17:float-path:tie", f"model of Prefixed.__float__ / export_float and implementation differ on {json.dumps(nums[i])}: {fouts[i]}",
                          dict(kind="correspondence-broken", stream="float-path", num=nums[i], impl=fouts[i], disagreeing_cases=len(fbad),
                               theorem="C17_export_float_one_rounding"), found_input=False)
        run.sample(dict(stream=name, case=nums[0], impl=fouts[0]))

    if replay is not None and replay.get("num"):
        do_fpath("replay", [replay["num"]])
        return
    if replay is not None and replay.get("case"):
        outs = do("replay", [replay["case"]])
        run.sample(dict(stream="replay", case=replay["case"], impl=outs[0]))
        return

    # ---------------------------------------------------------------- spec validation: nearest double, generated names
    r = core.rng(seed, "C17", "near")
    n_near = 1500 if quick else 20000
    jobs = [[0, 0], [1, 0], [-1, 0], [1, -400], [-1, -400], [1, 400], [-1, 400], [5, -324], [25, -325], [24703282292062327, -340],
            [2 ** 53 + 1, 0], [2 ** 54 + 2, 0], [2 ** 54 + 6, 0], [17976931348623157, 292], [17976931348623158, 292], [17976931348623159, 292],
            [179769313486231580793, 288], [22250738585072014, -324], [22250738585072011, -324], [3, -9], [7, -15], [1, 23], [9007199254740993, 0]]
    for f in FLOATS:
        m, e = dec_me(Decimal(repr(f)))
        jobs.append([m, e])
    # many-digit decimals just beside a midpoint (the values of the midpoint stream), incl. subnormal neighbours
    for M, E in [(2 ** 52, -52), (2 ** 53 - 1, -53), (1, -1074), (2 ** 52 - 1, -1074), (2 ** 52, -1074), (2 ** 53 - 1, 970), (2 ** 53 - 2, 971)]:
        for side in (1, -1):
            jobs.append(list(near_mid(M, E, side, 40)))
    for k in range(60 if quick else 1500):
        rr = core.rng(seed, "C17", "near-mid", k)
        M, E = gen_ME(rr)
        m, e = near_mid(M, E, rr.choice([1, -1]), rr.choice(MID_K))
        jobs.append([-m if rr.random() < 0.2 else m, e])
    while len(jobs) < n_near:
        u = r.random()
        if u < 0.4:
            jobs.append([r.randint(-10 ** r.choice([1, 5, 17, 25]), 10 ** r.choice([1, 5, 17, 25])), r.randint(-30, 30)])
        elif u < 0.6:
            jobs.append([r.randint(1, 10 ** 20), r.randint(-345, 310)])
        elif u < 0.8:       # exact midpoints between neighbouring doubles and their immediate surroundings
            M, E = r.randint(2 ** 52, 2 ** 53 - 1), r.randint(-60, 60)
            num = (2 * M + 1) * 5 ** max(0, 1 - E) * 2 ** max(0, E - 1)
            jobs.append([num + r.choice([0, 0, 1, -1]), min(0, E - 1)])
        else:
            f = r.choice(FLOATS) * r.choice([1, 3, 7, 0.1])
            if f in (math.inf, -math.inf):
                f = 1.25
            m, e = dec_me(Decimal(repr(f)))
            jobs.append([m, e - r.choice([0, 9, 12])])
    near_out = core.run_worker_sharded("c17", jobs, common=dict(kind="near"))
    ncases, nkeys = [], []
    for j, o in zip(jobs, near_out):
        for d, exp in o:
            ncases.append(f"({cz(j[0])}, {cz(j[1])}, {c_dbl(d)}, {cbool(exp)})")
            nkeys.append((j, d, exp))
    bad = core.coq_eval_cases("C17", "near", IMPORTS, "near_case", ncases, "run_cases chk_near", chunk=1500)
    run.stream("spec-nearest-double-vs-cpython", len(ncases), len({json.dumps(k[0]) for k in nkeys if k[0][0] != 0}),
               rule="decimal m*10^e against the correctly rounded double (int/int division of fractions.Fraction) and its two neighbours; non-trivial = m != 0",
               decimals=len(jobs), midpoints=sum(1 for j in jobs if j[1] <= 0 and j[0] % 2 == 1 and abs(j[0]) > 2 ** 52),
               beside_midpoint_over_28_digits=sum(1 for j in jobs if (lambda p: p["digits"] > 28 and p["near"] is not None)(second_rounding(["pre", j[0], j[1], 0]))))
    for i, code in bad[:1]:
        run.violation("C17:spec-validation:near", f"nearest_double disagrees with CPython on {nkeys[i]}",
                      dict(kind="spec-validation", stream="near", case=list(nkeys[i])), found_input=False)
    run.sample(dict(stream="near", case=jobs[30], oracle=near_out[30]))
    ks = list(range(0, 120)) + [10 ** k for k in range(3, 12)] + [r.randint(0, 10 ** 9) for _ in range(50)]
    an_out = core.run_worker("c17", dict(kind="autoname", jobs=ks))["results"]
    bad = core.coq_eval_cases("C17", "autoname", IMPORTS, "N * string", [f"({k}%N, {cstr(s)})" for k, s in zip(ks, an_out)],
                              "run_cases chk_autoname", chunk=400)
    run.stream("spec-autoname-vs-cpython", len(ks), len(set(ks)), rule="auto_name n against f\"<live prefix>{n}\" (the prefix the live exporter gives unnamed analyses); all distinct n")
    for i, code in bad[:1]:
        run.violation("C17:spec-validation:autoname", f"auto_name disagrees with CPython on {ks[i]}",
                      dict(kind="spec-validation", stream="autoname", case=ks[i]), found_input=False)

    # ---------------------------------------------------------------- spec validation: the text of a path (pathlib), normpath
    ws = list(PATH_SHAPES) + [gen_path(core.rng(seed, "C17", "spec-path", k)) for k in range(400 if quick else 6000)]
    ws = sorted(set(ws), key=lambda w: (len(w), w))
    p_out = core.run_worker("c17", dict(kind="path", jobs=ws))["results"]
    for w, o in zip(ws, p_out):
        if o[0] != o[1] or o[0] != str(PurePosixPath(w)):
            raise RuntimeError(f"harness: pathlib.Path and PurePosixPath disagree on {w!r}: {o}")
    bad = core.coq_eval_cases("C17", "pathtext", IMPORTS, "path_case", [f"({cstr(w)}, {cstr(o[0])}, {cstr(o[2])})" for w, o in zip(ws, p_out)],
                              "run_cases chk_path", chunk=400)
    run.stream("spec-path-vs-cpython", len(ws), len({w for w in ws if path_props(w) & {"normpath-differs", "text-differs-from-written"}}),
               rule="path_str w against str(pathlib.Path(w)) in the interpreter of the tree under test, normpath w against os.path.normpath(w), "
                    "and the predicate `strikes` against their difference; non-trivial = the text of the path differs from the written "
                    "text or normpath strikes a segment out; distinct by text",
               normpath_differs=sum(1 for w in ws if "normpath-differs" in path_props(w)),
               text_differs_from_written=sum(1 for w in ws if "text-differs-from-written" in path_props(w)))
    for i, code in bad[:1]:
        run.violation("C17:spec-validation:path", f"path_str / normpath (Coq) disagree with pathlib / os.path on {ws[i]!r}: {p_out[i]}",
                      dict(kind="spec-validation", stream="pathtext", case=ws[i], oracle=p_out[i]), found_input=False)
    run.sample(dict(stream="spec-path-vs-cpython", case=ws[len(ws) // 2], oracle=p_out[len(ws) // 2]))

    # ---------------------------------------------------------------- corpus
    cs = corpus()
    outs = do("corpus", cs)
    run.sample(dict(stream="corpus", case=cs[0], impl=outs[0]))
    # ---------------------------------------------------------------- exhaustive small
    cs = exhaustive_small()
    outs = do("exhaustive-small", cs, exhaustive=True,
              box="every SaveTarget form, analysis kind x sweep kind x naming, control kind, scalar form, testbench shape; each in the 3 construction styles")
    run.sample(dict(stream="exhaustive-small", case=cs[5], impl=outs[5]))
    # ---------------------------------------------------------------- float fields beside a midpoint (second roundings)
    cs = midpoint_cases(seed)
    if not quick:
        cs += [c for k in range(1, 6) for c in midpoint_cases(seed * 1000 + 500 + k)]
    outs = do("float-midpoints", cs,
              box="each of the 18 float fields x nesting context (top, in sweep, in Monte-Carlo, both orders) x side of the midpoint, "
                  "Scalar forms rotating; each prefix x prefixed form x side; whole Sims with such a value in every float field")
    run.sample(dict(stream="float-midpoints", case=cs[0], impl=outs[0]))
    # ---------------------------------------------------------------- the float path itself: export_float on single Prefixed values
    nums, seen = [], set()
    for c in cs + corpus() + exhaustive_small():
        for s_ in c["sims"]:
            for _, a in s_["items"]:
                if a[0] in ANALYSES:
                    for _, _, n in float_fields(a):
                        k = json.dumps(n)
                        if n[0] == "pre" and k not in seen:
                            seen.add(k)
                            nums.append(n)
    for k in range(300 if quick else 6000):
        nums.append(gen_num(core.rng(seed, "C17", "fpath", k)))
    do_fpath("float-path", nums)
    # ---------------------------------------------------------------- structured random (valid inputs)
    n_rand = 700 if quick else 16000
    cs = [gen_case(core.rng(seed, "C17", "random", k), k) for k in range(n_rand)]
    outs = do("random-valid", cs)
    run.sample(dict(stream="random-valid", case=cs[1], impl=outs[1]))
    run.sample(dict(stream="random-valid", case=cs[2], impl=outs[2]))
    # ---------------------------------------------------------------- malformed
    n_mal = 150 if quick else 3000
    cs = malformed(None, 0) + [c for k in range(n_mal) for c in [mal_case(seed, k)]]
    outs = do("malformed", cs)
    run.sample(dict(stream="malformed", case=cs[0], impl=outs[0]))
    run.coverage["traces_validated_against_impl"] = all_cases
    # ---------------------------------------------------------------- coverage targets of the strengthening round (fail closed)
    tg = cover.targets()
    run.coverage["second_rounding_targets"] = tg
    run.coverage["second_rounding_summary"] = dict(
        float_fields_compared=cover.fields, over_28_digits=cover.long, beside_midpoint_over_28_digits=cover.near,
        of_these_changed_by_a_28_digit_detour=cover.dr28,
        rule="a float field of an accepted call whose Scalar has more than 28 significant digits and lies within 1e-28 (relative) of the "
             "midpoint of two neighbouring doubles; counted per field x (top / nested) x side of the midpoint, per Scalar form, per prefix")
    for t, cnt in tg.items():
        if cnt == 0:
            run.violation(f"C17:coverage:{t}", f"generator coverage target missed: no exported float field beside a midpoint for {t}",
                          dict(kind="coverage"), found_input=False)
    ptg = pcover.targets()
    run.coverage["path_targets"] = ptg
    run.coverage["path_summary"] = dict(
        include_lib_paths_compared=pcover.paths, distinct_written_texts=len(pcover.distinct),
        changed_by_normpath=sum(pcover.struck.values()),
        rule="Include / Lib controls of accepted calls; per control kind x feature of the written text (kind of root, `..` after a named "
             "segment / leading / below the root / after `..`, `.` segments, doubled and trailing slashes, `~`, `$`, upper case, blanks, "
             "dots in names); texts that os.path.normpath would change per construction style x written form (str / pathlib.Path)")
    for t, cnt in ptg.items():
        if cnt == 0:
            run.violation(f"C17:coverage:{t}", f"generator coverage target missed: no exported Include / Lib path for {t}",
                          dict(kind="coverage"), found_input=False)
    run.coverage["float_double_rounding_cases"] = total_round
    run.coverage["float_double_rounding_note"] = ("number of float() results of the tree under test (per case, distinct values) that are not the double "
                                                  "nearest to the exact decimal; a float field carrying such a value is a violation of the property")


def mal_case(seed, k):
    rr = core.rng(seed, "C17", "malformed", k)
    case = gen_case(rr, k, lit=0.12)
    if rr.random() < 0.4:
        tbid = rr.choice([m for m in case["mods"] if int(m) < 100])
        case["mods"][tbid]["ports"] = rr.choice([[], [2], [1, 1], [1, 4]])
        case["mods"][tbid].pop("bports", None)
    if rr.random() < 0.1 and len([m for m in case["mods"] if int(m) < 100]) > 1:
        case["mods"]["1"]["name"] = case["mods"]["0"]["name"]
    return case
