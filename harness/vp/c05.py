"""C05 — names invented during elaboration never capture the designer's names (DESIGN.md 6.8).

Streams (in this order):
  corpus      pinned-tree witnesses (named no-connect beside a signal of that name, two no-connects of one name, no-connect
              on an array port) and the bundle-port / flattened-port name clash
  flatname    ElabPass.flatname called directly: model (Model/BundleFlat.v:flatname) = implementation, result never in `avoid`
  adversarial designs of harness/vp/design.py:gen_design re-issued with designer signals / ports / instances / no-connect
              names set to the names the elaborator would invent (inst_port, array_k, also with 1-2 trailing underscores),
              in both declaration orders
  structured  designs with bundle instances, bundle ports, nested bundles, references to / no-connects on bundle ports,
              instance arrays and h.Pair, renamed adversarially in the same way (bundle_member, pair_p, inst_port_member)
Every design is one Coq case (Corr/C05.v:chk_c05): the written design (bundles desugared into dotted member names, which no
invented name can equal), the exported package, the naming trace of the elaboration and the designer names that must survive.
"""
import json, copy
from . import core, design as D
from .core import cstr, clist, cz, cbool

IMPORTS = ("From Coq Require Import String.\n"
           "Require Import Hdl21.Spec.BundleSpec Hdl21.Model.BundleFlat Hdl21.Model.C05Naming.\n"
           "Require Import Hdl21.Base.PyInt Hdl21.Spec.PySlice Hdl21.Model.Slice Hdl21.Model.Resolve Hdl21.Base.Design "
           "Hdl21.Spec.Nets Hdl21.Spec.WfDesign Hdl21.Base.Package Hdl21.Corr.C03 Hdl21.Corr.C01 Hdl21.Corr.C05.\n"
           "Open Scope string_scope.")
MAX_TERMINALS = 120
KINDS = ["portref", "noconn_named", "noconn_unnamed", "noconn_member", "bundle", "array", "pair"]
# further coverage targets measured from the trace (see stats()):
#   pending_pair   an instance-bundle member whose plain name is the name of an Instance Bundle still waiting in module.instbundles
#   pending_any    any insertion whose plain name is the name of an object still waiting in instarrays / instbundles / bundles
#   uppercase      a collision provoked on a plain name that contains an upper-case letter
EXTRA = ["pending_pair", "pending_any", "uppercase"]


# ------------------------------------------------------------------------------------------------ bundles
def bpaths(design, k):
    """[(path, width)] of the scalar members of bundle definition k, scalar members first (flatten order)."""
    if k == "diff":
        return [(["p"], 1), (["n"], 1)]
    bd = design["bdefs"][k]
    out = [([n], w) for n, w in bd["sigs"]]
    for n, k2 in bd.get("subs", []):
        out += [([n] + p, w) for p, w in bpaths(design, k2)]
    return out


def sname(b, path):
    return b + "." + ".".join(path)


def bports(design, of):
    if of[0] != "mod":
        return {}
    return {b: k for b, k, port in design["mods"][of[1]].get("bundles", []) if port}


def all_port_names(design, of):
    """scalar port names and bundle port names of an instance target"""
    if of[0] == "mod":
        md = design["mods"][of[1]]
        return [p[0] for p in md["ports"]] + [b for b, k, port in md.get("bundles", []) if port]
    return [n for n, _ in D.target_ports(design, of)]


def desugar(design):
    """Extended design -> plain design of harness/vp/design.py (the MEANING of bundles: member-wise connection)."""
    mods = []
    plain = dict(mods=mods, exts=design.get("exts", []), top=design["top"])

    def dz(e):
        t = e[0]
        if t == "bmem":
            return ["sig", sname(e[1], e[2])]
        if t == "sl":
            return ["sl", dz(e[1]), e[2]]
        if t == "cat":
            return ["cat", [dz(p) for p in e[1]]]
        if t == "nc":
            return ["nc", e[1] * 64, e[2]]
        return e

    for md in design["mods"]:
        ports = [list(p) for p in md["ports"]]
        sigs = [list(s) for s in md["sigs"]]
        for b, k, port in md.get("bundles", []):
            for p, w in bpaths(design, k):
                (ports if port else sigs).append([sname(b, p), w] + (["inout"] if port else []))
        insts = []
        for x in md["insts"]:
            bp = bports(design, x["of"])
            if x.get("pair"):
                for m in ("p", "n"):
                    conns = []
                    for port, e in x["conns"]:
                        conns.append([port, ["sig", sname(e[1], [m])] if e[0] == "bun" else dz(e)])
                    insts.append(dict(name=x["name"] + "." + m, n=0, of=x["of"], conns=conns))
                continue
            conns = []
            for port, e in x["conns"]:
                if port in bp:
                    for j, (p, w) in enumerate(bpaths(design, bp[port])):
                        if e[0] == "bun":
                            conns.append([sname(port, p), ["sig", sname(e[1], p)]])
                        elif e[0] == "nc":
                            conns.append([sname(port, p), ["nc", e[1] * 64 + 1 + j, None]])
                        elif e[0] == "bref":
                            conns.append([sname(port, p), ["ref", e[1], sname(e[2], p)]])
                        else:
                            raise ValueError(e)
                else:
                    conns.append([port, dz(e)])
            insts.append(dict(name=x["name"], n=x["n"], of=x["of"], conns=conns))
        mods.append(dict(name=md["name"], ports=ports, sigs=sigs, insts=insts))
    return plain


def reachable(design):
    seen, todo = set(), [design["top"]]
    while todo:
        k = todo.pop()
        if k in seen:
            continue
        seen.add(k)
        for x in design["mods"][k]["insts"]:
            if x["of"][0] == "mod":
                todo.append(x["of"][1])
    return sorted(seen)


def terminals(plain, pname):
    """(spec terminals, package terminals) in corresponding order; pname(module, spec instance, element, is_array) -> package name"""
    spec, pkg = [], []
    top = plain["mods"][plain["top"]]
    for n, w, _ in top["ports"]:
        for k in range(w):
            spec.append(["sig", [], n, k])
            pkg.append(["sig", [], n, k])

    def walk(md, sp, pp):
        for x in md["insts"]:
            for e in (range(x["n"]) if x["n"] > 0 else [0]):
                pn = pname(md["name"], x["name"], e, x["n"] > 0)
                if x["of"][0] == "mod":
                    walk(plain["mods"][x["of"][1]], [[x["name"], e]] + sp, [[pn, 0]] + pp)
                else:
                    for port, w in D.target_ports(plain, x["of"]):
                        for k in range(w):
                            spec.append(["port", sp, x["name"], e, port, k])
                            pkg.append(["port", pp, pn, 0, port, k])
    walk(top, [], [])
    return spec, pkg


# ------------------------------------------------------------------------------------------------ trace -> events
def c_site(s):
    k = s[0]
    if k == "portref":
        return f"(SPortRef {cstr(s[1])} {cstr(s[2])})"
    if k == "noconn":
        return f"(SNoConn {'None' if s[1] is None else '(Some ' + cstr(s[1]) + ')'} {cstr(s[2])} {cstr(s[3])})"
    if k == "noconn_member":
        return f"(SNoConnMember {'None' if s[1] is None else '(Some ' + cstr(s[1]) + ')'} {cstr(s[2])} {cstr(s[3])} {clist(s[4], cstr)})"
    if k == "bundle":
        return f"(SFlatMember {cstr(s[1])} {cstr(s[2])})"
    if k == "array":
        return f"(SArrayElem {cstr(s[1])} {s[2]}%N)"
    if k == "pair":
        return f"(SPairMember {cstr(s[1])} {cstr(s[2])})"
    raise ValueError(s)


def events_of(out):
    """[(module, site, event, class)] from the implementation's trace"""
    evs = []
    for t in out.get("trace") or []:
        kind = t.get("kind")
        for e in t["events"]:
            fl = e.get("flat")
            segs = fl["segs"] if fl else []
            if kind == "portref":
                site, cls = ["portref", t["inst"], t["port"]], "portref"
            elif kind == "noconn":
                site, cls = ["noconn", t["ncname"], t["inst"], t["port"]], ("noconn_unnamed" if t["ncname"] is None else "noconn_named")
                if len(segs) > 1:      # noconn_array_bundle: a no-connect on a bundle-valued port of an instance array, one signal per member
                    site, cls = ["noconn_member", t["ncname"], t["inst"], t["port"], segs[1:]], "noconn_member"
            elif kind == "bundle":
                site, cls = ["bundle", t["bundle"], "_".join(segs[1:]) if len(segs) >= 2 else "?"], "bundle"
            elif kind == "arrays":
                ok = len(segs) == 2 and segs[1].isdigit() and segs[1].isascii()
                site, cls = ["array", segs[0] if segs else "?", int(segs[1]) if ok else 0], "array"
            elif kind == "pair":
                site, cls = ["pair", t["ibundle"], "_".join(segs[1:]) if len(segs) >= 2 else "?"], "pair"
            else:
                continue
            evs.append((t["mod"], site, e, cls))
    return evs


def c_event(mod, site, e):
    fl = e.get("flat")
    opt = lambda s: "None" if s is None else f"(Some {cstr(s)})"
    ns = e["ns"] if e.get("ns") is not None else ((fl or {}).get("avoid") or [])
    held = held_of(e, ns)
    return ("{| ev_mod := %s; ev_site := %s; ev_hasflat := %s; ev_segs := %s; ev_avoid := %s; ev_maxlen := %s; ev_res := %s; "
            "ev_added := %s; ev_ns := %s; ev_held := %s |}") % (
        cstr(mod), c_site(site), cbool(fl is not None), clist(fl["segs"] if fl else [], cstr),
        "None" if (fl is None or fl["avoid"] is None) else f"(Some {clist(fl['avoid'], cstr)})",
        cz(fl["maxlen"] if fl else 0), opt(fl["res"] if fl else None), opt(e.get("added")), clist(ns, cstr), clist(held, cstr))


CONTAINERS = ("ports", "signals", "instances", "instarrays", "instbundles", "bundles")


def held_of(e, ns):
    """names held by the per-type containers just before the insertion (an event of a raising flatname has no insertion:
    the namespace handed to flatname stands in)"""
    if e.get("ctr") is None:
        return list(ns)
    return [k for c in CONTAINERS for k in e["ctr"].get(c, [])]


def plain_name(e):
    fl = e.get("flat")
    return "_".join(fl["segs"]) if fl is not None else e.get("added")


def pending_of(e, containers=("instarrays", "instbundles", "bundles")):
    return [k for c in containers for k in (e.get("ctr") or {}).get(c, [])]


def provoked(e):
    """a collision was provoked at this insertion: the plain joined name was already bound in the Module"""
    fl = e.get("flat")
    if fl is not None:
        ns = e.get("ns") if e.get("ns") is not None else (fl["avoid"] or [])
        return "_".join(fl["segs"]) in ns or "_".join(fl["segs"]) in held_of(e, ns)
    return e.get("added") in (e.get("ns") or []) or e.get("added") in held_of(e, e.get("ns") or [])


# ------------------------------------------------------------------------------------------------ expected sites
def expected_sites(design, evs):
    """The naming sites the design contains, per reachable module (the reference group's naming member and the names of
    implicit bundle instances are taken from the observed events when these are consistent with the design)."""
    exp = []
    pairnames = {(m, s[1], s[2]): e.get("added") for m, s, e, c in evs if s[0] == "pair"}
    for mi in reachable(design):
        md = design["mods"][mi]
        mn = md["name"]
        implicit_bundles = []           # (invented bundle instance name, definition)
        for b, k, port in md.get("bundles", []):
            exp += [(mn, ["bundle", b, "_".join(p)]) for p, w in bpaths(design, k)]
        # no-connects, arrays, pairs
        for x in md["insts"]:
            bp = bports(design, x["of"])
            names = [x["name"]]
            if x.get("pair"):
                exp += [(mn, ["pair", x["name"], m]) for m in ("p", "n")]
                names = [pairnames.get((mn, x["name"], m)) or f"{x['name']}_{m}" for m in ("p", "n")]
            if x["n"] > 0:
                exp += [(mn, ["array", x["name"], k]) for k in range(x["n"])]
            for port, e in x["conns"]:
                if e[0] == "nc":
                    for nm in names:
                        if port in bp and x["n"] > 0:
                            # noconn_array_bundle: one signal per scalar member, no implicit bundle instance
                            exp += [(mn, ["noconn_member", e[2], nm, port, pth]) for pth, w in bpaths(design, bp[port])]
                            continue
                        exp.append((mn, ["noconn", e[2], nm, port]))
                        if port in bp:
                            implicit_bundles.append((("noconn", e[2], nm, port), bp[port]))
        # reference groups without a source
        parent = {}

        def find(a):
            while parent.setdefault(a, a) != a:
                parent[a] = parent[parent[a]]
                a = parent[a]
            return a
        sourced = set()
        for x in md["insts"]:
            for port, e in x["conns"]:
                if e[0] in ("ref", "bref"):
                    parent[find((x["name"], port))] = find((e[1], e[2]))
        for x in md["insts"]:
            for port, e in x["conns"]:
                if (x["name"], port) in parent and e[0] not in ("ref", "bref"):
                    sourced.add(find((x["name"], port)))
        groups = {}
        for a in list(parent):
            groups.setdefault(find(a), []).append(a)
        observed = [(s[1], s[2]) for m, s, e, c in evs if m == mn and s[0] == "portref"]
        for root, members in groups.items():
            if root in sourced:
                continue
            pick = next((o for o in observed if o in members), sorted(members)[0])
            exp.append((mn, ["portref", pick[0], pick[1]]))
            x = D.find_inst(md, pick[0])
            if x is not None and pick[1] in bports(design, x["of"]):
                implicit_bundles.append((("portref", pick[0], pick[1]), bports(design, x["of"])[pick[1]]))
        # implicit bundle instances (copies of a bundle-valued port) are flattened later under their invented name
        for key, k in implicit_bundles:
            got = [e.get("added") for m, s, e, c in evs if m == mn and tuple(s) == key]
            if got and got[0] is not None:
                exp += [(mn, ["bundle", got[0], "_".join(p)]) for p, w in bpaths(design, k)]
    return exp


# ------------------------------------------------------------------------------------------------ case
def pkg_mod_name(pkg, want):
    c = [m["name"] for m in pkg["mods"] if m["name"] == want or m["name"].endswith("." + want)]
    return c[-1] if c else want


def c_case(design, out):
    plain = desugar(design)
    evs = events_of(out)
    amap = {(m, s[1], s[2]): e.get("added") for m, s, e, c in evs if s[0] == "array"}
    pmap = {(m, s[1] + "." + s[2]): e.get("added") for m, s, e, c in evs if s[0] == "pair"}

    def pname(mod, inst, e, is_array):
        if is_array:
            return amap.get((mod, inst, e)) or f"{inst}_{e}"
        if "." in inst:
            return pmap.get((mod, inst)) or inst.replace(".", "_")
        return inst
    spec_t, pkg_t = terminals(plain, pname)
    pkg = out.get("pkg")
    topname = plain["mods"][plain["top"]]["name"]
    if pkg is None:
        pk, top = "None", topname
    else:
        pk, top = f"(Some {D.c_pkg(pkg)})", pkg_mod_name(pkg, topname)
    c01 = (f"{{| cc_design := {D.c_design(plain)};\n  cc_terms := {clist(spec_t, D.c_node)};\n  cc_pkg := {pk};\n"
           f"  cc_top := {cstr(top)}; cc_pterms := {clist(pkg_t, D.c_node)} |}}")
    keep = []
    if pkg is not None:
        for mi in reachable(design):
            md = design["mods"][mi]
            sigs = [(p[0], p[1]) for p in md["ports"]] + [(s[0], s[1]) for s in md["sigs"]]
            insts = [x["name"] for x in md["insts"] if x["n"] == 0 and not x.get("pair")]
            keep.append(f"({cstr(pkg_mod_name(pkg, md['name']))}, {clist(sigs, lambda s: f'({cstr(s[0])}, {cz(s[1])})')}, {clist(insts, cstr)})")
    exp = expected_sites(design, evs)
    return (f"{{| c5_c01 := {c01};\n  c5_events := {clist(evs, lambda t: c_event(t[0], t[1], t[2]))};\n"
            f"  c5_expected := {clist(exp, lambda ms: f'({cstr(ms[0])}, {c_site(ms[1])})')};\n  c5_keep := {clist(keep)} |}}")


def evaluate(designs, stream):
    outs = core.run_worker_sharded("c05", [dict(kind="design", design=d) for d in designs])
    cases = [c_case(d, o) for d, o in zip(designs, outs)]
    codes = dict(core.coq_eval_cases("C05", stream, IMPORTS, "c05_case", cases, "run_cases chk_c05", chunk=40))
    return outs, codes


# ------------------------------------------------------------------------------------------------ adversarial renaming
def designer_names(md):
    return ([p[0] for p in md["ports"]] + [s[0] for s in md["sigs"]] + [x["name"] for x in md["insts"]] +
            [b[0] for b in md.get("bundles", [])])


def candidates_by_class(design, md):
    """({class: names}, cold): every name the elaborator WILL build in this module before collision suffixes, by the kind of
    naming site (implicit signals of unconnected ports, of un-named / named no-connects, per-member names under such a port
    when it is bundle-valued, array elements, pair members, flattened bundle members), and the inst_port names of ordinarily
    connected ports (never built: decoys)"""
    hot = dict(implicit=[], nc_unnamed=[], nc_named=[], member=[], member_array=[], array=[], pair=[], bundle=[])
    cold = []
    for x in md["insts"]:
        bp = bports(design, x["of"])
        names = [x["name"]]
        if x.get("pair"):
            names = [f"{x['name']}_p", f"{x['name']}_n"]
            hot["pair"] += names
        if x["n"] > 0:
            hot["array"] += [f"{x['name']}_{k}" for k in range(x["n"])]
        conns = dict((port, e) for port, e in x["conns"])
        for nm in names:
            for port in all_port_names(design, x["of"]):
                e = conns.get(port)
                base = e[2] if (e is not None and e[0] == "nc" and e[2] is not None) else f"{nm}_{port}"
                if e is None:
                    cls = "implicit"
                elif e[0] == "nc":
                    cls = "nc_unnamed" if e[2] is None else "nc_named"
                else:
                    cls = None
                (hot[cls] if cls else cold).append(base)
                if port in bp:
                    # under a no-connect on an Instance ARRAY these are built by portrefs.noconn_array_bundle (a site of its own)
                    mcls = "member_array" if (x["n"] > 0 and cls in ("nc_unnamed", "nc_named")) else "member"
                    (hot[mcls] if cls else cold).extend(f"{base}_{'_'.join(p)}" for p, w in bpaths(design, bp[port]))
    for b, k, port in md.get("bundles", []):
        hot["bundle"] += [f"{b}_{'_'.join(p)}" for p, w in bpaths(design, k)]
    allhot = set(n for v in hot.values() for n in v)
    return {c: sorted(set(v)) for c, v in hot.items() if v}, sorted(set(cold) - allhot)


def candidates(design, md):
    hot, cold = candidates_by_class(design, md)
    return sorted(set(n for v in hot.values() for n in v)), cold


def add_ref_groups(design, r, tries=3):
    """Turn some ordinary connections into a source-less reference group: x.p left unconnected, y.q = x.p
    (the elaborator then invents the implicit signal x_p)."""
    for mi in reachable(design):
        md = design["mods"][mi]
        single = [x for x in md["insts"] if x["n"] == 0 and not x.get("pair")]
        referenced = set()

        def go(e):
            if e[0] in ("ref", "bref"):
                referenced.add((e[1], e[2]))
            elif e[0] == "sl":
                go(e[1])
            elif e[0] == "cat":
                for q in e[1]:
                    go(q)
        for x in md["insts"]:
            for port, e in x["conns"]:
                go(e)
        for _ in range(tries):
            if len(single) < 2:
                break
            x, y = r.sample(single, 2)
            px = [(port, e) for port, e in x["conns"] if e[0] not in ("ref", "bref", "nc", "bun") and (x["name"], port) not in referenced]
            py = [(port, e) for port, e in y["conns"] if e[0] not in ("ref", "bref", "nc", "bun") and (y["name"], port) not in referenced]
            if not px or not py:
                continue
            p, _ = r.choice(px)
            q, _ = r.choice(py)
            tw = lambda z, port: dict(D.target_ports(design, z["of"])).get(port)
            if tw(x, p) is None or tw(x, p) != tw(y, q):
                continue
            x["conns"] = [c for c in x["conns"] if c[0] != p]
            y["conns"] = [[port, ["ref", x["name"], p] if port == q else e] for port, e in y["conns"]]
            referenced.add((x["name"], p))
            referenced.add((y["name"], q))     # keep y.q out of further surgery


def map_exprs(md, f):
    def go(e):
        e = f(e)
        if e[0] == "sl":
            return ["sl", go(e[1]), e[2]]
        if e[0] == "cat":
            return ["cat", [go(p) for p in e[1]]]
        return e
    for x in md["insts"]:
        x["conns"] = [[port, go(e)] for port, e in x["conns"]]


def rename(design, mi, kind, old, new):
    md = design["mods"][mi]
    if kind in ("sig", "port"):
        for s in md["sigs"] + md["ports"]:
            if s[0] == old:
                s[0] = new
        map_exprs(md, lambda e: ["sig", new] if e[0] == "sig" and e[1] == old else e)
    if kind == "bundle":
        for b in md["bundles"]:
            if b[0] == old:
                b[0] = new
        map_exprs(md, lambda e: [e[0], new] + e[2:] if e[0] in ("bun", "bmem") and e[1] == old else e)
    if kind == "port" or (kind == "bundle" and any(b[0] == new and b[2] for b in md.get("bundles", []))):
        for m2 in design["mods"]:
            tgt = {x["name"] for x in m2["insts"] if x["of"] == ["mod", mi]}
            for x in m2["insts"]:
                if x["name"] in tgt:
                    x["conns"] = [[new if port == old else port, e] for port, e in x["conns"]]
            map_exprs(m2, lambda e: [e[0], e[1], new] if e[0] in ("ref", "bref") and e[1] in tgt and e[2] == old else e)
    if kind == "inst":
        for x in md["insts"]:
            if x["name"] == old:
                x["name"] = new
        map_exprs(md, lambda e: [e[0], new, e[2]] if e[0] in ("ref", "bref") and e[1] == old else e)
    if kind == "nc":      # old = site number
        map_exprs(md, lambda e: ["nc", e[1], new] if e[0] == "nc" and e[1] == old else e)


def nc_sites(md):
    s = set()

    def go(e):
        if e[0] == "nc":
            s.add(e[1])
        elif e[0] == "sl":
            go(e[1])
        elif e[0] == "cat":
            for p in e[1]:
                go(p)
    for x in md["insts"]:
        for port, e in x["conns"]:
            go(e)
    return sorted(s)


def dissolvables(design, md):
    """(rename kind, name, class, plain names of its parts) of the objects a pass dissolves: Instance Bundles, Instance Arrays, Bundle Instances"""
    out = []
    for x in md["insts"]:
        if x.get("pair"):
            out.append(("inst", x["name"], "pair", [f"{x['name']}_p", f"{x['name']}_n"]))
        elif x["n"] > 0:
            out.append(("inst", x["name"], "array", [f"{x['name']}_{k}" for k in range(x["n"])]))
    for b, k, port in md.get("bundles", []):
        out.append(("bundle", b, "bundle", [f"{b}_{'_'.join(p)}" for p, w in bpaths(design, k)]))
    return out


def case_variant(n, r):
    v = r.choice([n.upper(), n.capitalize(), n[:-1] + n[-1:].upper(), n.swapcase()])
    return v


def recase(design, r, p=0.5):
    """Designer names with upper-case letters (Xi, Arr, NC, P): signals, ports, instances, bundle instances of every reachable
    Module and the member names of the bundle definitions.  Every name stays distinct from the others of its Module."""
    d = copy.deepcopy(design)
    n = 0
    for mi in reachable(d):
        md = d["mods"][mi]
        objs = ([("sig", s[0]) for s in md["sigs"]] + [("port", q[0]) for q in md["ports"]] +
                [("inst", x["name"]) for x in md["insts"]] + [("bundle", b[0]) for b in md.get("bundles", [])])
        for kind, old in objs:
            if r.random() >= p:
                continue
            new = case_variant(old, r)
            if new == old or new in designer_names(md):
                continue
            rename(d, mi, kind, old, new)
            n += 1
    members = sorted({nm for bd in d.get("bdefs", []) for nm, _ in bd["sigs"]} | {nm for bd in d.get("bdefs", []) for nm, _ in bd.get("subs", [])})
    mp = {m: m.upper() for m in members if r.random() < p}
    if mp:
        for bd in d["bdefs"]:
            bd["sigs"] = [[mp.get(nm, nm), w] for nm, w in bd["sigs"]]
            bd["subs"] = [[mp.get(nm, nm), k] for nm, k in bd.get("subs", [])]
        for md in d["mods"]:
            map_exprs(md, lambda e: ["bmem", e[1], [mp.get(q, q) for q in e[2]]] if e[0] == "bmem" else e)
        n += len(mp)
    return d, n


def adversarial(design, r, rounds=2):
    d = copy.deepcopy(design)
    renames = 0
    for _ in range(rounds):
        for mi in reachable(d):
            md = d["mods"][mi]
            # a dissolved object named like a PART of another dissolved object (Instance Bundle `d_p` beside Instance Bundle `d`):
            # while the one is replaced the other is still pending in its container
            for _ in range(2):
                dis = dissolvables(d, md)
                if len(dis) < 2 or r.random() >= 0.6:
                    continue
                byc = {}
                for t in dis:
                    byc.setdefault(t[2], []).append(t)
                multi = [c for c in sorted(byc) if len(byc[c]) >= 2]
                if multi and r.random() < 0.75:      # two of one kind: both leave in the same pass
                    x, y = r.sample(byc[r.choice(multi)], 2)
                else:
                    x, y = r.sample(dis, 2)
                new = r.choice(x[3]) + "_" * r.choice([0, 0, 0, 1])
                if new not in designer_names(md) and y[1] in designer_names(md):
                    rename(d, mi, y[0], y[1], new)
                    renames += 1
            hotc, cold = candidates_by_class(d, md)
            hot = sorted(set(n for v in hotc.values() for n in v))
            if not hot and not cold:
                continue
            objs = ([("sig", s[0]) for s in md["sigs"]] * 3 + [("port", p[0]) for p in md["ports"]] +
                    [("inst", x["name"]) for x in md["insts"]] + [("bundle", b[0]) for b in md.get("bundles", [])] +
                    [("nc", s) for s in nc_sites(md)] * 2)
            # per kind of naming site present in the Module one directed attempt with probability 1/2 (no kind is crowded out
            # by the many bundle members), then 1-3 undirected ones (any kind, decoys, no-connect names)
            plan = [c for c in sorted(hotc) if r.random() < 0.5] + [None] * r.randint(1, 3)
            for c in plan:
                kind, old = r.choice(objs if c is None else ([o for o in objs if o[0] != "nc"] or objs))
                if c is not None:
                    pool = hotc[c]
                else:
                    pool = hotc[r.choice(sorted(hotc))] if (hot and (not cold or r.random() < 0.85)) else cold
                new = r.choice(pool) + "_" * r.choice([0, 0, 0, 1, 2])
                if r.random() < 0.08:       # differs from what the elaborator builds by case alone: no clash
                    new = new.swapcase()
                if kind == "nc":
                    if r.random() < 0.4:      # a no-connect named like an existing designer object
                        new = r.choice(designer_names(md))
                    rename(d, mi, "nc", old, new)
                    renames += 1
                    continue
                if new in designer_names(md) or old not in designer_names(md):
                    continue
                # a renamed instance must not be the one whose port the candidate was derived from in a way that
                # makes the name meaningless - any name is legal, so no further filter
                rename(d, mi, kind, old, new)
                objs = [(k, new if (k == kind and o == old) else o) for k, o in objs]
                renames += 1
    return d, renames


def with_order(design, rev):
    d = copy.deepcopy(design)
    for md in d["mods"]:
        md["rev"] = rev
    return d


# ------------------------------------------------------------------------------------------------ structured designs
def gen_structured(r):
    """Bundle instances and ports (nested), references to / no-connects on bundle ports, arrays, pairs."""
    w = r.choice([1, 1, 2])
    bdefs = [dict(name="B0", sigs=[["x", 1], ["y", w]], subs=[]),
             dict(name="B1", sigs=[["m", 1]], subs=[["c", 0]])]
    k = r.choice([0, 0, 1, "diff"])
    design = dict(mods=[], exts=[], top=0, bdefs=bdefs)
    tag = [0]

    def res(p, n):
        tag[0] += 1
        return dict(name=f"r{tag[0]}", n=0, of=["prim", "R", 1 + tag[0] % 3], conns=[["p", p], ["n", n]])

    def bits(e, wd):
        return [e] if wd == 1 else [["sl", e, ["i", j]] for j in range(wd)]
    # leaf with a bundle port
    leaf = dict(name="Leaf", ports=[["a", 1, "inout"], ["b", 1, "inout"]], sigs=[], bundles=[["bp", k, True]], insts=[])
    for p, wd in bpaths(design, k):
        for e in bits(["bmem", "bp", p], wd):
            leaf["insts"].append(res(e, ["sig", r.choice(["a", "b"])]))
    leaf["insts"].append(res(["sig", "a"], ["sig", "b"]))
    # leaf with scalar ports only (pair target)
    leaf2 = dict(name="Leaf2", ports=[["a", 1, "inout"], ["b", 1, "inout"]], sigs=[["z", 1]], bundles=[],
                 insts=[res(["sig", "a"], ["sig", "z"]), res(["sig", "z"], ["sig", "b"])])
    top = dict(name="Top", ports=[["t0", 1, "inout"]], sigs=[["s0", 1], ["s1", 1], ["s2", 2]],
               bundles=[["ob", k, False], ["dd", "diff", False]], insts=[])
    if r.random() < 0.5:
        top["bundles"].append(["ob2", k, False])
    design["mods"] = [leaf, leaf2, top]
    design["top"] = 2
    sc = lambda: ["sig", r.choice(["s0", "s1", "t0"])]
    site = [0]

    def nc():
        site[0] += 1
        return ["nc", site[0], r.choice([None, None, f"nc{site[0]}", "ncx", "s0", "ob_x", "NC", "Ncx"])]
    feats = set(f for f in ("plain", "ref", "ncb", "array", "pair", "probe") if r.random() < 0.6) or {"plain", "pair"}
    if "plain" in feats:
        top["insts"].append(dict(name="i0", n=0, of=["mod", 0], conns=[["a", sc()], ["b", sc()], ["bp", ["bun", "ob"]]]))
    if "ref" in feats:
        # i2 leaves b and bp unconnected; i1 refers to them: implicit signal i2_b, implicit bundle instance i2_bp
        top["insts"].append(dict(name="i1", n=0, of=["mod", 0], conns=[["a", sc()], ["b", ["ref", "i2", "b"]], ["bp", ["bref", "i2", "bp"]]]))
        top["insts"].append(dict(name="i2", n=0, of=["mod", 0], conns=[["a", sc()]]))
    if "ncb" in feats:
        top["insts"].append(dict(name="i3", n=0, of=["mod", 0], conns=[["a", nc()], ["b", nc()], ["bp", nc()]]))
    if "array" in feats:
        n = r.choice([2, 3])
        a = r.choice([["sig", "s2"], sc()]) if n == 2 else sc()
        # the bundle-valued port of the array: a bundle instance, or a no-connect (named or not) - the sixth naming site,
        # portrefs.noconn_array_bundle, which invents one signal per scalar member
        bpc = nc() if r.random() < 0.5 else ["bun", r.choice([b[0] for b in top["bundles"] if b[1] == k])]
        top["insts"].append(dict(name="arr", n=n, of=["mod", 0], conns=[["a", a], ["b", r.choice([sc(), nc()])], ["bp", bpc]]))
        if r.random() < 0.4:      # a second Instance Array in the same Module
            top["insts"].append(dict(name="arq", n=2, of=["mod", 1], conns=[["a", sc()], ["b", r.choice([sc(), nc()])]]))
    if "pair" in feats:
        top["insts"].append(dict(name="pr", n=0, pair=True, of=["mod", 1],
                                 conns=[["a", ["bun", "dd"]], ["b", r.choice([sc(), nc()])]]))
        top["insts"].append(res(["bmem", "dd", ["p"]], sc()))
        top["insts"].append(res(["bmem", "dd", ["n"]], sc()))
        # further Instance Bundles of the same Module: while one is replaced the others are still pending in module.instbundles
        for j in range(r.choice([0, 1, 1, 2])):
            top["insts"].append(dict(name=f"pq{j}", n=0, pair=True, of=["mod", 1],
                                     conns=[["a", r.choice([["bun", "dd"], sc()])], ["b", r.choice([sc(), sc(), nc()])]]))
    if "probe" in feats or True:
        for p, wd in bpaths(design, k):
            for e in bits(["bmem", "ob", p], wd):
                if r.random() < 0.7:
                    top["insts"].append(res(e, sc()))
    top["insts"].append(res(["sig", "s0"], ["sl", ["sig", "s2"], ["i", 0]]))
    return design


def features(design):
    s = json.dumps(design)
    return dict(refs='"ref"' in s or '"bref"' in s, ncs='"nc"' in s, arrays=any(x["n"] > 0 for m in design["mods"] for x in m["insts"]),
                bundles='"bun"' in s, pairs='"pair": true' in s, hier=len(design["mods"]) > 1)


# ------------------------------------------------------------------------------------------------ corpus
def corpus():
    inner = dict(name="Inner", ports=[["a", 1, "inout"], ["b", 1, "inout"]], sigs=[],
                 insts=[dict(name="r", n=0, of=["prim", "R", 1], conns=[["p", ["sig", "a"]], ["n", ["sig", "b"]]])])

    def top(insts, sigs, bundles=None, mods=None):
        return dict(mods=(mods or [inner]) + [dict(name="Top", ports=[], sigs=sigs, insts=insts, bundles=bundles or [])],
                    exts=[], top=len(mods or [inner]), bdefs=[dict(name="BY", sigs=[["y", 1]], subs=[]), dict(name="BM", sigs=[["m", 1]], subs=[])])
    out = [
        # pinned tree: NoConn(name="x") beside a signal x ties the unconnected port to x
        top([dict(name="i0", n=0, of=["mod", 0], conns=[["a", ["nc", 1, "x"]], ["b", ["sig", "y"]]]),
             dict(name="i1", n=0, of=["mod", 0], conns=[["a", ["sig", "x"]], ["b", ["sig", "y"]]])], [["x", 1], ["y", 1]]),
        # pinned tree: two NoConns of one name are one net
        top([dict(name="i0", n=0, of=["mod", 0], conns=[["a", ["nc", 1, "nc"]], ["b", ["nc", 2, "nc"]]])], [["y", 1]]),
        # pinned tree: a NoConn on an array port was one net for all elements
        top([dict(name="arr", n=2, of=["mod", 0], conns=[["a", ["nc", 1, None]], ["b", ["sig", "y"]]])], [["y", 1], ["arr_0", 1]]),
        # a no-connect named like the instance array beside it, and like its elements
        top([dict(name="arr", n=2, of=["mod", 0], conns=[["a", ["nc", 1, "arr_1"]], ["b", ["nc", 2, "arr"]]])], [["y", 1]]),
    ]
    # two Instance Bundles `d_p` and `d`, in both declaration orders: the member `d_p` invented for `d` meets the Instance Bundle
    # `d_p` that is still pending in module.instbundles (seeded C05r3-A: its name had already left the namespace, `_add` deleted it)
    for rev in (False, True):
        d = top([dict(name="d_p", n=0, pair=True, of=["mod", 0], conns=[["a", ["sig", "x2"]], ["b", ["sig", "y2"]]]),
                 dict(name="d", n=0, pair=True, of=["mod", 0], conns=[["a", ["sig", "x1"]], ["b", ["sig", "y1"]]])],
                [["x1", 1], ["y1", 1], ["x2", 1], ["y2", 1]])
        d["mods"][1]["rev"] = rev
        out.append(d)
    # a no-connect (un-named, named) on a bundle-valued port of an Instance Array beside designer signals named
    # <array>_<port>_<member> / <no-connect>_<member> (seeded C05r3-B: the per-member names were not checked against the Module)
    childb = dict(name="InnerB", ports=[["z", 1, "inout"]], sigs=[], bundles=[["b", 0, True]],
                  insts=[dict(name="r", n=0, of=["prim", "R", 1], conns=[["p", ["bmem", "b", ["y"]]], ["n", ["sig", "z"]]])])
    for rev in (False, True):
        d = top([dict(name="arr", n=2, of=["mod", 0], conns=[["b", ["nc", 1, None]], ["z", ["sig", "z"]]]),
                 dict(name="arq", n=2, of=["mod", 0], conns=[["b", ["nc", 2, "nc"]], ["z", ["sig", "z"]]]),
                 dict(name="u", n=0, of=["mod", 1], conns=[["a", ["sig", "arr_b_y"]], ["b", ["sig", "nc_y"]]])],
                [["z", 1], ["arr_b_y", 1], ["nc_y", 1]], mods=[childb, inner])
        d["mods"][2]["rev"] = rev
        out.append(d)
    # the same clashes on names with upper-case letters (seeded C05r3-C: flatname compared the candidate with lower-cased keys)
    out.append(top([dict(name="Xi", n=0, of=["mod", 0], conns=[["a", ["nc", 1, None]], ["b", ["nc", 2, "NC"]]]),
                    dict(name="user", n=0, of=["mod", 0], conns=[["a", ["sig", "Xi_a"]], ["b", ["sig", "NC"]]]),
                    dict(name="Arr", n=2, of=["mod", 0], conns=[["a", ["sig", "s0"]], ["b", ["sig", "s1"]]]),
                    dict(name="Arr_0", n=0, of=["mod", 0], conns=[["a", ["sig", "s1"]], ["b", ["sig", "s0"]]]),
                    dict(name="Dp", n=0, pair=True, of=["mod", 0], conns=[["a", ["sig", "s0"]], ["b", ["sig", "NC"]]]),
                    dict(name="Dp_p", n=0, of=["mod", 0], conns=[["a", ["sig", "Xi_a"]], ["b", ["sig", "s0"]]])],
                   [["s0", 1], ["s1", 1], ["Xi_a", 1], ["NC", 1]]))
    # flattened member X.y of one bundle port meets the bundle port X_y of the same module (clash in the instance's connections)
    for rev in (False, True):
        for order in (0, 1):
            bl = [["X", 0, True], ["X_y", 1, True]]
            if order:
                bl.reverse()
            child = dict(name="Child", rev=rev, ports=[], sigs=[], bundles=bl,
                         insts=[dict(name="r", n=0, of=["prim", "R", 1], conns=[["p", ["bmem", "X", ["y"]]], ["n", ["bmem", "X_y", ["m"]]]])])
            d = top([dict(name="i0", n=0, of=["mod", 0], conns=[["X", ["bun", "o1"]], ["X_y", ["bun", "o2"]]]),
                     dict(name="r", n=0, of=["prim", "R", 1], conns=[["p", ["bmem", "o1", ["y"]]], ["n", ["bmem", "o2", ["m"]]]])],
                    [], bundles=[["o1", 0, False], ["o2", 1, False]], mods=[child])
            d["mods"][1]["rev"] = rev
            out.append(d)
    return out


# ------------------------------------------------------------------------------------------------ flatname stream
def flat_cases(seed, n):
    cases = []
    base = ["a", "b", "i0", "p", "x_", "arr", "0", "1", "", "_", "a_b", "A", "Xi", "P", "NC", "Arr", "aB"]
    for k in range(n):
        r = core.rng(seed, "C05", "flatname", k)
        segs = [r.choice(base) for _ in range(r.randint(1, 3))]
        j = "_".join(segs)
        avoid = [j + "_" * i for i in range(r.randint(0, 4)) if r.random() < 0.85] + [r.choice(base) for _ in range(r.randint(0, 3))]
        if r.random() < 0.15:       # names that differ from the candidates by case alone are different names
            avoid += [j.swapcase(), j.lower() + "_"]
        r.shuffle(avoid)
        avoid = list(dict.fromkeys(avoid))
        u = r.random()
        maxlen = None if u < 0.5 else r.choice([len(j), len(j) + 1, len(j) + 2, len(j) + 5, max(0, len(j) - 1)])
        cases.append(dict(kind="flatname", segs=segs, avoid=None if (not avoid and r.random() < 0.5) else avoid, maxlen=maxlen))
    # exactly at the default limit
    long = "n" * 509
    cases.append(dict(kind="flatname", segs=[long], avoid=[long, long + "_", long + "__"], maxlen=None))
    cases.append(dict(kind="flatname", segs=[long], avoid=[long, long + "_"], maxlen=None))
    return cases


def run_flat(run, seed, n):
    jobs = flat_cases(seed, n)
    outs = core.run_worker_sharded("c05", jobs)
    opt = lambda s: "None" if s is None else f"(Some {cstr(s)})"
    cases = []
    for j, o in zip(jobs, outs):
        cases.append(f"{{| fc_segs := {clist(j['segs'], cstr)}; fc_avoid := {'None' if j['avoid'] is None else '(Some ' + clist(j['avoid'], cstr) + ')'}; "
                     f"fc_maxlen := {cz(511 if j['maxlen'] is None else j['maxlen'])}; fc_res := {opt(o['res'])} |}}")
    bad = core.coq_eval_cases("C05", "flatname", IMPORTS, "flat_case", cases, "run_cases chk_flat", chunk=300)
    collided = sum(1 for j in jobs if j["avoid"] and "_".join(j["segs"]) in j["avoid"])
    raised = sum(1 for o in outs if o["res"] is None)
    upper = sum(1 for j in jobs if j["avoid"] and "_".join(j["segs"]) in j["avoid"] and any(ch.isupper() for ch in "_".join(j["segs"])))
    if upper == 0:
        run.violation("C05:coverage:flatname:uppercase", "no flatname case whose plain name has an upper-case letter and is in `avoid` (fail closed)",
                      dict(kind="coverage", stream="flatname"), found_input=False)
    run.stream("flatname", len(jobs), len({json.dumps(j, sort_keys=True) for j in jobs if j["avoid"] and "_".join(j["segs"]) in j["avoid"]}),
               collisions=collided, raised=raised, uppercase_collisions=upper,
               rule="non-trivial = the plain joined name is in `avoid`; distinct by (segments, avoid, maxlen)")
    for i, code in sorted(bad, key=lambda ic: len(json.dumps(jobs[ic[0]])))[:2]:
        what = ("flatname returned a name that is in `avoid`" if code == 1 else "flatname differs from the model")
        run.violation("C05:flatname:" + json.dumps(jobs[i], sort_keys=True)[:600], f"{what}: impl {outs[i]}",
                      dict(kind="impl-violates-spec" if code == 1 else "model-differs", stream="flatname", job=jobs[i], impl=outs[i]),
                      found_input=(code == 1))


# ------------------------------------------------------------------------------------------------ reporting
def size(d):
    return len(json.dumps(d))


def describe(design, out):
    if out.get("err"):
        return f"implementation raised {json.dumps(out['err'])}"
    return "package returned"


def report(run, stream, designs, outs, codes, limit=2):
    order = sorted(codes.items(), key=lambda ic: size(designs[ic[0]]))
    v1 = [i for i, c in order if c == 1]
    v2 = [i for i, c in order if c == 2]
    v3 = [i for i, c in order if c == 3]
    for i in v1[:limit]:
        evs = events_of(outs[i])
        captured = [(m, s, e.get("added")) for m, s, e, c in evs if e.get("added") is not None and
                    (e.get("added") in (e.get("ns") or []) or e.get("added") in held_of(e, e.get("ns") or []))]
        what = ("an invented name captured a name the Module held (namespace or per-type container): " + json.dumps(captured[:3]) if captured else
                "exported package lost / re-bound a designer name or its nets differ from the written design")
        run.violation("C05:design:" + json.dumps(designs[i], sort_keys=True), what,
                      dict(kind="impl-violates-spec", stream=stream, case=designs[i], impl=outs[i], failing_cases=len(v1),
                           reproducer="harness/impl/c05.py job {kind:design, design:case}: C05Builder(case).build(); h.to_proto(top)"))
    if v2:
        i = v2[0]
        run.violation("C05:tie:" + json.dumps(designs[i], sort_keys=True), "a naming step of the implementation differs from the model "
                      "(site segments / avoid=module.namespace / flatname result / set of naming sites)",
                      dict(kind="model-differs", stream=stream, case=designs[i], impl=outs[i], failing_cases=len(v2)),
                      found_input=bool(v1))
    if v3 and not v1:
        i = v3[0]
        run.violation("C05:generator", "generated design is not valid by Spec/WfDesign or terminal list inconsistent (harness defect)",
                      dict(kind="harness-inconsistency", stream=stream, case=designs[i], impl=outs[i]), found_input=False)


def stats(designs, outs, codes):
    prov = {k: 0 for k in KINDS}
    ins = {k: 0 for k in KINDS}
    extra = {k: 0 for k in EXTRA}
    for o in outs:
        for m, s, e, c in events_of(o):
            ins[c] += 1
            if provoked(e):
                prov[c] += 1
                pn = plain_name(e) or ""
                if any(ch.isupper() for ch in pn):
                    extra["uppercase"] += 1
                if pn in pending_of(e):
                    extra["pending_any"] += 1
                if c == "pair" and pn in pending_of(e, ("instbundles",)):
                    extra["pending_pair"] += 1
    raised = sum(1 for i, o in enumerate(outs) if o.get("pkg") is None)
    return prov, ins, raised, extra


def run_designs(run, stream, designs, min_collisions=True):
    outs, codes = evaluate(designs, stream)
    prov, ins, raised, extra = stats(designs, outs, codes)
    feats = {}
    for d in designs:
        for f, v in features(d).items():
            feats[f] = feats.get(f, 0) + int(v)
    with_collision = len({json.dumps(d, sort_keys=True) for d, o in zip(designs, outs) if any(provoked(e) for m, s, e, c in events_of(o))})
    hooks_bad = [o["hooks"] for o in outs if not o.get("hooks", {}).get("ok", False)]
    run.stream(stream, len(designs), with_collision, collisions_provoked=prov, collisions_special=extra, insertions=ins, raised_by_impl=raised,
               raised_fraction=round(raised / max(1, len(designs)), 4), features=feats,
               rule="non-trivial = at least one insertion whose plain invented name was already held by the Module "
                    "(a collision really provoked); distinct by design")
    if hooks_bad:
        run.violation("C05:hooks", f"anchored naming functions missing in the tree under test: {hooks_bad[0].get('missing')}",
                      dict(kind="tie-missing", hooks=hooks_bad[0]), found_input=False)
    report(run, stream, designs, outs, {i: c for i, c in codes.items() if c != 4}, limit=None if stream == "corpus" else 2)
    if min_collisions:
        for k in min_collisions if isinstance(min_collisions, (list, tuple)) else KINDS + EXTRA:
            n = prov[k] if k in prov else extra[k]
            if n == 0:
                run.violation(f"C05:coverage:{stream}:{k}", f"no collision provoked at naming site class / target {k} (fail closed)",
                              dict(kind="coverage", stream=stream, insertions=ins, provoked=prov, special=extra), found_input=False)
        if raised > 0.25 * len(designs):
            run.violation(f"C05:coverage:{stream}:raised", f"{raised} of {len(designs)} designs raised: the stream is mostly vacuous",
                          dict(kind="coverage", stream=stream), found_input=False)
    return outs, codes


def run(run, tier, seed, replay=None):
    quick = tier == "quick"
    if replay is not None:
        designs = [replay["case"]]
        outs, codes = evaluate(designs, "replay")
        print("replay verdict:", codes or "ok", json.dumps(outs[0])[:3000])
        if codes.get(0) in (1, 2, 3):
            run.violation("C05:replay", "replayed case still fails", dict(kind="replay", case=designs[0], impl=outs[0]),
                          found_input=codes.get(0) == 1)
        return
    # corpus
    cp = corpus()
    run_designs(run, "corpus", cp, min_collisions=["noconn_named", "noconn_unnamed", "noconn_member", "array", "pair", "pending_pair", "uppercase"])
    # flatname
    run_flat(run, seed, 300 if quick else 4000)
    # adversarial gen_design
    nbase = 110 if quick else 2400
    designs, nren, nskip = [], 0, 0
    k = 0
    while len(designs) < 2 * nbase:
        r = core.rng(seed, "C05", "adversarial", k)
        k += 1
        base = D.gen_design(r, size=r.choice([1, 2, 2]) if quick else r.choice([1, 2, 3]), nested=r.random() < 0.5)
        base["bdefs"] = []
        if len(terminals(base, lambda m, i, e, a: i)[0]) > MAX_TERMINALS:
            nskip += 1
            continue        # the net-partition evaluation in Coq is super-quadratic in the number of leaf terminals
        add_ref_groups(base, r)
        if r.random() < 0.5:
            base, n = recase(base, r)
            nren += n
        adv, n = adversarial(base, r)
        nren += n
        designs.append(with_order(adv, False))
        designs.append(with_order(adv, True))
    outs, codes = run_designs(run, "adversarial", designs, min_collisions=["portref", "noconn_named", "noconn_unnamed", "array", "uppercase"])
    run.coverage["streams"]["adversarial"]["renames"] = nren
    run.coverage["streams"]["adversarial"]["skipped_more_than_%d_terminals" % MAX_TERMINALS] = nskip
    run.sample(dict(stream="adversarial", design=designs[len(designs) // 2]))
    # structured
    nbase = 90 if quick else 1800
    designs = []
    k = 0
    while len(designs) < 2 * nbase:
        r = core.rng(seed, "C05", "structured", k)
        k += 1
        base = gen_structured(r)
        if r.random() < 0.5:
            base, _ = recase(base, r)
        adv, n = adversarial(base, r, rounds=r.choice([1, 2, 2]))
        designs.append(with_order(adv, False))
        designs.append(with_order(adv, True))
    run_designs(run, "structured", designs, min_collisions=KINDS + EXTRA)
    run.sample(dict(stream="structured", design=designs[len(designs) // 2]))
    run.coverage["traces_validated_against_impl"] = sum(s["evaluations"] for n, s in run.coverage["streams"].items() if n != "flatname")
