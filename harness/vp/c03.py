"""C03 — indexing and concatenation follow Python sequence semantics (DESIGN.md 6.1)."""
import json, itertools
from . import core
from .core import cz, copt, clist

IMPORTS = "Require Import Hdl21.Base.PyInt Hdl21.Spec.PySlice Hdl21.Model.Slice Hdl21.Model.Resolve Hdl21.Corr.C03."
LOOP_IMPORTS = IMPORTS + "\nRequire Import Hdl21.Model.C03Loop Hdl21.Corr.C03Loop."


def c_index(ix):
    if ix[0] == "i":
        return f"(Idx {cz(ix[1])})"
    return f"(Sl {copt(ix[1])} {copt(ix[2])} {copt(ix[3])})"


def c_sx(e):
    t = e[0]
    if t in ("sig", "pref", "bref"):
        return f"(XSig {e[1]}%N {cz(e[2])})"
    if t == "sl":
        return f"(XSlice {c_sx(e[1])} {c_index(e[2])})"
    if t == "cat":
        return f"(XConcat {clist(e[1], c_sx)})"
    raise ValueError(t)


def c_flat(f):
    if f[0] == "sig":
        return f"(FSig {f[1]}%N {cz(f[2])})"
    return f"(FSl {f[1]}%N {cz(f[2])} {cz(f[3])} {cz(f[4])})"


def index_box(W):
    vals = [None] + list(range(-2 * W, 2 * W + 1))
    steps = [None] + [s for s in range(-W, W + 1) if s != 0]
    out = [["i", i] for i in range(-2 * W, 2 * W + 1)]
    out += [["s", a, b, st] for a in vals for b in vals for st in steps]
    out += [["s", a, b, 0] for a in (None, 0) for b in (None, 1)]
    return out


def gen_expr(r, depth, W, ids):
    """Random sliceable expression; leaves get fresh ids."""
    if depth == 0 or r.random() < 0.25:
        k = len(ids)
        w = r.choice([1, 1, 2, 3, 4, W, r.randint(1, W)])
        kind = r.choices(["sig", "pref", "bref"], [6, 2, 2])[0]
        ids.append((kind, w))
        return [kind, k, w]
    if r.random() < 0.6:
        p = gen_expr(r, depth - 1, W, ids)
        pw = approx_width(p)
        return ["sl", p, gen_index(r, max(pw, 1))]
    n = r.choice([1, 2, 2, 3])
    return ["cat", [gen_expr(r, depth - 1, W, ids) for _ in range(n)]]


def approx_width(e):
    t = e[0]
    if t in ("sig", "pref", "bref"):
        return e[2]
    if t == "cat":
        return sum(approx_width(p) for p in e[1])
    ix = e[2]
    w = approx_width(e[1])
    if ix[0] == "i":
        return 1
    try:
        return max(1, len(range(w)[slice(ix[1], ix[2], ix[3])]))
    except ValueError:
        return 1


def gen_index(r, w):
    """Mostly valid indices into width w (about 85%); the rest out of range / empty / beyond bounds / zero step."""
    u = r.random()
    if u < 0.2:
        return ["i", r.randint(-w, w - 1)]
    if u < 0.25:
        return ["i", r.choice([w, -w - 1, 2 * w, -2 * w])]
    if u < 0.85:
        # a valid, non-empty slice written in a random style (negative / None / explicit bounds)
        st = r.choice([1, 1, 1, -1, -1, 2, -2, 3, -3])
        first = r.randint(0, w - 1)
        n = r.randint(1, max(1, (w - first + abs(st) - 1) // abs(st) if st > 0 else (first + abs(st)) // abs(st)))
        last = first + (n - 1) * st
        stop = last + (1 if st > 0 else -1)
        def style(v, is_stop):
            if is_stop and st < 0 and v < 0:
                return None            # stop before index 0 can only be written as None
            c = r.random()
            if c < 0.25 and ((not is_stop and ((st > 0 and v == 0) or (st < 0 and v == w - 1))) or (is_stop and st > 0 and v == w)):
                return None
            if c < 0.55 and v - w < 0 and v - w >= -w:
                return v - w if not (is_stop and st > 0 and v == w) else v
            return v
        # widen the stop within the same selection sometimes
        a, b = style(first, False), style(stop, True)
        return ["s", a, b, r.choice([None, 1]) if st == 1 else st]
    def bound():
        v = r.random()
        if v < 0.3:
            return None
        if v < 0.8:
            return r.randint(-w, w)
        return r.randint(-2 * w - 1, 2 * w + 1)
    st = r.choice([None, 1, -1, 2, -2, 3, -3])
    if r.random() < 0.1:
        st = 0
    return ["s", bound(), bound(), st]


def expr_size(e):
    t = e[0]
    if t in ("sig", "pref", "bref"):
        return 1
    if t == "sl":
        return 1 + expr_size(e[1])
    return 1 + sum(expr_size(p) for p in e[1])


def nontrivial_expr(e):
    return expr_size(e) >= 3


def run(run, tier, seed, replay=None):
    quick = tier == "quick"
    W = 4 if quick else 6
    # ------------------------------------------------------------------ stream spec
    box = [ix for ix in index_box(W) if ix[0] == "s" and ix[3] != 0]
    spec_jobs = [[w, ix[1], ix[2], ix[3] if ix[3] is not None else 1] for w in range(0, W + 1) for ix in box]
    spec_out = core.run_worker_sharded("c03", spec_jobs, common=dict(kind="spec"))
    cases = [f"({cz(j[0])}, {copt(j[1])}, {copt(j[2])}, {cz(j[3])}, {clist(o, cz)})" for j, o in zip(spec_jobs, spec_out)]
    bad = core.coq_eval_cases("C03", "spec", IMPORTS, "spec_case", cases, "run_cases chk_spec", chunk=1500)
    run.stream("spec-vs-cpython", len(cases), len(set(map(str, spec_out))), exhaustive=True,
               box=f"w in 0..{W}, start/stop in [-{2*W},{2*W}] or None, step in +-1..+-{W}")
    for i, code in bad[:1]:
        run.violation("C03:spec-validation", f"py_indices disagrees with CPython on {spec_jobs[i]}",
                      dict(kind="spec-validation", stream="spec", case=spec_jobs[i], cpython=spec_out[i]), found_input=False)
    run.sample(dict(stream="spec", case=spec_jobs[len(spec_jobs) // 2], cpython=spec_out[len(spec_jobs) // 2]))

    # ------------------------------------------------------------------ stream inner
    full_box = index_box(W)
    inner_jobs = [["sig", w, ix] for w in range(1, W + 1) for ix in full_box]
    r = core.rng(seed, "C03", "inner")
    n_other = 300 if quick else 3000
    for kind in ("slice", "rslice", "concat", "portref", "bundleref"):
        for _ in range(n_other):
            w = r.randint(1, W)
            inner_jobs.append([kind, w, r.choice(full_box) if r.random() < 0.5 else gen_index(r, w)])
    inner_out = core.run_worker_sharded("c03", inner_jobs, common=dict(kind="inner"))

    def c_impl(o):
        return "IRej" if o[0] == "rej" else f"(IAcc {cz(o[1])} {cz(o[2])} {cz(o[3])} {cz(o[4])})"
    cases = [f"({cz(j[1])}, {c_index(j[2])}, {c_impl(o)})" for j, o in zip(inner_jobs, inner_out)]
    bad = core.coq_eval_cases("C03", "inner", IMPORTS, "Z * index * impl_inner", cases, "run_cases chk_inner", chunk=1500)
    nontriv = len({json.dumps(j) for j, o in zip(inner_jobs, inner_out) if o[0] == "rej" or o[4] >= 2})
    run.stream("slice-inner", len(cases), nontriv, exhaustive_on_signals=True,
               kinds={k: sum(1 for j in inner_jobs if j[0] == k) for k in ("sig", "slice", "rslice", "concat", "portref", "bundleref")},
               rejected=sum(1 for o in inner_out if o[0] == "rej"),
               rule="non-trivial = rejected or selects >= 2 bits; distinct by (parent kind, width, index)")
    report(run, "inner", bad, inner_jobs, inner_out, size=lambda j: (j[1], len(json.dumps(j))),
           repro=lambda j: f"parent of kind {j[0]} and width {j[1]}; index {j[2]}: compare Slice.top/bot/step/width with list(range({j[1]}))[...]")
    run.sample(dict(stream="inner", case=inner_jobs[37], impl=inner_out[37]))

    # ------------------------------------------------------------------ stream nested
    n_nested = 1200 if quick else 30000
    nested_jobs = corpus_nested()
    k = 0
    while len(nested_jobs) < n_nested:
        rr = core.rng(seed, "C03", "nested", k)
        k += 1
        e = gen_expr(rr, rr.choice([1, 2, 2, 3, 3]), W, [])
        if expr_size(e) >= 2:
            nested_jobs.append(e)
    nested_out = core.run_worker_sharded("c03", nested_jobs, common=dict(kind="nested"))

    def c_case(e, o):
        fl = "None" if o["flats"] is None else f"(Some {clist(o['flats'], c_flat)})"
        return f"({c_sx(e)}, {copt(o['width'])}, {fl})"
    cases = [c_case(e, o) for e, o in zip(nested_jobs, nested_out)]
    bad = core.coq_eval_cases("C03", "nested", IMPORTS, "nested_case", cases, "run_cases chk_nested", chunk=400)
    struct = core.coq_eval_cases("C03", "nstruct", IMPORTS, "nested_case", cases, "run_cases chk_structure", chunk=400)
    # the PUBLIC width property of every Slice / Concat node, read before elaboration (references unresolved)
    def c_pub(o):
        return "None" if o.get("pub") is None else f"(Some {clist(o['pub'], copt)})"
    pcases = [f"({c_sx(e)}, {c_pub(o)})" for e, o in zip(nested_jobs, nested_out)]
    pbad = core.coq_eval_cases("C03", "npub", LOOP_IMPORTS, "pubw_case", pcases, "run_cases chk_pubw", chunk=400)
    pub_nodes = sum(len(o["pub"]) for o in nested_out if o.get("pub") is not None)
    pub_concat_ref = sum(1 for e in nested_jobs if concat_with_ref_part(e))
    acc = sum(1 for o in nested_out if o["flats"] is not None)
    run.stream("nested-resolve", len(cases), len({json.dumps(e) for e in nested_jobs if nontrivial_expr(e)}),
               accepted=acc, rejected=len(cases) - acc,
               with_portref=sum(1 for e in nested_jobs if '"pref"' in json.dumps(e)),
               with_bundleref=sum(1 for e in nested_jobs if '"bref"' in json.dumps(e)),
               depth3=sum(1 for e in nested_jobs if expr_size(e) >= 5),
               structure_differs_from_model=len(struct),
               public_width_nodes_compared=pub_nodes, concats_with_unresolved_reference_part=pub_concat_ref,
               rule="non-trivial = at least 3 nodes (nested slice/concat); distinct by expression")
    report(run, "nested", bad, nested_jobs, nested_out, size=lambda e: (expr_size(e), len(json.dumps(e))),
           repro=lambda e: f"build {json.dumps(e)} in a Module, connect it to a port, h.to_proto, read the target")
    report(run, "pubwidth", pbad, nested_jobs, [dict(pub=o.get("pub"), width=o["width"], err=o["err"]) for o in nested_out],
           size=lambda e: (expr_size(e), len(json.dumps(e))),
           repro=lambda e: f"build {json.dumps(e)} in a Module and read .width of every Slice / Concat in it (pre-order) before elaborating: "
                           f"each must be the number of bits selected")
    if pub_concat_ref < (40 if quick else 1000) or pub_nodes < (1500 if quick else 40000):
        run.violation("C03:coverage:pubwidth", f"coverage target missed: {pub_concat_ref} expressions with a Concat that has an unresolved reference part, "
                      f"{pub_nodes} public widths compared", dict(kind="coverage"), found_input=False)
    run.sample(dict(stream="nested", case=nested_jobs[-1], impl=nested_out[-1]))
    n_loop = run_loop(run, tier, seed, W)
    run.coverage["traces_validated_against_impl"] = len(inner_jobs) + len(nested_jobs) + n_loop


def corpus_nested():
    s4 = ["sig", 0, 4]
    return [
        ["sl", s4, ["s", 1, None, 2]],                     # pinned tree: width 1
        ["sl", s4, ["s", 3, 1, -1]],                       # pinned tree: width -2
        ["sl", s4, ["i", -5]],                             # pinned tree: accepted
        ["sl", s4, ["s", 0, 10, None]],                    # pinned tree: width 10
        ["sl", s4, ["s", None, None, -1]],                 # reversed full width
        ["sl", ["sl", s4, ["s", None, None, 2]], ["i", 1]],  # one bit through a strided parent
        ["cat", [["sl", s4, ["i", 0]], ["cat", [["sig", 1, 1], ["sig", 2, 2]]]]],
        ["sl", ["cat", [["sig", 0, 3], ["sl", ["sig", 1, 4], ["s", None, None, -1]]]], ["s", 1, 6, 2]],
        ["sl", ["pref", 0, 4], ["i", -1]],
        ["sl", ["bref", 0, 4], ["s", -3, None, None]],
    ]


def report(run, stream, bad, jobs, outs, size, repro):
    v1 = sorted([i for i, c in bad if c == 1], key=lambda i: size(jobs[i]))
    v2 = sorted([i for i, c in bad if c == 2], key=lambda i: size(jobs[i]))
    for i in v1[:2]:
        run.violation(f"C03:{stream}:{json.dumps(jobs[i])}", f"implementation violates Python sequence semantics on {json.dumps(jobs[i])}: {json.dumps(outs[i])[:300]}",
                      dict(kind="impl-violates-spec", stream=stream, case=jobs[i], impl=outs[i], reproducer=repro(jobs[i]),
                           failing_cases=len(v1)))
    if v2 and not v1:
        i = v2[0]
        run.violation(f"C03:{stream}:tie", f"model and implementation differ on {json.dumps(jobs[i])} (property holds on every explored input)",
                      dict(kind="correspondence-broken", stream=stream, case=jobs[i], impl=outs[i], reproducer=repro(jobs[i]),
                           disagreeing_cases=len(v2), theorem="C03 correspondence stream " + stream), found_input=False)


def concat_with_ref_part(e):
    """some Concat of the expression has a port / bundle reference as a direct part"""
    t = e[0]
    if t == "sl":
        return concat_with_ref_part(e[1])
    if t == "cat":
        return any(p[0] in ("pref", "bref") or concat_with_ref_part(p) for p in e[1])
    return False


# ------------------------------------------------------------------------------------------------
# stream loop: port connections that mention one another's port references (Corr/C03Loop.v)
# ------------------------------------------------------------------------------------------------
def sel_index(r, pw, w):
    """An index selecting exactly w bits out of pw; descending steps about as often as ascending ones."""
    if w == 1 and r.random() < 0.35:
        i = r.randint(0, pw - 1)
        return ["i", i if r.random() < 0.6 else i - pw]
    steps = [s for s in (1, -1, 2, -2, 3, -3) if (w - 1) * abs(s) + 1 <= pw]
    st = r.choices(steps, [3 if s == 1 else 3 if s == -1 else 1 for s in steps])[0]
    span = (w - 1) * abs(st) + 1
    lo = r.randint(0, pw - span)
    if st > 0:
        start, stop = lo, lo + span
        if st > 1 and r.random() < 0.5:
            stop = min(pw, stop + r.randint(0, st - 1))      # the same selection with a later stop
        a = None if start == 0 and r.random() < 0.4 else (start - pw if r.random() < 0.25 and start > 0 else start)
        b = None if stop >= pw and r.random() < 0.4 else (stop - pw if r.random() < 0.25 and stop < pw else stop)
        return ["s", a, b, None if st == 1 and r.random() < 0.6 else st]
    hi = lo + span - 1
    start, stop = hi, lo - 1
    a = None if start == pw - 1 and r.random() < 0.4 else (start - pw if r.random() < 0.3 else start)
    b = None if stop < 0 else (stop - pw if r.random() < 0.3 else stop)
    return ["s", a, b, st]


def gen_wexpr(r, w, depth, sigs, ports, allowed, top=False):
    """An expression of exactly w bits over Signals and the ports of the `allowed` Instances."""
    leaves = [["sig", k, sw] for k, sw in enumerate(sigs)] + [["pref", k, ports[k]] for k in allowed] * 2
    u = r.random()
    if depth > 0 and u < (0.6 if top else 0.3) and w >= 1:
        n = r.choice([1, 2, 2, 3]) if w >= 2 else 1
        n = min(n, w)
        cuts = sorted(r.sample(range(1, w), n - 1)) if n > 1 else []
        widths = [b - a for a, b in zip([0] + cuts, cuts + [w])]
        return ["cat", [gen_wexpr(r, pw, depth - 1, sigs, ports, allowed) for pw in widths]]
    if u < 0.85:
        # a slice of something at least as wide
        wide = [l for l in leaves if l[2] >= w and (l[2] > w or w >= 2)]
        if depth > 0 and (not wide or r.random() < 0.35):
            pw = w + r.randint(0 if w >= 2 else 1, 3)
            parent = gen_wexpr(r, pw, depth - 1, sigs, ports, allowed)
        elif wide:
            parent = r.choice(wide)
            pw = parent[2]
        else:
            parent = None
        if parent is not None:
            return ["sl", parent, sel_index(r, pw, w)]
    exact = [l for l in leaves if l[2] == w]
    if exact:
        return r.choice(exact)
    wide = [l for l in leaves if l[2] > w]
    if wide:
        parent = r.choice(wide)
        return ["sl", parent, sel_index(r, parent[2], w)]
    # nothing wide enough: concatenate
    k = r.randint(1, w - 1)
    return ["cat", [gen_wexpr(r, k, 0, sigs, ports, allowed), gen_wexpr(r, w - k, 0, sigs, ports, allowed)]]


def gen_system(r):
    sigs = [r.choice([1, 2, 3, 4, 4, 5]) for _ in range(r.randint(1, 3))]
    if 1 not in sigs and r.random() < 0.5:
        sigs.append(1)
    n = r.choice([2, 2, 3, 3, 4])
    ports = [r.choice([1, 2, 2, 3, 3, 4]) for _ in range(n)]
    forward = r.random() < 0.3
    conns = []
    for k in range(n):
        allowed = list(range(k)) if forward else list(range(n))
        u = r.random()
        if u < 0.1 or (forward and k == 0 and u < 0.5):
            conns.append(None)
            continue
        same = [j for j in allowed if ports[j] == ports[k] and j != k]
        if u < 0.17 and same:
            conns.append(["pref", r.choice(same), ports[k]])
            continue
        conns.append(gen_wexpr(r, ports[k], r.choice([1, 2, 2, 3]), sigs, ports, allowed, top=True))
    # a port that is connected to nothing and referred to by nobody is a missing connection (an error of another kind)
    for k in range(n):
        if conns[k] is None and not any(c is not None and k in mentions(c) for c in conns):
            conns[k] = gen_wexpr(r, ports[k], 1, sigs, ports, list(range(k)) if forward else list(range(n)), top=True)
    return dict(sigs=sigs, ports=ports, conns=conns)


def malform(r, j):
    """Make one index of one connection select nothing / lie out of range: the system must then be rejected."""
    sites = []
    def walk(e):
        if e[0] == "sl":
            sites.append(e)
            walk(e[1])
        elif e[0] == "cat":
            for p in e[1]:
                walk(p)
    for c in j["conns"]:
        if c is not None:
            walk(c)
    if not sites:
        return False
    e = r.choice(sites)
    pw = lwidth(e[1])
    e[2] = r.choice([["i", pw], ["i", -pw - 1], ["s", 0, 0, None], ["s", 0, 1, 0], ["s", pw - 1, pw - 1, -1]])
    return True


def lwidth(e):
    t = e[0]
    if t in ("sig", "pref"):
        return e[2]
    if t == "cat":
        return sum(lwidth(p) for p in e[1])
    ix = e[2]
    return 1 if ix[0] == "i" else len(range(lwidth(e[1]))[slice(ix[1], ix[2], ix[3])])


def leaf_id(e):
    return e[1] if e[0] == "sig" else 100 + e[1]


def py_bits(e):
    """Python's own list semantics on lists of atoms (leaf id, bit)."""
    t = e[0]
    if t in ("sig", "pref"):
        return [(leaf_id(e), b) for b in range(e[2])]
    if t == "cat":
        return [b for p in e[1] for b in py_bits(p)]
    l = py_bits(e[1])
    ix = e[2]
    if ix[0] == "i":
        if not -len(l) <= ix[1] < len(l):
            raise IndexError
        return [l[ix[1]]]
    out = l[slice(ix[1], ix[2], ix[3])]
    if not out:
        raise IndexError
    return out


def oracle(j):
    """Per connected port, per bit: the Signal bit it stands for, or None when it goes round forever."""
    try:
        src = {100 + k: py_bits(e) for k, e in enumerate(j["conns"]) if e is not None}
    except (IndexError, ValueError):
        return None
    out = []
    for pid in sorted(src):
        row = []
        for a in src[pid]:
            seen = set()
            while a[0] in src and a not in seen:
                seen.add(a)
                a = src[a[0]][a[1]]
            row.append(None if a[0] in src else list(a))
        out.append(row)
    return out


def mentions(e):
    t = e[0]
    if t == "pref":
        return {e[1]}
    if t == "sl":
        return mentions(e[1])
    if t == "cat":
        return set().union(*[mentions(p) for p in e[1]]) if e[1] else set()
    return set()


def desc_over_ref(e):
    """a descending slice with a port reference somewhere below it"""
    t = e[0]
    if t == "sl":
        ix = e[2]
        if ix[0] == "s" and ix[3] is not None and ix[3] < 0 and mentions(e[1]):
            return True
        return desc_over_ref(e[1])
    if t == "cat":
        return any(desc_over_ref(p) for p in e[1])
    return False


def system_shape(j):
    conns = j["conns"]
    dep = {k: {m for m in mentions(e) if conns[m] is not None} for k, e in enumerate(conns) if e is not None}
    def reach(k):
        seen, todo = set(), list(dep[k])
        while todo:
            m = todo.pop()
            if m not in seen:
                seen.add(m)
                todo.extend(dep[m])
        return seen
    reachable = {k: reach(k) for k in dep}
    on_loop = {k for k in dep if k in reachable[k]}
    to_loop = {k for k in dep if k in on_loop or reachable[k] & on_loop}
    # `untie_source_loops` only rewrites Slice / Concat sources from which a loop is reached
    untied = {k for k in to_loop if conns[k][0] in ("sl", "cat")}
    return dict(loop=bool(on_loop), nested=any(e is not None and e[0] != "pref" and mentions(e) for e in conns),
                desc_in_loop=any(desc_over_ref(conns[k]) for k in untied),
                desc_acyclic=any(desc_over_ref(conns[k]) for k in dep if k not in to_loop))


def c_lsx(e):
    t = e[0]
    if t in ("sig", "pref"):
        return f"(XSig {leaf_id(e)}%N {cz(e[2])})"
    if t == "sl":
        return f"(XSlice {c_lsx(e[1])} {c_index(e[2])})"
    return f"(XConcat {clist(e[1], c_lsx)})"


def loop_corpus():
    s = lambda k, w: ["sig", k, w]
    p = lambda k, w: ["pref", k, w]
    sl = lambda e, a, b, st=None: ["sl", e, ["s", a, b, st]]
    bit = lambda e, i: ["sl", e, ["i", i]]
    return [
        # a descending slice of a port reference inside sources that refer to one another (seeded change C03r4-C)
        dict(sigs=[4, 4], ports=[3, 3], conns=[["cat", [bit(s(0, 4), 0), sl(p(1, 3), 1, None, -1)]], ["cat", [sl(s(1, 4), 0, 2), bit(p(0, 3), 0)]]]),
        # descending and strided, of a slice of the reference
        dict(sigs=[4, 4], ports=[4, 4], conns=[["cat", [bit(s(0, 4), 3), sl(sl(p(1, 4), 0, 3), None, None, -2), bit(s(0, 4), 1)]],
                                                ["cat", [sl(s(1, 4), 0, 3), bit(p(0, 4), 0)]]]),
        # the loop of fixes/C01F-1: bit 0 of both ports goes round
        dict(sigs=[1], ports=[2, 2], conns=[["cat", [bit(p(1, 2), 0), s(0, 1)]], ["cat", [bit(p(0, 2), 0), s(0, 1)]]]),
        # a reversed ring: the two bits of both ports go round two different loops ... or one, crossing over
        dict(sigs=[1], ports=[2, 2], conns=[sl(p(1, 2), None, None, -1), ["cat", [bit(p(0, 2), 0), bit(p(0, 2), 1)]]]),
        # a port that mentions itself, reversed: bit 0 is bit 1 is bit 0
        dict(sigs=[1], ports=[2], conns=[sl(p(0, 2), None, None, -1)]),
        # the same descending slice without the mutual reference
        dict(sigs=[4, 4], ports=[3, 3], conns=[["cat", [bit(s(0, 4), 0), sl(p(1, 3), 1, None, -1)]], sl(s(1, 4), 0, 3)]),
        # an unconnected port, referred to inside a descending strided slice
        dict(sigs=[2], ports=[4, 2], conns=[None, sl(p(0, 4), -1, None, -2)]),
    ]


def run_loop(run, tier, seed, W):
    quick = tier == "quick"
    n_sys = 420 if quick else 6000
    jobs = loop_corpus()
    n_corpus = len(jobs)
    k = malformed = 0
    while len(jobs) < n_sys:
        r = core.rng(seed, "C03", "loop", k)
        k += 1
        j = gen_system(r)
        if all(c is None for c in j["conns"]):
            continue
        if r.random() < 0.06:
            if not malform(r, j):
                continue
            malformed += 1
        jobs.append(j)
    outs = core.run_worker_sharded("c03", jobs, common=dict(kind="loop"))
    oracles = [oracle(j) for j in jobs]

    def c_env(j):
        return clist([(100 + k, e) for k, e in enumerate(j["conns"]) if e is not None], lambda p: f"({p[0]}%N, {c_lsx(p[1])})")
    def c_obs(o):
        if o["ports"] is None:
            return "None"
        return "(Some " + clist(o["ports"], lambda p: f"({copt(p[0])}, {clist(p[1], c_flat)})") + ")"
    def c_or(orc):
        if orc is None:
            return "[]"
        return clist(orc, lambda row: clist(row, lambda b: "None" if b is None else f"(Some ({b[0]}%N, {cz(b[1])}))"))
    cases = [f"({c_env(j)}, {c_obs(o)}, {c_or(orc)})" for j, o, orc in zip(jobs, outs, oracles)]
    bad = core.coq_eval_cases("C03", "loop", LOOP_IMPORTS, "loop_case", cases, "run_cases chk_loop", chunk=100)
    shapes = [system_shape(j) if orc is not None else dict(loop=False, nested=False, desc_in_loop=False, desc_acyclic=False)
              for j, orc in zip(jobs, oracles)]
    cnt = lambda f: sum(1 for sh in shapes if sh[f])
    rounds = sum(1 for orc in oracles if orc is not None and any(b is None for row in orc for b in row))
    acc = sum(1 for o in outs if o["ports"] is not None)
    bits = sum(len(row) for orc in oracles if orc is not None for row in orc)
    run.stream("reference-loops", len(cases), len({json.dumps(j) for j, sh in zip(jobs, shapes) if sh["nested"]}),
               corpus=n_corpus, accepted=acc, rejected=len(cases) - acc, malformed=malformed,
               rejected_valid=sum(1 for o, orc in zip(outs, oracles) if o["ports"] is None and orc is not None),
               sources_in_a_loop=cnt("loop"), descending_slice_over_reference_in_untied_source=cnt("desc_in_loop"),
               descending_slice_over_reference_acyclic=cnt("desc_acyclic"), with_bits_going_round=rounds, port_bits_compared=bits,
               rule="non-trivial = a port reference below a slice or concatenation in some connection; distinct by system",
               compared="per connected port: public width before elaboration; after h.to_proto every bit of the connection target against "
                        "Python's list selection followed across the references (Coq specification, cross-checked with a Python-list oracle) "
                        "and against the model of the bit walker of untie_source_loops; every named slice inside its signal")
    report(run, "loop", bad, jobs, outs, size=lambda j: (len(json.dumps(j)),),
           repro=lambda j: f"Signals s<k> of widths {j['sigs']}, Instances i<k> with one port `a` of widths {j['ports']}, connections {json.dumps(j['conns'])} "
                           f"(['pref',k,w] = i<k>.a); h.to_proto and read the bits of every connection target")
    lo = dict(loop=60, desc_in_loop=25, desc_acyclic=15) if quick else dict(loop=900, desc_in_loop=400, desc_acyclic=250)
    missed = [f"{f}={cnt(f)}<{v}" for f, v in lo.items() if cnt(f) < v]
    if rounds < (15 if quick else 250):
        missed.append(f"rounds={rounds}")
    if missed:
        run.violation("C03:coverage:loop", "coverage target missed in stream reference-loops: " + ", ".join(missed),
                      dict(kind="coverage"), found_input=False)
    run.sample(dict(stream="loop", case=jobs[-1], impl=outs[-1], oracle=oracles[-1]))
    return len(jobs)
