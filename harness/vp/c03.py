"""C03 — indexing and concatenation follow Python sequence semantics (DESIGN.md 6.1)."""
import json, itertools
from . import core
from .core import cz, copt, clist

IMPORTS = "Require Import Hdl21.Base.PyInt Hdl21.Spec.PySlice Hdl21.Model.Slice Hdl21.Model.Resolve Hdl21.Corr.C03."


def c_index(ix):
    if ix[0] == "i":
        return f"(Idx {cz(ix[1])})"
    return f"(Sl {copt(ix[1])} {copt(ix[2])} {copt(ix[3])})"


def c_sx(e):
    t = e[0]
    if t in ("sig", "pref", "bref"):
        return f"(XSig {e[1]}%N {cz(e[2])})"
    if t == "sl":
        return f"(XSlice {c_sx(e[1])} {c_index(e[2])})"
    if t == "cat":
        return f"(XConcat {clist(e[1], c_sx)})"
    raise ValueError(t)


def c_flat(f):
    if f[0] == "sig":
        return f"(FSig {f[1]}%N {cz(f[2])})"
    return f"(FSl {f[1]}%N {cz(f[2])} {cz(f[3])} {cz(f[4])})"


def index_box(W):
    vals = [None] + list(range(-2 * W, 2 * W + 1))
    steps = [None] + [s for s in range(-W, W + 1) if s != 0]
    out = [["i", i] for i in range(-2 * W, 2 * W + 1)]
    out += [["s", a, b, st] for a in vals for b in vals for st in steps]
    out += [["s", a, b, 0] for a in (None, 0) for b in (None, 1)]
    return out


def gen_expr(r, depth, W, ids):
    """Random sliceable expression; leaves get fresh ids."""
    if depth == 0 or r.random() < 0.25:
        k = len(ids)
        w = r.choice([1, 1, 2, 3, 4, W, r.randint(1, W)])
        kind = r.choices(["sig", "pref", "bref"], [6, 2, 2])[0]
        ids.append((kind, w))
        return [kind, k, w]
    if r.random() < 0.6:
        p = gen_expr(r, depth - 1, W, ids)
        pw = approx_width(p)
        return ["sl", p, gen_index(r, max(pw, 1))]
    n = r.choice([1, 2, 2, 3])
    return ["cat", [gen_expr(r, depth - 1, W, ids) for _ in range(n)]]


def approx_width(e):
    t = e[0]
    if t in ("sig", "pref", "bref"):
        return e[2]
    if t == "cat":
        return sum(approx_width(p) for p in e[1])
    ix = e[2]
    w = approx_width(e[1])
    if ix[0] == "i":
        return 1
    try:
        return max(1, len(range(w)[slice(ix[1], ix[2], ix[3])]))
    except ValueError:
        return 1


def gen_index(r, w):
    """Mostly valid indices into width w (about 85%); the rest out of range / empty / beyond bounds / zero step."""
    u = r.random()
    if u < 0.2:
        return ["i", r.randint(-w, w - 1)]
    if u < 0.25:
        return ["i", r.choice([w, -w - 1, 2 * w, -2 * w])]
    if u < 0.85:
        # a valid, non-empty slice written in a random style (negative / None / explicit bounds)
        st = r.choice([1, 1, 1, -1, -1, 2, -2, 3, -3])
        first = r.randint(0, w - 1)
        n = r.randint(1, max(1, (w - first + abs(st) - 1) // abs(st) if st > 0 else (first + abs(st)) // abs(st)))
        last = first + (n - 1) * st
        stop = last + (1 if st > 0 else -1)
        def style(v, is_stop):
            if is_stop and st < 0 and v < 0:
                return None            # stop before index 0 can only be written as None
            c = r.random()
            if c < 0.25 and ((not is_stop and ((st > 0 and v == 0) or (st < 0 and v == w - 1))) or (is_stop and st > 0 and v == w)):
                return None
            if c < 0.55 and v - w < 0 and v - w >= -w:
                return v - w if not (is_stop and st > 0 and v == w) else v
            return v
        # widen the stop within the same selection sometimes
        a, b = style(first, False), style(stop, True)
        return ["s", a, b, r.choice([None, 1]) if st == 1 else st]
    def bound():
        v = r.random()
        if v < 0.3:
            return None
        if v < 0.8:
            return r.randint(-w, w)
        return r.randint(-2 * w - 1, 2 * w + 1)
    st = r.choice([None, 1, -1, 2, -2, 3, -3])
    if r.random() < 0.1:
        st = 0
    return ["s", bound(), bound(), st]


def expr_size(e):
    t = e[0]
    if t in ("sig", "pref", "bref"):
        return 1
    if t == "sl":
        return 1 + expr_size(e[1])
    return 1 + sum(expr_size(p) for p in e[1])


def nontrivial_expr(e):
    return expr_size(e) >= 3


def run(run, tier, seed, replay=None):
    quick = tier == "quick"
    W = 4 if quick else 6
    # ------------------------------------------------------------------ stream spec
    box = [ix for ix in index_box(W) if ix[0] == "s" and ix[3] != 0]
    spec_jobs = [[w, ix[1], ix[2], ix[3] if ix[3] is not None else 1] for w in range(0, W + 1) for ix in box]
    spec_out = core.run_worker_sharded("c03", spec_jobs, common=dict(kind="spec"))
    cases = [f"({cz(j[0])}, {copt(j[1])}, {copt(j[2])}, {cz(j[3])}, {clist(o, cz)})" for j, o in zip(spec_jobs, spec_out)]
    bad = core.coq_eval_cases("C03", "spec", IMPORTS, "spec_case", cases, "run_cases chk_spec", chunk=1500)
    run.stream("spec-vs-cpython", len(cases), len(set(map(str, spec_out))), exhaustive=True,
               box=f"w in 0..{W}, start/stop in [-{2*W},{2*W}] or None, step in +-1..+-{W}")
    for i, code in bad[:1]:
        run.violation("C03:spec-validation", f"py_indices disagrees with CPython on {spec_jobs[i]}",
                      dict(kind="spec-validation", stream="spec", case=spec_jobs[i], cpython=spec_out[i]), found_input=False)
    run.sample(dict(stream="spec", case=spec_jobs[len(spec_jobs) // 2], cpython=spec_out[len(spec_jobs) // 2]))

    # ------------------------------------------------------------------ stream inner
    full_box = index_box(W)
    inner_jobs = [["sig", w, ix] for w in range(1, W + 1) for ix in full_box]
    r = core.rng(seed, "C03", "inner")
    n_other = 300 if quick else 3000
    for kind in ("slice", "rslice", "concat", "portref", "bundleref"):
        for _ in range(n_other):
            w = r.randint(1, W)
            inner_jobs.append([kind, w, r.choice(full_box) if r.random() < 0.5 else gen_index(r, w)])
    inner_out = core.run_worker_sharded("c03", inner_jobs, common=dict(kind="inner"))

    def c_impl(o):
        return "IRej" if o[0] == "rej" else f"(IAcc {cz(o[1])} {cz(o[2])} {cz(o[3])} {cz(o[4])})"
    cases = [f"({cz(j[1])}, {c_index(j[2])}, {c_impl(o)})" for j, o in zip(inner_jobs, inner_out)]
    bad = core.coq_eval_cases("C03", "inner", IMPORTS, "Z * index * impl_inner", cases, "run_cases chk_inner", chunk=1500)
    nontriv = len({json.dumps(j) for j, o in zip(inner_jobs, inner_out) if o[0] == "rej" or o[4] >= 2})
    run.stream("slice-inner", len(cases), nontriv, exhaustive_on_signals=True,
               kinds={k: sum(1 for j in inner_jobs if j[0] == k) for k in ("sig", "slice", "rslice", "concat", "portref", "bundleref")},
               rejected=sum(1 for o in inner_out if o[0] == "rej"),
               rule="non-trivial = rejected or selects >= 2 bits; distinct by (parent kind, width, index)")
    report(run, "inner", bad, inner_jobs, inner_out, size=lambda j: (j[1], len(json.dumps(j))),
           repro=lambda j: f"parent of kind {j[0]} and width {j[1]}; index {j[2]}: compare Slice.top/bot/step/width with list(range({j[1]}))[...]")
    run.sample(dict(stream="inner", case=inner_jobs[37], impl=inner_out[37]))

    # ------------------------------------------------------------------ stream nested
    n_nested = 1200 if quick else 30000
    nested_jobs = corpus_nested()
    k = 0
    while len(nested_jobs) < n_nested:
        rr = core.rng(seed, "C03", "nested", k)
        k += 1
        e = gen_expr(rr, rr.choice([1, 2, 2, 3, 3]), W, [])
        if expr_size(e) >= 2:
            nested_jobs.append(e)
    nested_out = core.run_worker_sharded("c03", nested_jobs, common=dict(kind="nested"))

    def c_case(e, o):
        fl = "None" if o["flats"] is None else f"(Some {clist(o['flats'], c_flat)})"
        return f"({c_sx(e)}, {copt(o['width'])}, {fl})"
    cases = [c_case(e, o) for e, o in zip(nested_jobs, nested_out)]
    bad = core.coq_eval_cases("C03", "nested", IMPORTS, "nested_case", cases, "run_cases chk_nested", chunk=400)
    struct = core.coq_eval_cases("C03", "nstruct", IMPORTS, "nested_case", cases, "run_cases chk_structure", chunk=400)
    acc = sum(1 for o in nested_out if o["flats"] is not None)
    run.stream("nested-resolve", len(cases), len({json.dumps(e) for e in nested_jobs if nontrivial_expr(e)}),
               accepted=acc, rejected=len(cases) - acc,
               with_portref=sum(1 for e in nested_jobs if '"pref"' in json.dumps(e)),
               with_bundleref=sum(1 for e in nested_jobs if '"bref"' in json.dumps(e)),
               depth3=sum(1 for e in nested_jobs if expr_size(e) >= 5),
               structure_differs_from_model=len(struct),
               rule="non-trivial = at least 3 nodes (nested slice/concat); distinct by expression")
    report(run, "nested", bad, nested_jobs, nested_out, size=lambda e: (expr_size(e), len(json.dumps(e))),
           repro=lambda e: f"build {json.dumps(e)} in a Module, connect it to a port, h.to_proto, read the target")
    run.sample(dict(stream="nested", case=nested_jobs[-1], impl=nested_out[-1]))
    run.coverage["traces_validated_against_impl"] = len(inner_jobs) + len(nested_jobs)


def corpus_nested():
    s4 = ["sig", 0, 4]
    return [
        ["sl", s4, ["s", 1, None, 2]],                     # pinned tree: width 1
        ["sl", s4, ["s", 3, 1, -1]],                       # pinned tree: width -2
        ["sl", s4, ["i", -5]],                             # pinned tree: accepted
        ["sl", s4, ["s", 0, 10, None]],                    # pinned tree: width 10
        ["sl", s4, ["s", None, None, -1]],                 # reversed full width
        ["sl", ["sl", s4, ["s", None, None, 2]], ["i", 1]],  # one bit through a strided parent
        ["cat", [["sl", s4, ["i", 0]], ["cat", [["sig", 1, 1], ["sig", 2, 2]]]]],
        ["sl", ["cat", [["sig", 0, 3], ["sl", ["sig", 1, 4], ["s", None, None, -1]]]], ["s", 1, 6, 2]],
        ["sl", ["pref", 0, 4], ["i", -1]],
        ["sl", ["bref", 0, 4], ["s", -3, None, None]],
    ]


def report(run, stream, bad, jobs, outs, size, repro):
    v1 = sorted([i for i, c in bad if c == 1], key=lambda i: size(jobs[i]))
    v2 = sorted([i for i, c in bad if c == 2], key=lambda i: size(jobs[i]))
    for i in v1[:2]:
        run.violation(f"C03:{stream}:{json.dumps(jobs[i])}", f"implementation violates Python sequence semantics on {json.dumps(jobs[i])}: {json.dumps(outs[i])[:300]}",
                      dict(kind="impl-violates-spec", stream=stream, case=jobs[i], impl=outs[i], reproducer=repro(jobs[i]),
                           failing_cases=len(v1)))
    if v2 and not v1:
        i = v2[0]
        run.violation(f"C03:{stream}:tie", f"model and implementation differ on {json.dumps(jobs[i])} (property holds on every explored input)",
                      dict(kind="correspondence-broken", stream=stream, case=jobs[i], impl=outs[i], reproducer=repro(jobs[i]),
                           disagreeing_cases=len(v2), theorem="C03 correspondence stream " + stream), found_input=False)
