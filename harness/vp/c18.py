"""C18 — module and bundle namespaces stay coherent under any edit sequence (DESIGN.md 6.4).

Every case is an edit history on a fresh hdl21.Module / hdl21.Bundle.  The implementation is observed after EVERY
operation (harness/impl/c18.py); Coq (Corr/C18.v) replays the history through the specification (Spec/Namespace.v)
and the model (Model/Namespace.v) and returns per case 0 | code + 10*(step+1).

Strengthening round: WORLD histories (run_world_streams) - several Modules / Bundles sharing live objects that are created
once and handed to containers again and again (same name, second name, another container, Module <-> Bundle), with
`x.vis = ..` and `x.name = ..` in between; ALL containers are observed after every operation and Coq replays the history
through Spec/C18World.v and Model/C18World.v (Corr/C18.v: chk_world). Coverage targets (W_TARGETS) are measured on what the
implementation accepted and fail closed.

Second strengthening round: Signals in all eight (visibility x direction) flavours (SIGK; `x.direction = ..` as world
operation "dir"), stream exhaustive-signal-flavours, stream class-then-edit (class body with plain data under public names,
then edits re-using those names; Corr/C18.v: chk_class_hist), attribute access on unbound names must find nothing
(Corr/C18.v: ga_ok).  Coverage targets DIR_TARGETS / CH_TARGETS and the new W_TARGETS fail closed.
"""
import json, itertools, time
from . import core
from .core import cz, cstr, clist, cbool

IMPORTS = ("Require Import Hdl21.Base.PyInt Hdl21.Spec.Namespace Hdl21.Model.Namespace Hdl21.Spec.C18World Hdl21.Corr.C03 Hdl21.Corr.C18.\n"
           "From Coq Require Import String.\nOpen Scope string_scope.")

KIND = dict(port="(KSignal true DNone)", sig="(KSignal false DNone)",
            **{"in": "(KSignal true DInput)"}, out="(KSignal true DOutput)", inout="(KSignal true DInout)",
            sigin="(KSignal false DInput)", sigout="(KSignal false DOutput)", siginout="(KSignal false DInout)", tup="KOther",
            inst="KInstance", arr="KInstArray", ibun="KInstBundle",
            bun="KBundleInst", str="KStr", none="KStr", int="KOther", mod="KOther", gen="KOther", bdef="KOther",
            func="KOther", role="KOther")
HDL_M = ["port", "sig", "inst", "arr", "ibun", "bun"]
HDL_B = ["port", "sig", "bun"]
NONHDL = ["int", "mod", "gen", "bdef", "func", "none", "str", "role"]
# second strengthening round: Signals that carry a direction.  in / out / inout = h.Input() .. (port-visible);
# sigin / sigout / siginout = h.Signal(direction=PortDir.X): INTERNAL visibility with a direction (never a port)
DIRECTED_PORT = ["in", "out", "inout"]
DIRECTED_INT = ["sigin", "sigout", "siginout"]
SIGK = ["sig", "port"] + DIRECTED_PORT + DIRECTED_INT
PORTK = ["port"] + DIRECTED_PORT
DIR_OF = dict(sig="none", port="none", sigin="input", sigout="output", siginout="inout", out="output", inout="inout", **{"in": "input"})
ALL_HDL = HDL_M + DIRECTED_PORT + DIRECTED_INT
PLAIN_DATA = ["int", "tup", "str", "func", "none"]


def rand_kinds(ctr):
    """Kinds the seeded streams draw from: every storable kind, Signals in all eight (visibility x direction) flavours."""
    return hdl_kinds(ctr) + DIRECTED_PORT + DIRECTED_INT


def hdl_kinds(ctr):
    return HDL_M if ctr == "module" else HDL_B


# ------------------------------------------------------------------------------------------ Coq printers
def c_name_opt(n):
    return "None" if n is None else f"(Some {cstr(n)})"


def c_val(k, spec):
    return f"(V {k} {KIND[spec[0]]} {c_name_opt(spec[1])})"


def c_op(k, op):
    if op[0] == "set":
        return f"(SetAttr {cstr(op[1])} {c_val(k, op[2])})"
    if op[0] == "add":
        return f"(Add {c_val(k, op[1])} {c_name_opt(op[2])})"
    if op[0] == "del":
        return f"(Del {cstr(op[1])})"
    return "Elaborate"


def c_obs(o):
    if o is None or "broken" in o:
        return "None"
    ns = clist(o["ns"], lambda e: f"({cstr(e[0])}, {cz(e[1])}, {cz(e[2])}, {cbool(e[3])}, {cbool(e[4])})")
    views = clist(o["views"], lambda v: clist(v, lambda e: f"({cstr(e[0])}, {cz(e[1])})"))
    gets = clist(o["gets"], lambda e: f"({cstr(e[0])}, {cz(e[1])}, {cz(e[2])})")
    return f"(Some (O {ns} {views} {gets}))"


def c_export(e):
    if e is None or "err" in e:
        return "None"
    f = lambda xs: clist(xs, cstr)
    return f"(Some (E {f(e['sigs'])} {f(e['ports'])} {f(e['insts'])} {f(e['derived'])}))"


def printable(job, out):
    for s in out["steps"]:
        o = s["obs"]
        if "broken" in o:
            continue
        for e in o["ns"]:
            if not all(32 <= ord(ch) < 127 for ch in e[0]):
                return False
    return True


def c_history(job, out):
    ctr = "CModule" if job["ctr"] == "module" else "CBundle"
    steps = [f"IS {c_op(k, op)} {cbool(s['acc'])} {c_obs(s['obs'])}" for k, (op, s) in enumerate(zip(job["ops"], out["steps"]))]
    return f"({ctr}, {clist(job['names'], cstr)}, {clist(steps)}, {c_export(out.get('export'))})"


def c_class(job, out):
    ctr = "CModule" if job["ctr"] == "module" else "CBundle"
    items = clist(list(enumerate(job["items"])), lambda e: f"({cstr(e[1][0])}, {c_val(e[0], e[1][1])})")
    r = out["cls"]
    return f"({ctr}, {items}, {cbool(r['acc'])}, {c_obs(r.get('obs'))})"


# ------------------------------------------------------------------------------------------ evaluation
def truncate_failed_elab(job, out):
    """Elaboration that fails is not an edit C18 talks about: cut the history there (counted by the caller)."""
    for k, (op, s) in enumerate(zip(job["ops"], out["steps"])):
        if op[0] == "elab" and not s["acc"]:
            j = dict(job, ops=job["ops"][:k])
            o = dict(out, steps=out["steps"][:k])
            o.pop("export", None)
            return j, o, True
    return job, out, False


def evaluate(tag, jobs, chunk=300):
    """Run histories on the implementation and inside Coq. Returns (jobs', outs', {index: (code, step)}, n_elab_failed)."""
    outs = core.run_worker_sharded("c18", jobs, common=dict(kind="history"))
    jj, oo, nfail = [], [], 0
    for j, o in zip(jobs, outs):
        j2, o2, cut = truncate_failed_elab(j, o)
        nfail += cut
        jj.append(j2)
        oo.append(o2)
    cases = [c_history(j, o) for j, o in zip(jj, oo)]
    bad = core.coq_eval_cases("C18", tag, IMPORTS, "hcase", cases, "run_cases chk_history", chunk=chunk)
    res = {i: (r % 10, r // 10 - 1) for i, r in bad}
    return jj, oo, res, nfail


def shrink(job, rounds=3):
    """Greedy one-op-at-a-time deletion keeping a code-1 verdict (re-running implementation and Coq)."""
    cur = job
    for _ in range(rounds):
        cands = []
        for k in range(len(cur["ops"]) - 1):
            cands.append(dict(cur, ops=cur["ops"][:k] + cur["ops"][k + 1:]))
        if not cands:
            break
        jj, oo, res, _ = evaluate("shrink", cands)
        better = [(len(jj[i]["ops"]), i) for i, (c, st) in res.items() if c == 1]
        if not better:
            break
        i = min(better)[1]
        st = res[i][1]
        cur = dict(jj[i], ops=jj[i]["ops"][:min(st, len(jj[i]["ops"]) - 1) + 1])
    return cur


def py_repro(job):
    """A python one-liner-ish reproducer of a history."""
    mk = dict(out="h.Output({})", inout="h.Inout({})", sigin="h.Signal(direction=h.PortDir.INPUT{})", sigout="h.Signal(direction=h.PortDir.OUTPUT{})",
              siginout="h.Signal(direction=h.PortDir.INOUT{})", tup="('a', 'b')", **{"in": "h.Input({})"},
              port="h.Port({})", sig="h.Signal({})", inst="h.Instance(of=Leaf{})", arr="h.InstanceArray(of=Leaf, n=2{})",
              ibun="h.Pair(of=Leaf{})", bun="h.BundleInstance(of=Sub{})", str="'Renamed'", none="None", int="7",
              mod="h.Module(name='X')", gen="SomeGenerator", bdef="Sub", func="(lambda: None)", role="h.Role(name='Host')")
    def val(s):
        t = mk[s[0]]
        if "{}" not in t:
            return t
        if s[1] is None:
            return t.format("")
        arg = f"name={s[1]!r}"
        return t.format(arg if t.endswith("({})") else ", " + arg)
    c = "m"
    lines = ["import hdl21 as h", "Leaf = h.Module(name='Leaf'); Sub = h.Bundle(name='Sub'); Sub.x = h.Signal()",
             f"{c} = h.Module(name='Edited')" if job["ctr"] == "module" else f"{c} = h.Bundle(name='Edited')"]
    for op in job["ops"]:
        if op[0] == "set":
            lines.append(f"setattr({c}, {op[1]!r}, {val(op[2])})")
        elif op[0] == "add":
            lines.append(f"{c}.add({val(op[1])}" + ("" if op[2] is None else f", name={op[2]!r}") + ")")
        elif op[0] == "del":
            lines.append(f"delattr({c}, {op[1]!r})")
        else:
            lines.append(f"h.elaborate({c})")
    views = "m.ports, m.signals, m.instances, m.instarrays, m.instbundles, m.bundles" if job["ctr"] == "module" else "m.signals, m.bundles"
    lines.append(f"print(m.namespace, {views})")
    return "; ".join(lines)


def report(run, stream, jobs, outs, res, do_shrink=True, limit=2, keep_order=False):
    v1 = sorted([i for i, (c, st) in res.items() if c == 1],
                key=(lambda i: i) if keep_order else (lambda i: (res[i][1], len(json.dumps(jobs[i]["ops"])))))
    v2 = sorted([i for i, (c, st) in res.items() if c == 2], key=lambda i: (res[i][1], len(json.dumps(jobs[i]["ops"]))))
    seen = set()
    for i in v1[:40]:
        if len(seen) >= limit:
            break
        st = res[i][1]
        job = dict(jobs[i], ops=jobs[i]["ops"][:st + 1]) if st < len(jobs[i]["ops"]) else jobs[i]
        if do_shrink and len(job["ops"]) > 1:
            try:
                job = shrink(job)
            except Exception as e:        # shrinking is a convenience only
                core.log(f"  (shrink failed: {e})")
        key = f"C18:{job['ctr']}:{json.dumps(job['ops'])}"
        if key in seen:
            continue
        seen.add(key)
        what = "final exported package disagrees with the namespace" if st >= len(jobs[i]["ops"]) else \
            "after its last operation the container is not the coherent map the edits denote (or acceptance is wrong)"
        run.violation(key, f"{job['ctr']} history {json.dumps(job['ops'])}: {what}",
                      dict(kind="impl-violates-spec", stream=stream, case=job, failing_step=st,
                           impl=outs[i]["steps"][min(st, len(outs[i]["steps"]) - 1)] if outs[i]["steps"] else None,
                           export=outs[i].get("export"), reproducer=py_repro(job), failing_cases=len(v1)))
    if v2 and not v1:
        i = v2[0]
        st = res[i][1]
        run.violation(f"C18:{stream}:tie", f"model and implementation differ at step {st} of {json.dumps(jobs[i]['ops'])} "
                      "(acceptance or key order; the specification holds on every explored history)",
                      dict(kind="correspondence-broken", stream=stream, case=jobs[i], failing_step=st,
                           impl=outs[i]["steps"][min(st, len(outs[i]["steps"]) - 1)], reproducer=py_repro(jobs[i]),
                           disagreeing_cases=len(v2), theorem="C18 correspondence stream " + stream), found_input=False)


# ------------------------------------------------------------------------------------------ generators
def mk_job(ctr, ops, names, export=True):
    return dict(ctr=ctr, ops=ops, names=names, export=export)


def corpus():
    S, P, I, A, G, B = (["sig", None], ["port", None], ["inst", None], ["arr", None], ["ibun", None], ["bun", None])
    nm = ["a", "b"]
    mods = [
        [["set", "a", S], ["set", "a", I]],                        # DESIGN 7 #29: x stays in signals, both exported (fix C18-1)
        [["add", ["sig", "ports"], None]],                         # reserved name through add() (fix C18-2)
        [["set", "a", S], ["set", "a", P]],                        # signal -> port: listed in both
        [["set", "a", P], ["set", "a", S]],
        [["set", "a", A], ["set", "a", I]],
        [["set", "a", I], ["set", "a", G]],
        [["set", "a", B], ["set", "a", S]],
        [["add", ["inst", "a"], None], ["add", ["sig", None], "a"]],
        [["set", "a", S], ["set", "b", I], ["set", "a", I], ["set", "b", S]],   # order after a swap of kinds
        [["set", "a", S], ["set", "a", S]],                        # same kind: plain overwrite
        [["add", ["sig", None], "name"]],
        [["set", "bundle_ports", S]],
        [["set", "name", S]],                                      # an HDL object as the Module's name
        [["set", "a", S], ["elab"], ["set", "b", S], ["add", ["sig", "b"], None], ["set", "a", I]],
        [["set", "a", S], ["del", "a"], ["del", "ports"]],
        [["set", "a", ["int", None]], ["set", "a", ["mod", None]], ["set", "a", ["gen", None]], ["add", ["func", None], "a"]],
        [["add", ["sig", "a"], "b"], ["add", ["sig", None], None]],
        [["set", "_t", S], ["set", "a", S], ["set", "name", ["str", None]], ["set", "name", ["none", None]]],
        # seeded change C18r4-B: INTERNAL signals that carry a direction are signals, never ports (setattr, add, re-use of a port's name)
        [["set", "a", ["sigin", None]], ["set", "b", ["in", None]]],
        [["add", ["sigout", "a"], None], ["add", ["siginout", None], "b"]],
        [["set", "a", ["out", None]], ["add", ["sigout", None], "a"]],
        [["set", "a", ["sigin", None]], ["set", "a", ["inout", None]], ["set", "a", ["siginout", None]], ["elab"]],
    ]
    buns = [
        [["set", "a", S], ["set", "a", B]],                        # same defect in Bundle._add
        [["set", "a", B], ["set", "a", P]],
        [["set", "get", S]],                                       # Bundle._banned missed get/add/props/Roles
        [["set", "props", S]],
        [["set", "Roles", S]],
        [["add", ["sig", "signals"], None]],
        [["add", ["sig", None], "roles"]],
        [["add", ["sig", None], "name"]],
        [["set", "name", S]],
        [["set", "a", S], ["del", "a"], ["del", "name"]],
        [["set", "a", I], ["set", "a", ["int", None]], ["set", "roles", S]],
        [["set", "a", ["sigin", None]], ["add", ["out", "a"], None], ["add", ["siginout", None], "b"]],
    ]
    allm = nm + ["ports", "name", "bundle_ports", "_t"]
    allb = nm + ["get", "props", "Roles", "roles", "signals", "name"]
    first = [mk_job("module", mods[0], allm), mk_job("module", mods[1], allm),
             mk_job("bundle", [["set", "a", S], ["del", "signals"]], allb)]            # Bundle had no __delattr__ (fix C18-3)
    return first + [mk_job("module", o, allm) for o in mods[2:]] + [mk_job("bundle", o, allb) for o in buns]


def small_ops(ctr, names):
    ops = []
    for n in names:
        for k in hdl_kinds(ctr):
            ops.append(["set", n, [k, None]])
            ops.append(["add", [k, n], None])
    return ops


def exhaustive(ctr, names, maxlen):
    ops = small_ops(ctr, names)
    jobs = []
    for L in range(1, maxlen + 1):
        for seq in itertools.product(ops, repeat=L):
            jobs.append(mk_job(ctr, [list(o) for o in seq], names))
    return jobs, len(ops)


def gen_random(r, ctr, plain, special, maxlen, p_valid):
    """Structured random history: mostly valid edits over few names; the rest are the rejected forms."""
    n = r.randint(2, maxlen)
    ops = []
    elab_at = r.randint(1, n) if (ctr == "module" and r.random() < 0.3) else None
    for k in range(n):
        if elab_at == k:
            ops.append(["elab"])
            continue
        u = r.random()
        if u < p_valid:
            nm = r.choice(plain)
            kind = r.choice(rand_kinds(ctr))
            form = r.random()
            if form < 0.5:
                ops.append(["set", nm, [kind, r.choice([None, None, r.choice(plain)])]])   # own name is overwritten
            elif form < 0.75:
                ops.append(["add", [kind, nm], None])
            else:
                ops.append(["add", [kind, None], nm])
        else:
            w = r.random()
            nm = r.choice(plain + special)
            if w < 0.3:
                ops.append(["set", r.choice(special), [r.choice(rand_kinds(ctr)), None]])
            elif w < 0.45:
                kind = r.choice(rand_kinds(ctr))
                sp = r.choice([s for s in special if not s.startswith("_")] or special)
                ops.append(["add", [kind, sp], None] if r.random() < 0.5 else ["add", [kind, None], sp])
            elif w < 0.65:
                ops.append(["set", nm, [r.choice(NONHDL + (["inst", "arr", "ibun"] if ctr == "bundle" else [])), None]])
            elif w < 0.75:
                ops.append(["add", [r.choice(NONHDL), None], r.choice(plain)])
            elif w < 0.85:
                ops.append(["del", nm])
            elif w < 0.93:
                kind = r.choice(rand_kinds(ctr))
                ops.append(["add", [kind, r.choice(plain)], r.choice(plain)])            # two names
            else:
                ops.append(["add", [r.choice(rand_kinds(ctr)), None], None])               # anonymous
    return ops


def nontrivial(job):
    """A history is non-trivial when some name is bound at least twice (re-use) or an edit is of a rejected form."""
    seen, reuse = set(), False
    for op in job["ops"]:
        n = op[1] if op[0] in ("set", "del") else (op[2] if op[0] == "add" and op[2] is not None else (op[1][1] if op[0] == "add" else None))
        if n in seen:
            reuse = True
        if n is not None:
            seen.add(n)
    return reuse or any(op[0] in ("del", "elab") for op in job["ops"])


def gen_items(r, ctr, plain, special, p_plain=0.25):
    """A class body: distinct keys in random order; HDL values of every flavour, and plain data (`width = 8`) under PUBLIC names."""
    keys = list(plain)
    r.shuffle(keys)
    keys = keys[:r.randint(1, len(keys))]
    if r.random() < 0.3:                       # mostly valid bodies: one special key in about 30% of them
        keys.insert(r.randint(0, len(keys)), r.choice(special))
    if r.random() < 0.3:
        keys.insert(r.randint(0, len(keys)), "_t")
    keys = list(dict.fromkeys(keys))
    items = []
    for k in keys:
        if r.random() >= p_plain:
            kind = r.choice(rand_kinds(ctr))
        else:
            kind = r.choice(NONHDL + ["tup"] + (["inst"] if ctr == "bundle" else []))
        items.append([k, [kind, None]])
    return items


def gen_class_then_edit(r, ctr, plain, special, maxlen):
    """Class body in which (mostly) some public plain names hold plain data, then edits that prefer exactly those names."""
    items = gen_items(r, ctr, plain, special if r.random() < 0.2 else ["_t"], p_plain=0.5)
    data_names = [k for k, (kind, _) in items if kind in PLAIN_DATA + ["mod", "gen", "bdef", "role"] and k in plain]
    pool = (data_names * 3 + plain) if data_names else plain
    n = r.randint(1, maxlen)
    ops = []
    for _ in range(n):
        u = r.random()
        nm = r.choice(pool)
        kind = r.choice(rand_kinds(ctr))
        if u < 0.45:
            ops.append(["set", nm, [kind, None]])
        elif u < 0.65:
            ops.append(["add", [kind, None], nm])
        elif u < 0.85:
            ops.append(["add", [kind, nm], None])
        elif u < 0.92:
            ops.append(["set", nm, [r.choice(PLAIN_DATA), None]])          # plain data by assignment: rejected
        elif u < 0.96:
            ops.append(["del", nm])
        else:
            ops.append(["set", r.choice(special), [kind, None]])
    return dict(ctr=ctr, items=items, ops=ops, names=plain + special, export=True)


def c_classhist(job, out):
    ctr = "CModule" if job["ctr"] == "module" else "CBundle"
    items = clist(list(enumerate(job["items"])), lambda e: f"({cstr(e[1][0])}, {c_val(e[0], e[1][1])})")
    r = out["cls"]
    base = len(job["items"])
    steps = [f"IS {c_op(base + k, op)} {cbool(st['acc'])} {c_obs(st['obs'])}" for k, (op, st) in enumerate(zip(job["ops"], out["steps"]))]
    return (f"({ctr}, {items}, {cbool(r['acc'])}, {c_obs(r.get('obs'))}, {clist(job['names'], cstr)}, {clist(steps)}, "
            f"{c_export(out.get('export')) if r['acc'] else 'None'})")


def classhist_targets(job, out):
    """Coverage (measured on what the implementation ACCEPTED): a public name the class body gave to plain data is re-used."""
    hit = set()
    if not out["cls"]["acc"]:
        return hit
    data = {k for k, (kind, _) in job["items"] if KIND.get(kind) in ("KOther", "KStr") and not k.startswith("_")}
    if data:
        hit.add(f"class_body_with_public_plain_data_{job['ctr']}")
    for op, st in zip(job["ops"], out["steps"]):
        if not st["acc"]:
            continue
        if op[0] == "set" and op[1] in data:
            hit.add(f"class_plain_data_name_reused_by_setattr_{job['ctr']}")
        if op[0] == "add" and (op[2] if op[2] is not None else op[1][1]) in data:
            hit.add(f"class_plain_data_name_reused_by_add_{job['ctr']}")
    return hit


CH_TARGETS = [f"{t}_{c}" for c in ("module", "bundle") for t in
              ("class_body_with_public_plain_data", "class_plain_data_name_reused_by_setattr", "class_plain_data_name_reused_by_add")]
DIR_TARGETS = [f"internal_directed_signal_stored_by_{p}_{c}" for c in ("module", "bundle") for p in ("setattr", "add", "class_body")]


def dir_targets_history(job, out):
    """Coverage: an INTERNAL signal that carries a direction was ACCEPTED through setattr / add()."""
    hit = set()
    for op, st in zip(job["ops"], out["steps"]):
        if st["acc"] and op[0] == "set" and op[2][0] in DIRECTED_INT and not op[1].startswith("_"):
            hit.add(f"internal_directed_signal_stored_by_setattr_{job['ctr']}")
        if st["acc"] and op[0] == "add" and op[1][0] in DIRECTED_INT:
            hit.add(f"internal_directed_signal_stored_by_add_{job['ctr']}")
    return hit


def dir_targets_class(job, out):
    if out["cls"]["acc"] and any(kind in DIRECTED_INT and not k.startswith("_") for k, (kind, _) in job["items"]):
        return {f"internal_directed_signal_stored_by_class_body_{job['ctr']}"}
    return set()


# ==========================================================================================================
# Strengthening round: WORLD histories - several containers sharing live objects (Spec/C18World.v)
#   job = dict(world=True, ctrs=["module"|"bundle", ...], objs=[[kind, own_name], ...], ops=[...], names=[...], export=k|None)
#   ops : ["set", c, name, x] | ["add", c, x, name|None] | ["vis", x, bool] | ["name", x, name|None] | ["del", c, name] | ["elab", c]
# ==========================================================================================================
def c_cid(job, c):
    return f"({'CModule' if job['ctrs'][c] == 'module' else 'CBundle'}, {c})"


def c_wop(job, op):
    if op[0] == "set":
        return f"(WSet {c_cid(job, op[1])} {cstr(op[2])} {op[3]})"
    if op[0] == "add":
        return f"(WAdd {c_cid(job, op[1])} {op[2]} {c_name_opt(op[3])})"
    if op[0] == "vis":
        return f"(WVis {op[1]} {cbool(op[2])})"
    if op[0] == "dir":
        return f"(WDir {op[1]} {dict(none='DNone', input='DInput', output='DOutput', inout='DInout')[op[2]]})"
    if op[0] == "name":
        return f"(WName {op[1]} {c_name_opt(op[2])})"
    if op[0] == "del":
        return f"(WDel {c_cid(job, op[1])} {cstr(op[2])})"
    return f"(WElab {c_cid(job, op[1])})"


def c_world(job, out):
    cids = clist(range(len(job["ctrs"])), lambda c: c_cid(job, c))
    news = clist(list(enumerate(job["objs"])), lambda e: f"(WNew {e[0]} {KIND[e[1][0]]} {c_name_opt(e[1][1])})")
    steps = [f"WIS {c_wop(job, op)} {cbool(s['acc'])} {clist(s['obs'], c_obs)}" for op, s in zip(job["ops"], out["steps"])]
    ex = out.get("export")
    if ex is None or job.get("export") is None:
        exs = "None"
    else:
        exs = f"(Some ({job['export']}%nat, {c_export(ex)}))"
    return f"({cids}, {clist(job['names'], cstr)}, {news}, {clist(steps)}, {exs})"


def truncate_failed_welab(job, out):
    for k, (op, s) in enumerate(zip(job["ops"], out["steps"])):
        if op[0] == "elab" and not s["acc"]:
            j = dict(job, ops=job["ops"][:k], export=None)
            o = dict(out, steps=out["steps"][:k])
            o.pop("export", None)
            return j, o, True
    return job, out, False


def evaluate_world(tag, jobs, chunk=150):
    outs = core.run_worker_sharded("c18", jobs, common=dict(kind="world"))
    jj, oo, nfail = [], [], 0
    for j, o in zip(jobs, outs):
        j2, o2, cut = truncate_failed_welab(j, o)
        nfail += cut
        jj.append(j2)
        oo.append(o2)
    for j, o in zip(jj, oo):       # fail closed: the last operation of every history is observed, on every container
        if o["steps"] and len(o["steps"][-1]["obs"]) != len(j["ctrs"]):
            raise RuntimeError("world history without a final observation")
    cases = [c_world(j, o) for j, o in zip(jj, oo)]
    bad = core.coq_eval_cases("C18", tag, IMPORTS, "wcase", cases, "run_cases chk_world", chunk=chunk)
    res = {i: (r % 10, r // 10 - 1) for i, r in bad}
    return jj, oo, res, nfail


# ---- coverage targets of the strengthening round, MEASURED on what the implementation accepted
W_TARGETS = ["readd_same_name_after_vis_flip", "readd_same_name_unchanged", "taken_by_other_container_and_taken_back",
             "taken_by_other_container_of_same_class", "same_object_second_name_in_one_container",
             "object_shared_by_module_and_bundle", "vis_flip_of_held_signal", "readd_of_held_object_after_elaboration_rejected",
             "rejected_add_then_accepted_add_of_same_object", "rename_of_held_object", "readd_instance_like_taken_back",
             # second strengthening round: INTERNAL signals that carry a direction
             "internal_directed_signal_stored_in_module", "internal_directed_signal_stored_in_bundle",
             "directed_port_turned_internal_and_readded_under_held_name", "directed_port_turned_internal_then_first_added",
             "direction_set_on_held_internal_signal_then_readded", "direction_cleared_on_held_port_then_readded"]


def world_targets(job, out):
    """Shadow bookkeeping (coverage only; verdicts come from Coq): which target shapes this history really exercised."""
    hit = set()
    nc = len(job["ctrs"])
    ns = [dict() for _ in range(nc)]                  # name -> (x, port flag it was sorted by)
    elab = [False] * nc
    ob = [dict(kind=k, port=(k in PORTK) if k in SIGK else None, dir=DIR_OF.get(k), was_port=False, dir_changed_held=False,
               name=nm, par={"module": None, "bundle": None})
          for k, nm in job["objs"]]
    rejected = set()
    for op, st in zip(job["ops"], out["steps"]):
        acc = st["acc"]
        if op[0] in ("set", "add"):
            c, x = (op[1], op[3]) if op[0] == "set" else (op[1], op[2])
            o = ob[x]
            if op[0] == "set":
                n = None if (op[2].startswith("_") or op[2] == "name") else op[2]
            else:
                n = op[3] if op[3] is not None else o["name"]
            cls = job["ctrs"][c]
            holders = [m for m, e in ns[c].items() if e[0] == x]
            if not acc:
                if elab[c] and holders:
                    hit.add("readd_of_held_object_after_elaboration_rejected")
                if o["kind"] in ALL_HDL:
                    rejected.add(x)
                continue
            if n is None:
                continue
            if x in rejected:
                hit.add("rejected_add_then_accepted_add_of_same_object")
                rejected.discard(x)
            if o["port"] is False and o["dir"] not in (None, "none"):
                hit.add(f"internal_directed_signal_stored_in_{cls}")
                if o["was_port"] and cls == "module":
                    hit.add("directed_port_turned_internal_and_readded_under_held_name" if n in holders
                            else "directed_port_turned_internal_then_first_added")
                if o["dir_changed_held"] and cls == "module" and n in holders:
                    hit.add("direction_set_on_held_internal_signal_then_readded")
            if o["port"] and o["dir"] == "none" and o["dir_changed_held"] and cls == "module" and n in holders:
                hit.add("direction_cleared_on_held_port_then_readded")
            if n in holders:
                stolen = o["par"][cls] != c
                flipped = cls == "module" and o["port"] is not None and ns[c][n][1] != o["port"]
                if flipped:
                    hit.add("readd_same_name_after_vis_flip")
                if stolen:
                    hit.add("taken_by_other_container_and_taken_back")
                    if o["kind"] not in SIGK:
                        hit.add("readd_instance_like_taken_back")
                if not flipped and not stolen and o["name"] == n:
                    hit.add("readd_same_name_unchanged")
            if any(m != n for m in holders):
                hit.add("same_object_second_name_in_one_container")
            for d in range(nc):
                if d != c and any(e[0] == x for e in ns[d].values()):
                    if job["ctrs"][d] == cls:
                        hit.add("taken_by_other_container_of_same_class")
                    else:
                        hit.add("object_shared_by_module_and_bundle")
            ns[c][n] = (x, o["port"])
            o["name"] = n
            o["par"][cls] = c
        elif op[0] == "vis" and acc:
            if ob[op[1]]["port"] != op[2] and any(e[0] == op[1] for d in ns for e in d.values()):
                hit.add("vis_flip_of_held_signal")
            if ob[op[1]]["port"] and not op[2]:
                ob[op[1]]["was_port"] = True
            ob[op[1]]["port"] = op[2]
        elif op[0] == "dir" and acc:
            if ob[op[1]]["dir"] != op[2] and any(e[0] == op[1] for d in ns for e in d.values()):
                ob[op[1]]["dir_changed_held"] = True
            ob[op[1]]["dir"] = op[2]
        elif op[0] == "name" and acc:
            if any(e[0] == op[1] for d in ns for e in d.values()):
                hit.add("rename_of_held_object")
            ob[op[1]]["name"] = op[2]
        elif op[0] == "elab" and acc:
            elab[op[1]] = True
    return hit


def world_nontrivial(job):
    """Non-trivial = some object is handed to containers at least twice, or is mutated (vis / direction / name) at all."""
    seen = set()
    for op in job["ops"]:
        if op[0] in ("vis", "name", "dir"):
            return True
        if op[0] in ("set", "add"):
            x = op[3] if op[0] == "set" else op[2]
            if x in seen:
                return True
            seen.add(x)
    return False


def py_repro_world(job):
    mk = dict(out="h.Output({})", inout="h.Inout({})", sigin="h.Signal(direction=h.PortDir.INPUT{})", sigout="h.Signal(direction=h.PortDir.OUTPUT{})",
              siginout="h.Signal(direction=h.PortDir.INOUT{})", tup="('a', 'b')", **{"in": "h.Input({})"},
              port="h.Port({})", sig="h.Signal({})", inst="h.Instance(of=Leaf{})", arr="h.InstanceArray(of=Leaf, n=2{})",
              ibun="h.Pair(of=Leaf{})", bun="h.BundleInstance(of=Sub{})", str="'Renamed'", none="None", int="7",
              mod="h.Module(name='X')", gen="SomeGenerator", bdef="Sub", func="(lambda: None)", role="h.Role(name='Host')")
    def val(sp):
        t = mk[sp[0]]
        if "{}" not in t:
            return t
        if sp[1] is None:
            return t.format("")
        arg = f"name={sp[1]!r}"
        return t.format(arg if t.endswith("({})") else ", " + arg)
    lines = ["import hdl21 as h; from hdl21.signal import Visibility as V",
             "Leaf = h.Module(name='Leaf'); Sub = h.Bundle(name='Sub'); Sub.x = h.Signal()"]
    for k, c in enumerate(job["ctrs"]):
        lines.append(f"c{k} = h.{'Module' if c == 'module' else 'Bundle'}(name='Edited{k}')")
    for x, sp in enumerate(job["objs"]):
        lines.append(f"o{x} = {val(sp)}")
    for op in job["ops"]:
        if op[0] == "set":
            lines.append(f"setattr(c{op[1]}, {op[2]!r}, o{op[3]})")
        elif op[0] == "add":
            lines.append(f"c{op[1]}.add(o{op[2]}" + ("" if op[3] is None else f", name={op[3]!r}") + ")")
        elif op[0] == "vis":
            lines.append(f"o{op[1]}.vis = V.{'PORT' if op[2] else 'INTERNAL'}")
        elif op[0] == "dir":
            lines.append(f"o{op[1]}.direction = h.PortDir.{op[2].upper()}")
        elif op[0] == "name":
            lines.append(f"o{op[1]}.name = {op[2]!r}")
        elif op[0] == "del":
            lines.append(f"delattr(c{op[1]}, {op[2]!r})")
        else:
            lines.append(f"h.elaborate(c{op[1]})")
    lines.append("print([(c.namespace, c.signals, getattr(c, 'ports', None)) for c in (" + ", ".join(f"c{k}" for k in range(len(job["ctrs"]))) + ",)])")
    return "; ".join(lines)


def shrink_world(job, rounds=4):
    cur = job
    for _ in range(rounds):
        cands = [dict(cur, ops=cur["ops"][:k] + cur["ops"][k + 1:]) for k in range(len(cur["ops"]) - 1)]
        if not cands:
            break
        jj, oo, res, _ = evaluate_world("wshrink", cands)
        better = [(len(jj[i]["ops"]), i) for i, (c, st) in res.items() if c == 1]
        if not better:
            break
        i = min(better)[1]
        st = res[i][1]
        cur = dict(jj[i], ops=jj[i]["ops"][:min(st, len(jj[i]["ops"]) - 1) + 1])
    return cur


def wkey(job):
    return "C18:world:" + json.dumps([job["ctrs"], job["objs"], job["ops"]])


def report_world(run, stream, jobs, outs, res, do_shrink=True, limit=2, keep_order=False):
    v1 = sorted([i for i, (c, st) in res.items() if c == 1],
                key=(lambda i: i) if keep_order else (lambda i: (res[i][1], len(json.dumps(jobs[i]["ops"])))))
    v2 = sorted([i for i, (c, st) in res.items() if c == 2], key=lambda i: (res[i][1], len(json.dumps(jobs[i]["ops"]))))
    seen = set()
    for i in v1[:40]:
        if len(seen) >= limit:
            break
        st = res[i][1]
        job = dict(jobs[i], ops=jobs[i]["ops"][:st + 1], export=None) if st < len(jobs[i]["ops"]) else jobs[i]
        job = {k: v for k, v in job.items() if k != "observe"}
        if do_shrink and len(job["ops"]) > 1:
            try:
                job = shrink_world(job)
            except Exception as e:
                core.log(f"  (shrink failed: {e})")
        key = wkey(job)
        if key in seen:
            continue
        seen.add(key)
        what = "final exported package disagrees with the namespace" if st >= len(jobs[i]["ops"]) else \
            ("after its last operation some container is not the coherent map the edits denote, an object does not report "
             "what the last add() made of it (view by current visibility, name, parent), or acceptance is wrong")
        run.violation(key, f"containers {job['ctrs']} objects {json.dumps(job['objs'])} history {json.dumps(job['ops'])}: {what}",
                      dict(kind="impl-violates-spec", stream=stream, case=job, failing_step=st,
                           impl=outs[i]["steps"][min(st, len(outs[i]["steps"]) - 1)] if outs[i]["steps"] else None,
                           export=outs[i].get("export"), reproducer=py_repro_world(job), failing_cases=len(v1)))
    if v2 and not v1:
        i = v2[0]
        st = res[i][1]
        run.violation(f"C18:{stream}:tie", f"world model and implementation differ at step {st} of {json.dumps(jobs[i]['ops'])} "
                      f"(containers {jobs[i]['ctrs']}, objects {json.dumps(jobs[i]['objs'])}: acceptance, key order, or elaboration of a "
                      "Module holding an orphan; the specification holds on every explored history)",
                      dict(kind="correspondence-broken", stream=stream, case=jobs[i], failing_step=st,
                           impl=outs[i]["steps"][min(st, len(outs[i]["steps"]) - 1)], reproducer=py_repro_world(jobs[i]),
                           disagreeing_cases=len(v2), theorem="C18 correspondence stream " + stream), found_input=False)


def mk_world(ctrs, objs, ops, names=None, export=0):
    used = {"a", "b"}
    for k, nm in objs:
        if nm is not None:
            used.add(nm)
    for op in ops:
        if op[0] in ("set", "del"):
            used.add(op[2])
        elif op[0] in ("add", "name") and op[-1] is not None:
            used.add(op[-1])
    return dict(world=True, ctrs=ctrs, objs=objs, ops=ops, names=sorted(used | set(names or [])), export=export)


def world_corpus():
    MM, MB, MMB = ["module", "module"], ["module", "bundle"], ["module", "module", "bundle"]
    S, P, I, B = ["sig", None], ["port", None], ["inst", None], ["bun", None]
    jobs = [
        # seeded change C18r2-A, h1: promote to port, add again under the held name (and the way back)
        mk_world(MM, [["sig", "d"]], [["add", 0, 0, None], ["vis", 0, True], ["add", 0, 0, None]]),
        mk_world(MM, [["port", "d"]], [["add", 0, 0, None], ["vis", 0, False], ["add", 0, 0, None]]),
        mk_world(MM, [S], [["set", 0, "a", 0], ["vis", 0, True], ["set", 0, "a", 0]]),
        # h2 / h3: taken by another Module and taken back (signal, instance, bundle instance, array, pair)
        mk_world(MM, [["sig", "a"]], [["add", 0, 0, None], ["add", 1, 0, None], ["add", 0, 0, None]]),
        mk_world(MM, [I], [["add", 0, 0, "i"], ["add", 1, 0, None], ["add", 0, 0, None]]),
        mk_world(MM, [B], [["set", 0, "a", 0], ["set", 1, "a", 0], ["set", 0, "a", 0]]),
        mk_world(MM, [["arr", "a"]], [["add", 0, 0, None], ["add", 1, 0, None], ["add", 0, 0, None]]),
        mk_world(MM, [["ibun", "a"]], [["add", 0, 0, None], ["add", 1, 0, None], ["add", 0, 0, None], ["elab", 0]]),
        # re-adding a held object after elaboration is rejected like any addition
        mk_world(MM, [["sig", "a"], S], [["add", 0, 0, None], ["elab", 0], ["add", 0, 0, None], ["set", 0, "a", 0], ["set", 0, "b", 1]]),
        # a rejected addition leaves its argument alone (fix C18-4): the next add under a good name is accepted
        mk_world(MM, [S], [["add", 0, 0, "ports"], ["add", 0, 0, "a"]]),
        mk_world(MM, [S, S], [["set", 0, "a", 0], ["elab", 0], ["set", 0, "b", 0], ["set", 1, "a", 1]]),
        mk_world(MB, [S], [["add", 1, 0, "signals"], ["add", 1, 0, "a"], ["add", 0, 0, None]]),
        # one object under two names
        mk_world(MM, [S], [["set", 0, "a", 0], ["set", 0, "b", 0]]),
        mk_world(MM, [S, I], [["set", 0, "a", 0], ["set", 0, "b", 0], ["set", 0, "b", 1]]),
        # between a Module and a Bundle
        mk_world(MB, [P], [["set", 0, "a", 0], ["add", 1, 0, None], ["set", 1, "b", 0], ["add", 0, 0, None]]),
        mk_world(MB, [B], [["set", 1, "a", 0], ["add", 0, 0, None], ["set", 0, "a", 0]]),
        mk_world(MMB, [S, I], [["set", 0, "a", 0], ["set", 2, "a", 0], ["set", 1, "a", 0], ["set", 0, "a", 1], ["add", 0, 0, None]]),
        # the same between two Bundles (`_parent_bundle`)
        mk_world(["bundle", "bundle"], [S], [["set", 0, "a", 0], ["set", 1, "a", 0], ["set", 0, "a", 0]], export=None),
        mk_world(["bundle", "bundle", "module"], [["bun", "q"]], [["add", 0, 0, None], ["add", 1, 0, None], ["add", 2, 0, None], ["add", 0, 0, None]], export=2),
        # renames behind the container's back; anonymous again, then add(name=)
        mk_world(MM, [S], [["set", 0, "a", 0], ["name", 0, None], ["add", 0, 0, "b"], ["name", 0, "c"], ["add", 0, 0, None]]),
        # stealing makes the robbed Module an orphanage case: its elaboration is refused, the thief's is fine
        mk_world(MM, [S], [["set", 0, "s", 0], ["set", 1, "y", 0], ["elab", 1], ["elab", 0]]),
        # seeded change C18r4-B: an internal signal that carries a direction is listed under signals
        mk_world(MM, [["out", None], ["out", None]], [["set", 0, "x", 0], ["vis", 1, False], ["add", 0, 1, "x"]]),          # demo, part 2
        mk_world(MM, [["in", "a"]], [["add", 0, 0, None], ["vis", 0, False], ["add", 0, 0, None]]),                         # held port turned internal, re-added
        mk_world(MM, [["sigin", None]], [["set", 0, "a", 0], ["vis", 0, True], ["set", 0, "a", 0], ["vis", 0, False], ["set", 0, "a", 0]]),
        mk_world(MM, [S], [["set", 0, "a", 0], ["dir", 0, "inout"], ["set", 0, "a", 0], ["elab", 0]]),                      # direction set behind the Module's back
        mk_world(MM, [["inout", None]], [["vis", 0, False], ["set", 0, "a", 0], ["dir", 0, "none"], ["add", 1, 0, None]]),
        mk_world(MB, [["out", None]], [["set", 1, "a", 0], ["vis", 0, False], ["add", 0, 0, None], ["set", 1, "a", 0]]),
        mk_world(MM, [P], [["set", 0, "a", 0], ["dir", 0, "input"], ["set", 0, "a", 0], ["dir", 0, "none"], ["set", 0, "a", 0]]),
    ]
    return jobs


def world_exhaustive(ctrs, objs, maxlen, vis_values=(True, False), dir_values=(), names=("a", "b")):
    ops = []
    for c in range(len(ctrs)):
        for x in range(len(objs)):
            for n in names:
                ops.append(["set", c, n, x])
            ops.append(["add", c, x, None])
    for x, (k, _) in enumerate(objs):
        if k in SIGK:
            ops += [["vis", x, v] for v in vis_values]
            ops += [["dir", x, d] for d in dir_values]
    jobs = []
    for L in range(1, maxlen + 1):
        for seq in itertools.product(ops, repeat=L):
            # every proper prefix is a case of its own: observe after the last operation only
            jobs.append(dict(mk_world(ctrs, objs, [list(o) for o in seq], export=0), observe="last"))
    return jobs, len(ops)


def gen_world(r, maxlen, special_m, special_b):
    ctrs = r.choice([["module", "module", "bundle"], ["module", "module"], ["module", "bundle"], ["module", "bundle", "bundle"]])
    nobj = r.randint(2, 4)
    plain = ["a", "b", "c"]
    objs = []
    for _ in range(nobj):
        k = r.choice(["sig", "sig", "port", "port", "bun", "inst", "inst", "arr", "ibun"] + DIRECTED_PORT + DIRECTED_INT)
        objs.append([k, r.choice([None, None, r.choice(plain)])])
    if r.random() < 0.15:
        objs.append([r.choice(["int", "mod", "str", "func"]), None])
    # optimistic shadow (for biasing only): current name of every object, which objects are held somewhere
    name = [o[1] for o in objs]
    held = set()
    n = r.randint(3, maxlen)
    ops = []
    elab_at = r.randint(2, n) if r.random() < 0.2 else None
    sp = lambda c: special_m if ctrs[c] == "module" else special_b
    for k in range(n):
        c = r.randrange(len(ctrs))
        if held and r.random() < 0.65:
            x = r.choice(sorted(held))
        else:
            x = r.randrange(len(objs))
        kind = objs[x][0]
        u = r.random()
        if elab_at == k:
            ms = [i for i, cc in enumerate(ctrs) if cc == "module"]
            ops.append(["elab", r.choice(ms)])
        elif u < 0.30:
            if name[x] is not None:
                ops.append(["add", c, x, None])
            else:
                nm = r.choice(plain)
                ops.append(["add", c, x, nm])
                name[x] = nm
            held.add(x)
        elif u < 0.58:
            nm = r.choice(plain)
            ops.append(["set", c, nm, x])
            name[x] = nm
            held.add(x)
        elif u < 0.72:
            sigs = [i for i, o in enumerate(objs) if o[0] in SIGK]
            if sigs:
                xs = x if kind in SIGK else r.choice(sigs)
                if r.random() < 0.7:
                    ops.append(["vis", xs, r.random() < 0.5])
                else:
                    ops.append(["dir", xs, r.choice(["none", "input", "output", "inout"])])
            else:
                ops.append(["set", c, r.choice(plain), x])
        elif u < 0.78:
            if kind in ALL_HDL:
                nm = r.choice([None, None, r.choice(plain)])
                ops.append(["name", x, nm])
                name[x] = nm
            else:
                ops.append(["set", c, r.choice(plain), x])
        elif u < 0.82:
            ops.append(["del", c, r.choice(plain + sp(c)[:2])])
        elif u < 0.90:
            s_ = r.choice(sp(c))
            ops.append(r.choice([["set", c, s_, x], ["add", c, x, s_]]))
        elif u < 0.95:
            ops.append(["add", c, x, r.choice(plain)])            # often two names: rejected
        else:
            ops.append(["add", c, x, None])                       # often anonymous: rejected
    export = r.choice([i for i, cc in enumerate(ctrs) if cc == "module"] + [None])
    return mk_world(ctrs, objs, ops, export=export)


def run_world_streams(run, quick, seed, pub_m, pub_b):
    cover = {t: 0 for t in W_TARGETS}
    total = 0

    def do(stream, jobs, tag, chunk, shrink=True, **extra):
        nonlocal total
        t0 = time.time()
        jj, oo, res, nf = evaluate_world(tag, jobs, chunk=chunk)
        extra["wall_s"] = round(time.time() - t0, 1)
        hits = {}
        for j, o in zip(jj, oo):
            for t in world_targets(j, o):
                hits[t] = hits.get(t, 0) + 1
                cover[t] += 1
        nops = sum(len(j["ops"]) for j in jj)
        nrej = sum(1 for o in oo for s_ in o["steps"] if not s_["acc"])
        run.stream(stream, len(jobs), len({wkey(j) for j in jobs if world_nontrivial(j)}), operations=nops,
                   rejected_operations=nrej, rejected_fraction=round(nrej / max(1, nops), 3), elaboration_failed=nf,
                   export_failed=sum(1 for o in oo if "err" in (o.get("export") or {})), targets_met=hits,
                   rule="non-trivial = some object is handed to containers at least twice or is mutated (vis / name) between edits; distinct by (containers, objects, operations)",
                   **extra)
        report_world(run, stream, jj, oo, res, do_shrink=shrink, limit=3 if not shrink else 2, keep_order=not shrink)
        total += len(jobs)
        return jj, oo

    jobs = world_corpus()
    jj, oo = do("world-corpus", jobs, "wcorpus", 40, shrink=False)
    run.sample(dict(stream="world-corpus", case=jobs[0], impl_last_step=oo[0]["steps"][-1]["obs"][0]))
    for tag, ctrs, objs in (("mm", ["module", "module"], [["sig", None], ["inst", None]]),
                            ("mb", ["module", "bundle"], [["sig", None], ["bun", None]])):
        maxlen = 3 if (quick or tag == "mb") else 4
        # the Module + Bundle box of the quick tier leaves `x.vis = INTERNAL` out (objects start internal; the two-Module box has both)
        vv = (True,) if (quick and tag == "mb") else (True, False)
        jobs, nops = world_exhaustive(ctrs, objs, maxlen, vv)
        do(f"world-exhaustive-{tag}", jobs, "wexh" + tag, 200, exhaustive=True, ops_per_step=nops, max_length=maxlen,
           box=f"all sequences of length <= {maxlen} over containers {ctrs}, objects {objs}, names a,b x {{setattr, add(x), x.vis = {' / '.join('PORT' if v else 'INTERNAL' for v in vv)}}}")
    # second strengthening round: one Module, a directed port and a plain signal, one name; visibility AND direction assignments
    ctrs, objs = ["module"], [["in", None], ["sig", None]]
    maxlen = 3 if quick else 4
    jobs, nops = world_exhaustive(ctrs, objs, maxlen, (True, False), ("none", "output"), names=("a",))
    do("world-exhaustive-dir", jobs, "wexhd", 200, exhaustive=True, ops_per_step=nops, max_length=maxlen,
       box=f"all sequences of length <= {maxlen} over containers {ctrs}, objects {objs}, name a x {{setattr, add(x), x.vis = PORT / INTERNAL, x.direction = NONE / OUTPUT}}")
    n_rand = 1000 if quick else 12000
    maxlen = 10 if quick else 20
    sm = [n for n in ["ports", "signals", "name", "get", "_t"] if n in pub_m or n == "_t"]
    sb = [n for n in ["signals", "name", "roles", "get", "_t"] if n in pub_b or n == "_t"]
    jobs = [gen_world(core.rng(seed, "C18", "world-random", k), maxlen, sm, sb) for k in range(n_rand)]
    jj, oo = do("world-random", jobs, "wrnd", 100, max_length=maxlen,
                with_elaboration=sum(1 for j in jobs if any(op[0] == "elab" for op in j["ops"])))
    run.sample(dict(stream="world-random", case=jobs[1], accepted=[s_["acc"] for s_ in oo[1]["steps"]]))
    run.coverage["strengthening_targets"] = cover
    for t, cnt in cover.items():
        if cnt == 0:
            run.violation(f"C18:coverage:{t}", f"generator coverage target missed: no accepted history with {t}",
                          dict(kind="coverage"), found_input=False)
    return total

def class_hist_corpus():
    S, I, B = ["sig", None], ["inst", None], ["bun", None]
    W, L = ["int", None], ["tup", None]
    nm = ["width", "lanes", "data", "valid", "a"]
    return [
        # seeded change C18r4-C: plain helper data of the class body, the names re-used later (setattr, add, another kind)
        dict(ctr="bundle", items=[["width", W], ["lanes", L], ["data", S], ["valid", S]], names=nm, export=True,
             ops=[["set", "width", ["sig", None]], ["add", ["bun", None], "lanes"], ["set", "valid", ["port", None]]]),
        dict(ctr="module", items=[["width", W], ["lanes", L], ["data", S], ["valid", ["in", None]]], names=nm, export=True,
             ops=[["set", "width", ["sigin", None]], ["add", ["inst", None], "lanes"], ["add", ["out", "width"], None]]),
        dict(ctr="bundle", items=[["width", W]], names=nm, export=True, ops=[]),
        dict(ctr="module", items=[["a", ["func", None]], ["width", ["str", None]], ["data", I]], names=nm, export=True,
             ops=[["add", ["sig", "a"], None], ["set", "width", ["arr", None]], ["set", "width", ["int", None]]]),
        dict(ctr="bundle", items=[["a", ["siginout", None]], ["lanes", ["none", None]], ["data", B]], names=nm, export=True,
             ops=[["set", "lanes", ["out", None]], ["set", "a", ["bun", None]]]),
    ]


def run_class_then_edit(run, quick, seed, pub_m, pub_b, cov2):
    n = 500 if quick else 6000
    maxlen = 5 if quick else 10
    jobs = class_hist_corpus()
    plain = ["a", "b", "c"]
    for ctr, pub in (("bundle", pub_b), ("module", pub_m)):
        special = sorted(set(pub)) + ["_t"]
        for k in range(n // 2):
            jobs.append(gen_class_then_edit(core.rng(seed, "C18", "class-then-edit-" + ctr, k), ctr, plain, special, maxlen))
    outs = core.run_worker_sharded("c18", jobs, common=dict(kind="classhist"))
    # an elaboration is never part of these histories; a rejected class definition has no steps
    for j, o in zip(jobs, outs):
        if not o["cls"]["acc"]:
            j["ops_run"] = []
    cases = [c_classhist(j if o["cls"]["acc"] else dict(j, ops=[]), o) for j, o in zip(jobs, outs)]
    bad = core.coq_eval_cases("C18", "classhist", IMPORTS, "chcase", cases, "run_cases chk_class_hist", chunk=150)
    res = {i: (r % 10, r // 10 - 1) for i, r in bad}
    hits = {}
    for j, o in zip(jobs, outs):
        for t in classhist_targets(j, o) | dir_targets_class(j, o) | (dir_targets_history(j, o) if o["cls"]["acc"] else set()):
            hits[t] = hits.get(t, 0) + 1
            cov2[t] += 1
    nrej = sum(1 for o in outs if not o["cls"]["acc"])
    nops = sum(len(o["steps"]) for o in outs)
    nrejops = sum(1 for o in outs for st in o["steps"] if not st["acc"])
    run.stream("class-then-edit", len(jobs), len({json.dumps([j["items"], j["ops"]]) for j in jobs if j["ops"]}),
               rejected_class_bodies=nrej, operations=nops, rejected_operations=nrejops,
               rejected_fraction=round((nrej + nrejops) / max(1, len(jobs) + nops), 3), targets_met=hits, max_length=maxlen,
               export_failed=sum(1 for o in outs if "err" in (o.get("export") or {})),
               rule="non-trivial = the class-style definition is followed by at least one edit; distinct by (items, operations)")
    v1 = sorted([i for i, (c, st) in res.items() if c == 1], key=lambda i: (res[i][1], len(json.dumps([jobs[i]["items"], jobs[i]["ops"]]))))
    v2 = sorted([i for i, (c, st) in res.items() if c == 2], key=lambda i: (res[i][1], len(json.dumps([jobs[i]["items"], jobs[i]["ops"]]))))
    seen = set()
    for i in v1[:2]:
        st = res[i][1]                      # 0 = the class body itself, k >= 1 = operation k-1, len(ops)+1 = export
        job = {k: v for k, v in jobs[i].items() if k != "ops_run"}
        if st <= len(job["ops"]):
            job = dict(job, ops=job["ops"][:st])
        key = f"C18:class-then-edit:{job['ctr']}:{json.dumps([job['items'], job['ops']])}"
        if key in seen:
            continue
        seen.add(key)
        what = ("the class-style definition itself differs from the procedural one (get / attribute access / views)" if st == 0 else
                "final exported package disagrees with the namespace" if st > len(jobs[i]["ops"]) else
                "after its last edit the class-built container is not the coherent map its body and the edits denote")
        body = "; ".join(f"{k} = <{v[0]}>" for k, v in job["items"])
        run.violation(key, f"class-style {job['ctr']} with body {json.dumps(job['items'])} then {json.dumps(job['ops'])}: {what}",
                      dict(kind="impl-violates-spec", stream="class-then-edit", case=dict(job, classhist=True), failing_step=st,
                           impl=(outs[i]["cls"] if st == 0 else outs[i]["steps"][min(st, len(outs[i]["steps"])) - 1]),
                           export=outs[i].get("export"), failing_cases=len(v1),
                           reproducer=f"@h.{job['ctr']} class Edited: {body}   # then, on the result m: " + py_repro(dict(ctr=job['ctr'], ops=job['ops'])).split("; ", 5)[-1]))
    if v2 and not v1:
        i = v2[0]
        run.violation("C18:class-then-edit:tie", f"model and implementation differ at step {res[i][1]} of class body {json.dumps(jobs[i]['items'])} "
                      f"then {json.dumps(jobs[i]['ops'])}",
                      dict(kind="correspondence-broken", stream="class-then-edit", case=dict(jobs[i], classhist=True), failing_step=res[i][1],
                           theorem="C18 correspondence stream class-then-edit", disagreeing_cases=len(v2)), found_input=False)
    run.sample(dict(stream="class-then-edit", case=jobs[0], impl_after_body=outs[0]["cls"].get("obs", {}).get("gets")))
    return len(jobs)


# ------------------------------------------------------------------------------------------ run
def run(run, tier, seed, replay=None):
    quick = tier == "quick"
    if replay is not None:
        job = replay.get("case")
        if isinstance(job, dict) and job.get("classhist"):
            job = {k: v for k, v in job.items() if k != "classhist"}
            out = core.run_worker_sharded("c18", [job], common=dict(kind="classhist"))[0]
            bad = core.coq_eval_cases("C18", "replay", IMPORTS, "chcase", [c_classhist(job if out["cls"]["acc"] else dict(job, ops=[]), out)],
                                      "run_cases chk_class_hist")
            for i, r in bad:
                run.violation(f"C18:class-then-edit:{job['ctr']}:{json.dumps([job['items'], job['ops']])}",
                              f"replayed class body {json.dumps(job['items'])} then {json.dumps(job['ops'])}: code {r % 10} at step {r // 10 - 1}",
                              dict(kind="impl-violates-spec" if r % 10 == 1 else "correspondence-broken", stream="replay",
                                   case=dict(job, classhist=True), failing_step=r // 10 - 1), found_input=(r % 10 == 1))
            run.stream("replay", 1, 1 if job["ops"] else 0, rule="the replayed class-style definition and edits")
            run.sample(dict(stream="replay", case=job, verdict=bad))
            return
        if isinstance(job, dict) and job.get("world"):
            jj, oo, res, _ = evaluate_world("replay", [job])
            report_world(run, "replay", jj, oo, res, do_shrink=False)
            run.stream("replay", 1, 1 if world_nontrivial(job) else 0, rule="the replayed world history")
            run.sample(dict(stream="replay", case=job, verdict=res.get(0, (0, -1))))
            return
        jj, oo, res, _ = evaluate("replay", [job])
        report(run, "replay", jj, oo, res, do_shrink=False)
        run.stream("replay", 1, 1 if nontrivial(job) else 0, rule="the replayed history")
        run.sample(dict(stream="replay", case=job, verdict=res.get(0, (0, -1))))
        return

    # ---------------------------------------------------------------- static rejections + live public attribute names
    st = core.run_worker("c18", dict(kind="static", jobs=[{}]))["results"][0]
    flags = [k for k in sorted(st) if isinstance(st[k], bool)]
    bad = core.coq_eval_cases("C18", "static", IMPORTS, "list bool", [clist([st[k] for k in flags], cbool)], "run_cases chk_static")
    run.stream("static-rejections", len(flags), len(flags), checks=flags,
               rule="each entry is one history-independent rejection (sub-classing Module/Bundle, decorated class with a base, decorator on a non-class)")
    if bad:
        failed = [k for k in flags if not st[k]]
        run.violation("C18:static:" + ",".join(failed), f"not rejected: {failed}",
                      dict(kind="impl-violates-spec", stream="static", case=failed,
                           reproducer="class X(hdl21.Module): pass   # and the analogous forms named in `case`"))
    pub_m = [n for n in st["public_module"]]
    pub_b = [n for n in st["public_bundle"]]

    total_traces = 0
    cov2 = {t: 0 for t in DIR_TARGETS + CH_TARGETS}

    def count_dir(jj_, oo_):
        hits = {}
        for j_, o_ in zip(jj_, oo_):
            for t in dir_targets_history(j_, o_):
                hits[t] = hits.get(t, 0) + 1
                cov2[t] += 1
        return hits
    # ---------------------------------------------------------------- corpus
    jobs = corpus()
    jj, oo, res, nf = evaluate("corpus", jobs)
    count_dir(jj, oo)
    run.stream("corpus", len(jobs), sum(1 for j in jobs if nontrivial(j)), elaboration_failed=nf,
               rule="non-trivial = re-uses a name or contains a rejected form; pinned-tree witnesses and their neighbours")
    report(run, "corpus", jj, oo, res, do_shrink=False, limit=3, keep_order=True)
    run.sample(dict(stream="corpus", case=jobs[0], impl_last_step=oo[0]["steps"][-1], export=oo[0].get("export")))
    total_traces += len(jobs)

    # ---------------------------------------------------------------- exhaustive-small
    for ctr, maxlen in (("module", 3 if quick else 4), ("bundle", 3 if quick else 5)):
        jobs, nops = exhaustive(ctr, ["a", "b"], maxlen)
        nall = len(jobs)
        if quick and ctr == "module":
            # quick tier: every sequence of length <= 2 and every third sequence of length 3 (rotating with the seed); the
            # thorough tier and the world-exhaustive boxes enumerate the full box
            jobs = [j for k, j in enumerate(jobs) if len(j["ops"]) <= 2 or k % 3 == seed % 3]
        elif not quick and ctr == "module":
            # thorough tier: the full box up to length 3 and every 24th sequence of length 4 (rotating with the seed),
            # which keeps the tier inside its time budget (the full length-4 box has ~3.5e5 histories; the tier took
            # 92 minutes with every sixth)
            jobs = [j for k, j in enumerate(jobs) if len(j["ops"]) <= 3 or k % 24 == seed % 24]
        jj, oo, res, nf = evaluate("exh" + ctr[0], jobs, chunk=500)
        run.stream(f"exhaustive-small-{ctr}", len(jobs), len({json.dumps(j["ops"]) for j in jobs if nontrivial(j)}),
                   exhaustive=(len(jobs) == nall), box_size=nall, ops_per_step=nops, max_length=maxlen, elaboration_failed=nf,
                   export_failed=sum(1 for o in oo if "err" in (o.get("export") or {})),
                   box=f"all sequences of length <= {maxlen} over names a,b x every storable kind x {{setattr, add}}",
                   rule="non-trivial = some name is bound at least twice")
        report(run, "exhaustive-" + ctr, jj, oo, res)
        total_traces += len(jobs)
    run.sample(dict(stream="exhaustive-small", case=jobs[len(jobs) // 2], export=oo[len(jobs) // 2].get("export")))

    # ---------------------------------------------------------------- exhaustive-small over the eight Signal flavours
    # (visibility x direction: h.Signal, h.Port, h.Input/Output/Inout, h.Signal(direction=..)) and one other kind
    for ctr in ("module", "bundle"):
        kinds = SIGK + (["inst"] if ctr == "module" else ["bun"])
        ops1 = [o for n in ["a", "b"] for k in kinds for o in (["set", n, [k, None]], ["add", [k, n], None])]
        maxlen = 2
        jobs = [mk_job(ctr, [list(o) for o in seq], ["a", "b"]) for L in range(1, maxlen + 1) for seq in itertools.product(ops1, repeat=L)]
        jj, oo, res, nf = evaluate("exf" + ctr[0], jobs, chunk=300)
        run.stream(f"exhaustive-signal-flavours-{ctr}", len(jobs), len({json.dumps(j["ops"]) for j in jobs if nontrivial(j)}),
                   exhaustive=True, box_size=len(jobs), ops_per_step=len(ops1), max_length=maxlen, elaboration_failed=nf,
                   export_failed=sum(1 for o in oo if "err" in (o.get("export") or {})), targets_met=count_dir(jj, oo),
                   box=f"all sequences of length <= {maxlen} over names a,b x kinds {kinds} x {{setattr, add}}",
                   rule="non-trivial = some name is bound at least twice")
        report(run, "exhaustive-flavours-" + ctr, jj, oo, res)
        total_traces += len(jobs)

    # ---------------------------------------------------------------- structured random
    n_rand = 1500 if quick else 20000
    maxlen = 12 if quick else 25
    for ctr, pub in (("module", pub_m), ("bundle", pub_b)):
        plain = ["a", "b", "c"]
        special = sorted(set(pub)) + ["_t"]
        jobs = []
        for k in range(n_rand if ctr == "module" else n_rand // 2):
            r = core.rng(seed, "C18", "random-" + ctr, k)
            jobs.append(mk_job(ctr, gen_random(r, ctr, plain, special, maxlen, 0.8), plain + special))
        jj, oo, res, nf = evaluate("rnd" + ctr[0], jobs, chunk=120)
        count_dir(jj, oo)
        nops = sum(len(j["ops"]) for j in jobs)
        nrej = sum(1 for o in oo for s in o["steps"] if not s["acc"])
        run.stream(f"random-{ctr}", len(jobs), len({json.dumps(j["ops"]) for j in jobs if nontrivial(j)}),
                   operations=nops, rejected_operations=nrej, rejected_fraction=round(nrej / max(1, nops), 3),
                   with_elaboration=sum(1 for j in jobs if ["elab"] in j["ops"]), elaboration_failed=nf,
                   export_failed=sum(1 for o in oo if "err" in (o.get("export") or {})), max_length=maxlen,
                   rule="non-trivial = re-uses a name, deletes, or edits after elaboration; distinct by operation list")
        report(run, "random-" + ctr, jj, oo, res)
        run.sample(dict(stream="random-" + ctr, case=jobs[1], accepted=[s["acc"] for s in oo[1]["steps"]]))
        total_traces += len(jobs)

    # ---------------------------------------------------------------- malformed: every reserved/public name x every path
    for ctr, pub in (("module", pub_m), ("bundle", pub_b)):
        jobs = []
        names = ["a"] + sorted(set(pub))
        for n in sorted(set(pub)):
            for kind in hdl_kinds(ctr) + ["int"]:
                for form in (["set", n, [kind, None]], ["add", [kind, n], None], ["add", [kind, None], n]):
                    jobs.append(mk_job(ctr, [["set", "a", ["sig", None]], form, ["set", "a", ["bun", None]]], names))
            jobs.append(mk_job(ctr, [["set", "a", ["sig", None]], ["del", n]], names))
        for kind in NONHDL + ["inst", "arr", "ibun"]:
            jobs.append(mk_job(ctr, [["set", "a", ["sig", None]], ["set", "a", [kind, None]], ["add", [kind, None], "a"]], names))
        jj, oo, res, nf = evaluate("mal" + ctr[0], jobs, chunk=120)
        nrej = sum(1 for o in oo for s in o["steps"] if not s["acc"])
        run.stream(f"malformed-{ctr}", len(jobs), len(jobs), rejected_operations=nrej, public_names=sorted(set(pub)),
                   rule="every history contains an edit of a rejected form (public attribute name of the class on each path, deletion, non-HDL value)")
        report(run, "malformed-" + ctr, jj, oo, res)
        total_traces += len(jobs)

    # ---------------------------------------------------------------- class-style definitions
    n_cls = 600 if quick else 8000
    cjobs = [dict(ctr="module", names=["a", "b", "ports", "name", "_t"],
                  items=[["a", ["sig", None]], ["name", ["sig", None]]]),           # pinned: the signal becomes the name
             dict(ctr="module", names=["a", "b"], items=[["a", ["sig", None]], ["b", ["inst", None]], ["_t", ["sig", None]], ["c", ["int", None]]]),
             dict(ctr="bundle", names=["a", "get"], items=[["a", ["sig", None]], ["get", ["sig", None]]])]
    for ctr, pub in (("module", pub_m), ("bundle", pub_b)):
        for k in range(n_cls // 2):
            r = core.rng(seed, "C18", "class-" + ctr, k)
            special = sorted(set(pub)) + ["_t"]
            cjobs.append(dict(ctr=ctr, names=["a", "b", "c"] + special, items=gen_items(r, ctr, ["a", "b", "c"], special)))
    couts = core.run_worker_sharded("c18", cjobs, common=dict(kind="classbody"))
    cases = [c_class(j, o) for j, o in zip(cjobs, couts)]
    bad = core.coq_eval_cases("C18", "class", IMPORTS, "ccase", cases, "run_cases chk_class", chunk=300)
    nrej = sum(1 for o in couts if not o["cls"]["acc"])
    for j_, o_ in zip(cjobs, couts):
        for t in dir_targets_class(j_, o_):
            cov2[t] += 1
    run.stream("class-style", len(cjobs), len({json.dumps(j["items"]) for j in cjobs if len(j["items"]) >= 2}),
               rejected=nrej, rejected_fraction=round(nrej / len(cjobs), 3),
               rule="non-trivial = at least two items; distinct by item list")
    v1 = sorted([i for i, c in bad if c == 1], key=lambda i: len(cjobs[i]["items"]))
    v2 = sorted([i for i, c in bad if c == 2], key=lambda i: len(cjobs[i]["items"]))
    for i in v1[:2]:
        run.violation(f"C18:class:{cjobs[i]['ctr']}:{json.dumps(cjobs[i]['items'])}",
                      f"class-style {cjobs[i]['ctr']} with body {json.dumps(cjobs[i]['items'])} differs from the procedural definition",
                      dict(kind="impl-violates-spec", stream="class-style", case=cjobs[i], impl=couts[i],
                           reproducer="@h.module / @h.bundle on a class whose body assigns the items of `case` in order", failing_cases=len(v1)))
    if v2 and not v1:
        i = v2[0]
        run.violation("C18:class:tie", f"model of the class-body conversion differs from the implementation on {json.dumps(cjobs[i]['items'])}",
                      dict(kind="correspondence-broken", stream="class-style", case=cjobs[i], impl=couts[i],
                           theorem="C18 correspondence stream class-style", disagreeing_cases=len(v2)), found_input=False)
    run.sample(dict(stream="class-style", case=cjobs[1], impl=couts[1]["cls"].get("obs", {}).get("ns")))
    # ---------------------------------------------------------------- class-style definition, THEN an edit history
    total_traces += run_class_then_edit(run, quick, seed, pub_m, pub_b, cov2)
    run.coverage["round3_targets"] = cov2
    for t, cnt in cov2.items():
        if cnt == 0:
            run.violation(f"C18:coverage:{t}", f"generator coverage target missed: no accepted case with {t}",
                          dict(kind="coverage"), found_input=False)
    # ---------------------------------------------------------------- world histories: containers sharing live objects
    total_traces += run_world_streams(run, quick, seed, pub_m, pub_b)
    run.coverage["traces_validated_against_impl"] = total_traces + len(cjobs)
