"""C08 — a failed elaboration, export or generator call does not poison later ones (DESIGN.md 6.10).

Every case is a HISTORY of calls in one fresh interpreter (harness/impl/c08.py): a call built to fail, then continuations
(retry unchanged, retry without the injected fault, repair + retry, an unrelated design, designs sharing sub-modules with
the failed one).  For every call the same call alone is also run in its own fresh interpreter.  Coq (Corr/C08.v) evaluates
the specification on these observables (code 1) and replays the history through the pass-manager model with the
`repaired` policy (Model/C08PassFail.v), comparing outcome, done sets, failure records, elaborated marks and pending
emptiness after every call (code 2).  Generator histories go through Model/C08GenFail.v the same way.
"""
import json, re, copy
from concurrent.futures import ThreadPoolExecutor
from . import core
from .core import cz, clist, cbool

IMPORTS = ("Require Import Hdl21.Base.PyInt Hdl21.Model.C08PassFail Hdl21.Model.C08GenFail Hdl21.Corr.C03 Hdl21.Corr.C08.")

FAULTS = {  # fault class -> is the module left half-rewritten when the fault is caught (caught inside a rewriting pass)?
    "missing": False, "width": False, "orphan": False, "unnamed": False, "cycle": False,
    "arrwidth": True, "badref": True, "anonmissing": True}
HALF_BASES = {"InstBundleElabPass": "pairp", "ResolvePortRefs": "ref", "BundleFlattener": "bun", "ArrayFlattener": "arrp"}
FEATS = ["ref", "slc", "nc", "arrp", "bun", "pairp"]

# universe layout (indices)
L0, L1, S, BAD, MID, TOP, U0, UT, SH1, SH2 = range(10)


# ------------------------------------------------------------------------------------------ running histories
def run_histories(jobs, kind="history"):
    """one fresh interpreter state per history: each runs in its own forked child of a driver process that has only
    imported hdl21 (the import alone costs > 1 s; the driver checks that every global cache is untouched before each fork)"""
    if not jobs:
        return []
    n = len(jobs)
    nshard = max(1, min(core.NPROC, (n + 7) // 8))
    shards = [jobs[i::nshard] for i in range(nshard)]
    with ThreadPoolExecutor(max_workers=nshard) as ex:
        outs = list(ex.map(lambda sh: core.run_worker("c08", dict(kind=kind, jobs=sh, fork=True), timeout=900)["results"], shards))
    res = [None] * n
    for s_, out in enumerate(outs):
        for j, r in enumerate(out):
            res[s_ + j * nshard] = r
    return res


def with_fresh(jobs, kind="history"):
    """(outs, fresh) — fresh[i][k] = what step k of history i returns when it is the only call of its process"""
    outs = run_histories(jobs, kind)
    fjobs, where, seen = [], [], {}
    for i, j in enumerate(jobs):
        for k, st in enumerate(j["steps"]):
            if st.get("op", "call") != "call":
                continue
            # the edits the library accepted so far (a refused edit did not change the design)
            pre = [s for q, s in enumerate(j["steps"][:k]) if s.get("op") == "edit" and outs[i]["steps"][q].get("edit") == "ok"]
            fj = dict(j, steps=pre + [st], only=len(pre))
            key = json.dumps(fj, sort_keys=True)
            if key not in seen:
                seen[key] = len(fjobs)
                fjobs.append(fj)
            where.append((i, k, seen[key], len(pre)))
    fouts = run_histories(fjobs, kind)
    fresh = [dict() for _ in jobs]
    for i, k, f, pos in where:
        fresh[i][k] = fouts[f]["steps"][pos]
    return outs, fresh, len(fjobs)


# ------------------------------------------------------------------------------------------ Coq printing
def cn(n):
    return f"{n}%nat"


def cpair(a, b):
    return f"({cn(a)}, {cn(b)})"


class Interner:
    def __init__(self, names):
        self.tab = {}
        self.names = names          # module names -> index (for the circular-dependency message)

    def err(self, e):
        m = re.search(r"circular dependency in `Module\((?:name=)?(\w+)\)`", e["msg"])
        if m and e["cls"] == "RuntimeError":
            nm = m.group(1)
            idx = self.names.get(None if nm == "_anon_" else nm)
            if idx is not None:
                return f"(CCycle {cn(idx)})"
        return f"(CE {self.code(e)})"

    def code(self, e):
        key = (e["cls"], e["msg"])
        if key not in self.tab:
            self.tab[key] = len(self.tab) + 1
        return self.tab[key]


def c_iout(r, it):
    if r is None:
        return "None"
    if "err" in r:
        return f"(Some (IErr {it.err(r['err'])}))"
    d = int(r["ok"], 16) if r["ok"] else 0
    mods = [m for m in r["mods"]]
    if any(m < 0 for m in mods):
        mods = [999]
    return f"(Some (IOk {d} {clist(mods, cn)}))"


def pass_records(static, job, elab, keys):
    """the pass list of a call as model records; default classes get the index of their first occurrence"""
    names = [p["name"] for p in static["passes"]]
    flags = {p["name"]: p for p in static["passes"]}
    base = [(names.index(n), flags[n]["rewrites"], flags[n]["marks"]) for n in names]
    if elab != "custom":
        return base
    out = list(base)
    specs = {ps["key"]: ps for ps in job["custom"]}
    res = []
    bi = 0
    for k in keys:
        if k is None:
            res.append(base[bi]); bi += 1
            continue
        ps = specs[k]
        pid = 100 + [x["key"] for x in job["custom"]].index(k)
        if ps["kind"] == "raiser":
            res.append((pid, bool(ps.get("rewrites", True)) or not static["has_attr"], False))
        else:
            res.append((pid, True, False)); bi += 1
    return res


def custom_pid(job, key):
    return 100 + [x["key"] for x in job["custom"]].index(key)


def c_history(static, job, out, fresh, meta):
    """meta[k] (call steps only): retry_of, bad (module, half) or None, search(bool), carry(bool)"""
    names = {sp["name"]: i for i, sp in enumerate(job["mods"])}
    it = Interner(names)
    steps = []
    call_index = {}          # step position -> index among call steps
    # intern the errors in history order first, so that injected messages get stable codes
    for k, st in enumerate(job["steps"]):
        if st.get("op") != "call":
            continue
        r = out["steps"][k]
        call_index[k] = len(call_index)
        if "err" in r:
            it.err(r["err"])
    pnames = [p["name"] for p in static["passes"]]
    for k, st in enumerate(job["steps"]):
        if st.get("op") != "call":
            continue
        r = out["steps"][k]
        mt = meta[k]
        prs = pass_records(static, job, st["elab"], out["custom_keys"])
        passes = clist(prs, lambda p: f"{{| pid := {cn(p[0])}; prw := {cbool(p[1])}; pmk := {cbool(p[2])} |}}")
        kids = clist(list(enumerate(r["kids"])), lambda e: f"({cn(e[0])}, {clist(e[1], cn)})")
        fails = []
        if st["elab"] == "custom" and mt.get("inject", True):
            for ps in job["custom"]:
                code = it.code(dict(cls="RuntimeError", msg=ps["msg"]))
                fails.append(f"({cn(custom_pid(job, ps['key']))}, {cn(ps['target'])}, {code})")
        call = (f"{{| c_kids := {kids}; c_passes := {passes}; c_tops := {clist(st['tops'], cn)}; "
                f"c_fail := {clist(fails)}; c_export := {cbool(st['entry'] != 'elaborate')} |}}")
        done = []
        for key, ms in r["done"].items():
            pid = pnames.index(key) if key in pnames else custom_pid(job, key)
            done += [cpair(pid, m) for m in ms]
        failed = clist(sorted(r["failed"].items()), lambda kv: f"({cn(int(kv[0]))}, {it.code(kv[1])})")
        pend_empty = all(not v for v in r["pend"].values())
        obs = (f"{{| o_out := {c_iout(r, it)[6:-1]}; o_pend_empty := {cbool(pend_empty)}; o_done := {clist(done)}; "
               f"o_failed := {failed}; o_elab := {clist(r['elab'], cn)} |}}")
        retry = "None" if mt.get("retry_of") is None else f"(Some {cn(call_index[mt['retry_of']])})"
        bad = "None" if mt.get("bad") is None else f"(Some ({cn(mt['bad'][0])}, {cbool(mt['bad'][1])}))"
        search = "None"
        if mt.get("search") and "err" in r and not it.err(r["err"]).startswith("(CCycle"):
            search = f"(Some {it.code(r['err'])})"
        steps.append(f"{{| st_call := {call};\n    st_obs := {obs};\n    st_retry_of := {retry}; st_fresh := {c_iout(fresh.get(k), it)}; "
                     f"st_bad := {bad}; st_search := {search}; st_carry := {cbool(bool(mt.get('carry')))} |}}")
    return clist(steps), it


# ------------------------------------------------------------------------------------------ universes and histories
def universe(r, bad, fault=None, need=None):
    def feats(extra=()):
        f = [x for x in FEATS if r.random() < 0.35]
        for e in extra:
            if e not in f:
                f.append(e)
        return f
    special = lambda: r.choice(["inst", "inst", "arr", "pair"])
    mods = [None] * 10
    mods[L0] = dict(name="L0", kids=[], feats=feats() + (["bport"] if (fault == "anonmissing" or r.random() < 0.3) else []))
    mods[L1] = dict(name="L1", kids=[], feats=feats())
    mods[S] = dict(name="S", kids=[[special(), L1]], feats=feats())
    k0 = r.choice(["inst", "arr"]) if fault == "anonmissing" else special()
    mods[BAD] = dict(name="BAD", kids=([["inst", L1]] if r.random() < 0.4 and k0 != "inst" else []) + [[k0, L0]], feats=feats())
    if fault == "anonmissing":
        mods[BAD]["kids"] = [[k0, L0]]
    order = [["inst", S], [special(), BAD]] if r.random() < 0.5 else [["inst", BAD], [special(), S]]
    mods[MID] = dict(name="MID", kids=order, feats=feats())
    mods[TOP] = dict(name="TOP", kids=[["inst", MID]] + ([["inst", L1]] if r.random() < 0.5 else []), feats=feats())
    mods[U0] = dict(name="U0", kids=[], feats=feats())
    mods[UT] = dict(name="UT", kids=[[special(), U0]], feats=feats())
    mods[SH1] = dict(name="SH1", kids=[["inst", S], [special(), L1]], feats=feats())
    mods[SH2] = dict(name="SH2", kids=[["inst", S], [special(), BAD]], feats=feats())
    for m in mods:
        m["fault"] = None
        # an instance pair cannot connect a bundle-valued port of its target
        m["kids"] = [[("inst" if kd == "pair" and "bport" in mods[ci]["feats"] else kd), ci] for kd, ci in m["kids"]]
    b = mods[bad]
    if need and need not in b["feats"]:
        b["feats"].append(need)
    if fault:
        b["fault"] = fault
        if fault == "unnamed":
            b["name"] = None
        if fault == "cycle":
            b["kids"] = [["inst", bad]] + b["kids"]
    return mods


def contains(mods, top, target):
    seen, todo = set(), [top]
    while todo:
        k = todo.pop()
        if k in seen:
            continue
        seen.add(k)
        todo += [c for _, c in mods[k]["kids"]]
    return target in seen


def call(tops, entry="to_proto", elab="default"):
    return dict(op="call", entry=entry, tops=tops, elab=elab)


def mk_history(r, kind, cont, bad=None, param=None):
    """kind = raiser | half | fault ; cont = name of the continuation; returns (job, meta)"""
    bad = bad if bad is not None else r.choice([L0, BAD, BAD, TOP])
    custom, fault, need = [], None, None
    if kind == "raiser":
        at, rewrites = param if param else (r.randint(0, 10), r.random() < 0.6)
        custom = [dict(key="X0", kind="raiser", at=at, target=bad, rewrites=rewrites, msg="injected by a custom pass")]
        half = False
    elif kind == "half":
        base, k = param if param else (r.choice(sorted(HALF_BASES)), r.choice([1, 1, 2]))
        need = HALF_BASES[base]
        custom = [dict(key="X0", kind="half", base=base, target=bad, k=k, msg="injected part-way through a rewriting pass")]
        half = True
    else:
        fault = param if param else r.choice(sorted(FAULTS))
        if fault == "anonmissing":
            bad = BAD
        half = FAULTS[fault]
    mods = universe(r, bad, fault, need)
    elab0 = "custom" if custom else "default"
    first = call([TOP], r.choice(["to_proto", "to_proto", "elaborate"]), elab0)
    steps = [first]
    meta = {0: dict(bad=(bad, half), search=(kind == "fault"), carry=False)}

    def add(st, **m):
        steps.append(st)
        if st["op"] == "call":
            m.setdefault("carry", kind == "fault" and not repaired[0])
            meta[len(steps) - 1] = m

    repaired = [False]
    for c in cont:
        if c == "retry":
            add(call([TOP], first["entry"], elab0), retry_of=0 if not repaired[0] else None)
        elif c == "retry_export":
            add(call([TOP], "to_proto", elab0), retry_of=0 if not repaired[0] else None)
        elif c == "retry_default":        # the injected fault is gone (default pass list); for design faults same as retry
            add(call([TOP], "to_proto", "default"), retry_of=(0 if kind == "fault" and not repaired[0] else None))
        elif c == "repair":
            if kind == "fault" and fault != "cycle":
                steps.append(dict(op="edit", mod=bad, what=fault))
                repaired[0] = True
            else:
                steps.append(dict(op="edit", mod=bad, what="addsig"))
        elif c == "unrelated":
            add(call([UT], "to_proto", "default"))
        elif c == "share":
            add(call([SH1], "to_proto", "default"))
        elif c == "share_bad":
            add(call([SH2], "to_proto", "default"))
        elif c == "both":
            add(dict(call([UT, TOP], "to_proto", "default"), aslist=True))
        elif c == "leafs":
            add(dict(call([L1, S], "elaborate", "default"), aslist=True))
    job = dict(mods=mods, custom=custom, steps=steps)
    return job, meta, dict(kind=kind, cont=list(cont), bad=bad, fault=fault, param=param)


CONTS = [["retry"], ["retry", "retry_export"], ["retry_default"], ["repair", "retry_default"], ["unrelated"], ["share"],
         ["share_bad"], ["retry", "repair", "retry_default", "unrelated"], ["unrelated", "retry_default", "share", "share_bad"],
         ["both"], ["leafs", "retry"]]


def evaluate(tag, static, items, chunk=40):
    jobs = [it[0] for it in items]
    outs, fresh, nfresh = with_fresh(jobs)
    cases, inters = [], []
    for (job, meta, info), out, fr in zip(items, outs, fresh):
        # an injection that did not trigger (the helper was not called often enough) is no injection
        if info["kind"] == "half" and "ok" in out["steps"][0]:
            for m in meta.values():
                m["inject"] = False
            meta[0]["bad"] = None
            info["not_triggered"] = True
        c, it = c_history(static, job, out, fr, meta)
        cases.append(c)
        inters.append(it)
    bad = core.coq_eval_cases("C08", tag, IMPORTS, "hcase", cases, "run_cases chk_history", chunk=chunk)
    res = {i: (c % 10, c // 10 - 1) for i, c in bad}
    return outs, fresh, res, nfresh


def first_failed(out):
    return "err" in out["steps"][0]


def describe(info):
    return f"{info['kind']}" + (f"/{info['fault']}" if info.get("fault") else "") + \
        (f"/{info['param']}" if info.get("param") and info["kind"] != "fault" else "") + f" in module {info['bad']} then {'+'.join(info['cont'])}"


def report(run, stream, items, outs, fresh, res, limit=3, keep_order=False):
    size = (lambda i: i) if keep_order else (lambda i: (len(items[i][0]["steps"]), len(json.dumps(items[i][0]))))
    v1 = sorted([i for i, (c, _) in res.items() if c == 1], key=size)
    v2 = sorted([i for i, (c, _) in res.items() if c == 2], key=size)
    seen = set()
    for i in v1:
        job, meta, info = items[i]
        cls = (info["kind"], info.get("fault"), tuple(info["cont"][:res[i][1] + 1]))
        if cls in seen or len(seen) >= limit:
            continue
        seen.add(cls)
        st = res[i][1]
        calls = [k for k, s in enumerate(job["steps"]) if s["op"] == "call"]
        k = calls[st]
        key = "C08:" + json.dumps(dict(mods=job["mods"], custom=job["custom"], steps=job["steps"][:k + 1]), sort_keys=True)
        summary = [(s_.get("err", {}).get("msg", "")[:60] if "err" in s_ else ("package " + s_["ok"] if s_.get("ok") else "ok")) +
                   ("" if all(not v for v in s_["pend"].values()) else " [left pending: " + ",".join(f"{a}{b}" for a, b in s_["pend"].items() if b) + "]")
                   for s_ in outs[i]["steps"] if s_ is not None and "edit" not in s_]
        fr = fresh[i].get(k, {})
        run.violation(key, f"{describe(info)}: call #{st} {job['steps'][k]['entry']}({job['steps'][k]['tops']}) violates the specification; "
                      f"calls of the history returned: {summary}; a fresh process returns for call #{st}: "
                      f"{fr.get('err', {}).get('msg', '')[:60] if 'err' in fr else fr.get('ok')}",
                      dict(kind="impl-violates-spec", stream=stream, case=dict(job=job, meta={str(a): b for a, b in meta.items()}, info=info),
                           failing_call=st, impl=[dict((a, b) for a, b in s.items() if a in ("ok", "err", "pend", "failed", "edit"))
                                                  for s in outs[i]["steps"]],
                           fresh={str(a): dict((x, y) for x, y in b.items() if x in ("ok", "err")) for a, b in fresh[i].items()},
                           failing_cases=len(v1)))
    if v2 and not v1:
        i = v2[0]
        job, meta, info = items[i]
        run.violation(f"C08:{stream}:tie", f"model and implementation differ at call #{res[i][1]} of: {describe(info)}",
                      dict(kind="correspondence-broken", stream=stream, case=dict(job=job, meta={str(a): b for a, b in meta.items()}, info=info),
                           failing_call=res[i][1], impl=outs[i]["steps"], disagreeing_cases=len(v2),
                           theorem="C08 correspondence stream " + stream), found_input=False)


# ------------------------------------------------------------------------------------------ generator histories
GEN_SHAPE = [[], [0], [1, 0], [3], [2, 4]]        # G3 calls itself; G4 = {G2, G4}: a cycle reached after work


def gen_jobs(r, n, maxlen):
    """Each generator body raises (after a fixed number of its nested calls) until the designer corrects it at some step,
    and returns from then on: a body that has once returned keeps returning, so cached results never hide a change."""
    jobs = []
    for _ in range(n):
        ln = r.randint(2, maxlen)
        fixed_at = {k: r.choice([0, 0, 0, r.randint(1, ln), r.randint(1, ln + 1)]) for k in range(len(GEN_SHAPE))}
        after = {k: r.randint(0, len(GEN_SHAPE[k])) for k in range(len(GEN_SHAPE))}
        steps = []
        for j in range(ln):
            key = r.choice([0, 1, 2, 2, 3, 4])
            steps.append(dict(key=key, modes={str(k): after[k] for k in fixed_at if j < fixed_at[k]}))
        jobs.append(dict(gens=GEN_SHAPE, steps=steps))
    return jobs


def gen_corpus():
    boom = {"0": 0}
    return [dict(gens=GEN_SHAPE, steps=[dict(key=0, modes=boom), dict(key=0, modes=boom), dict(key=0, modes={})]),   # DESIGN 7 #11
            dict(gens=GEN_SHAPE, steps=[dict(key=2, modes=boom), dict(key=2, modes={}), dict(key=1, modes={})]),
            dict(gens=GEN_SHAPE, steps=[dict(key=2, modes={"2": 1}), dict(key=0, modes={}), dict(key=2, modes={})]),
            dict(gens=GEN_SHAPE, steps=[dict(key=3, modes={}), dict(key=3, modes={}), dict(key=0, modes={})]),
            dict(gens=GEN_SHAPE, steps=[dict(key=4, modes={}), dict(key=2, modes={}), dict(key=4, modes={})]),
            dict(gens=GEN_SHAPE, steps=[dict(key=1, modes={"1": 1}), dict(key=1, modes={"1": 1}), dict(key=1, modes={})])]


def c_gout(r, names):
    if "ok" in r:
        return f"(GOk {names.setdefault(r['ok'], len(names) + 1)})"
    m = re.search(r"body of G(\d+) raised", r["err"]["msg"])
    if m:
        return f"(GErr (GE {cn(int(m.group(1)))}))"
    m = re.search(r"circular dependency in `GeneratorCall\(gen=Generator\(name=G(\d+)\)", r["err"]["msg"])
    if m:
        return f"(GErr (GCycle {cn(int(m.group(1)))}))"
    return "GOther"


def c_gcase(job, out, fresh):
    names = {}
    steps = []
    for k, st in enumerate(job["steps"]):
        r, f = out["steps"][k], fresh[k]
        modes = clist(sorted((int(a), b) for a, b in st["modes"].items()), lambda e: f"({cn(e[0])}, Some {cn(e[1])})")
        steps.append(f"{{| g_key := {cn(st['key'])}; g_modes := {modes}; g_out := {c_gout(r, names)}; g_fresh := {c_gout(f, names)}; "
                     f"g_pend_empty := {cbool(r['pend'] == 0)}; g_stack_empty := {cbool(r['stack'] == 0)}; "
                     f"g_done := {clist(r['done'], cn)}; g_runs := {clist(sorted((int(a), b) for a, b in r['runs'].items()), lambda e: cpair(*e))} |}}")
    calls = clist(list(enumerate(job["gens"])), lambda e: f"({cn(e[0])}, {clist(e[1], cn)})")
    return f"({calls}, {clist(steps)})"


def run_gen(run, stream, jobs):
    for j in jobs:
        for s in j["steps"]:
            s["op"] = "call"
    outs, fresh, nfresh = with_fresh(jobs, kind="gen")
    cases = [c_gcase(j, o, f) for j, o, f in zip(jobs, outs, fresh)]
    bad = core.coq_eval_cases("C08", stream.replace("-", "_"), IMPORTS, "gcase", cases, "run_cases chk_gen", chunk=100)
    raised = sum(1 for o in outs if any("err" in s for s in o["steps"][:-1]))
    run.stream(stream, len(jobs), len({json.dumps(j, sort_keys=True) for j, o in zip(jobs, outs) if any("err" in s for s in o["steps"][:-1])}),
               histories_with_a_raising_call_followed_by_more=raised, fresh_processes=nfresh, calls=sum(len(j["steps"]) for j in jobs),
               rule="non-trivial = some call before the last one raised (body or cycle); distinct by history")
    v1 = sorted([i for i, c in bad if c % 10 == 1], key=lambda i: len(jobs[i]["steps"]))
    v2 = sorted([i for i, c in bad if c % 10 == 2], key=lambda i: len(jobs[i]["steps"]))
    code = dict(bad)
    for i in v1[:2]:
        st = code[i] // 10 - 1
        j = dict(gens=jobs[i]["gens"], steps=jobs[i]["steps"][:st + 1])
        run.violation("C08:gen:" + json.dumps(j, sort_keys=True),
                      f"generator history {[(s['key'], s['modes']) for s in j['steps']]}: call #{st} gives {outs[i]['steps'][st].get('err') or outs[i]['steps'][st].get('ok')}"
                      f" (pending {outs[i]['steps'][st]['pend']}, stack {outs[i]['steps'][st]['stack']}); a fresh process gives "
                      f"{fresh[i][st].get('err') or fresh[i][st].get('ok')}",
                      dict(kind="impl-violates-spec", stream=stream, gen_case=j, failing_call=st, impl=outs[i]["steps"][:st + 1],
                           fresh=fresh[i][st], failing_cases=len(v1)))
    if v2 and not v1:
        i = v2[0]
        run.violation(f"C08:{stream}:tie", f"generator-cache model and implementation differ at call #{code[i] // 10 - 1}",
                      dict(kind="correspondence-broken", stream=stream, gen_case=jobs[i], impl=outs[i]["steps"],
                           theorem="C08 correspondence stream " + stream, disagreeing_cases=len(v2)), found_input=False)
    return outs


# ------------------------------------------------------------------------------------------ run
def corpus_items():
    r = core.rng(0, "C08", "corpus", 0)
    items = []
    # DESIGN 7 #10: a module with a missing connection elaborated twice
    items.append(mk_history(core.rng(0, "C08", "corpus", 1), "fault", ["retry"], bad=BAD, param="missing"))
    # the "obvious repair" witnesses: a failure inside the array / bundle flattening pass, then a retry without the injection
    items.append(mk_history(core.rng(0, "C08", "corpus", 2), "half", ["retry_default"], bad=BAD, param=("ArrayFlattener", 1)))
    items.append(mk_history(core.rng(0, "C08", "corpus", 3), "half", ["retry_default"], bad=BAD, param=("BundleFlattener", 2)))
    items.append(mk_history(core.rng(0, "C08", "corpus", 4), "fault", ["repair", "retry_default"], bad=BAD, param="arrwidth"))
    items.append(mk_history(core.rng(0, "C08", "corpus", 5), "fault", ["retry", "share_bad", "share"], bad=BAD, param="anonmissing"))
    items.append(mk_history(core.rng(0, "C08", "corpus", 6), "raiser", ["retry", "retry_default", "unrelated"], bad=L0, param=(4, False)))
    items.append(mk_history(core.rng(0, "C08", "corpus", 7), "fault", ["retry"], bad=MID, param="cycle"))
    items.append(mk_history(core.rng(0, "C08", "corpus", 8), "fault", ["unrelated", "share"], bad=TOP, param="width"))
    items.append(mk_history(core.rng(0, "C08", "corpus", 9), "fault", ["repair", "retry_default"], bad=BAD, param="unnamed"))
    return items


def nontrivial(item, out):
    return first_failed(out) and sum(1 for s in item[0]["steps"] if s["op"] == "call") >= 2


def run(run, tier, seed, replay=None):
    quick = tier == "quick"
    static = core.run_worker("c08", dict(kind="static"))["results"][0]
    static["has_attr"] = all(p["has_attr"] for p in static["passes"])
    run.coverage["default_passes"] = [(p["name"], p["rewrites"], p["marks"]) for p in static["passes"]]

    if replay is not None:
        if "gen_case" in replay:
            run_gen(run, "replay", [replay["gen_case"]])
            return
        c = replay["case"]
        item = (c["job"], {int(a): b for a, b in c["meta"].items()}, c["info"])
        for m in item[1].values():
            if m.get("bad") is not None:
                m["bad"] = tuple(m["bad"])
        outs, fresh, res, nf = evaluate("replay", static, [item])
        report(run, "replay", [item], outs, fresh, res)
        run.stream("replay", 1, 1 if nontrivial(item, outs[0]) else 0, rule="the replayed history")
        run.sample(dict(stream="replay", info=item[2], verdict=res.get(0, (0, -1))))
        return

    total = 0

    def do_stream(name, items, **extra):
        nonlocal total
        outs, fresh, res, nfresh = evaluate(name[:6].replace("-", ""), static, items)
        nt = {json.dumps(it[0], sort_keys=True) for it, o in zip(items, outs) if nontrivial(it, o)}
        per = {}
        for it, o in zip(items, outs):
            k = it[2]["kind"] + ("/" + it[2]["fault"] if it[2].get("fault") else "")
            e = per.setdefault(k, dict(histories=0, first_call_failed=0))
            e["histories"] += 1
            e["first_call_failed"] += first_failed(o)
        run.stream(name, len(items), len(nt), fresh_processes=nfresh, calls=sum(len([s for s in it[0]["steps"] if s["op"] == "call"]) for it in items),
                   per_kind=per, injections_not_triggered=sum(1 for it in items if it[2].get("not_triggered")),
                   first_call_did_not_fail=sum(1 for o in outs if not first_failed(o)),
                   rule="non-trivial = the first call fails in the implementation and at least one call follows; distinct by history", **extra)
        report(run, name, items, outs, fresh, res, keep_order=(name == "corpus"))
        total += len(items)
        return outs

    # ---------------------------------------------------------------- corpus
    items = corpus_items()
    outs = do_stream("corpus", items)
    run.sample(dict(stream="corpus", info=items[0][2], first=outs[0]["steps"][0].get("err"), second=outs[0]["steps"][1].get("err")))

    # ---------------------------------------------------------------- exhaustive-small: every (pass position, module) x continuation
    items = []
    k = 0
    conts = CONTS if not quick else [["retry", "retry_export"], ["retry_default", "share"], ["unrelated", "share_bad"]]
    for bad in (L0, BAD, TOP):
        for at in range(11):
            for rewrites in (True, False):
                for cont in (conts if not quick else [conts[(at + bad + rewrites) % len(conts)]]):
                    items.append(mk_history(core.rng(seed, "C08", "exh-raiser", k), "raiser", cont, bad=bad, param=(at, rewrites)))
                    k += 1
    for bad in (L0, BAD, TOP):
        for base in sorted(HALF_BASES):
            for kk in (1, 2):
                for cont in (conts if not quick else [conts[(kk + bad) % len(conts)], ["retry_default"]]):
                    items.append(mk_history(core.rng(seed, "C08", "exh-half", k), "half", cont, bad=bad, param=(base, kk)))
                    k += 1
    for bad in (L0, BAD, TOP):
        for fault in sorted(FAULTS):
            for cont in (conts + [["repair", "retry_default"]] if not quick else [conts[(bad + len(fault)) % len(conts)], ["repair", "retry_default"]]):
                items.append(mk_history(core.rng(seed, "C08", "exh-fault", k), "fault", cont, bad=bad, param=fault))
                k += 1
    outs = do_stream("exhaustive-positions", items, exhaustive=True,
                     box="raising pass at each of the 11 positions of the default list x {rewriting, checking} x module in {leaf, middle, top}; "
                         "each of 4 rewriting passes interrupted at its 1st/2nd flatname call; each of 8 design-fault classes; x continuations")
    run.sample(dict(stream="exhaustive-positions", info=items[5][2], steps=[s.get("err") or s.get("ok") or s.get("edit") for s in outs[5]["steps"]]))

    # ---------------------------------------------------------------- structured random histories
    n = 60 if quick else 1500
    items = []
    for k in range(n):
        r = core.rng(seed, "C08", "random", k)
        kind = r.choice(["raiser", "half", "fault", "fault"])
        cont = [r.choice(["retry", "retry_export", "retry_default", "repair", "unrelated", "share", "share_bad", "both", "leafs"])
                for _ in range(r.randint(1, 5))]
        items.append(mk_history(r, kind, cont))
    outs = do_stream("random-histories", items)
    run.sample(dict(stream="random-histories", info=items[1][2], steps=[s.get("err") or s.get("ok") or s.get("edit") for s in outs[1]["steps"]]))

    # ---------------------------------------------------------------- generators
    run_gen(run, "generator-corpus", gen_corpus())
    gj = gen_jobs(core.rng(seed, "C08", "gen", 0), 40 if quick else 1500, 5 if quick else 8)
    gouts = run_gen(run, "generator-random", gj)
    run.sample(dict(stream="generator-random", case=gj[0], outcomes=[s.get("err", {}).get("msg") or s.get("ok") for s in gouts[0]["steps"]]))
    run.coverage["traces_validated_against_impl"] = total + len(gj) + len(gen_corpus())
