"""C08 — a failed elaboration, export or generator call does not poison later ones (DESIGN.md 6.10).

Every case is a HISTORY of calls in one fresh interpreter (harness/impl/c08.py): a call built to fail, then continuations
(retry unchanged, retry without the injected fault, repair + retry, an unrelated design, designs sharing sub-modules with
the failed one).  For every call the same call alone is also run in its own fresh interpreter.  Coq (Corr/C08.v) evaluates
the specification on these observables (code 1) and replays the history through the pass-manager model with the
`repaired` policy (Model/C08PassFail.v), comparing outcome, done sets, failure records, elaborated marks and pending
emptiness after every call (code 2).  Generator histories go through Model/C08GenFail.v the same way.
"""
import json, re, copy
from concurrent.futures import ThreadPoolExecutor
from . import core
from .core import cz, clist, cbool

IMPORTS = ("Require Import Hdl21.Base.PyInt Hdl21.Model.C08PassFail Hdl21.Model.C08GenFail Hdl21.Model.C08Elaborator Hdl21.Corr.C03 Hdl21.Corr.C08.")

FAULTS = {  # fault class -> is the module left half-rewritten when the fault is caught (caught inside a rewriting pass)?
    "missing": False, "width": False, "orphan": False, "unnamed": False, "cycle": False,
    "arrwidth": True, "badref": True, "anonmissing": True,
    # strengthening round 2: an instance of the module connected to an object that belongs to ANOTHER (valid) module; Orphanage
    "borrow": False}
FAULTS2 = ["missing", "width", "orphan", "arrwidth", "badref"]      # faults of the UNRELATED design's leaf (a second, independent failure)
BORROW_NEEDS = {"sig": None, "slice": None, "port": None, "binst": "bun", "bref": "bun", "pref": "ref"}
INSTALLS = ["scratch", "mutate", "inplace"]
HALF_BASES = {"InstBundleElabPass": "pairp", "ResolvePortRefs": "ref", "BundleFlattener": "bun", "ArrayFlattener": "arrp"}
FEATS = ["ref", "slc", "nc", "arrp", "bun", "pairp"]

# universe layout (indices); NEW = the module in which the failure occurs, built anew (without the fault)
L0, L1, S, BAD, MID, TOP, U0, UT, SH1, SH2, NEW = range(11)

# what ends a pass body: the key of harness/impl/c08.py EXC -> exception class name.  Only "exc" is an `Exception`.
EXC_CLS = {"exc": "RuntimeError", "kbd": "KeyboardInterrupt", "exit": "SystemExit", "outcome": "Outcome",
           "cancel": "CancelledError", "genexit": "GeneratorExit"}
BASE_CLS = set(EXC_CLS.values()) - {"RuntimeError"}
GEN_KIND_OF = {"RuntimeError": 0, "KeyboardInterrupt": 2, "SystemExit": 3, "Outcome": 4, "CancelledError": 5, "GeneratorExit": 6}


# ------------------------------------------------------------------------------------------ running histories
def run_histories(jobs, kind="history"):
    """one fresh interpreter state per history: each runs in its own forked child of a driver process that has only
    imported hdl21 (the import alone costs > 1 s; the driver checks that every global cache is untouched before each fork)"""
    if not jobs:
        return []
    n = len(jobs)
    nshard = max(1, min(core.NPROC, (n + 7) // 8))
    shards = [jobs[i::nshard] for i in range(nshard)]
    with ThreadPoolExecutor(max_workers=nshard) as ex:
        outs = list(ex.map(lambda sh: core.run_worker("c08", dict(kind=kind, jobs=sh, fork=True), timeout=900)["results"], shards))
    res = [None] * n
    for s_, out in enumerate(outs):
        for j, r in enumerate(out):
            res[s_ + j * nshard] = r
    return res


def closure(mods, tops):
    seen, todo = set(), list(tops)
    while todo:
        k = todo.pop()
        if k not in seen:
            seen.add(k)
            todo += [c for _, c in mods[k]["kids"]]
    return seen


def with_fresh(jobs, kind="history", bads=None):
    """(outs, fresh, minimal, n) — fresh[i][k] = what step k of history i returns when it is the only call of its process, all
    objects of the history built and edited as they were; minimal[i][k] = the same when NOTHING BUT THE DESIGN of the call
    was ever built in the process (only for calls whose design never contained the faulty module bads[i]: "the result a
    fresh process gives" for a design cannot depend on which other, faulty modules someone built next to it)"""
    outs = run_histories(jobs, kind)
    fjobs, where, seen = [], [], {}

    def fjob(fj):
        key = json.dumps(fj, sort_keys=True)
        if key not in seen:
            seen[key] = len(fjobs)
            fjobs.append(fj)
        return seen[key]
    for i, j in enumerate(jobs):
        for k, st in enumerate(j["steps"]):
            if st.get("op", "call") != "call":
                continue
            # the edits the library accepted so far (a refused edit did not change the design)
            pre = [s for q, s in enumerate(j["steps"][:k]) if s.get("op") == "edit" and outs[i]["steps"][q].get("edit") == "ok"]
            where.append((i, k, fjob(dict(j, steps=pre + [st], only=len(pre))), len(pre), False))
            if bads is not None and bads[i] is not None:
                keep = closure(j["mods"], st["tops"])
                if bads[i] not in keep:
                    pre2 = [s for s in pre if s["mod"] in keep]
                    where.append((i, k, fjob(dict(j, steps=pre2 + [st], only=len(pre2), keep=sorted(keep))), len(pre2), True))
    fouts = run_histories(fjobs, kind)
    fresh = [dict() for _ in jobs]
    minimal = [dict() for _ in jobs]
    for i, k, f, pos, mn in where:
        (minimal if mn else fresh)[i][k] = fouts[f]["steps"][pos]
    return outs, fresh, minimal, len(fjobs)


# ------------------------------------------------------------------------------------------ Coq printing
def cn(n):
    return f"{n}%nat"


def cpair(a, b):
    return f"({cn(a)}, {cn(b)})"


class Interner:
    def __init__(self, names):
        self.tab = {}
        self.names = names          # module names -> index (for the circular-dependency message)

    def err(self, e):
        m = re.search(r"circular dependency in `Module\((?:name=)?(\w+)\)`", e["msg"])
        if m and e["cls"] == "RuntimeError":
            nm = m.group(1)
            idx = self.names.get(None if nm == "_anon_" else nm)
            if idx is not None:
                return f"(CCycle {cn(idx)})"
        return f"(CE {cz(self.code(e))})"

    def code(self, e):
        """error identity (class, message); negative for the classes that are no `Exception` (Model/C08PassFail.v code_base)"""
        key = (e["cls"], e["msg"])
        if key not in self.tab:
            self.tab[key] = (len(self.tab) + 1) * (-1 if e["cls"] in BASE_CLS else 1)
        return self.tab[key]


def c_iout(r, it):
    if r is None:
        return "None"
    if "err" in r:
        return f"(Some (IErr {it.err(r['err'])}))"
    d = int(r["ok"], 16) if r["ok"] else 0
    mods = [m for m in r["mods"]]
    if any(m < 0 for m in mods):
        mods = [999]
    return f"(Some (IOk {d} {clist(mods, cn)}))"


def pass_records(static, job, elab, keys):
    """the pass list of a call as model records; default classes get the index of their first occurrence"""
    names = [p["name"] for p in static["passes"]]
    flags = {p["name"]: p for p in static["passes"]}
    base = [(names.index(n), flags[n]["rewrites"], flags[n]["marks"]) for n in names]
    if elab != "custom":
        return base
    out = list(base)
    specs = {ps["key"]: ps for ps in job["custom"]}
    res = []
    bi = 0
    for k in keys:
        if k is None:
            res.append(base[bi]); bi += 1
            continue
        ps = specs[k]
        pid = 100 + [x["key"] for x in job["custom"]].index(k)
        if ps["kind"] == "raiser":
            res.append((pid, bool(ps.get("rewrites", True)) or not static["has_attr"], False))
        else:
            res.append((pid, True, False)); bi += 1
    return res


def custom_pid(job, key):
    return 100 + [x["key"] for x in job["custom"]].index(key)


def c_pass(p):
    return f"{{| pid := {cn(p[0])}; prw := {cbool(p[1])}; pmk := {cbool(p[2])} |}}"


def c_install(static, job, elab, prs):
    """how the pass list of the call is made, as a step of Model/C08Elaborator.v"""
    if elab != "custom":
        return "EReset"
    how = job.get("install", "scratch")
    if how == "scratch":
        return f"(EScratch {clist(prs, c_pass)})"
    names = [p["name"] for p in static["passes"]]
    ops, ins = [], []
    for ps in job["custom"]:
        pid = custom_pid(job, ps["key"])
        if ps["kind"] == "raiser":
            ins.append((ps["at"], (pid, bool(ps.get("rewrites", True)) or not static["has_attr"], False)))
        else:
            ops.append(f"ERepl {cn(names.index(ps['base']))} {c_pass((pid, True, False))}")
    for at, p_ in sorted(ins, key=lambda t: -t[0]):
        ops.append(f"EIns {cn(at)} {c_pass(p_)}")
    return f"({'EMutate' if how == 'mutate' else 'EInplace'} {clist(ops)})"


def c_history(static, job, out, fresh, meta, minimal=None):
    """meta[k] (call steps only): retry_of, bad (module, half) or None, search(bool), carry(bool)"""
    minimal = minimal or {}
    names = {sp["name"]: i for i, sp in enumerate(job["mods"])}
    it = Interner(names)
    steps = []
    call_index = {}          # step position -> index among call steps
    # intern the errors in history order first, so that injected messages get stable codes
    for k, st in enumerate(job["steps"]):
        if st.get("op") != "call":
            continue
        r = out["steps"][k]
        call_index[k] = len(call_index)
        if "err" in r:
            it.err(r["err"])
    pnames = [p["name"] for p in static["passes"]]
    for k, st in enumerate(job["steps"]):
        if st.get("op") != "call":
            continue
        r = out["steps"][k]
        mt = meta[k]
        prs = pass_records(static, job, st["elab"], out["custom_keys"])
        passes = clist(prs, c_pass)
        kids = clist(list(enumerate(r["kids"])), lambda e: f"({cn(e[0])}, {clist(e[1], cn)})")
        fails = []
        if st["elab"] == "custom" and mt.get("inject", True):
            for ps in job["custom"]:
                # the identity of the injected failure = the text observed for it (an `Exception` is raised through
                # ElabPass.fail, so its text carries the hierarchical path to the target module)
                xc = EXC_CLS[ps.get("exc", "exc")]
                seen_ = [o_["err"] for s_, o_ in zip(job["steps"], out["steps"]) if s_.get("op") == "call" and o_ and "err" in o_
                         and o_["err"]["cls"] == xc and o_["err"]["msg"].endswith(ps["msg"])]
                code = it.code(seen_[0] if seen_ else dict(cls=xc, msg=ps["msg"]))
                for tg in [ps["target"]] + ps.get("also", []):
                    fails.append(f"({cn(custom_pid(job, ps['key']))}, {cn(tg)}, {cz(code)})")
        call = (f"{{| c_kids := {kids}; c_passes := {passes}; c_tops := {clist(st['tops'], cn)}; "
                f"c_fail := {clist(fails)}; c_export := {cbool(st['entry'] != 'elaborate')} |}}")
        done = []
        for key, ms in r["done"].items():
            pid = pnames.index(key) if key in pnames else custom_pid(job, key)
            done += [cpair(pid, m) for m in ms]
        failed = clist(sorted(r["failed"].items()), lambda kv: f"({cn(int(kv[0]))}, {cz(it.code(kv[1]))})")
        pend_empty = all(not v for v in r["pend"].values())
        txt = lambda x: cz(it.code(x["err"])) if x is not None and "err" in x else "0"
        inst = []
        for key in (r.get("installed") or ["?none"]):
            inst.append(pnames.index(key) if key in pnames else (custom_pid(job, key) if key in [x["key"] for x in job["custom"]] else 999))
        obs = (f"{{| o_out := {c_iout(r, it)[6:-1]}; o_txt := {txt(r)}; o_pend_empty := {cbool(pend_empty)}; o_done := {clist(done)}; "
               f"o_failed := {failed}; o_elab := {clist(r['elab'], cn)}; o_installed := {clist(inst, cn)} |}}")
        retry = "None" if mt.get("retry_of") is None else f"(Some {cn(call_index[mt['retry_of']])})"
        bad = "None" if mt.get("bad") is None else f"(Some ({cn(mt['bad'][0])}, {cbool(mt['bad'][1])}))"
        search = "None"
        if mt.get("search") and "err" in r and not it.err(r["err"]).startswith("(CCycle"):
            search = f"(Some {cz(it.code(r['err']))})"
        steps.append(f"{{| st_call := {call};\n    st_obs := {obs};\n    st_retry_of := {retry}; st_fresh := {c_iout(fresh.get(k), it)}; "
                     f"st_fresh_txt := {txt(fresh.get(k))}; st_min := {c_iout(minimal.get(k), it)}; st_min_txt := {txt(minimal.get(k))}; "
                     f"st_bad := {bad}; st_search := {search}; st_carry := {cbool(bool(mt.get('carry')))}; "
                     f"st_install := {c_install(static, job, st['elab'], prs)} |}}")
    return clist(steps), it


# ------------------------------------------------------------------------------------------ universes and histories
def universe(r, bad, fault=None, need=None, borrow=None, fault2=None):
    def feats(extra=()):
        f = [x for x in FEATS if r.random() < 0.35]
        for e in extra:
            if e not in f:
                f.append(e)
        return f
    special = lambda: r.choice(["inst", "inst", "arr", "pair"])
    mods = [None] * 10
    binst = fault == "borrow" and borrow[0] == "binst"
    mods[L0] = dict(name="L0", kids=[], feats=feats() + (["bport"] if (fault == "anonmissing" or binst or r.random() < 0.3) else []))
    mods[L1] = dict(name="L1", kids=[], feats=feats())
    mods[S] = dict(name="S", kids=[[special(), L1]], feats=feats())
    k0 = r.choice(["inst", "arr"]) if (fault == "anonmissing" or binst) else special()
    mods[BAD] = dict(name="BAD", kids=([["inst", L1]] if r.random() < 0.4 and k0 != "inst" else []) + [[k0, L0]], feats=feats())
    if fault == "anonmissing" or binst:
        mods[BAD]["kids"] = [[k0, L0]]
    order = [["inst", S], [special(), BAD]] if r.random() < 0.5 else [["inst", BAD], [special(), S]]
    mods[MID] = dict(name="MID", kids=order, feats=feats())
    mods[TOP] = dict(name="TOP", kids=[["inst", MID]] + ([["inst", L1]] if r.random() < 0.5 else []), feats=feats())
    mods[U0] = dict(name="U0", kids=[], feats=feats())
    mods[UT] = dict(name="UT", kids=[[special(), U0]], feats=feats())
    mods[SH1] = dict(name="SH1", kids=[["inst", S], [special(), L1]], feats=feats())
    mods[SH2] = dict(name="SH2", kids=[["inst", S], [special(), BAD]], feats=feats())
    for m in mods:
        m["fault"] = None
        # an instance pair cannot connect a bundle-valued port of its target
        m["kids"] = [[("inst" if kd == "pair" and "bport" in mods[ci]["feats"] else kd), ci] for kd, ci in m["kids"]]
    b = mods[bad]
    if need and need not in b["feats"]:
        b["feats"].append(need)
    if fault2:                      # the unrelated design has a fault of its own, in its leaf
        mods[U0]["fault"] = fault2
    if fault == "borrow":
        what, owner = borrow
        b["borrow"] = {"from": owner, "what": what}
        nd = BORROW_NEEDS[what]
        if nd and nd not in mods[owner]["feats"]:
            mods[owner]["feats"].append(nd)
    if fault:
        b["fault"] = fault
        if fault == "unnamed":
            b["name"] = None
        if fault == "cycle":
            b["kids"] = [["inst", bad]] + b["kids"]
    return mods


def contains(mods, top, target):
    seen, todo = set(), [top]
    while todo:
        k = todo.pop()
        if k in seen:
            continue
        seen.add(k)
        todo += [c for _, c in mods[k]["kids"]]
    return target in seen


def call(tops, entry="to_proto", elab="default"):
    return dict(op="call", entry=entry, tops=tops, elab=elab)


def parents_of(mods, x):
    return [i for i, m in enumerate(mods) if i != x and any(ci == x for _, ci in m["kids"])]


OWNERS = [S, L1, U0, UT, SH1]       # valid modules a faulty one may borrow from (none of them contains it)


def mk_history(r, kind, cont, bad=None, param=None, exc="exc", install=None, also=None, fault2=None):
    """kind = raiser | half | fault ; cont = names of the continuations; exc = what ends the injected pass body (EXC_CLS);
    returns (job, meta, info)"""
    bad = bad if bad is not None else r.choice([L0, BAD, BAD, TOP])
    custom, fault, need, borrow = [], None, None, None
    # the injected pass would raise in these modules of OTHER designs too, were it still installed when they are elaborated
    also = also if also is not None else r.choice([[], [U0], [UT], [SH1], [U0, SH1]])
    install = install or r.choice(INSTALLS)
    if fault2 is None:
        fault2 = r.choice([False, False, False] + FAULTS2)
    if kind == "raiser":
        at, rewrites = param if param else (r.randint(0, 10), r.random() < 0.6)
        custom = [dict(key="X0", kind="raiser", at=at, target=bad, rewrites=rewrites, msg="injected by a custom pass", exc=exc, **({"also": also} if also else {}))]
        half = False
    elif kind == "half":
        base, k = param if param else (r.choice(sorted(HALF_BASES)), r.choice([1, 1, 2]))
        need = HALF_BASES[base]
        custom = [dict(key="X0", kind="half", base=base, target=bad, k=k, msg="injected part-way through a rewriting pass", exc=exc, **({"also": also} if also else {}))]
        half = True
    else:
        fault = param if param else r.choice(sorted(FAULTS))
        if isinstance(fault, (list, tuple)):
            fault, borrow = fault[0], (fault[1], fault[2])
        if fault == "borrow" and borrow is None:
            borrow = (r.choice(sorted(BORROW_NEEDS) + ["binst", "binst"]), r.choice(OWNERS))
        if fault == "anonmissing" or (fault == "borrow" and borrow[0] == "binst"):
            bad = BAD
        half = FAULTS[fault]
        exc = "exc"
        install = "scratch"
    mods = universe(r, bad, fault, need, borrow, fault2)
    # the failing module built anew: same children, same content, without the fault (what "repair" means for a module
    # that is refused for good); nothing instantiates it until a `retarget` edit
    new = copy.deepcopy(mods[bad])
    new.update(name="NEW", fault=None, kids=[kc for kc in new["kids"] if kc[1] != bad])
    mods.append(new)
    elab0 = "custom" if custom else "default"
    first = call([TOP], r.choice(["to_proto", "to_proto", "elaborate"]), elab0)
    steps = [first]
    meta = {0: dict(bad=(bad, half), search=(kind == "fault"), carry=False)}

    def add(st, **m):
        steps.append(st)
        if st["op"] == "call":
            m.setdefault("carry", kind == "fault" and not repaired[0])
            meta[len(steps) - 1] = m

    repaired = [False]
    retargeted = [False]
    last_ut = [None]
    same = lambda: 0 if not repaired[0] and not retargeted[0] else None

    def unrelated():
        # the unrelated design; when it has a fault of its own (fault2) this is a second, independent failure, and its
        # repetition a retry of THAT call
        if fault2:
            add(call([UT], "to_proto", "default"), bad=(U0, FAULTS[fault2]), search=True, retry_of=last_ut[0])
            last_ut[0] = len(steps) - 1
        else:
            add(call([UT], "to_proto", "default"))
    for c in cont:
        if c == "retry":
            add(call([TOP], first["entry"], elab0), retry_of=same())
        elif c == "retry_export":
            add(call([TOP], "to_proto", elab0), retry_of=same())
        elif c == "retry_default":        # the injected fault is gone (default pass list); for design faults same as retry
            add(call([TOP], "to_proto", "default"), retry_of=(same() if kind == "fault" else None))
        elif c == "repair":
            if kind == "fault" and fault != "cycle":
                steps.append(dict(op="edit", mod=bad, what=fault))
                repaired[0] = True
            else:
                steps.append(dict(op="edit", mod=bad, what="addsig"))
        elif c in ("retarget", "retarget_one"):
            # the module is refused for good: point the instances of its parents (all of them / the first one) at NEW
            ps = parents_of(mods[:NEW], bad)
            for pi in (ps if c == "retarget" else ps[:1]):
                steps.append(dict(op="edit", what="retarget", mod=pi, old=bad, to=NEW))
                retargeted[0] = True
        elif c == "edit_sibling":         # a healthy module of the failed design gets more content and is elaborated on its own
            steps.append(dict(op="edit", mod=S, what="addref"))
            add(call([S], "to_proto", "default"))
        elif c == "new_top":              # the re-created module elaborated on its own
            add(call([NEW], "to_proto", "default"))
        elif c == "unrelated" or (c == "both" and fault2):
            unrelated()
        elif c == "owner":                # the design of the module the faulty one borrowed from (else: the unrelated design)
            if borrow and borrow[1] not in (U0, UT):
                add(call([borrow[1]], "to_proto", "default"))
            else:
                unrelated()
        elif c == "share":
            add(call([SH1], "to_proto", "default"))
        elif c == "share_bad":
            add(call([SH2], "to_proto", "default"))
        elif c == "share_bad_elab":       # elaborate only: a design with a refused module must not "succeed" either
            add(call([SH2], "elaborate", "default"))
        elif c == "both":
            add(dict(call([UT, TOP], "to_proto", "default"), aslist=True))
        elif c == "leafs":
            add(dict(call([L1, S], "elaborate", "default"), aslist=True))
    job = dict(mods=mods, custom=custom, steps=steps, install=install)
    return job, meta, dict(kind=kind, cont=list(cont), bad=bad, fault=fault, param=param, exc=exc, install=install, also=also,
                           fault2=fault2 or None, borrow=borrow)


CONTS = [["retry"], ["retry", "retry_export"], ["retry_default"], ["repair", "retry_default"], ["unrelated"], ["share"],
         ["share_bad"], ["retry", "repair", "retry_default", "unrelated"], ["unrelated", "retry_default", "share", "share_bad"],
         ["both"], ["leafs", "retry"],
         ["retarget", "retry_default", "share_bad"], ["retarget", "retry", "new_top"], ["share_bad", "retarget", "share_bad", "retry_export"],
         ["retarget_one", "retry_default", "share_bad_elab"], ["new_top", "retry"]]
# the ones that re-target
RT_CONTS = [c for c in CONTS if any(x.startswith("retarget") for x in c)]


def evaluate(tag, static, items, chunk=40):
    jobs = [it[0] for it in items]
    outs, fresh, minimal, nfresh = with_fresh(jobs, bads=[it[2].get("bad") for it in items])
    cases, inters = [], []
    for (job, meta, info), out, fr, mn in zip(items, outs, fresh, minimal):
        # an injection that did not trigger (the helper was not called often enough) is no injection
        if info["kind"] == "half" and "ok" in out["steps"][0]:
            for m in meta.values():
                m["inject"] = False
            meta[0]["bad"] = None
            info["not_triggered"] = True
        c, it = c_history(static, job, out, fr, meta, mn)
        cases.append(c)
        inters.append(it)
    bad = core.coq_eval_cases("C08", tag, IMPORTS, "hcase", cases, "run_cases chk_history", chunk=chunk)
    res = {i: (c % 10, c // 10 - 1) for i, c in bad}
    for o, mn in zip(outs, minimal):
        o["minimal"] = mn
    return outs, fresh, res, nfresh


def first_failed(out):
    return "err" in out["steps"][0]


def describe(info):
    return f"{info['kind']}" + (f"/{info['fault']}" if info.get("fault") else "") + \
        (f"/{info['param']}" if info.get("param") and info["kind"] != "fault" else "") + f" in module {info['bad']} then {'+'.join(info['cont'])}"


def short(r):
    """an error for the report line: how many lines of hierarchical path, and the last line"""
    lines = r["err"]["msg"].split("\n")
    return f"{r['err']['cls']}[path of {max(0, len(lines) - 2)} lines] {lines[-1][:90]}"


def report(run, stream, items, outs, fresh, res, limit=3, keep_order=False):
    size = (lambda i: i) if keep_order else (lambda i: (len(items[i][0]["steps"]), len(json.dumps(items[i][0]))))
    v1 = sorted([i for i, (c, _) in res.items() if c == 1], key=size)
    v2 = sorted([i for i, (c, _) in res.items() if c == 2], key=size)
    seen = set()
    for i in v1:
        job, meta, info = items[i]
        cls = (info["kind"], info.get("fault"), tuple(info["cont"][:res[i][1] + 1]))
        if cls in seen or len(seen) >= limit:
            continue
        seen.add(cls)
        st = res[i][1]
        calls = [k for k, s in enumerate(job["steps"]) if s["op"] == "call"]
        k = calls[st]
        key = "C08:" + json.dumps(dict(mods=job["mods"], custom=job["custom"], steps=job["steps"][:k + 1]), sort_keys=True)
        summary = [(short(s_) if "err" in s_ else ("package " + s_["ok"] if s_.get("ok") else "ok")) +
                   ("" if all(not v for v in s_["pend"].values()) else " [left pending: " + ",".join(f"{a}{b}" for a, b in s_["pend"].items() if b) + "]")
                   for s_ in outs[i]["steps"] if s_ is not None and "edit" not in s_]
        fr = fresh[i].get(k, {})
        run.violation(key, f"{describe(info)}: call #{st} {job['steps'][k]['entry']}({job['steps'][k]['tops']}) violates the specification; "
                      f"calls of the history returned: {summary}; a fresh process returns for call #{st}: "
                      f"{short(fr) if 'err' in fr else fr.get('ok')}" +
                      (f"; a process in which only this design was ever built returns: {short(outs[i]['minimal'][k]) if 'err' in outs[i]['minimal'][k] else outs[i]['minimal'][k].get('ok')}"
                       if k in outs[i].get("minimal", {}) else ""),
                      dict(kind="impl-violates-spec", stream=stream, case=dict(job=job, meta={str(a): b for a, b in meta.items()}, info=info),
                           failing_call=st, impl=[dict((a, b) for a, b in s.items() if a in ("ok", "err", "pend", "failed", "edit"))
                                                  for s in outs[i]["steps"]],
                           fresh={str(a): dict((x, y) for x, y in b.items() if x in ("ok", "err")) for a, b in fresh[i].items()},
                           only_this_design_built={str(a): dict((x, y) for x, y in b.items() if x in ("ok", "err")) for a, b in outs[i].get("minimal", {}).items()},
                           failing_cases=len(v1)))
    if v2 and not v1:
        i = v2[0]
        job, meta, info = items[i]
        run.violation(f"C08:{stream}:tie", f"model and implementation differ at call #{res[i][1]} of: {describe(info)}",
                      dict(kind="correspondence-broken", stream=stream, case=dict(job=job, meta={str(a): b for a, b in meta.items()}, info=info),
                           failing_call=res[i][1], impl=outs[i]["steps"], disagreeing_cases=len(v2),
                           theorem="C08 correspondence stream " + stream), found_input=False)


# ------------------------------------------------------------------------------------------ generator histories
GEN_SHAPE = [[], [0], [1, 0], [3], [2, 4]]        # G3 calls itself; G4 = {G2, G4}: a cycle reached after work
GEN_KINDS = [0, 0, 0, 1, 2, 2, 3, 4, 5, 6, 7, 7]  # how a body ends when it does not return a Module (Model/C08GenFail.v)
# kind 7 (C09 strengthening round): the call is made with a parameter value that has no JSON form; the body runs to its end and
# returns a Module, NAMING it raises.  For the cache that is a kind-0 failure after ALL nested calls: `mode_for_model`.


def gen_jobs(r, n, maxlen):
    """Each generator body fails (after a fixed number of its nested calls, in a fixed way: an Exception, a non-Module
    result, or one of five BaseExceptions that are no Exception) until the designer corrects it at some step, and returns
    from then on: a body that has once returned keeps returning, so cached results never hide a change.  G0..G2 may be
    declared with enable_cache=False (G3, G4 are cyclic: without the cache they would recurse for ever)."""
    jobs = []
    for _ in range(n):
        ln = r.randint(2, maxlen)
        fixed_at = {k: r.choice([0, 0, 0, r.randint(1, ln), r.randint(1, ln + 1)]) for k in range(len(GEN_SHAPE))}
        after = {k: [r.randint(0, len(GEN_SHAPE[k])), r.choice(GEN_KINDS)] for k in range(len(GEN_SHAPE))}
        unc = [k for k in (0, 1, 2) if r.random() < 0.2]
        steps = []
        for j in range(ln):
            key = r.choice([0, 1, 2, 2, 3, 4])
            steps.append(dict(key=key, modes={str(k): after[k] for k in fixed_at if j < fixed_at[k]}))
        jobs.append(dict(gens=GEN_SHAPE, uncached=unc, steps=steps))
    return jobs


def gen_corpus():
    boom = {"0": [0, 0]}
    kbd = {"0": [0, 2]}
    G = lambda steps, unc=(): dict(gens=GEN_SHAPE, uncached=list(unc), steps=steps)
    return [G([dict(key=0, modes=boom), dict(key=0, modes=boom), dict(key=0, modes={})]),   # DESIGN 7 #11
            G([dict(key=2, modes=boom), dict(key=2, modes={}), dict(key=1, modes={})]),
            G([dict(key=2, modes={"2": [1, 0]}), dict(key=0, modes={}), dict(key=2, modes={})]),
            G([dict(key=3, modes={}), dict(key=3, modes={}), dict(key=0, modes={})]),
            G([dict(key=4, modes={}), dict(key=2, modes={}), dict(key=4, modes={})]),
            G([dict(key=1, modes={"1": [1, 0]}), dict(key=1, modes={"1": [1, 0]}), dict(key=1, modes={})]),
            # strengthening round: a body ended by a KeyboardInterrupt inside a nested call, then both called again
            G([dict(key=1, modes=kbd), dict(key=1, modes={}), dict(key=0, modes={})]),
            G([dict(key=2, modes={"1": [1, 3]}), dict(key=1, modes={}), dict(key=2, modes={})]),          # SystemExit
            G([dict(key=0, modes={"0": [0, 4]}), dict(key=0, modes={"0": [0, 4]}), dict(key=0, modes={})]),  # a test outcome, twice
            G([dict(key=1, modes={"1": [1, 1]}), dict(key=1, modes={"1": [1, 1]}), dict(key=1, modes={})]),  # returns no Module
            G([dict(key=2, modes={"0": [0, 5]}), dict(key=2, modes={}), dict(key=2, modes={})], unc=[1]),   # through an uncached generator
            G([dict(key=1, modes={"1": [0, 6]}), dict(key=1, modes={})], unc=[1]),
            # C09 strengthening round: naming the result fails after the body ran - then the same call again, a caller of it, a
            # corrected call (seeded changes C08r2-A / C09r2-A: the un-named Module was left in the cache)
            G([dict(key=0, modes={"0": [0, 7]}), dict(key=0, modes={"0": [0, 7]}), dict(key=0, modes={})]),
            G([dict(key=2, modes={"1": [1, 7]}), dict(key=2, modes={"1": [1, 7]}), dict(key=1, modes={"1": [1, 7]}), dict(key=2, modes={})]),
            G([dict(key=1, modes={"1": [1, 7]}), dict(key=1, modes={"1": [1, 7]}), dict(key=0, modes={})], unc=[1])]


def mode_for_model(k, mode):
    return [len(GEN_SHAPE[k]), 0] if mode[1] == 7 else mode


def c_gout(r, names):
    if "ok" in r:
        return f"(GOk {names.setdefault(r['ok'], len(names) + 1)})"
    cls = r["err"]["cls"]
    m = re.search(r"Object of type 'NoName(\d+)' is not JSON serializable", r["err"]["msg"])
    if m and cls == "TypeError":
        return f"(GErr (GE {cn(int(m.group(1)))} {cn(0)}))"
    m = re.search(r"body of G(\d+) raised", r["err"]["msg"])
    if m and cls in GEN_KIND_OF:
        return f"(GErr (GE {cn(int(m.group(1)))} {cn(GEN_KIND_OF[cls])}))"
    m = re.search(r"Generator Generator\(name=G(\d+)\) returned .*must return", r["err"]["msg"])
    if m and cls == "RuntimeError":
        return f"(GErr (GE {cn(int(m.group(1)))} {cn(1)}))"
    m = re.search(r"circular dependency in `GeneratorCall\(gen=Generator\(name=G(\d+)\)", r["err"]["msg"])
    if m and cls == "RuntimeError":
        return f"(GErr (GCycle {cn(int(m.group(1)))}))"
    return "GOther"


def c_gcase(job, out, fresh):
    names = {}
    steps = []
    texts = {}
    txt = lambda x: texts.setdefault((x["err"]["cls"], x["err"]["msg"]), len(texts) + 1) if "err" in x else 0
    for k, st in enumerate(job["steps"]):
        r, f = out["steps"][k], fresh[k]
        modes = clist(sorted((int(a), mode_for_model(int(a), b)) for a, b in st["modes"].items()), lambda e: f"({cn(e[0])}, Some ({cn(e[1][0])}, {cn(e[1][1])}))")
        steps.append(f"{{| g_key := {cn(st['key'])}; g_modes := {modes}; g_out := {c_gout(r, names)}; g_fresh := {c_gout(f, names)}; g_txt := {txt(r)}; g_fresh_txt := {txt(f)}; "
                     f"g_pend_empty := {cbool(r['pend'] == 0)}; g_stack_empty := {cbool(r['stack'] == 0)}; "
                     f"g_done := {clist(r['done'], cn)}; g_runs := {clist(sorted((int(a), b) for a, b in r['runs'].items()), lambda e: cpair(*e))} |}}")
    calls = clist(list(enumerate(job["gens"])), lambda e: f"({cn(e[0])}, {clist(e[1], cn)})")
    return f"({calls}, {clist(job.get('uncached', []), cn)}, {clist(steps)})"


def gen_reach(gens, k):
    seen, todo = set(), [k]
    while todo:
        x = todo.pop()
        if x not in seen:
            seen.add(x)
            todo += gens[x]
    return seen


def gen_coverage(jobs, outs, cov):
    """what the generator streams exercised (targets of the strengthening round; counted on the implementation's answers)"""
    for j, o in zip(jobs, outs):
        for i, (st, r) in enumerate(zip(j["steps"], o["steps"])):
            if "err" not in r:
                continue
            m = re.search(r"body of G(\d+) raised", r["err"]["msg"])
            later = [s["key"] for s in j["steps"][i + 1:]]
            if m and r["err"]["cls"] in BASE_CLS:
                # the calls that were in flight when the BaseException passed: the failing body and the callers above it
                inflight = {k for k in gen_reach(j["gens"], st["key"]) if int(m.group(1)) in gen_reach(j["gens"], k)}
                cov["gen_base_exception"] += 1
                if any(k in inflight and k not in j.get("uncached", []) for k in later):
                    cov["gen_base_exception_then_same_call_again"] += 1
                if int(m.group(1)) != st["key"]:
                    cov["gen_base_exception_through_nested_call"] += 1
            mn = re.search(r"Object of type 'NoName(\d+)'", r["err"]["msg"])
            if mn:
                nxt = j["steps"][i + 1] if i + 1 < len(j["steps"]) else None
                if nxt and (nxt["modes"].get(mn.group(1)) or [0, 0])[1] == 7 and int(mn.group(1)) in gen_reach(j["gens"], nxt["key"]):
                    cov["gen_naming_failed_then_call_repeated"] += 1
            if "returned" in r["err"]["msg"] and "must return" in r["err"]["msg"] and later:
                cov["gen_non_module_result_then_more"] += 1
            if m and int(m.group(1)) in j.get("uncached", []) and later:
                cov["gen_uncached_body_failed_then_more"] += 1


def run_gen(run, stream, jobs, cov=None):
    for j in jobs:
        for s in j["steps"]:
            s["op"] = "call"
    outs, fresh, _mn, nfresh = with_fresh(jobs, kind="gen")
    cases = [c_gcase(j, o, f) for j, o, f in zip(jobs, outs, fresh)]
    bad = core.coq_eval_cases("C08", stream.replace("-", "_"), IMPORTS, "gcase", cases, "run_cases chk_gen", chunk=100)
    raised = sum(1 for o in outs if any("err" in s for s in o["steps"][:-1]))
    if cov is not None:
        gen_coverage(jobs, outs, cov)
    classes = {}
    for o in outs:
        for s_ in o["steps"]:
            if "err" in s_:
                classes[s_["err"]["cls"]] = classes.get(s_["err"]["cls"], 0) + 1
    run.stream(stream, len(jobs), len({json.dumps(j, sort_keys=True) for j, o in zip(jobs, outs) if any("err" in s for s in o["steps"][:-1])}),
               histories_with_a_raising_call_followed_by_more=raised, fresh_processes=nfresh, calls=sum(len(j["steps"]) for j in jobs),
               failing_calls_by_exception_class=classes, histories_with_uncached_generators=sum(1 for j in jobs if j.get("uncached")),
               rule="non-trivial = some call before the last one raised (body or cycle); distinct by history")
    v1 = sorted([i for i, c in bad if c % 10 == 1], key=lambda i: len(jobs[i]["steps"]))
    v2 = sorted([i for i, c in bad if c % 10 == 2], key=lambda i: len(jobs[i]["steps"]))
    code = dict(bad)
    for i in v1[:2]:
        st = code[i] // 10 - 1
        j = dict(gens=jobs[i]["gens"], uncached=jobs[i].get("uncached", []), steps=jobs[i]["steps"][:st + 1])
        run.violation("C08:gen:" + json.dumps(j, sort_keys=True),
                      f"generator history {[(s['key'], s['modes']) for s in j['steps']]} (uncached: {j['uncached']}): call #{st} gives "
                      f"{outs[i]['steps'][st].get('err') or outs[i]['steps'][st].get('ok')}"
                      f" (pending {outs[i]['steps'][st]['pend']}, stack {outs[i]['steps'][st]['stack']}); a fresh process gives "
                      f"{fresh[i][st].get('err') or fresh[i][st].get('ok')}",
                      dict(kind="impl-violates-spec", stream=stream, gen_case=j, failing_call=st,
                           impl=outs[i]["steps"][:st + 1], fresh=fresh[i][st], failing_cases=len(v1)))
    if v2 and not v1:
        i = v2[0]
        run.violation(f"C08:{stream}:tie", f"generator-cache model and implementation differ at call #{code[i] // 10 - 1}",
                      dict(kind="correspondence-broken", stream=stream, gen_case=jobs[i], impl=outs[i]["steps"],
                           theorem="C08 correspondence stream " + stream, disagreeing_cases=len(v2)), found_input=False)
    return outs


# ------------------------------------------------------------------------------------------ run
OLD = dict(also=[], install="scratch", fault2=False)      # the histories of the earlier rounds, exactly as they were


def corpus_items():
    return corpus_items_old() + corpus_items_r3()


def corpus_items_r3():
    """strengthening round 2 (seeded changes C08r3-A/B/C)"""
    items = []
    R = lambda k: core.rng(0, "C08", "corpus-r3", k)
    # A: an error that no module records (circular dependency) repeated: the same text, hierarchical path included
    items.append(mk_history(R(1), "fault", ["retry", "retry"], bad=MID, param="cycle", **OLD))
    # A: a second, independent failure in the same pass class: the unrelated design has a missing connection of its own
    items.append(mk_history(R(2), "fault", ["unrelated", "unrelated", "retry"], bad=BAD, param="missing", also=[], install="scratch", fault2="missing"))
    items.append(mk_history(R(3), "fault", ["unrelated", "share"], bad=L0, param="orphan", also=[], install="scratch", fault2="orphan"))
    # B: the custom list made by editing Elaborator.default() / the installed elaborator, then reset_elaborator(), then the
    #    unrelated design and a design sharing sub-modules; the injected pass would raise in them too
    items.append(mk_history(R(4), "raiser", ["unrelated", "share", "retry"], bad=BAD, param=(0, True), also=[U0, SH1], install="mutate", fault2=False))
    items.append(mk_history(R(5), "raiser", ["share", "retry_default", "unrelated"], bad=L0, param=(5, False), also=[UT, SH1], install="inplace", fault2=False))
    items.append(mk_history(R(6), "half", ["unrelated", "retry", "share"], bad=BAD, param=("BundleFlattener", 1), also=[U0], install="mutate", fault2=False))
    # C: an instance of the faulty module connected to a Bundle instance / signal / port reference of ANOTHER, valid module,
    #    then the owner's design
    items.append(mk_history(R(7), "fault", ["retry", "owner", "owner"], bad=BAD, param=("borrow", "binst", U0), also=[], install="scratch", fault2=False))
    items.append(mk_history(R(8), "fault", ["owner", "share", "retry"], bad=BAD, param=("borrow", "binst", S), also=[], install="scratch", fault2=False))
    items.append(mk_history(R(9), "fault", ["owner", "retry"], bad=TOP, param=("borrow", "pref", L1), also=[], install="scratch", fault2=False))
    items.append(mk_history(R(10), "fault", ["owner", "share"], bad=L0, param=("borrow", "bref", SH1), also=[], install="scratch", fault2=False))
    return items


def corpus_items_old():
    items = []
    # DESIGN 7 #10: a module with a missing connection elaborated twice
    items.append(mk_history(core.rng(0, "C08", "corpus", 1), "fault", ["retry"], bad=BAD, param="missing", **OLD))
    # the "obvious repair" witnesses: a failure inside the array / bundle flattening pass, then a retry without the injection
    items.append(mk_history(core.rng(0, "C08", "corpus", 2), "half", ["retry_default"], bad=BAD, param=("ArrayFlattener", 1), **OLD))
    items.append(mk_history(core.rng(0, "C08", "corpus", 3), "half", ["retry_default"], bad=BAD, param=("BundleFlattener", 2), **OLD))
    items.append(mk_history(core.rng(0, "C08", "corpus", 4), "fault", ["repair", "retry_default"], bad=BAD, param="arrwidth", **OLD))
    items.append(mk_history(core.rng(0, "C08", "corpus", 5), "fault", ["retry", "share_bad", "share"], bad=BAD, param="anonmissing", **OLD))
    items.append(mk_history(core.rng(0, "C08", "corpus", 6), "raiser", ["retry", "retry_default", "unrelated"], bad=L0, param=(4, False), **OLD))
    items.append(mk_history(core.rng(0, "C08", "corpus", 7), "fault", ["retry"], bad=MID, param="cycle", **OLD))
    items.append(mk_history(core.rng(0, "C08", "corpus", 8), "fault", ["unrelated", "share"], bad=TOP, param="width", **OLD))
    items.append(mk_history(core.rng(0, "C08", "corpus", 9), "fault", ["repair", "retry_default"], bad=BAD, param="unnamed", **OLD))
    # strengthening round
    # (b) a rewriting pass ended part-way by a KeyboardInterrupt, then a retry without the injection (fix C08-3)
    items.append(mk_history(core.rng(0, "C08", "corpus", 10), "half", ["retry_default"], bad=BAD, param=("ArrayFlattener", 1), exc="kbd", **OLD))
    items.append(mk_history(core.rng(0, "C08", "corpus", 11), "half", ["retry", "share_bad"], bad=L0, param=("BundleFlattener", 1), exc="outcome", **OLD))
    # (a) the module with the missing connection is built anew and its parents pointed there, then the retry (fix C08-4):
    #     the passes before ConnTypes are done with the parents, the new module has port references to be resolved
    for k, (bad, fault, cont) in enumerate([(BAD, "missing", ["retarget", "retry_default"]),
                                             (L0, "arrwidth", ["retarget", "retry_default", "share_bad"]),
                                             (BAD, "width", ["retarget_one", "retry", "share_bad"])]):
        job, meta, info = mk_history(core.rng(0, "C08", "corpus", 12 + k), "fault", cont, bad=bad, param=fault, **OLD)
        for i in (bad, NEW):
            for ft in ("ref", "bun", "arrp"):
                if ft not in job["mods"][i]["feats"]:
                    job["mods"][i]["feats"].append(ft)
        items.append((job, meta, info))
    # a parent built around the failed module afterwards is refused untouched; re-targeted, it is elaborated as in a fresh process
    items.append(mk_history(core.rng(0, "C08", "corpus", 15), "fault", ["share_bad", "retarget", "share_bad", "retry_default"], bad=BAD, param="arrwidth", **OLD))
    items.append(mk_history(core.rng(0, "C08", "corpus", 16), "raiser", ["share_bad_elab", "retarget", "share_bad", "new_top"], bad=BAD, param=(6, True), exc="exit", **OLD))
    # KNOWN FINDING (tools/findings/C08.json): the failed call leaves the healthy modules of its design completed by the
    # passes before the failing one, and - unlike after a successful elaboration - still open to additions, which those
    # passes never see.  The witness stays here so that any change of this behaviour shows.
    items.append(mk_history(core.rng(0, "C08", "corpus", 17), "fault", ["edit_sibling"], bad=BAD, param="missing", **OLD))
    return items


def nontrivial(item, out):
    return first_failed(out) and sum(1 for s in item[0]["steps"] if s["op"] == "call") >= 2


# what the strengthening round added to the histories; each is counted on the implementation's answers and must be > 0
TARGETS = {
    "base_exception_in_pass_body": "histories whose first call was ended by a BaseException that is no Exception raised in a pass body, followed by more calls",
    "base_exception_part_way_through_rewriting_pass": "... of these: raised part-way through a rewriting pass (module really half-rewritten)",
    "retarget_of_parent_with_completed_passes": "accepted re-targetings of a parent that some pass classes had already completed (observation (a)), followed by a call that reached it",
    "retarget_of_untouched_parent_after_refusal": "accepted re-targetings of a parent that had been refused once and no pass had completed (a parent built after the failure)",
    "package_returned_after_retarget": "calls after a re-targeting that returned a package (compared with the fresh process)",
    "recreated_module_elaborated_alone": "calls that elaborate the re-created module on its own",
    "gen_base_exception": "generator calls ended by a BaseException that is no Exception",
    "gen_base_exception_then_same_call_again": "... followed by a later call of a cached generator call that was in flight at the time",
    "gen_base_exception_through_nested_call": "... raised in a nested generator call",
    "gen_non_module_result_then_more": "generator bodies returning no Module, followed by more calls",
    "gen_uncached_body_failed_then_more": "failing bodies of generators declared with enable_cache=False, followed by more calls",
    "cycle_error_repeated": "calls repeating a call that reported a circular dependency (an error no module records), compared by exact text",
    "second_failure_in_unrelated_design": "failing calls on the unrelated design, which has a fault of its own, after the first failure (error text compared with the fresh process)",
    "custom_list_by_editing_default_then_other_design": "histories whose custom pass list was made by editing the list of Elaborator.default(), followed by a default-list call on a design in which the injected pass would raise",
    "custom_list_by_editing_installed_then_other_design": "... by editing the_global_elaborator.passes in place ...",
    "borrowed_object_owner_elaborated": "calls on the design of a valid module from which the faulty module borrowed a signal / slice / port / bundle member / port reference, compared with the process in which only that design exists",
    "borrowed_bundle_instance_owner_elaborated": "... from which it borrowed a Bundle instance (connected to a module that no other design elaborates)",
    "calls_compared_with_minimal_process": "calls on designs that never contained the faulty module, compared with the process in which nothing but that design was built",
    "gen_naming_failed_then_call_repeated": "generator calls whose result could not be NAMED (a parameter value without a JSON form: the failure comes after the body ran), followed by a call that makes the failing call again",
}


def module_coverage(items, outs, cov):
    for (job, meta, info), out in zip(items, outs):
        st0 = out["steps"][0]
        calls = [k for k, s_ in enumerate(job["steps"]) if s_["op"] == "call"]
        if "err" in st0 and st0["err"]["cls"] in BASE_CLS and len(calls) >= 2:
            cov["base_exception_in_pass_body"] += 1
            if info["kind"] == "half":
                cov["base_exception_part_way_through_rewriting_pass"] += 1
        cov["calls_compared_with_minimal_process"] += len(out.get("minimal", {}))
        for k, (st, r) in enumerate(zip(job["steps"], out["steps"])):
            if st["op"] != "call" or k == 0 or "err" not in st0:
                continue
            mt = meta.get(k, {})
            if mt.get("retry_of") is not None and "err" in r and "circular dependency" in out["steps"][mt["retry_of"]].get("err", {}).get("msg", ""):
                cov["cycle_error_repeated"] += 1
            if info.get("fault2") and st["tops"] == [UT] and "err" in r:
                cov["second_failure_in_unrelated_design"] += 1
            if info["kind"] != "fault" and st["elab"] == "default" and set(info.get("also") or []) & closure(job["mods"], st["tops"]):
                if info.get("install") == "mutate":
                    cov["custom_list_by_editing_default_then_other_design"] += 1
                elif info.get("install") == "inplace":
                    cov["custom_list_by_editing_installed_then_other_design"] += 1
            if info.get("borrow") and k in out.get("minimal", {}) and info["borrow"][1] in closure(job["mods"], st["tops"]):
                cov["borrowed_object_owner_elaborated"] += 1
                if info["borrow"][0] == "binst":
                    cov["borrowed_bundle_instance_owner_elaborated"] += 1
        seen_rt = False
        refused = set()          # tops of calls that failed so far
        for k, (st, r) in enumerate(zip(job["steps"], out["steps"])):
            if st["op"] == "call":
                if "err" in r:
                    refused.update(st["tops"])
                if seen_rt and r.get("ok"):
                    cov["package_returned_after_retarget"] += 1
                if st["tops"] == [NEW]:
                    cov["recreated_module_elaborated_alone"] += 1
            elif st.get("what") == "retarget" and r.get("edit") == "ok":
                seen_rt = True
                later = [s2 for s2 in job["steps"][k + 1:] if s2["op"] == "call" and any(contains(job["mods"], t, st["mod"]) for t in s2["tops"])]
                if r["levels"] > 0 and later:
                    cov["retarget_of_parent_with_completed_passes"] += 1
                if r["levels"] == 0 and st["mod"] in refused:
                    cov["retarget_of_untouched_parent_after_refusal"] += 1


def run(run, tier, seed, replay=None):
    quick = tier == "quick"
    static = core.run_worker("c08", dict(kind="static"))["results"][0]
    static["has_attr"] = all(p["has_attr"] for p in static["passes"])
    run.coverage["default_passes"] = [(p["name"], p["rewrites"], p["marks"]) for p in static["passes"]]

    if replay is not None:
        if "gen_case" in replay:
            run_gen(run, "replay", [replay["gen_case"]])
            return
        c = replay["case"]
        item = (c["job"], {int(a): b for a, b in c["meta"].items()}, c["info"])
        for m in item[1].values():
            if m.get("bad") is not None:
                m["bad"] = tuple(m["bad"])
        outs, fresh, res, nf = evaluate("replay", static, [item])
        report(run, "replay", [item], outs, fresh, res)
        run.stream("replay", 1, 1 if nontrivial(item, outs[0]) else 0, rule="the replayed history")
        run.sample(dict(stream="replay", info=item[2], verdict=res.get(0, (0, -1))))
        return

    total = 0
    cov = {k: 0 for k in TARGETS}

    def do_stream(name, items, **extra):
        nonlocal total
        outs, fresh, res, nfresh = evaluate(name[:6].replace("-", ""), static, items)
        module_coverage(items, outs, cov)
        nt = {json.dumps(it[0], sort_keys=True) for it, o in zip(items, outs) if nontrivial(it, o)}
        per = {}
        for it, o in zip(items, outs):
            k = it[2]["kind"] + ("/" + it[2]["fault"] if it[2].get("fault") else "") + ("/" + it[2]["exc"] if it[2].get("exc", "exc") != "exc" else "")
            e = per.setdefault(k, dict(histories=0, first_call_failed=0))
            e["histories"] += 1
            e["first_call_failed"] += first_failed(o)
        run.stream(name, len(items), len(nt), fresh_processes=nfresh, calls=sum(len([s for s in it[0]["steps"] if s["op"] == "call"]) for it in items),
                   per_kind=per, injections_not_triggered=sum(1 for it in items if it[2].get("not_triggered")),
                   first_call_did_not_fail=sum(1 for o in outs if not first_failed(o)),
                   retarget_edits=dict(accepted=sum(1 for o in outs for s_ in o["steps"] if s_ and s_.get("edit") == "ok" and "n" in s_ and s_["n"]),
                                       nothing_to_retarget=sum(1 for o in outs for s_ in o["steps"] if s_ and s_.get("edit") == "noop")),
                   rule="non-trivial = the first call fails in the implementation and at least one call follows; distinct by history", **extra)
        report(run, name, items, outs, fresh, res, keep_order=(name == "corpus"))
        total += len(items)
        return outs

    # ---------------------------------------------------------------- corpus
    items = corpus_items()
    outs = do_stream("corpus", items)
    run.sample(dict(stream="corpus", info=items[0][2], first=outs[0]["steps"][0].get("err"), second=outs[0]["steps"][1].get("err")))

    # ---------------------------------------------------------------- exhaustive-small: every (pass position, module) x continuation
    items = []
    k = 0
    conts = CONTS + [["unrelated", "share", "retry"], ["owner", "retry", "unrelated"]] if not quick else [
                                     ["retry", "retry_export"], ["retry_default", "share"], ["unrelated", "share_bad"], ["unrelated", "share", "retry"],
                                     ["retarget", "retry_default", "share_bad"], ["share_bad", "retarget", "share_bad", "retry_export"],
                                     ["retarget_one", "retry", "share_bad_elab", "new_top"]]
    excs = ["exc", "kbd", "exc", "exit", "exc", "outcome", "exc", "cancel", "genexit"]
    for bad in (L0, BAD, TOP):
        for at in range(11):
            for rewrites in (True, False):
                for cont in (conts if not quick else [conts[k % len(conts)]]):
                    items.append(mk_history(core.rng(seed, "C08", "exh-raiser", k), "raiser", cont, bad=bad, param=(at, rewrites),
                                            exc=excs[(k // (1 if quick else len(conts))) % len(excs)], install=INSTALLS[(k + k // 3) % 3]))
                    k += 1
    for bad in (L0, BAD, TOP):
        for base in sorted(HALF_BASES):
            for kk in (1, 2):
                for cont in (conts if not quick else [conts[k % len(conts)], ["retry_default"]]):
                    items.append(mk_history(core.rng(seed, "C08", "exh-half", k), "half", cont, bad=bad, param=(base, kk),
                                            exc=excs[(k + (k // len(excs))) % len(excs)], install=INSTALLS[(k + k // 3) % 3]))
                    k += 1
    for bad in (L0, BAD, TOP):
        for fault in sorted(FAULTS):
            for cont in (conts + [["repair", "retry_default"]] if not quick else [conts[k % len(conts)], RT_CONTS[k % len(RT_CONTS)]]):
                items.append(mk_history(core.rng(seed, "C08", "exh-fault", k), "fault", cont, bad=bad, param=fault))
                k += 1
    # every kind of borrowed object x owner (quick: two owners each), then the owner's design
    for wi, what in enumerate(sorted(BORROW_NEEDS)):
        for oi, owner in enumerate(OWNERS):
            if quick and (oi + wi) % 3 == 2:
                continue
            for cont in ([["owner", "retry", "owner"]] if quick else [["owner"], ["retry", "owner", "share"], ["owner", "unrelated", "retry"]]):
                items.append(mk_history(core.rng(seed, "C08", "exh-borrow", k), "fault", cont, bad=(BAD if (wi + oi) % 2 else TOP),
                                        param=("borrow", what, owner)))
                k += 1
    outs = do_stream("exhaustive-positions", items, exhaustive=True,
                     box="raising pass at each of the 11 positions of the default list x {rewriting, checking} x module in {leaf, middle, top}; "
                         "each of 4 rewriting passes interrupted at its 1st/2nd flatname call; each of 8 design-fault classes; "
                         "what is raised rotates over RuntimeError and 5 BaseExceptions that are no Exception; x continuations "
                         "(retry, other entry point, default list, in-place repair, re-creation + re-targeting of all / one parent, "
                         "unrelated and sharing designs, the re-created module alone)")
    run.sample(dict(stream="exhaustive-positions", info=items[5][2], steps=[s.get("err") or s.get("ok") or s.get("edit") for s in outs[5]["steps"]]))

    # ---------------------------------------------------------------- structured random histories
    n = 70 if quick else 1500
    items = []
    for k in range(n):
        r = core.rng(seed, "C08", "random", k)
        kind = r.choice(["raiser", "half", "fault", "fault"])
        cont = [r.choice(["retry", "retry_export", "retry_default", "repair", "unrelated", "share", "share_bad", "both", "leafs",
                          "retarget", "retarget", "retarget_one", "new_top", "share_bad_elab", "owner", "unrelated", "share"])
                for _ in range(r.randint(1, 5))]
        items.append(mk_history(r, kind, cont, exc=r.choice(["exc", "exc", "exc", "kbd", "exit", "outcome", "cancel", "genexit"])))
    outs = do_stream("random-histories", items)
    run.sample(dict(stream="random-histories", info=items[1][2], steps=[s.get("err") or s.get("ok") or s.get("edit") for s in outs[1]["steps"]]))

    # ---------------------------------------------------------------- generators
    run_gen(run, "generator-corpus", gen_corpus(), cov)
    gj = gen_jobs(core.rng(seed, "C08", "gen", 0), 60 if quick else 1500, 5 if quick else 8)
    gouts = run_gen(run, "generator-random", gj, cov)
    run.sample(dict(stream="generator-random", case=gj[0], outcomes=[s.get("err", {}).get("msg") or s.get("ok") for s in gouts[0]["steps"]]))
    run.coverage["traces_validated_against_impl"] = total + len(gj) + len(gen_corpus())
    # the targets of the strengthening round: measured, and the run fails closed when one was not reached
    run.coverage["strengthening_targets"] = {k: dict(count=cov[k], what=TARGETS[k]) for k in TARGETS}
    missed = sorted(k for k in TARGETS if cov[k] == 0)
    if missed:
        run.violation("C08:coverage-target-missed:" + ",".join(missed),
                      "the histories of this run never exercised: " + "; ".join(f"{k} ({TARGETS[k]})" for k in missed),
                      dict(kind="coverage-target-missed", missed=missed, counts=cov, theorem="C08 coverage targets of the strengthening round"),
                      found_input=False)
