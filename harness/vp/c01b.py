"""C01, bundle fragment — generator of valid designs with bundles, Coq printers, corpus and the streams that
harness/vp/c01.py appends to its run (DESIGN.md 6.6; notes/C01B.md).

Abstract design (also consumed by harness/impl/c01b.py):
  {"defs":[{"name","roles":bool,"builtin":None|"Diff","style","sigs":[[n,w,kind,src,dest]],"subs":[[n,d,cf,fc,role]]}],   d < own index
   "mods":[{"name","ports":[[n,w,dir]],"sigs":[[n,w]],"bundles":[{"n","d","port","cf","fc","role"}],
            "insts":[{"name","n","pair","of","conns":[[port,cx]]}]}],
   "exts":[{"name","ports":[[n,w]]}], "top":k, "style":"proc"|"class"|"gen"}
  cx = ["sig",n] | ["sl",cx,ix] | ["cat",[cx]] | ["ref",inst,port] | ["nc",site,name|None] | ["bm",bundle,[path]]     scalar
     | ["bun",bundle,[path]] | ["anon",[[member,cx]],how] | ["ref",inst,port] | ["nc",site,name|None]                  bundle-valued
"""
import json
from . import core, design as D
from .core import cstr, clist, cz, cbool, copt
from .c03 import c_index

ROLES = ["HOST", "DEVICE"]
DIFF = dict(name="Diff", roles=True, builtin="Diff", style="class",
            sigs=[["p", 1, "sig", "SOURCE", "SINK"], ["n", 1, "sig", "SOURCE", "SINK"]], subs=[])

IMPORTS = ("Require Import Hdl21.Base.PyInt Hdl21.Spec.PySlice Hdl21.Model.Slice Hdl21.Model.Resolve Hdl21.Base.Design "
           "Hdl21.Spec.Nets Hdl21.Spec.WfDesign Hdl21.Base.Package Hdl21.Corr.C03 Hdl21.Corr.C01 "
           "Hdl21.Base.C01BDesign Hdl21.Spec.C01BNets Hdl21.Spec.C01BWf Hdl21.Corr.C01B.\nRequire Hdl21.Spec.BundleSpec.")


# ---------------------------------------------------------------------------------------------
# definitions: member paths
# ---------------------------------------------------------------------------------------------
def def_members(defs, k):
    """[(path, width)] scalar members first, then the sub-bundles, each in definition order (Spec/BundleSpec.paths)."""
    d = defs[k]
    out = [([l[0]], l[1]) for l in d["sigs"]]
    for s in d["subs"]:
        out += [([s[0]] + p, w) for p, w in def_members(defs, s[1])]
    return out


def def_subpaths(defs, k):
    """[(path, def index)] of every sub-bundle instance below a definition (non-empty paths)."""
    out = []
    for s in defs[k]["subs"]:
        out.append(([s[0]], s[1]))
        out += [([s[0]] + p, j) for p, j in def_subpaths(defs, s[1])]
    return out


def def_bits(defs, k):
    return sum(w for _, w in def_members(defs, k))


def def_depth(defs, k):
    return 1 + max([def_depth(defs, s[1]) for s in defs[k]["subs"]], default=0)


def mod_bundle(md, name):
    for b in md["bundles"]:
        if b["n"] == name:
            return b
    return None


def target_sports(design, of):
    """scalar ports of a target"""
    if of[0] == "mod":
        return [(n, w) for n, w, _ in design["mods"][of[1]]["ports"]]
    return D.target_ports(design, of)


def target_bports(design, of):
    """bundle-valued ports of a target: [(name, def index)]"""
    if of[0] == "mod":
        return [(b["n"], b["d"]) for b in design["mods"][of[1]]["bundles"] if b["port"]]
    return []


# ---------------------------------------------------------------------------------------------
# Coq printing
# ---------------------------------------------------------------------------------------------
DIRC = {"in": "BundleSpec.DIn", "out": "BundleSpec.DOut", "inout": "BundleSpec.DInout", "none": "BundleSpec.DNone", "sig": "BundleSpec.DNone"}


def c_leaf(l):
    n, w, kind, src, dest = l
    return (f"(BundleSpec.Build_leaf {cstr(n)} {cz(w)} {cbool(kind != 'sig')} {DIRC[kind]} "
            f"{copt(src, cstr)} {copt(dest, cstr)})")


def c_btree(defs, name, k, cf, fc, role):
    d = defs[k]
    subs = clist(d["subs"], lambda s: c_btree(defs, s[0], s[1], s[2], s[3], s[4]))
    return (f"(BundleSpec.BT {cstr(name)} {cbool(bool(cf))} {int(fc or 0)}%nat {copt(role, cstr)} "
            f"{clist(d['sigs'], c_leaf)} {subs})")


def c_mpath(p):
    return clist(p, cstr)


class BModPrinter:
    def __init__(self, design, md):
        self.design, self.md = design, md
        self.leaves = {}

    def leaf_id(self, key, coq):
        if key not in self.leaves:
            self.leaves[key] = (len(self.leaves), coq)
        return self.leaves[key][0]

    def member_width(self, b, path):
        bd = mod_bundle(self.md, b)
        if bd is None:
            return 1
        return dict((tuple(p), w) for p, w in def_members(self.design["defs"], bd["d"])).get(tuple(path), 1)

    def sx(self, e, ncw):
        t = e[0]
        if t == "sig":
            w = D.sig_width(self.md, e[1])
            return f"(XSig {self.leaf_id(('s', e[1]), f'BLSig {cstr(e[1])}')}%N {cz(w if w is not None else 1)})"
        if t == "bm":
            w = self.member_width(e[1], e[2])
            return f"(XSig {self.leaf_id(('m', e[1], tuple(e[2])), f'BLMem {cstr(e[1])} {c_mpath(e[2])}')}%N {cz(w)})"
        if t == "ref":
            x = D.find_inst(self.md, e[1])
            w = dict(target_sports(self.design, x["of"])).get(e[2], 1) if x else 1
            return f"(XSig {self.leaf_id(('r', e[1], e[2]), f'BLRef {cstr(e[1])} {cstr(e[2])}')}%N {cz(w)})"
        if t == "nc":
            return f"(XSig {self.leaf_id(('n', e[1]), f'BLNc {e[1]}%N')}%N {cz(ncw)})"
        if t == "sl":
            return f"(XSlice {self.sx(e[1], ncw)} {c_index(e[2])})"
        if t == "cat":
            return f"(XConcat {clist(e[1], lambda p: self.sx(p, ncw))})"
        raise ValueError(t)

    def bexpr(self, e, kind):
        """kind = ("s", width) for a scalar position, ("b", def index) for a bundle-valued one."""
        t = e[0]
        if t == "bun":
            return f"(BXInst {cstr(e[1])} {c_mpath(e[2])})"
        if t == "anon":
            defs = self.design["defs"]
            if kind[0] == "b":
                d = defs[kind[1]]
                sw = {l[0]: ("s", l[1]) for l in d["sigs"]}
                sw.update({s[0]: ("b", s[1]) for s in d["subs"]})
            else:       # the port of a Pair: members p and n are scalars of the port's width
                sw = {}
            ms = clist(e[1], lambda nm: f"({cstr(nm[0])}, {self.bexpr(nm[1], sw.get(nm[0], ('s', kind[1] if kind[0] == 's' else 1)))})")
            return f"(BXAnon {ms})"
        if kind[0] == "b":
            if t == "ref":
                return f"(BXRef {cstr(e[1])} {cstr(e[2])})"
            if t == "nc":
                return f"(BXNc {e[1]}%N)"
            raise ValueError(("bundle position", e))
        return f"(BXSx {self.sx(e, kind[1])})"

    def inst(self, x):
        of = x["of"]
        sports = dict(target_sports(self.design, of))
        bports = dict(target_bports(self.design, of))
        if of[0] == "mod":
            tgt = f"(TMod {of[1]}%nat)"
        else:
            tgt = f"(TDev {cstr(D.dev_string(self.design, of))} {clist(D.target_ports(self.design, of), lambda pw: f'({cstr(pw[0])}, {cz(pw[1])})')})"

        def conn(c):
            kind = ("b", bports[c[0]]) if c[0] in bports else ("s", sports.get(c[0], 1))
            return f"({cstr(c[0])}, {self.bexpr(c[1], kind)})"
        return (f"{{| bi_name := {cstr(x['name'])}; bi_n := {cz(x['n'])}; bi_pair := {cbool(bool(x.get('pair')))}; "
                f"bi_of := {tgt}; bi_conns := {clist(x['conns'], conn)} |}}")

    def module(self):
        md, defs = self.md, self.design["defs"]
        insts = clist(md["insts"], self.inst)
        leaves = clist(sorted(self.leaves.values()), lambda l: f"({l[0]}%N, {l[1]})")
        pw = lambda p: f"({cstr(p[0])}, {cz(p[1])})"
        bundles = clist(md["bundles"], lambda b: f"({cbool(b['port'])}, {c_btree(defs, b['n'], b['d'], b.get('cf'), b.get('fc', 0), b.get('role'))})")
        return (f"{{| bm_name := {cstr(md['name'])}; bm_ports := {clist(md['ports'], pw)}; bm_sigs := {clist(md['sigs'], pw)};\n"
                f"     bm_bundles := {bundles};\n     bm_insts := {insts};\n     bm_leaves := {leaves} |}}")


def c_bdesign(design):
    mods = clist(design["mods"], lambda md: BModPrinter(design, md).module())
    return f"{{| bd_mods := {mods}; bd_top := {design['top']}%nat |}}"


def c_bnode(n):
    if n[0] == "sig":
        return f"(NBSig {D.c_path(n[1])} {cstr(n[2])} {c_mpath(n[3])} {cz(n[4])})"
    return f"(NBPort {D.c_path(n[1])} {cstr(n[2])} {cz(n[3])} {cstr(n[4])} [] {cz(n[5])})"


def terminals(design):
    """Terminals of the written design (independent of the Coq enumeration, which is compared with this one)."""
    out = []
    top = design["mods"][design["top"]]
    for n, w, _ in top["ports"]:
        out += [["sig", [], n, [], k] for k in range(w)]
    for b in top["bundles"]:
        if b["port"]:
            for p, w in def_members(design["defs"], b["d"]):
                out += [["sig", [], b["n"], p, k] for k in range(w)]

    def walk(md, sp):
        for x in md["insts"]:
            elems = [0, 1] if x.get("pair") else (range(x["n"]) if x["n"] > 0 else [0])
            for e in elems:
                if x["of"][0] == "mod":
                    walk(design["mods"][x["of"][1]], [[x["name"], e]] + sp)
                else:
                    for port, w in D.target_ports(design, x["of"]):
                        out.extend(["port", sp, x["name"], e, port, k] for k in range(w))
    walk(top, [])
    return out


def c_case(design, out):
    if out["pkg"] is None:
        pk, top = "None", design["mods"][design["top"]]["name"]
    else:
        pk, top = f"(Some {D.c_pkg(out['pkg'])})", D.pkg_top_name(out["pkg"], design)
    return (f"{{| cb_design := {c_bdesign(design)};\n  cb_terms := {clist(terminals(design), c_bnode)};\n  cb_pkg := {pk};\n"
            f"  cb_top := {cstr(top)} |}}")


# ---------------------------------------------------------------------------------------------
# generation
# ---------------------------------------------------------------------------------------------
LEAFN = ["x", "y", "q", "d", "ck"]
SUBN = ["lo", "hi", "u"]


def gen_defs(r, want_diff):
    defs = [json.loads(json.dumps(DIFF))] if want_diff else []
    for _ in range(r.randint(1, 3)):
        idx = len(defs)
        has_roles = r.random() < 0.4
        sigs = []
        for n in r.sample(LEAFN, r.randint(0, 3)):
            w = r.choice([1, 1, 2, 3])
            if has_roles and r.random() < 0.6:
                src, dest = r.choice([("HOST", "DEVICE"), ("DEVICE", "HOST")])
                kind = "sig"
            else:
                src = dest = None
                kind = r.choice(["sig", "in", "out", "inout", "none"])
            sigs.append([n, w, kind, src, dest])
        subs = []
        cands = [j for j in range(len(defs)) if def_bits(defs, j) <= 5 and def_depth(defs, j) <= 2]
        if cands and r.random() < 0.6:
            for n in r.sample(SUBN, r.randint(1, 2)):
                j = r.choice(cands)
                if defs[j].get("builtin") == "Diff":
                    role = r.choice(["SOURCE", "SINK", None])
                else:
                    role = r.choice(ROLES + [None]) if defs[j]["roles"] else None
                subs.append([n, j, r.random() < 0.3, r.choice([0, 0, 1, 2]), role])
        if not sigs and not subs and r.random() < 0.8:
            sigs = [["x", 1, "sig", None, None]]
        # a scalar whose name is the '_'-joined path of a nested member (lo_q next to lo.q)
        if subs and r.random() < 0.4:
            mem = def_members(defs, subs[0][1])
            if mem:
                p, w = r.choice(mem)
                nm = "_".join([subs[0][0]] + p)
                if nm not in [l[0] for l in sigs]:
                    sigs.append([nm, r.choice([w, 1]), "sig", None, None])
        defs.append(dict(name=f"D{idx}", roles=has_roles, builtin=None, style=r.choice(["class", "proc", "add"]), sigs=sigs, subs=subs))
    return defs


def _decode(e):
    """pool names starting with '@' stand for scalar bundle members"""
    if e[0] == "sig" and e[1].startswith("@"):
        parts = e[1][1:].split(".")
        return ["bm", parts[0], parts[1:]]
    if e[0] == "sl":
        return ["sl", _decode(e[1]), e[2]]
    if e[0] == "cat":
        return ["cat", [_decode(p) for p in e[1]]]
    return e


def gen_bdesign(r, size=2):
    want_pairs = r.random() < 0.5
    defs = gen_defs(r, want_diff=want_pairs and r.random() < 0.8)
    diff_idx = 0 if defs[0].get("builtin") == "Diff" else None
    maxw = r.choice([1, 2, 3])
    exts = [dict(name=f"E{k}", ports=[[f"x{j}", r.choice([1, 1, 2, maxw])] for j in range(r.randint(1, 2))])
            for k in range(r.choice([0, 1, 1]))]
    nmods = r.randint(2, 2 + size)
    mods = []
    design = dict(defs=defs, mods=mods, exts=exts, top=nmods - 1, style=r.choice(["proc", "class", "gen"]), marks=[])
    site = [0]
    for mi in range(nmods):
        is_top = mi == nmods - 1
        ports = [[f"p{j}", r.choice([1, 1, 2, maxw]), r.choice(["in", "out", "inout", "none"])] for j in range(r.randint(0, 2))]
        sigs = [[f"s{j}", r.choice([1, 1, 2, 3, maxw])] for j in range(r.randint(1, 3))]
        bundles = []
        nbp = r.choice([0, 0, 1]) if is_top else r.choice([0, 1, 1, 2])
        if not is_top and not ports and nbp == 0:
            nbp = 1
        for j in range(nbp + r.choice([0, 1, 1, 2])):
            k = r.randrange(len(defs))
            if defs[k].get("builtin") == "Diff":
                role = r.choice(["SOURCE", "SINK", None])
            else:
                role = r.choice(ROLES + [None]) if defs[k]["roles"] else None
            bundles.append(dict(n=f"b{j}", d=k, port=j < nbp, cf=r.random() < 0.25, fc=r.choice([0, 0, 0, 1, 2]), role=role))
        md = dict(name=f"M{mi}", ports=ports, sigs=sigs, bundles=bundles, insts=[])
        mods.append(md)
        names = lambda: {p[0] for p in ports} | {s[0] for s in sigs} | {b["n"] for b in bundles}
        # names that coincide with flattened bundle names: a scalar called like b0_x, a bundle called like b0_lo
        if bundles and r.random() < 0.3:
            b = r.choice(bundles)
            mem = def_members(defs, b["d"])
            if mem:
                nm = "_".join([b["n"]] + r.choice(mem)[0])
                if nm not in names():
                    sigs.append([nm, r.choice([1, 2])])
        if bundles and r.random() < 0.15:
            b = r.choice(bundles)
            sp = def_subpaths(defs, b["d"])
            if sp:
                p, j = r.choice(sp)
                nm = "_".join([b["n"]] + p)
                if nm not in names():
                    bundles.append(dict(n=nm, d=j, port=False, cf=False, fc=0, role=None))

        def new_bundle(k):
            nm = f"b{len(bundles)}"
            while nm in names():
                nm += "x"
            bundles.append(dict(n=nm, d=k, port=False, cf=r.random() < 0.2, fc=r.choice([0, 0, 1]), role=None))
            return nm

        def spool():
            pool = [(n, w) for n, w, _ in ports] + [(n, w) for n, w in sigs]
            for b in bundles:
                pool += [("@" + ".".join([b["n"]] + p), w) for p, w in def_members(defs, b["d"])]
            return pool

        def sexpr(w, depth=None):
            return _decode(D.rand_expr(r, spool(), w, r.choice([0, 1, 2]) if depth is None else depth))

        def bsources(k):
            out = [["bun", b["n"], []] for b in bundles if b["d"] == k]
            for b in bundles:
                out += [["bun", b["n"], p] for p, j in def_subpaths(defs, b["d"]) if j == k]
            return out

        # instances
        for ii in range(r.randint(1, 2 + size)):
            u = r.random()
            if mi > 0 and u < 0.55:
                of = ["mod", r.randrange(mi)]
            elif exts and u < 0.65:
                of = ["ext", r.randrange(len(exts)), r.randint(1, 3)]
            else:
                of = ["prim", r.choice(D.DEVS)[0], r.randint(1, 3)]
            n = r.choice([2, 2, 3]) if r.random() < 0.22 else 0
            pair = want_pairs and n == 0 and not target_bports(design, of) and r.random() < 0.45
            md["insts"].append(dict(name=f"i{ii}", n=n, pair=bool(pair), of=of, conns=[]))
        single = [x for x in md["insts"] if x["n"] == 0 and not x["pair"]]
        msites = []

        def ncsite(kind=None):
            """a no-connect: a new NoConn object, or (shared) one already used in this module - preferably on a port of the same kind"""
            same = [e for e, k in msites if k == kind]
            if same and r.random() < 0.5:
                design["marks"].append("shared_nc")
                return r.choice(same)
            if msites and r.random() < 0.2:
                design["marks"].append("shared_nc")
                return r.choice(msites)[0]
            site[0] += 1
            e = ["nc", site[0], r.choice([None, None, f"nc{site[0]}"])]
            msites.append((e, kind))
            return e

        def bref_cands(x, k):
            return [["ref", y["name"], q] for y in single if y is not x for q, j in target_bports(design, y["of"]) if j == k]

        def bconn(x, k, top_level=True, plain=False):
            """something bundle-valued of definition k for a port of instance x"""
            u = r.random()
            src = bsources(k)
            refs = bref_cands(x, k) if x["n"] == 0 and not x["pair"] else []
            if not plain and u < 0.32:
                members = []
                for l in defs[k]["sigs"]:
                    tw = l[1] * x["n"] if x["n"] > 0 and r.random() < 0.35 else l[1]
                    if tw != l[1]:
                        design["marks"].append("array_anon_per_element")
                    srefs = [["ref", y["name"], q] for y in single if y is not x for q, qw in target_sports(design, y["of"]) if qw == tw]
                    if x["n"] == 0 and not x["pair"] and srefs and r.random() < 0.2:
                        members.append([l[0], r.choice(srefs)])      # a scalar port of a sibling instance as a member
                    else:
                        members.append([l[0], sexpr(tw)])
                for s in defs[k]["subs"]:
                    members.append([s[0], bconn(x, s[1], top_level=False)])
                r.shuffle(members)
                how = r.choice(["kw", "dict", "bundlize", "add"]) if top_level else r.choice(["kw", "bundlize", "add"])
                return ["anon", members, how]
            if not plain and refs and (u < 0.45 or (not top_level and u < 0.75)):
                return r.choice(refs)
            if src and (plain or r.random() < 0.85):
                return r.choice(src)
            return ["bun", new_bundle(k), []]

        for x in md["insts"]:
            is_single = x["n"] == 0 and not x["pair"]
            for port, w in target_sports(design, x["of"]):
                u = r.random()
                if x["pair"]:
                    diffs = bsources(diff_idx) if diff_idx is not None and w == 1 else []
                    diffs = [s for s in diffs if not s[2]]          # a Diff INSTANCE, not a reference to a sub-bundle
                    if u < 0.3 and diff_idx is not None and w == 1:
                        x["conns"].append([port, r.choice(diffs) if diffs and r.random() < 0.7 else ["bun", new_bundle(diff_idx), []]])
                    elif u < 0.55:
                        pn = [["p", sexpr(w)], ["n", sexpr(w)]]
                        r.shuffle(pn)       # written in either order: members are matched by name
                        x["conns"].append([port, ["anon", pn, r.choice(["kw", "dict", "bundlize"])]])
                    elif u < 0.65:
                        x["conns"].append([port, list(ncsite())])
                    else:
                        x["conns"].append([port, sexpr(w)])
                    continue
                others = [(y["name"], q) for y in single if y is not x for q, qw in target_sports(design, y["of"]) if qw == w]
                if is_single and others and u < 0.15:
                    y, q = r.choice(others)
                    x["conns"].append([port, ["ref", y, q]])
                elif u < 0.22:
                    x["conns"].append([port, list(ncsite())])
                elif is_single and u < 0.26:
                    x["conns"].append([port, None])
                else:
                    tw = w * x["n"] if x["n"] > 0 and r.random() < 0.5 else w
                    x["conns"].append([port, sexpr(tw)])
            for port, k in target_bports(design, x["of"]):
                u = r.random()
                if u < 0.13:
                    x["conns"].append([port, list(ncsite(("b", k)))])
                elif is_single and u < 0.2:
                    x["conns"].append([port, None])
                else:
                    x["conns"].append([port, bconn(x, k)])

        # repair: no-connected ports must not be referenced; unconnected ports must be referenced
        def refs_in(e, acc):
            if e is None:
                return
            if e[0] == "ref":
                acc.add((e[1], e[2]))
            elif e[0] == "sl":
                refs_in(e[1], acc)
            elif e[0] == "cat":
                for p in e[1]:
                    refs_in(p, acc)
            elif e[0] == "anon":
                for _, s in e[1]:
                    refs_in(s, acc)
        referenced = set()
        for x in md["insts"]:
            for c in x["conns"]:
                refs_in(c[1], referenced)
        # an unconnected bundle port that nobody refers to: let a sibling's plain bundle connection refer to it instead
        for x in md["insts"]:
            for c in x["conns"]:
                if c[1] is None and (x["name"], c[0]) not in referenced and c[0] in dict(target_bports(design, x["of"])) and r.random() < 0.7:
                    k = dict(target_bports(design, x["of"]))[c[0]]
                    ys = [(y, cc) for y in single if y is not x for cc in y["conns"]
                          if cc[1] is not None and cc[1][0] == "bun" and dict(target_bports(design, y["of"])).get(cc[0]) == k]
                    if ys:
                        y, cc = r.choice(ys)
                        cc[1] = ["ref", x["name"], c[0]]
                        referenced.add((x["name"], c[0]))
        for x in md["insts"]:
            sports, bports = dict(target_sports(design, x["of"])), dict(target_bports(design, x["of"]))
            for c in x["conns"]:
                key = (x["name"], c[0])
                bad = (c[1] is not None and c[1][0] == "nc" and key in referenced) or (c[1] is None and key not in referenced)
                if bad:
                    c[1] = bconn(x, bports[c[0]], plain=True) if c[0] in bports else sexpr(sports[c[0]], 0)
            x["conns"] = [c for c in x["conns"] if c[1] is not None]
    return design


def features(design):
    """Which parts of the bundle fragment a design exercises (coverage targets)."""
    defs = design["defs"]
    f = dict.fromkeys(["nested", "flipped", "roles", "subbundle_ref", "member_ref", "sliced_member_ref", "concat_member_ref",
                       "anon_sig", "anon_slice", "anon_concat", "anon_inst", "anon_subref", "anon_nested", "anon_portref", "anon_dict",
                       "bundle_portref", "bundle_unconnected_referenced", "bundle_nc", "array_bundle_port", "array_bundle_nc",
                       "array_anon_per_element", "pair_diff", "pair_anon", "pair_scalar", "pair_nc", "top_bundle_port",
                       "coincide_in_def", "coincide_scalar", "coincide_bundle", "bundle_port_internal_inst", "hier", "shared_nc"], False)
    used = set()

    def use(k):
        used.add(k)
        for s in defs[k]["subs"]:
            use(s[1])
            f["nested"] = True
            if s[2] or s[3]:
                f["flipped"] = True
            if s[4]:
                f["roles"] = True
    for md in design["mods"]:
        for b in md["bundles"]:
            use(b["d"])
            if b.get("cf") or b.get("fc"):
                f["flipped"] = True
            if b.get("role"):
                f["roles"] = True
            if not b["port"]:
                f["bundle_port_internal_inst"] = True
        flat = {}
        for b in md["bundles"]:
            for p, _ in def_members(defs, b["d"]):
                flat.setdefault("_".join([b["n"]] + p), []).append(b["n"])
        scal = {p[0] for p in md["ports"]} | {s[0] for s in md["sigs"]}
        if any(n in scal for n in flat):
            f["coincide_scalar"] = True
        if any(len(set(v)) > 1 for v in flat.values()):
            f["coincide_bundle"] = True
        if any(len(v) > len(set(v)) for v in flat.values()):
            f["coincide_in_def"] = True
    f["hier"] = len(design["mods"]) > 1
    for mk in design.get("marks", []):      # features the generator records while drawing (widths of drawn expressions)
        f[mk] = True
    top = design["mods"][design["top"]]
    f["top_bundle_port"] = any(b["port"] and def_members(defs, b["d"]) for b in top["bundles"])

    def scal(e, ctx):
        if e[0] == "bm":
            f["member_ref"] = True
            if "sl" in ctx:
                f["sliced_member_ref"] = True
            if "cat" in ctx:
                f["concat_member_ref"] = True
        elif e[0] == "sl":
            scal(e[1], ctx | {"sl"})
        elif e[0] == "cat":
            for p in e[1]:
                scal(p, ctx | {"cat"})

    def bun(e, x, in_anon):
        t = e[0]
        if t == "bun":
            if e[2]:
                f["subbundle_ref"] = True
            if in_anon:
                f["anon_subref" if e[2] else "anon_inst"] = True
        elif t == "anon":
            if in_anon:
                f["anon_nested"] = True
            if len(e) > 2 and e[2] == "dict":
                f["anon_dict"] = True
            for _, s in e[1]:
                if s[0] in ("bun", "anon"):
                    bun(s, x, True)
                elif s[0] == "ref":
                    f["anon_portref"] = True
                else:
                    f["anon_" + {"sig": "sig", "bm": "sig", "sl": "slice", "cat": "concat"}.get(s[0], "sig")] = True
                    scal(s, set())
        elif t == "ref":
            if not in_anon:
                f["bundle_portref"] = True
    for md in design["mods"]:
        for x in md["insts"]:
            bports = dict(target_bports(design, x["of"]))
            sports = dict(target_sports(design, x["of"]))
            connected = {c[0] for c in x["conns"]}
            if any(p not in connected for p in bports):
                f["bundle_unconnected_referenced"] = True
            for port, e in x["conns"]:
                if port in bports:
                    if x["n"] > 0:
                        f["array_bundle_port"] = True
                    if e[0] == "nc":
                        f["array_bundle_nc" if x["n"] > 0 else "bundle_nc"] = True
                    else:
                        bun(e, x, False)
                elif x.get("pair"):
                    f[{"bun": "pair_diff", "anon": "pair_anon", "nc": "pair_nc"}.get(e[0], "pair_scalar")] = True
                    if e[0] == "anon":
                        for _, s in e[1]:
                            scal(s, set())
                    elif e[0] not in ("bun", "nc"):
                        scal(e, set())
                else:
                    scal(e, set())
    return f


# ---------------------------------------------------------------------------------------------
# corpus: the two known symptoms and the shapes of hdl21/tests/test_bundles.py and examples/bundles.py
# ---------------------------------------------------------------------------------------------
def _def(name, sigs, subs=(), roles=False, style="class"):
    return dict(name=name, roles=roles, builtin=None, style=style,
                sigs=[[s[0], s[1], s[2] if len(s) > 2 else "sig", s[3] if len(s) > 3 else None, s[4] if len(s) > 4 else None] for s in sigs],
                subs=[list(s) for s in subs])


def _b(n, d, port=False, cf=False, fc=0, role=None):
    return dict(n=n, d=d, port=port, cf=cf, fc=fc, role=role)


def _i(name, of, conns, n=0, pair=False):
    return dict(name=name, n=n, pair=pair, of=of, conns=[list(c) for c in conns])


PIN = dict(name="Pin", ports=[["a", 1]])
PIN2 = dict(name="Pin2", ports=[["a", 2]])


def corpus():
    out = []
    # (1) seeded change C01-C: scalar lo_q next to the nested member lo.q, held by Top and passed through a bundle port
    defs = [_def("Half", [("q", 1), ("qb", 1)]), _def("Full", [("lo_q", 1)], [("lo", 0, False, 0, None), ("hi", 0, False, 0, None)])]
    leafs = lambda b: [_i("l_scalar", ["ext", 0, 1], [["a", ["bm", b, ["lo_q"]]]]), _i("l_nested", ["ext", 0, 2], [["a", ["bm", b, ["lo", "q"]]]]),
                       _i("l_other", ["ext", 0, 3], [["a", ["bm", b, ["hi", "q"]]]])]
    out.append(dict(defs=defs, exts=[PIN], top=1, style="class", mods=[
        dict(name="Inner", ports=[], sigs=[], bundles=[_b("b", 1, port=True)], insts=leafs("b")),
        dict(name="Top", ports=[], sigs=[], bundles=[_b("b", 1)], insts=[_i("inner", ["mod", 0], [["b", ["bun", "b", []]]])] + leafs("b"))]))
    # ... the same coincidence on the ports of the top module
    out.append(dict(defs=defs, exts=[PIN], top=0, style="proc", mods=[
        dict(name="Inner", ports=[], sigs=[], bundles=[_b("b", 1, port=True)], insts=leafs("b"))]))
    # (2) a no-connect on a BUNDLE-valued port of an instance array: each element ends on nets of its own
    bdef = [_def("B", [("x", 1), ("y", 2)])]
    leaf = dict(name="Leaf", ports=[], sigs=[], bundles=[_b("bp", 0, port=True)],
                insts=[_i("e", ["ext", 0, 1], [["a", ["bm", "bp", ["x"]]]]), _i("f", ["ext", 1, 1], [["a", ["bm", "bp", ["y"]]]])])
    out.append(dict(defs=bdef, exts=[PIN, PIN2], top=1, style="class", mods=[
        leaf, dict(name="Top", ports=[], sigs=[], bundles=[], insts=[_i("arr", ["mod", 0], [["bp", ["nc", 1, None]]], n=2)])]))
    # test_bundle_noconns: no-connects on bundle ports of single instances, incl. an empty bundle
    d3 = [_def("A", []), _def("B", [("s1", 1)]), _def("C", [("s1", 1), ("s2", 1), ("s3", 1)])]
    bot = dict(name="Bot", ports=[], sigs=[], bundles=[_b("a", 0, port=True), _b("b", 1, port=True), _b("c", 2, port=True)],
               insts=[_i("e", ["ext", 0, 1], [["a", ["bm", "c", ["s2"]]]])])
    out.append(dict(defs=d3, exts=[PIN], top=1, style="class", mods=[
        bot, dict(name="Top", ports=[], sigs=[], bundles=[],
                  insts=[_i("bot1", ["mod", 0], [["a", ["nc", 1, None]], ["b", ["nc", 2, None]], ["c", ["nc", 3, None]]]),
                         _i("bot2", ["mod", 0], [["a", ["nc", 4, None]], ["b", ["nc", 5, "keep"]], ["c", ["nc", 6, None]]])])]))
    # test_nested_bundle_conn / conn2: deep sub-bundle references
    d4 = [_def("Ab", [("a", 1), ("b", 1)]), _def("Four", [], [("i0", 0, False, 0, None), ("i1", 0, False, 1, None)]),
          _def("B3", [], [("b2", 1, False, 0, None)])]
    has = dict(name="HasAb", ports=[], sigs=[], bundles=[_b("ab", 0, port=True)],
               insts=[_i("e", ["ext", 0, 1], [["a", ["bm", "ab", ["a"]]]]), _i("f", ["ext", 0, 2], [["a", ["bm", "ab", ["b"]]]])])
    out.append(dict(defs=d4, exts=[PIN], top=1, style="gen", mods=[
        has, dict(name="HasThose", ports=[], sigs=[], bundles=[_b("b3", 2)],
                  insts=[_i("i0", ["mod", 0], [["ab", ["bun", "b3", ["b2", "i0"]]]]), _i("i1", ["mod", 0], [["ab", ["bun", "b3", ["b2", "i1"]]]]),
                         _i("i2", ["mod", 0], [["ab", ["bun", "b3", ["b2", "i0"]]]])])]))
    # test_anon_bundle_port_conn / test_anon_bundle_refs: anonymous bundles, crossed members, port-reference chain on a bundle port
    out.append(dict(defs=[_def("Diff2", [("p", 1), ("n", 1)])], exts=[PIN], top=1, style="class", mods=[
        dict(name="HasDiff", ports=[], sigs=[], bundles=[_b("d", 0, port=True)],
             insts=[_i("e", ["ext", 0, 1], [["a", ["bm", "d", ["p"]]]]), _i("f", ["ext", 0, 2], [["a", ["bm", "d", ["n"]]]])]),
        dict(name="HasHas", ports=[], sigs=[["s", 1]], bundles=[_b("d", 0)],
             insts=[_i("h1", ["mod", 0], [["d", ["bun", "d", []]]]),
                    _i("h2", ["mod", 0], [["d", ["anon", [["p", ["bm", "d", ["p"]]], ["n", ["bm", "d", ["n"]]]], "kw"]]]),
                    _i("h3", ["mod", 0], [["d", ["anon", [["p", ["bm", "d", ["n"]]], ["n", ["sig", "s"]]], "dict"]]]),
                    _i("h4", ["mod", 0], [["d", ["ref", "h3", "d"]]]), _i("h5", ["mod", 0], [["d", ["ref", "h4", "d"]]]),
                    _i("h6", ["mod", 0], []), _i("h7", ["mod", 0], [["d", ["ref", "h6", "d"]]])])]))
    # examples/bundles.py: role-carrying bundles through two levels, a port reference to a bundle port, swapped members via bundlize
    d5 = [_def("Jtag", [("tck", 1, "sig", "HOST", "DEVICE"), ("tdo", 1, "sig", "DEVICE", "HOST")], roles=True),
          _def("Uart", [("tx", 1, "out"), ("rx", 1, "in")]),
          _def("Spi", [("sck", 1, "sig", "HOST", "DEVICE"), ("dq", 4, "sig", "DEVICE", "HOST")], roles=True)]
    chip = dict(name="Chip", ports=[], sigs=[], bundles=[_b("spi", 2, port=True, role="HOST"), _b("jtag", 0, port=True, role="DEVICE"), _b("uart", 1, port=True)],
                insts=[_i("r0", ["prim", "R", 1], [["p", ["bm", "jtag", ["tck"]]], ["n", ["bm", "uart", ["tx"]]]]),
                       _i("r1", ["prim", "R", 2], [["p", ["sl", ["bm", "spi", ["dq"]], ["i", 3]]], ["n", ["bm", "uart", ["rx"]]]])])
    flash = dict(name="Flash", ports=[], sigs=[], bundles=[_b("spi", 2, port=True, role="DEVICE")],
                 insts=[_i("c0", ["prim", "C", 1], [["p", ["bm", "spi", ["sck"]]], ["n", ["sl", ["bm", "spi", ["dq"]], ["i", 0]]]])])
    board = dict(name="Board", ports=[], sigs=[], bundles=[_b("jtag", 0, port=True, role="DEVICE"), _b("uart", 1, port=True)],
                 insts=[_i("chip", ["mod", 0], [["jtag", ["bun", "jtag", []]], ["uart", ["bun", "uart", []]]]),
                        _i("flash", ["mod", 1], [["spi", ["ref", "chip", "spi"]]])])
    tester = dict(name="Tester", ports=[], sigs=[], bundles=[_b("jtag", 0, port=True, role="HOST"), _b("uart", 1, port=True)],
                  insts=[_i("r0", ["prim", "R", 3], [["p", ["bm", "jtag", ["tdo"]]], ["n", ["bm", "uart", ["tx"]]]])])
    system = dict(name="TestSystem", ports=[], sigs=[], bundles=[_b("jtag", 0), _b("board_uart", 1)],
                  insts=[_i("board", ["mod", 2], [["jtag", ["bun", "jtag", []]], ["uart", ["bun", "board_uart", []]]]),
                         _i("tester", ["mod", 3], [["jtag", ["bun", "jtag", []]],
                                                   ["uart", ["anon", [["tx", ["bm", "board_uart", ["rx"]]], ["rx", ["bm", "board_uart", ["tx"]]]], "bundlize"]]])])
    out.append(dict(defs=d5, exts=[], top=4, style="class", mods=[chip, flash, board, tester, system]))
    # Pair: Diff bundle, anonymous bundle, scalar, no-connect (hdl21/diff_pair.py doc example shape)
    r2 = dict(name="R2", ports=[["a", 1, "inout"], ["b", 2, "inout"]], sigs=[], bundles=[],
              insts=[_i("e", ["ext", 0, 1], [["a", ["sig", "a"]]]), _i("f", ["ext", 1, 1], [["a", ["sig", "b"]]])])
    out.append(dict(defs=[json.loads(json.dumps(DIFF))], exts=[PIN, PIN2], top=1, style="class", mods=[
        r2, dict(name="T1", ports=[], sigs=[["s", 1], ["w", 2], ["v", 2]], bundles=[_b("d", 0)],
                 insts=[_i("pr", ["mod", 0], [["a", ["bun", "d", []]], ["b", ["anon", [["p", ["sig", "w"]], ["n", ["sig", "v"]]], "kw"]]], pair=True),
                        _i("pq", ["mod", 0], [["a", ["sig", "s"]], ["b", ["nc", 1, None]]], pair=True),
                        _i("pz", ["mod", 0], [["a", ["anon", [["p", ["bm", "d", ["n"]]], ["n", ["bm", "d", ["p"]]]], "dict"]], ["b", ["sig", "w"]]], pair=True)])]))
    # arrays of a module with a bundle port: broadcast bundle, sub-bundle reference, per-element wiring through an anonymous bundle
    d6 = bdef + [_def("BB", [("z", 1)], [("lo", 0, False, 0, None), ("hi", 0, False, 1, None)])]
    out.append(dict(defs=d6, exts=[PIN, PIN2], top=1, style="proc", mods=[
        leaf, dict(name="T2", ports=[], sigs=[["s", 2], ["w", 2]], bundles=[_b("bb", 1, port=True)],
                   insts=[_i("arr", ["mod", 0], [["bp", ["anon", [["x", ["sig", "s"]], ["y", ["sig", "w"]]], "kw"]]], n=2),
                          _i("ar2", ["mod", 0], [["bp", ["bun", "bb", ["lo"]]]], n=2),
                          _i("ar3", ["mod", 0], [["bp", ["bun", "bb", ["hi"]]]], n=3)])]))
    # anonymous bundle with every member kind: bundle instance, nested anonymous bundle (slice, concat), bundle-port reference, scalar
    mid = dict(name="Mid", ports=[], sigs=[], bundles=[_b("bb", 1, port=True, cf=True)],
               insts=[_i("l1", ["mod", 0], [["bp", ["bun", "bb", ["lo"]]]]), _i("l2", ["mod", 0], [["bp", ["bun", "bb", ["hi"]]]]),
                      _i("e", ["ext", 0, 2], [["a", ["bm", "bb", ["z"]]]])])
    out.append(dict(defs=d6, exts=[PIN, PIN2], top=2, style="class", mods=[
        leaf, mid, dict(name="T3", ports=[], sigs=[["s", 1], ["w", 4]], bundles=[_b("b", 0)],
                        insts=[_i("l0", ["mod", 0], []),
                               _i("m", ["mod", 1], [["bb", ["anon", [["lo", ["bun", "b", []]],
                                                                     ["hi", ["anon", [["x", ["sl", ["sig", "w"], ["i", 0]]],
                                                                                      ["y", ["cat", [["sl", ["sig", "w"], ["i", 3]], ["sig", "s"]]]]], "kw"]],
                                                                     ["z", ["sig", "s"]]], "kw"]]]),
                               _i("m2", ["mod", 1], [["bb", ["anon", [["lo", ["ref", "l0", "bp"]], ["hi", ["bun", "b", []]],
                                                                      ["z", ["sl", ["sig", "w"], ["i", 1]]]], "dict"]]])])]))
    # HEAD before fix C01-11: a port-reference group whose source is a reference into a bundle (comparison of BundleRefs handed out `b.x.inst`)
    inner = dict(name="Inner", ports=[["a", 1, "inout"]], sigs=[], bundles=[],
                 insts=[_i("r", ["prim", "R", 1], [["p", ["sig", "a"]], ["n", ["sig", "a"]]])])
    out.append(dict(defs=bdef, exts=[], top=1, style="class", mods=[
        inner, dict(name="Top", ports=[], sigs=[], bundles=[_b("b", 0)],
                    insts=[_i("i0", ["mod", 0], [["a", ["bm", "b", ["x"]]]]), _i("i1", ["mod", 0], [["a", ["ref", "i0", "a"]]]),
                           _i("i2", ["mod", 0], [["a", ["sl", ["bm", "b", ["y"]], ["i", 1]]]]), _i("i3", ["mod", 0], [["a", ["ref", "i2", "a"]]])])]))
    # HEAD before fix C01-12: a port reference inside an anonymous bundle whose group's source is a sub-bundle reference
    out.append(dict(defs=d6, exts=[PIN, PIN2], top=2, style="class", mods=[
        leaf, mid, dict(name="T4", ports=[], sigs=[["s", 1]], bundles=[_b("bb", 1)],
                        insts=[_i("i0", ["mod", 0], [["bp", ["bun", "bb", ["lo"]]]]),
                               _i("i1", ["mod", 1], [["bb", ["anon", [["lo", ["ref", "i0", "bp"]], ["hi", ["bun", "bb", ["hi"]]], ["z", ["sig", "s"]]], "kw"]]])])]))
    # names: a scalar called like a flattened member and a second bundle called like a flattened sub-bundle, on top-level ports
    out.append(dict(defs=d6, exts=[PIN], top=0, style="proc", mods=[
        dict(name="Names", ports=[["bb_z", 1, "in"]], sigs=[["bb_lo_x", 1]], bundles=[_b("bb", 1, port=True), _b("bb_lo", 0, port=True)],
             insts=[_i("e0", ["ext", 0, 1], [["a", ["bm", "bb", ["z"]]]]), _i("e1", ["ext", 0, 2], [["a", ["sig", "bb_z"]]]),
                    _i("e2", ["ext", 0, 3], [["a", ["bm", "bb", ["lo", "x"]]]]), _i("e3", ["ext", 0, 4], [["a", ["bm", "bb_lo", ["x"]]]]),
                    _i("e4", ["ext", 0, 5], [["a", ["sig", "bb_lo_x"]]])])]))
    return out


# ---------------------------------------------------------------------------------------------
# streams
# ---------------------------------------------------------------------------------------------
def evaluate(designs, stream, keep=False):
    outs = core.run_worker_sharded("c01b", [dict(design=d) for d in designs])
    cases = [c_case(d, o) for d, o in zip(designs, outs)]
    bad = core.coq_eval_cases("C01", stream, IMPORTS, "c01b_case", cases, "run_cases chk_c01b", chunk=40, keep=keep)
    return outs, bad


TARGETS = ["nested", "flipped", "roles", "subbundle_ref", "member_ref", "sliced_member_ref", "concat_member_ref",
           "anon_sig", "anon_slice", "anon_concat", "anon_inst", "anon_subref", "anon_nested", "anon_portref", "anon_dict",
           "bundle_portref", "bundle_unconnected_referenced", "bundle_nc", "array_bundle_port", "array_bundle_nc",
           "array_anon_per_element", "pair_diff", "pair_anon", "pair_scalar", "pair_nc", "top_bundle_port",
           "coincide_in_def", "coincide_scalar", "coincide_bundle", "hier", "shared_nc"]


def report(run, stream, bad, designs, outs):
    order = sorted(bad, key=lambda ic: len(json.dumps(designs[ic[0]])))
    v1 = [i for i, c in order if c in (1, 6)]
    v3 = [i for i, c in order if c == 3]
    for i in v1[:2]:
        what = ("valid design rejected" if outs[i]["pkg"] is None
                else "exported package differs from the written design (net partition / leaf devices / flattened port names)")
        run.violation("C01:bdesign:" + json.dumps(designs[i], sort_keys=True), f"{what}: {json.dumps(outs[i]['err'])}",
                      dict(kind="impl-violates-spec", stream=stream, fragment="bundles", case=designs[i], impl=outs[i], failing_cases=len(v1),
                           reproducer="build the design with harness/impl/c01b.BBuilder, h.to_proto, compare nets"))
    if v3 and not v1:
        i = v3[0]
        run.violation("C01:bgenerator", "generated bundle design is not valid by Spec/C01BWf or terminal list inconsistent (harness defect)",
                      dict(kind="harness-inconsistency", fragment="bundles", case=designs[i]), found_input=False)


def run_streams(run, tier, seed):
    quick = tier == "quick"
    # the theorems of Props/C01B.v are counted as obligations of C01 by core.props_obligations (Props/C01?.v)
    # corpus
    cs = corpus()
    outs, bad = evaluate(cs, "bcorpus")
    run.stream("bundle-corpus", len(cs), len({json.dumps(d) for d in cs}),
               rule="non-trivial = every corpus design has a bundle-valued port or member reference; distinct by design",
               rejected_by_impl=sum(1 for o in outs if o["pkg"] is None))
    report(run, "bcorpus", bad, cs, outs)
    # generated designs
    n = 260 if quick else 3000
    designs, k, skipped = [], 0, 0
    while len(designs) < n:
        r = core.rng(seed, "C01", "bdesigns", k)
        k += 1
        d = gen_bdesign(r, size=r.choice([1, 2, 2]) if quick else r.choice([1, 2, 3]))
        if len(terminals(d)) > (110 if quick else 150):
            skipped += 1
            continue
        designs.append(d)
    outs, bad = evaluate(designs, "bdesigns")
    feats = {}
    styles = {}
    nontriv = set()
    for d in designs:
        fs = features(d)
        for f, v in fs.items():
            feats[f] = feats.get(f, 0) + int(bool(v))
        styles[d["style"]] = styles.get(d["style"], 0) + 1
        if sum(bool(v) for v in fs.values()) >= 5:
            nontriv.add(json.dumps(d))
    run.stream("bundle-designs", len(designs), len(nontriv), features=feats, styles=styles,
               rejected_by_impl=sum(1 for o in outs if o["pkg"] is None), skipped_over_terminal_bound=skipped,
               rule="non-trivial = at least 5 of the bundle-fragment features listed in `features`; distinct by design")
    for f in TARGETS:
        if feats.get(f, 0) == 0:
            run.violation(f"C01:bcoverage:{f}", f"generator coverage target missed: no bundle design with {f}", dict(kind="coverage"), found_input=False)
    for s in ("proc", "class", "gen"):
        if styles.get(s, 0) == 0:
            run.violation(f"C01:bcoverage:style-{s}", f"generator coverage target missed: no design built in style {s}", dict(kind="coverage"), found_input=False)
    report(run, "bdesigns", bad, designs, outs)
    run.sample(dict(stream="bundle-designs", design=designs[len(designs) // 2]))
    # spec validation: lowering (Spec/C01BLower.v) + core semantics (Spec/Nets.v) == path-based meaning (Spec/C01BNets.v);
    # the hypotheses of the lowering theorem hold (names_ok for the naming b.m1.m2, pairs_ok, terminals are nodes of the design)
    every = cs + designs
    cases = [c_case(d, dict(pkg=None)) for d in every]
    bad3 = core.coq_eval_cases("C01", "blower", IMPORTS, "c01b_case", cases, "run_cases chk_lower", chunk=60)
    run.stream("bundle-lowering", len(every), len({json.dumps(d) for d in every}),
               rule="every bundle design; distinct by design; compares labels(lower d) with the path-based labels inside Coq")
    if bad3:
        i = sorted(bad3, key=lambda ic: len(json.dumps(every[ic[0]])))[0][0]
        run.violation("C01:blowering", "member-wise lowering and the path-based meaning disagree, or a hypothesis of the lowering theorem fails (spec defect)",
                      dict(kind="spec-inconsistency", fragment="bundles", case=every[i], failing_cases=len(bad3)), found_input=False)
    run.coverage["traces_validated_against_impl"] = run.coverage.get("traces_validated_against_impl", 0) + len(designs) + len(cs)


def replay(run, case):
    outs, bad = evaluate([case], "breplay")
    print("replay verdict:", bad or "ok", json.dumps(outs[0])[:2000])
    if bad:
        run.violation("C01:replay", "replayed case still fails", dict(kind="replay", fragment="bundles", case=case, impl=outs[0]))
