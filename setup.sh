#!/bin/sh
# Build the Coq development from files on disk only (offline). Full .vo build, never -vos.
set -e
cd "$(dirname "$0")"
REPO="${VERIF_REPO:-/repo}"
PYTHONPATH="$REPO:$REPO/pdks/Sky130:$REPO/pdks/Gf180:$REPO/pdks/Asap7" PYTHONDONTWRITEBYTECODE=1 PYTHONWARNINGS=ignore \
  /venv/bin/python tools/translate_tables.py "$REPO" coq/generated
cd coq
( echo "-Q theories Hdl21"; echo "-Q generated Hdl21Gen"; find theories generated -name '*.v' | LC_ALL=C sort ) > _CoqProject
coq_makefile -f _CoqProject -o Makefile > /dev/null 2>&1
rm -f theories/Props/*.vo
timeout 3000 make -j16 > build.log 2>&1 || { tail -50 build.log; exit 1; }
# no escape hatches anywhere in the development
if grep -rnE 'Admitted|admit\b|^\s*Axiom|^\s*Parameter|^\s*Conjecture|Unset Guard|bypass_check|type-in-type|Admit Obligations' theories generated --include='*.v'; then
  echo "forbidden construct found"; exit 1
fi
# no Variable / Hypothesis / Context outside a Section (each would declare an axiom)
/venv/bin/python - <<'PY' || { echo "Variable/Hypothesis outside a Section"; exit 1; }
import re, glob, sys
bad = []
for f in glob.glob('theories/**/*.v', recursive=True) + glob.glob('generated/*.v'):
    depth = 0
    for i, l in enumerate(open(f), 1):
        if re.match(r'\s*Section\s+\w+', l): depth += 1
        elif re.match(r'\s*End\s+\w+\s*\.', l) and depth > 0: depth -= 1
        if re.match(r'\s*(Variables?|Hypothesis|Hypotheses|Context)\b', l) and depth == 0: bad.append((f, i, l.strip()))
for b in bad: print(*b)
sys.exit(1 if bad else 0)
PY
grep -c "Closed under the global context" build.log > /dev/null || true
grep -B1 -A6 "Axioms:" build.log > assumptions.txt || echo "every Print Assumptions: Closed under the global context" > assumptions.txt
echo "setup ok: $(grep -c 'Closed under the global context' build.log) theorems closed under the global context"
