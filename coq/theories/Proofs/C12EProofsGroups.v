(* Proofs/C12EProofsGroups.v — handle_group computed from the group AS AN ORDERED LIST (Model/C12EOrdered.v:group_res_o) does
   not depend on the order: for every duplicate-free enumeration L of a reference group it is Model/C01EElab.v:group_res.
   The (instance name, port name) order of sorted() is a strict total order, so `first_min` is a function of the SET. *)
From Coq Require Import String Permutation OrderedTypeEx.
Require Import Hdl21.Base.PyInt Hdl21.Spec.PySlice Hdl21.Model.Slice Hdl21.Model.Resolve Hdl21.Base.Design
               Hdl21.Spec.Nets Hdl21.Spec.WfDesign Hdl21.Model.C01EElab Hdl21.Model.C01FElab Hdl21.Proofs.FunGraph
               Hdl21.Proofs.ResolveProofs Hdl21.Proofs.C01EProofsBase Hdl21.Proofs.C01FProofsGroups Hdl21.Proofs.C01FProofsPlan
               Hdl21.Proofs.C01FProofsPortRefs Hdl21.Model.C12EOrdered Hdl21.Proofs.C12EProofsDfs.
Open Scope Z_scope.

(* ------------------------------------------------------------------------------------------------ the sort key *)
Lemma sltb_spec a b : String.ltb a b = true <-> String.compare a b = Lt.
Proof. unfold String.ltb. destruct (String.compare a b); split; intros H; congruence. Qed.

Lemma scmp_lt_trans a b c : String.compare a b = Lt -> String.compare b c = Lt -> String.compare a c = Lt.
Proof.
  intros H1 H2. apply String_as_OT.cmp_lt. apply String_as_OT.cmp_lt in H1. apply String_as_OT.cmp_lt in H2.
  exact (String_as_OT.lt_trans _ _ _ H1 H2).
Qed.

Lemma sltb_trans a b c : String.ltb a b = true -> String.ltb b c = true -> String.ltb a c = true.
Proof. rewrite !sltb_spec. apply scmp_lt_trans. Qed.

Lemma sltb_irrefl a : String.ltb a a = false.
Proof.
  destruct (String.ltb a a) eqn:E; [|reflexivity]. apply sltb_spec in E.
  assert (String.compare a a = Eq) as H by (apply String_as_OT.cmp_eq; reflexivity). congruence.
Qed.

Lemma sltb_tri a b : a <> b -> String.ltb a b = true \/ String.ltb b a = true.
Proof.
  intros Hne. rewrite !sltb_spec. destruct (String.compare a b) eqn:E.
  - apply String_as_OT.cmp_eq in E. contradiction.
  - left. reflexivity.
  - right. rewrite String.compare_antisym, E. reflexivity.
Qed.

Lemma key_ltb_trans a b c : key_ltb a b = true -> key_ltb b c = true -> key_ltb a c = true.
Proof.
  unfold key_ltb. rewrite !orb_true_iff, !andb_true_iff, !String.eqb_eq. intros [H1|[E1 H1]] [H2|[E2 H2]].
  - left. eapply sltb_trans; eassumption.
  - left. rewrite <- E2. exact H1.
  - left. rewrite E1. exact H2.
  - right. split; [congruence|eapply sltb_trans; eassumption].
Qed.

Lemma key_ltb_irrefl a : key_ltb a a = false.
Proof. unfold key_ltb. rewrite !sltb_irrefl, andb_false_r. reflexivity. Qed.

Lemma key_dec (a b : key) : a = b \/ a <> b.
Proof.
  destruct (key_eqb a b) eqn:E; [left; apply key_eqb_eq; exact E|right]. intros H. apply key_eqb_eq in H. congruence.
Qed.

Lemma key_ltb_tri a b : a <> b -> key_ltb a b = true \/ key_ltb b a = true.
Proof.
  intros Hne. unfold key_ltb. rewrite !orb_true_iff, !andb_true_iff, !String.eqb_eq.
  destruct (string_dec (fst a) (fst b)) as [E|Hn].
  - assert (snd a <> snd b) as Hs by (intros Hs; apply Hne; destruct a, b; cbn [fst snd] in *; congruence).
    destruct (sltb_tri _ _ Hs) as [H|H]; [left; right; auto|right; right; auto].
  - destruct (sltb_tri _ _ Hn) as [H|H]; [left; left; exact H|right; left; exact H].
Qed.

Lemma first_min_spec : forall t x, In (first_min x t) (x :: t) /\ forall y, In y (x :: t) -> key_ltb y (first_min x t) = false.
Proof.
  unfold first_min. induction t as [|a t IH]; intros x.
  - simpl. split; [left; reflexivity|]. intros y [<-|[]]. apply key_ltb_irrefl.
  - cbn [fold_left]. set (x' := if key_ltb a x then a else x). destruct (IH x') as [I1 I2].
    set (mm := fold_left (fun acc y : key => if key_ltb y acc then y else acc) t x') in *.
    split.
    + destruct I1 as [I1|I1]; [|right; right; exact I1]. rewrite <- I1. unfold x'. destruct (key_ltb a x); [right; left|left]; reflexivity.
    + assert (N' : key_ltb x' mm = false) by (apply I2; left; reflexivity).
      intros y [<-|[<-|Hy]]; [| |apply I2; right; exact Hy].
      * unfold x' in N'. destruct (key_ltb a x) eqn:E; [|exact N'].
        destruct (key_ltb x mm) eqn:F; [|reflexivity]. rewrite (key_ltb_trans _ _ _ E F) in N'. discriminate.
      * unfold x' in N'. destruct (key_ltb a x) eqn:E; [exact N'|].
        destruct (key_ltb a mm) eqn:F; [|reflexivity]. exfalso.
        destruct (key_dec mm x) as [Heq|Hne]; [rewrite Heq in F; congruence|].
        destruct (key_ltb_tri mm x Hne) as [G|G]; [|congruence].
        rewrite (key_ltb_trans _ _ _ F G) in E. discriminate.
Qed.

(* sorted(...)[0] is a function of the SET of candidates *)
Lemma first_min_same x1 t1 x2 t2 : (forall k, In k (x1 :: t1) <-> In k (x2 :: t2)) -> first_min x1 t1 = first_min x2 t2.
Proof.
  intros Hs. destruct (first_min_spec t1 x1) as [I1 M1]. destruct (first_min_spec t2 x2) as [I2 M2].
  set (a := first_min x1 t1) in *. set (b := first_min x2 t2) in *. destruct (key_dec a b) as [E|Hne]; [exact E|]. exfalso.
  destruct (key_ltb_tri a b Hne) as [G|G].
  - rewrite (M2 a (proj1 (Hs a) I1)) in G. discriminate.
  - rewrite (M1 b (proj2 (Hs b) I2)) in G. discriminate.
Qed.

(* ------------------------------------------------------------------------------------------------ lists *)
Lemma flat_map_nil {A B} (f : A -> list B) L : (forall k, In k L -> f k = []) -> flat_map f L = [].
Proof.
  induction L as [|a L IH]; intros H; cbn [flat_map]; [reflexivity|]. rewrite (H a (or_introl eq_refl)).
  apply IH. intros k Hk. apply H. right; exact Hk.
Qed.

Lemma filter_nil {A} (P : A -> bool) L : (forall k, In k L -> P k = false) -> filter P L = [].
Proof.
  induction L as [|a L IH]; intros H; cbn [filter]; [reflexivity|]. rewrite (H a (or_introl eq_refl)).
  apply IH. intros k Hk. apply H. right; exact Hk.
Qed.

Lemma flat_map_single {A B} (f : A -> list B) L r v :
  NoDup L -> In r L -> f r = [v] -> (forall k, In k L -> k <> r -> f k = []) -> flat_map f L = [v].
Proof.
  induction L as [|a L IH]; intros Hnd Hin Hr Hn; [destruct Hin|]. inversion Hnd as [|? ? Ha Hnd']; subst. cbn [flat_map].
  destruct Hin as [->|Hin].
  - rewrite Hr. rewrite (flat_map_nil f L); [reflexivity|]. intros k Hk. apply Hn; [right; exact Hk|]. intros ->. contradiction.
  - rewrite (Hn a (or_introl eq_refl)) by (intros ->; contradiction). cbn [app]. apply IH; auto.
    intros k Hk. apply Hn. right; exact Hk.
Qed.

Lemma filter_single {A} (P : A -> bool) L r :
  NoDup L -> In r L -> P r = true -> (forall k, In k L -> k <> r -> P k = false) -> filter P L = [r].
Proof.
  induction L as [|a L IH]; intros Hnd Hin Hr Hn; [destruct Hin|]. inversion Hnd as [|? ? Ha Hnd']; subst. cbn [filter].
  destruct Hin as [->|Hin].
  - rewrite Hr. rewrite (filter_nil P L); [reflexivity|]. intros k Hk. apply Hn; [right; exact Hk|]. intros ->. contradiction.
  - rewrite (Hn a (or_introl eq_refl)) by (intros ->; contradiction). apply IH; auto.
    intros k Hk. apply Hn. right; exact Hk.
Qed.

Lemma bool_iff (a b : bool) : (a = true <-> b = true) -> a = b.
Proof. destruct a, b; intros [H1 H2]; try reflexivity; [symmetry; apply H1; reflexivity|apply H2; reflexivity]. Qed.

(* ------------------------------------------------------------------------------------------------ the result of a group *)
Section GroupRes.
Variables (d : design) (km : nat) (m : module) (keys : list key).
Hypothesis Hwm : wf_module d km m = Ok tt.
Hypothesis Hkeys : all_keys d m = Ok keys.

Notation cn := (conn key (nxt m)).

(* a port whose connection is not a reference is where every orbit of its group ends *)
Lemma fixed_is_attr g k : In g keys -> cn g k -> nxt m k = k -> k = attr m keys g.
Proof.
  intros Hg C Hf. pose proof C as C0. apply conn_meet in C. destruct C as [a [b E]]. rewrite (fixed_iter key (nxt m) k b Hf) in E.
  assert (In k keys) as Hk by (rewrite <- E; apply (iter_keys d km m keys Hwm Hkeys a g Hg)).
  symmetry. apply (attr_fixed d km m keys Hwm Hkeys g k Hg Hk Hf C0).
Qed.

Theorem group_res_o_eq g L : In g keys -> gid m keys g = Some g -> is_comp m L g ->
  group_res_o m keys g L = group_res m keys g.
Proof.
  intros Hg Hgg [Hnd HL]. destruct (attr_spec d km m keys Hwm Hkeys g Hg) as [Hr Cr].
  unfold group_res. set (r := attr m keys g) in *.
  assert (HrL : In r L) by (apply HL; exact Cr).
  assert (Hfix : forall k, In k L -> next m k = None -> k = r).
  { intros k Hk Hn. apply (fixed_is_attr g k Hg (proj1 (HL k) Hk)). unfold nxt. rewrite Hn. reflexivity. }
  unfold group_res_o.
  destruct (pconn m r) as [cx|] eqn:Ep.
  - destruct (as_ref m cx) as [q'|] eqn:Er.
    + (* no port ends the orbits: a cycle *)
      assert (Hall : forall k, In k L -> exists cxk qk, pconn m k = Some cxk /\ as_ref m cxk = Some qk).
      { intros k Hk. destruct (next m k) as [qk|] eqn:En.
        - unfold next in En. destruct (pconn m k) as [cxk|]; [|discriminate]. eauto.
        - pose proof (Hfix k Hk En) as Hkr. subst k. unfold next in En. rewrite Ep, Er in En. discriminate. }
      assert (src_conns m L = []) as ->.
      { unfold src_conns. apply flat_map_nil. intros k Hk. destruct (Hall k Hk) as [cxk [qk [-> ->]]]. reflexivity. }
      assert (unconnected m L = []) as ->.
      { unfold unconnected. apply filter_nil. intros k Hk. destruct (Hall k Hk) as [cxk [qk [-> _]]]. reflexivity. }
      assert (Hcand : forall k, In k (filter (fun k => kmem k keys) L) <-> In k (members m keys g)).
      { intros k. rewrite filter_In, members_In, kmem_In. split.
        - intros [HkL Hk]. split; [exact Hk|]. apply HL in HkL. rewrite <- (gid_conn d km m keys Hwm Hkeys g k Hg Hk HkL). exact Hgg.
        - intros [Hk Hgk]. split; [|exact Hk]. apply HL. apply (gid_spec d km m keys Hwm Hkeys k g Hk Hgk). }
      unfold candidates. destruct (filter (fun k => kmem k keys) L) as [|x t] eqn:Ef.
      { exfalso. apply (proj2 (Hcand g)). apply members_In. split; [exact Hg|exact Hgg]. }
      destruct (members m keys g) as [|x' t'] eqn:Em.
      { exfalso. apply (proj1 (Hcand x)). left. reflexivity. }
      f_equal. f_equal. apply first_min_same. exact Hcand.
    + (* the group's declared connection *)
      assert (src_conns m L = [cx]) as ->.
      { unfold src_conns. apply (flat_map_single _ L r cx Hnd HrL); [rewrite Ep, Er; reflexivity|].
        intros k Hk Hne. destruct (pconn m k) as [cxk|] eqn:Epk.
        - destruct (as_ref m cxk) as [qk|] eqn:Erk; [reflexivity|]. exfalso. apply Hne. apply (Hfix k Hk).
          unfold next. rewrite Epk. exact Erk.
        - reflexivity. }
      destruct (as_nc m cx); reflexivity.
  - (* the one port connected to nothing *)
    assert (src_conns m L = []) as ->.
    { unfold src_conns. apply flat_map_nil. intros k Hk. destruct (pconn m k) as [cxk|] eqn:Epk; [|reflexivity].
      destruct (as_ref m cxk) as [qk|] eqn:Erk; [reflexivity|]. exfalso.
      assert (k = r) as Hkr by (apply (Hfix k Hk); unfold next; rewrite Epk; exact Erk). subst k. congruence. }
    assert (unconnected m L = [r]) as ->; [|reflexivity].
    unfold unconnected. apply (filter_single _ L r Hnd HrL); [rewrite Ep; reflexivity|].
    intros k Hk Hne. destruct (pconn m k) as [cxk|] eqn:Epk; [reflexivity|]. exfalso. apply Hne. apply (Hfix k Hk).
    unfold next. rewrite Epk. reflexivity.
Qed.

(* the identifier of a discovered group is the reference model's group identifier *)
Theorem canon_eq L q : In q keys -> In q L -> is_comp m L q -> canon keys L = gid m keys q.
Proof.
  intros Hq HqL [_ HL]. unfold canon, gid. apply find_ext_in. intros k Hk. apply bool_iff. rewrite kmem_In.
  rewrite (meets_conn d km m keys Hwm Hkeys k q Hk Hq). rewrite HL. split; intros C; apply c_sym; exact C.
Qed.
End GroupRes.
