(* Proofs/C02EProofsArrays.v — what ArrayFlattener, SliceResolver and PostFlattenConnTypes, having succeeded on an ARBITRARY
   module, say about an instance array of the module as it was written:
     every connection goes to a port of the target and (after ResolvePortRefs) is w or n*w wide   <- arrays.py per connection
     every port of the target is connected                                     <- PostFlattenConnTypes on the first element
   These are the two hypotheses of C02EProofsPortRefs.array_inst_wf. *)
From Coq Require Import String.
Require Import Hdl21.Base.PyInt Hdl21.Spec.PySlice Hdl21.Model.Slice Hdl21.Model.Resolve Hdl21.Base.Design
               Hdl21.Spec.WfDesign Hdl21.Model.Checks Hdl21.Model.C02Checks Hdl21.Model.Arrays Hdl21.Model.C01EElab Hdl21.Model.C02EPipeline
               Hdl21.Proofs.ResolveProofs Hdl21.Proofs.ChecksProofs Hdl21.Proofs.C02Proofs
               Hdl21.Proofs.C01EProofsBase Hdl21.Proofs.C01EProofsPass Hdl21.Proofs.C01EProofsNames Hdl21.Proofs.C01EProofsPlan
               Hdl21.Proofs.C01EProofsPortRefs Hdl21.Proofs.C01EProofsArrays Hdl21.Proofs.C01EProofsSlices
               Hdl21.Proofs.C02EProofsBase Hdl21.Proofs.C02EProofsPortRefs.
Open Scope Z_scope.

Lemma array_names_lengths : forall arrs avoid tbl, array_names arrs avoid = Ok tbl ->
  Forall2 (fun (x : inst) (nms : list name) => Datatypes.length nms = Z.to_nat (i_n x)) arrs tbl.
Proof.
  induction arrs as [|x r IH]; intros avoid tbl H; cbn [array_names] in H.
  - inversion H. constructor.
  - apply bind_ok in H. destruct H as [nms [Hn H]]. apply bind_ok in H. destruct H as [rest [Hr H]]. inversion H; subst tbl.
    constructor; [apply (name_elems_spec _ _ _ _ _ Hn)|eapply IH; exact Hr].
Qed.

Lemma Forall2_combine_In {A B} (R : A -> B -> Prop) l l' a b : Forall2 R l l' -> In (a, b) (combine l l') -> R a b.
Proof.
  induction 1 as [|x y l l' Hxy _ IH]; cbn [combine]; [intros []|]. intros [E|Hin]; [inversion E; subst; exact Hxy|apply IH; exact Hin].
Qed.

Lemma added_conns_array table x : single x = false -> added_conns table x = [].
Proof.
  intros Hs. unfold added_conns. induction table as [|e t IH]; cbn [flat_map]; [reflexivity|]. rewrite IH, app_nil_r.
  unfold added_one. destruct (a_kind (snd (fst e))); [|reflexivity]. rewrite Hs, andb_false_r. reflexivity.
Qed.

Section ArrAny.
Variables (d tp1 tp3 : design) (m : module) (keys : list key) (allocs : list alloc) (names : list name) (insts1 : list inst) (m2 m3 : module).
Let table := number_allocs (combine allocs names) (next_leaf m).
Hypothesis Htp1 : forall t, target_ports tp1 t = target_ports d t.
Hypothesis Htp3 : forall t, target_ports tp3 t = target_ports d t.
Hypothesis Gports : forall x ports, In x (m_insts m) -> target_ports d (i_of x) = Ok ports -> nodup_names (map fst ports) = true.
Hypothesis Hins : Forall2 (fun x x1 => rewrite_inst m keys table x = Ok x1) (m_insts m) insts1.
Hypothesis Harr : arrays_module tp1 (m1 m allocs names insts1) = Ok m2.
Hypothesis Hsl : slices_module m2 = Ok m3.
Hypothesis Hct3 : forall x3, In x3 (m_insts m3) -> conntypes_inst tp3 m3 x3 = Ok tt.

(* the first element ArrayFlattener makes of an array of the written module *)
Lemma first_element x : In x (m_insts m) -> single x = false ->
  exists x1 ps nm el, In x1 insts1 /\ rewrite_inst m keys table x = Ok x1 /\ target_ports d (i_of x) = Ok ps /\
    elem_inst tp1 x1 ps (0, nm) = Ok el /\ In el (m_insts m2).
Proof.
  intros Hx Hs. destruct (Forall2_In_l _ _ _ x Hins Hx) as [x1 [Hx1 Hr]].
  destruct (rewrite_inst_inv _ _ _ _ _ _ Hr) as [_ [Hn [Ho _]]].
  assert (single x1 = false) as Hs1 by (unfold single in *; rewrite Hn; exact Hs).
  destruct (arrays_module_inv _ _ _ Harr) as [tbl [new [Ht [Hnew [_ [_ [_ [_ Hi]]]]]]]].
  pose proof (array_names_lengths _ _ _ Ht) as Hlen.
  assert (In x1 (dissolved (m1 m allocs names insts1))) as Hd by (apply dissolved_In; split; [exact Hx1|exact Hs1]).
  destruct (combine_In_l _ tbl x1 (Forall2_length' _ _ _ Hlen) Hd) as [nms Hpair].
  pose proof (Forall2_combine_In _ _ _ _ _ Hlen Hpair) as Hl. cbv beta in Hl.
  destruct (traverse_In _ _ _ _ Hnew Hpair) as [els [Hex Hels]].
  unfold expand_array in Hex. cbn [fst snd] in Hex. apply bind_ok in Hex. destruct Hex as [ps [Hps Hex]].
  assert (0 < i_n x1) as Hpos by (unfold single in Hs1; lia).
  destruct (Z.to_nat (i_n x1)) as [|n'] eqn:En; [lia|]. destruct nms as [|nm nms']; [discriminate|].
  cbn [iota combine traverse] in Hex. apply bind_ok in Hex. destruct Hex as [el [Hel Hex]]. apply bind_ok in Hex. destruct Hex as [rest [_ Hex]].
  inversion Hex; subst els.
  exists x1, ps, nm, el. split; [exact Hx1|]. split; [exact Hr|]. split; [rewrite <- Htp1, <- Ho; exact Hps|]. split; [exact Hel|].
  rewrite Hi. apply in_or_app. right. apply in_concat. exists (el :: rest). split; [exact Hels|left; reflexivity].
Qed.

Theorem array_facts x ports : In x (m_insts m) -> single x = false -> target_ports d (i_of x) = Ok ports ->
  (forall c e, In c (i_conns x) -> rewrite_conn m keys table x c = Ok (fst c, e) ->
     exists w cw, assoc (fst c) ports = Some w /\ xwidth e = Ok cw /\ (cw = w \/ cw = i_n x * w)) /\
  (forall pw, In pw ports -> assoc (fst pw) (i_conns x) <> None).
Proof.
  intros Hx Hs Hp. destruct (first_element x Hx Hs) as [x1 [ps [nm [el [Hx1 [Hr [Hps [Hel Helin]]]]]]]].
  rewrite Hp in Hps. inversion Hps; subst ps.
  destruct (rewrite_inst_inv _ _ _ _ _ _ Hr) as [_ [Hn [Ho [cs [Hcs Fc]]]]].
  rewrite (added_conns_array _ x Hs), app_nil_r in Hcs. subst cs.
  destruct (elem_inst_inv _ _ _ _ _ Hel) as [_ [Hn0 [Hoe Fe]]].
  assert (forall a b, rewrite_conn m keys table x a = Ok b -> fst a = fst b) as Hfst by (intros a b E; symmetry; eapply rewrite_conn_fst; exact E).
  split.
  - intros c e Hc He. destruct (Forall2_In_l _ _ _ c Fc Hc) as [c1 [Hc1 Hrc]].
    assert (c1 = (fst c, e)) as -> by (pose proof (eq_trans (eq_sym Hrc) He) as X; inversion X; reflexivity).
    destruct (Forall2_In_l _ _ _ _ Fe Hc1) as [c' [_ [_ [w [Hw Ha]]]]]. cbn [fst snd] in *.
    unfold array_elem_conn in Ha. apply bind_ok in Ha. destruct Ha as [cw [Hcw Ha]]. exists w, cw. split; [exact Hw|]. split; [exact Hcw|].
    rewrite Hn in Ha. destruct (cw =? w) eqn:E1; [left; lia|]. destruct (cw =? i_n x * w) eqn:E2; [right; lia|discriminate].
  - (* PostFlattenConnTypes on the element *)
    destruct (slices_module_inv _ _ Hsl) as [_ [_ [_ [_ [_ Fs]]]]].
    destruct (Forall2_In_l _ _ _ el Fs Helin) as [el3 [Hel3 Hsi]]. destruct (slices_inst_inv _ _ Hsi) as [_ [Hn3 [Ho3 Fcs]]].
    pose proof (Hct3 el3 Hel3) as H. unfold conntypes_inst in H.
    assert (single el3 = true) as Hs3 by (unfold single; rewrite Hn3, Hn0; reflexivity).
    rewrite Hs3, Htp3, Ho3, Hoe, Ho, Hp in H. cbn [bind] in H. apply bind_ok in H. destruct H as [cws [Hcw H]]. apply check_ok in H.
    destruct (check_instance_sound ports cws (Gports x ports Hx Hp) H) as [A _].
    destruct (ct_widths_assoc _ _ _ Hcw) as [Hk _].
    intros pw Hpw Hnone.
    assert (assoc (fst pw) ports = Some (snd pw)) as Hpa.
    { apply assoc_nodup_In'; [apply nodup_names_NoDup; apply (Gports x ports Hx Hp)|destruct pw; exact Hpw]. }
    pose proof (A _ _ Hpa) as Hc. assert (In (fst pw) (map fst cws)) as Hin by (apply in_fst_assoc; eauto).
    rewrite Hk in Hin. rewrite <- (Forall2_map_eq _ fst fst _ _ Fcs (fun a b E => eq_sym (slices_conn_fst a b E))) in Hin.
    rewrite <- (Forall2_map_eq _ fst fst _ _ Fe (fun a b E => eq_sym (proj1 E))) in Hin.
    rewrite <- (Forall2_map_eq _ fst fst _ _ Fc Hfst) in Hin. apply (assoc_None_notin _ _ Hnone). exact Hin.
Qed.
End ArrAny.
