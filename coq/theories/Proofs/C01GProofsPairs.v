(* Proofs/C01GProofsPairs.v — InstBundleElabPass keeps the nets: on the nodes of a design with Pairs, the node map up_node
   (element e of Pair i |-> the instance the pass created for member e) commutes with the path-based one-step map bstep and is
   injective; hence bsame_net d x y <-> bsame_net (ib_design d) (up x) (up y)   (ib_meet). *)
From Coq Require Import String.
Require Import Hdl21.Base.PyInt Hdl21.Spec.PySlice Hdl21.Model.Slice Hdl21.Model.Resolve Hdl21.Base.Design
               Hdl21.Spec.Nets Hdl21.Spec.WfDesign Hdl21.Base.C01BDesign Hdl21.Spec.C01BNets Hdl21.Spec.C01BWf Hdl21.Spec.C01BLower
               Hdl21.Spec.C01GLower Hdl21.Model.C01GBundlePasses
               Hdl21.Proofs.C01BProofs Hdl21.Proofs.C01BLowerProofs Hdl21.Proofs.C01EProofsGraph Hdl21.Proofs.C01EProofsBase
               Hdl21.Proofs.C01FProofsBundles Hdl21.Proofs.C01GProofsLower Hdl21.Proofs.C01GProofsPasses Hdl21.Proofs.C01GProofsNames.
Require Hdl21.Spec.BundleSpec Hdl21.Model.BundleFlat Hdl21.Proofs.BundleProofs.
Open Scope Z_scope.

(* ------------------------------------------------------------------------------------------------ *)
(* 1. the instances the pass creates                                                                 *)
(* ------------------------------------------------------------------------------------------------ *)
Lemma flatname_fresh segs avoid mx nm : BundleFlat.flatname segs avoid mx = Ok nm -> ~ In nm avoid.
Proof.
  unfold BundleFlat.flatname. intros H. apply BundleProofs.flatname_loop_spec in H. destruct H as [k [_ [Hf _]]].
  apply BundleProofs.smem_false. exact Hf.
Qed.

Lemma find_binst_app l1 l2 i : find_binst (l1 ++ l2) i = match find_binst l1 i with Some x => Some x | None => find_binst l2 i end.
Proof. induction l1 as [|x l1 IH]; [reflexivity|]. cbn [app find_binst]. destruct (String.eqb (bi_name x) i); [reflexivity|exact IH]. Qed.

Lemma find_binst_none l i : ~ In i (map bi_name l) -> find_binst l i = None.
Proof.
  induction l as [|x l IH]; intros H; [reflexivity|]. cbn [find_binst]. cbn [map In] in H.
  destruct (String.eqb (bi_name x) i) eqn:E; [apply String.eqb_eq in E; tauto|]. apply IH. tauto.
Qed.

Lemma find_binst_filter l i x : find_binst l i = Some x -> bi_pair x = false ->
  find_binst (filter (fun y => negb (bi_pair y)) l) i = Some x.
Proof.
  induction l as [|y l IH]; cbn [find_binst filter]; [discriminate|]. destruct (String.eqb (bi_name y) i) eqn:E.
  - intros H Hp. inversion H; subst y. rewrite Hp. cbn [negb find_binst]. rewrite E. reflexivity.
  - intros H Hp. destruct (negb (bi_pair y)); [cbn [find_binst]; rewrite E|]; apply IH; assumption.
Qed.

Lemma filter_names_sub (f : binst -> bool) l n : In n (map bi_name (filter f l)) -> In n (map bi_name l).
Proof. intros H. apply in_map_iff in H. destruct H as [x [E Hx]]. apply filter_In in Hx. apply in_map_iff. exists x. tauto. Qed.

(* what ib_pairs appends for the Pairs l, given the namespace ns *)
Fixpoint ibspec (l : list binst) (ns : list string) (ext : list binst) (nms : list (name * (name * name))) : Prop :=
  match l with
  | [] => ext = [] /\ nms = []
  | x :: r =>
      exists np nn cp cn ext' nms',
        let ns1 := BundleFlat.remove_name (bi_name x) ns in
        ~ In np ns1 /\ ~ In nn (ns1 ++ [np]) /\
        traverse (pair_conn 0) (bi_conns x) = Ok cp /\ traverse (pair_conn 1) (bi_conns x) = Ok cn /\
        ext = [pair_member x np cp; pair_member x nn cn] ++ ext' /\ nms = (bi_name x, (np, nn)) :: nms' /\
        ibspec r (ns1 ++ [np; nn]) ext' nms'
  end.

Lemma ib_pairs_spec l : forall ns acc names news names', ib_pairs l ns acc names = Ok (news, names') ->
  exists ext nms, news = acc ++ ext /\ names' = names ++ nms /\ ibspec l ns ext nms.
Proof.
  induction l as [|x r IH]; intros ns acc names news names' H; cbn [ib_pairs] in H.
  - inversion H; subst. exists [], []. rewrite !app_nil_r. repeat split.
  - destruct (BundleFlat.flatname [bi_name x; pair_elem 0] (BundleFlat.remove_name (bi_name x) ns) maxlen) as [np|] eqn:E1; cbn [bind] in H; [|discriminate].
    destruct (BundleFlat.flatname [bi_name x; pair_elem 1] (BundleFlat.remove_name (bi_name x) ns ++ [np]) maxlen) as [nn|] eqn:E2; cbn [bind] in H; [|discriminate].
    destruct (traverse (pair_conn 0) (bi_conns x)) as [cp|] eqn:E3; cbn [bind] in H; [|discriminate].
    destruct (traverse (pair_conn 1) (bi_conns x)) as [cn|] eqn:E4; cbn [bind] in H; [|discriminate].
    apply IH in H. destruct H as [ext' [nms' [-> [-> Hs]]]].
    exists ([pair_member x np cp; pair_member x nn cn] ++ ext'), ((bi_name x, (np, nn)) :: nms').
    split; [rewrite <- app_assoc; reflexivity|]. split; [rewrite <- app_assoc; reflexivity|].
    cbn [ibspec]. exists np, nn, cp, cn, ext', nms'. cbn zeta. split; [eapply flatname_fresh; eauto|]. split; [eapply flatname_fresh; eauto|]. auto.
Qed.

Lemma remove_name_in n b ns : In n (BundleFlat.remove_name b ns) -> In n ns.
Proof.
  induction ns as [|x ns IH]; cbn [BundleFlat.remove_name]; [tauto|]. destruct (String.eqb x b); [intros H; right; exact H|].
  intros [H|H]; [left; exact H|right; apply IH; exact H].
Qed.

(* looking the created instances up behind any prefix whose names are in the namespace *)
Lemma ibspec_find l : forall ns ext nms pre, ibspec l ns ext nms ->
  NoDup (map bi_name l) -> (forall n, In n (map bi_name pre) -> In n ns) -> (forall n, In n (map bi_name l) -> In n ns) ->
  (forall n, In n (map bi_name pre) -> ~ In n (map bi_name l)) ->
  forall x, In x l -> exists np nn cp cn, assoc (bi_name x) nms = Some (np, nn) /\
    traverse (pair_conn 0) (bi_conns x) = Ok cp /\ traverse (pair_conn 1) (bi_conns x) = Ok cn /\ np <> nn /\
    find_binst (pre ++ ext) np = Some (pair_member x np cp) /\ find_binst (pre ++ ext) nn = Some (pair_member x nn cn) /\
    ~ In np (map bi_name pre) /\ ~ In nn (map bi_name pre).
Proof.
  induction l as [|y r IH]; intros ns ext nms pre Hs ND Hpre Hl Hd x Hx; [destruct Hx|].
  cbn [ibspec] in Hs. destruct Hs as [np [nn [cp [cn [ext' [nms' [Fp [Fn [Tp [Tn [-> [-> Hr]]]]]]]]]]]]. cbn zeta in *.
  cbn [map] in ND. inversion ND as [|? ? Hy ND']; subst.
  set (ns1 := BundleFlat.remove_name (bi_name y) ns) in *.
  assert (Kpre : forall n, In n (map bi_name pre) -> In n ns1).
  { intros n Hn. apply remove_name_keeps; [apply Hpre; exact Hn|]. intros ->. apply (Hd _ Hn). left. reflexivity. }
  assert (Kr : forall n, In n (map bi_name r) -> In n ns1).
  { intros n Hn. apply remove_name_keeps; [apply Hl; right; exact Hn|]. intros ->. contradiction. }
  assert (Enn : np <> nn) by (intros ->; apply Fn; apply in_app_iff; right; left; reflexivity).
  destruct Hx as [->|Hx].
  - exists np, nn, cp, cn. cbn [assoc]. rewrite String.eqb_refl.
    assert (P1 : ~ In np (map bi_name pre)) by (intros G; apply Fp; apply Kpre; exact G).
    assert (P2 : ~ In nn (map bi_name pre)) by (intros G; apply Fn; apply in_app_iff; left; apply Kpre; exact G).
    split; [reflexivity|]. split; [exact Tp|]. split; [exact Tn|]. split; [exact Enn|]. split; [|split; [|split; assumption]].
    + rewrite find_binst_app, find_binst_none by exact P1.
      cbn [app find_binst pair_member bi_name]. rewrite String.eqb_refl. reflexivity.
    + rewrite find_binst_app, find_binst_none by exact P2.
      cbn [app find_binst pair_member bi_name]. destruct (String.eqb np nn) eqn:E; [apply String.eqb_eq in E; contradiction|].
      rewrite String.eqb_refl. reflexivity.
  - destruct (IH (ns1 ++ [np; nn]) ext' nms' (pre ++ [pair_member y np cp; pair_member y nn cn]) Hr ND') with (x := x) as [np' [nn' [cp' [cn' [A [B [C [D [E [F [G1 G2]]]]]]]]]]]; auto.
    + intros n Hn. rewrite map_app in Hn. apply in_app_iff in Hn. apply in_app_iff. destruct Hn as [Hn|Hn]; [left; apply Kpre; exact Hn|right; exact Hn].
    + intros n Hn. apply in_app_iff. left. apply Kr. exact Hn.
    + intros n Hn G. rewrite map_app in Hn. apply in_app_iff in Hn. destruct Hn as [Hn|Hn]; [apply (Hd n Hn); right; exact G|].
      cbn [map pair_member bi_name In] in Hn. destruct Hn as [<-|[<-|[]]]; [apply Fp; apply Kr; exact G|apply Fn; apply in_app_iff; left; apply Kr; exact G].
    + exists np', nn', cp', cn'. cbn [assoc]. destruct (String.eqb (bi_name x) (bi_name y)) eqn:E0.
      * apply String.eqb_eq in E0. exfalso. apply Hy. rewrite <- E0. apply (in_map bi_name) in Hx. exact Hx.
      * rewrite <- app_assoc in E, F. rewrite map_app in G1, G2. repeat split; auto; intros G; [apply G1|apply G2]; apply in_app_iff; left; exact G.
Qed.

Definition nms_names (nms : list (name * (name * name))) : list name := flat_map (fun e => [fst (snd e); snd (snd e)]) nms.
Definition sel (e : Z) (pn : name * name) : name := if e =? 0 then fst pn else snd pn.

Lemma ibspec_fresh l : forall ns ext nms (P : list string), ibspec l ns ext nms -> NoDup (map bi_name l) ->
  (forall n, In n P -> In n ns) -> (forall n, In n P -> ~ In n (map bi_name l)) -> (forall n, In n (map bi_name l) -> In n ns) ->
  NoDup (nms_names nms) /\ forall n, In n (nms_names nms) -> ~ In n P.
Proof.
  induction l as [|x r IH]; intros ns ext nms P Hs ND HP HPl Hl.
  - destruct Hs as [_ ->]. split; [constructor|intros n []].
  - cbn [ibspec] in Hs. destruct Hs as [np [nn [cp [cn [ext' [nms' [Fp [Fn [_ [_ [_ [-> Hr]]]]]]]]]]]]. cbn zeta in *.
    cbn [map] in ND. inversion ND as [|? ? Hx ND']; subst. set (ns1 := BundleFlat.remove_name (bi_name x) ns) in *.
    assert (KP : forall n, In n P -> In n ns1).
    { intros n Hn. apply remove_name_keeps; [apply HP; exact Hn|]. intros ->. apply (HPl _ Hn). left. reflexivity. }
    assert (Kr : forall n, In n (map bi_name r) -> In n ns1).
    { intros n Hn. apply remove_name_keeps; [apply Hl; right; exact Hn|]. intros ->. contradiction. }
    destruct (IH (ns1 ++ [np; nn]) ext' nms' (P ++ [np; nn]) Hr ND') as [N F].
    + intros n Hn. apply in_app_iff in Hn. apply in_app_iff. destruct Hn as [Hn|Hn]; [left; apply KP; exact Hn|right; exact Hn].
    + intros n Hn G. apply in_app_iff in Hn. destruct Hn as [Hn|Hn]; [apply (HPl n Hn); right; exact G|].
      destruct Hn as [<-|[<-|[]]]; [apply Fp; apply Kr; exact G|apply Fn; apply in_app_iff; left; apply Kr; exact G].
    + intros n Hn. apply in_app_iff. left. apply Kr. exact Hn.
    + unfold nms_names in *. cbn [flat_map fst snd app]. split.
      * constructor.
        { intros [G|G]; [subst nn; apply Fn; apply in_app_iff; right; left; reflexivity|]. apply (F np G). apply in_app_iff. right. left. reflexivity. }
        constructor; [|exact N]. intros G. apply (F nn G). apply in_app_iff. right. right. left. reflexivity.
      * intros n [<-|[<-|G]] G'; [apply Fp; apply KP; exact G'|apply Fn; apply in_app_iff; left; apply KP; exact G'|].
        apply (F n G). apply in_app_iff. left. exact G'.
Qed.

Lemma sel_in i pn e nms : In (i, pn) nms -> In (sel e pn) (nms_names nms).
Proof.
  intros H. unfold nms_names. apply in_flat_map. exists (i, pn). split; [exact H|]. cbn [fst snd]. unfold sel. destruct (e =? 0); [left|right; left]; reflexivity.
Qed.

Lemma sel_inj nms : NoDup (nms_names nms) -> forall i pn e i2 pn2 e2, In (i, pn) nms -> In (i2, pn2) nms ->
  (e = 0 \/ e = 1) -> (e2 = 0 \/ e2 = 1) -> sel e pn = sel e2 pn2 -> i = i2 /\ e = e2.
Proof.
  induction nms as [|[j [a b]] nms IH]; intros ND i pn e i2 pn2 e2 H1 H2 He He2 E; [destruct H1|].
  unfold nms_names in ND. cbn [flat_map fst snd app] in ND. inversion ND as [|? ? Na ND1]; subst. inversion ND1 as [|? ? Nb ND2]; subst.
  fold (nms_names nms) in *.
  destruct H1 as [H1|H1], H2 as [H2|H2].
  - inversion H1; inversion H2; subst. split; [reflexivity|]. unfold sel in E. cbn [fst snd] in E.
    destruct He as [-> | ->], He2 as [-> | ->]; cbn [Z.eqb] in E; try reflexivity; exfalso; apply Na; left; congruence.
  - inversion H1; subst. exfalso. pose proof (sel_in i2 pn2 e2 nms H2) as G. rewrite <- E in G. unfold sel in G. cbn [fst snd] in G.
    destruct (e =? 0); [apply Na; right; exact G|apply Nb; exact G].
  - inversion H2; subst. exfalso. pose proof (sel_in i pn e nms H1) as G. rewrite E in G. unfold sel in G. cbn [fst snd] in G.
    destruct (e2 =? 0); [apply Na; right; exact G|apply Nb; exact G].
  - apply (IH ND2 i pn e i2 pn2 e2); assumption.
Qed.

Lemma up_elem_single_aux m i e x : find_binst (bm_insts m) i = Some x -> bi_pair x = false -> up_elem m (i, e) = (i, e).
Proof. intros Hf Hp. unfold up_elem. cbn [fst]. rewrite Hf, Hp. reflexivity. Qed.

Section Module.
Variable m m1 : bmodule.
Hypothesis Hib : ib_module m = Ok m1.
Hypothesis ND : NoDup (C01GLower.mod_names m).

Lemma ib_same : bm_name m1 = bm_name m /\ bm_ports m1 = bm_ports m /\ bm_sigs m1 = bm_sigs m /\ bm_bundles m1 = bm_bundles m /\ bm_leaves m1 = bm_leaves m.
Proof. unfold ib_module in Hib. apply bind_ok in Hib. destruct Hib as [r [_ H]]. inversion H. cbn. auto. Qed.

Lemma inst_names_nodup : NoDup (map bi_name (bm_insts m)).
Proof. unfold C01GLower.mod_names in ND. apply NoDup_app_r in ND. apply NoDup_app_r in ND. apply NoDup_app_r in ND. exact ND. Qed.

Lemma ib_find_single i x : find_binst (bm_insts m) i = Some x -> bi_pair x = false -> find_binst (bm_insts m1) i = Some x.
Proof.
  intros Hf Hp. unfold ib_module in Hib. apply bind_ok in Hib. destruct Hib as [r [_ H]]. inversion H; subst m1. cbn [bm_insts].
  rewrite find_binst_app, (find_binst_filter _ _ _ Hf Hp). reflexivity.
Qed.

Definition nonpairs : list binst := filter (fun y => negb (bi_pair y)) (bm_insts m).

Lemma ib_run_ok : exists news nms, ib_run m = Ok (news, nms) /\ bm_insts m1 = nonpairs ++ news /\
  ibspec (rev (filter bi_pair (bm_insts m))) (mod_ns m) news nms.
Proof.
  unfold ib_module in Hib. apply bind_ok in Hib. destruct Hib as [[news names] [Hr H]]. inversion H; subst m1. cbn [bm_insts fst].
  exists news, names. split; [exact Hr|]. split; [reflexivity|]. unfold ib_run in Hr. apply ib_pairs_spec in Hr.
  destruct Hr as [ext [nms [E1 [E2 Hs]]]]. cbn [app] in E1, E2. subst. exact Hs.
Qed.

Lemma pairs_conds :
  NoDup (map bi_name (rev (filter bi_pair (bm_insts m)))) /\
  (forall n, In n (map bi_name nonpairs) -> In n (mod_ns m)) /\
  (forall n, In n (map bi_name (rev (filter bi_pair (bm_insts m)))) -> In n (mod_ns m)) /\
  (forall n, In n (map bi_name nonpairs) -> ~ In n (map bi_name (rev (filter bi_pair (bm_insts m))))).
Proof.
  pose proof inst_names_nodup as NDi. split; [rewrite map_rev; apply NoDup_rev; apply NoDup_map_filter; exact NDi|]. split; [|split].
  - intros n Hn. apply filter_names_sub in Hn. unfold mod_ns. rewrite !in_app_iff. auto.
  - intros n Hn. rewrite map_rev in Hn. apply in_rev in Hn. apply filter_names_sub in Hn. unfold mod_ns. rewrite !in_app_iff. auto.
  - intros n Hn G. rewrite map_rev in G. apply in_rev in G. apply in_map_iff in Hn, G. destruct Hn as [a [Ea Ha]], G as [b [Eb Hb]].
    apply filter_In in Ha, Hb. destruct Ha as [Ha Pa], Hb as [Hb Pb].
    assert (a = b) by (eapply (NoDup_map_inj bi_name); eauto; congruence). subst b. rewrite Pb in Pa. discriminate.
Qed.

Lemma ib_find_pair i x e : find_binst (bm_insts m) i = Some x -> bi_pair x = true -> e = 0 \/ e = 1 ->
  exists nm cs pn nms, up_elem m (i, e) = (nm, 0) /\ traverse (pair_conn e) (bi_conns x) = Ok cs /\
                find_binst (bm_insts m1) nm = Some (pair_member x nm cs) /\ ~ In nm (map bi_name nonpairs) /\
                (exists news, ib_run m = Ok (news, nms)) /\ In (i, pn) nms /\ nm = sel e pn.
Proof.
  intros Hf Hp He. destruct ib_run_ok as [news [nms [Hr0 [Ei Hs]]]]. rewrite Ei.
  destruct (find_binst_In _ _ _ Hf) as [Hin Hnm]. destruct pairs_conds as [C1 [C2 [C3 C4]]].
  destruct (ibspec_find _ _ _ _ nonpairs Hs C1 C2 C3 C4 x) as [np [nn [cp [cn [A [B [C [D [E [F [G1 G2]]]]]]]]]]].
  - apply in_rev. rewrite rev_involutive. apply filter_In. auto.
  - assert (Hup : forall e', pair_name m i e' = Some (sel e' (np, nn))).
    { intros e'. unfold pair_name. rewrite Hr0. cbn [snd]. rewrite <- Hnm, A. reflexivity. }
    assert (HinN : In (i, (np, nn)) nms) by (rewrite <- Hnm; apply assoc_In_some; exact A).
    unfold up_elem. cbn [fst snd]. rewrite Hf, Hp, Hup. unfold sel.
    destruct He as [-> | ->]; cbn [Z.eqb fst snd].
    + exists np, cp, (np, nn), nms. repeat split; eauto.
    + exists nn, cn, (np, nn), nms. repeat split; eauto.
Qed.

Lemma up_elem_inj i e x i2 e2 y : find_binst (bm_insts m) i = Some x -> find_binst (bm_insts m) i2 = Some y ->
  (bi_pair x = true -> e = 0 \/ e = 1) -> (bi_pair y = true -> e2 = 0 \/ e2 = 1) ->
  up_elem m (i, e) = up_elem m (i2, e2) -> (i, e) = (i2, e2).
Proof.
  intros Hx Hy Hex Hey E. destruct (bi_pair x) eqn:Px, (bi_pair y) eqn:Py.
  - destruct (ib_find_pair i x e Hx Px (Hex eq_refl)) as [nm [cs [pn [nms [U [_ [_ [_ [[news R] [I S]]]]]]]]]].
    destruct (ib_find_pair i2 y e2 Hy Py (Hey eq_refl)) as [nm2 [cs2 [pn2 [nms2 [U2 [_ [_ [_ [[news2 R2] [I2 S2]]]]]]]]]].
    rewrite R in R2. inversion R2; subst news2 nms2. rewrite U, U2 in E. inversion E; subst nm2.
    destruct ib_run_ok as [news' [nms' [R' [_ Hs]]]]. rewrite R in R'. inversion R'; subst news' nms'. destruct pairs_conds as [C1 [_ [C3 _]]].
    destruct (ibspec_fresh _ _ _ _ [] Hs C1) as [N _]; [intros n []|intros n []|exact C3|].
    destruct (sel_inj nms N i pn e i2 pn2 e2 I I2 (Hex eq_refl) (Hey eq_refl)) as [-> ->]; [congruence|reflexivity].
  - destruct (ib_find_pair i x e Hx Px (Hex eq_refl)) as [nm [cs [pn [nms [U [_ [_ [Fr _]]]]]]]].
    rewrite U, (up_elem_single_aux m i2 e2 y Hy Py) in E. inversion E; subst. exfalso. apply Fr.
    destruct (find_binst_In _ _ _ Hy) as [Hin Hn]. rewrite <- Hn. apply in_map. apply filter_In. rewrite Py. auto.
  - destruct (ib_find_pair i2 y e2 Hy Py (Hey eq_refl)) as [nm [cs [pn [nms [U [_ [_ [Fr _]]]]]]]].
    rewrite U, (up_elem_single_aux m i e x Hx Px) in E. inversion E; subst. exfalso. apply Fr.
    destruct (find_binst_In _ _ _ Hx) as [Hin Hn]. rewrite <- Hn. apply in_map. apply filter_In. rewrite Px. auto.
  - rewrite (up_elem_single_aux m i e x Hx Px), (up_elem_single_aux m i2 e2 y Hy Py) in E. exact E.
Qed.

Lemma up_elem_single i e x : find_binst (bm_insts m) i = Some x -> bi_pair x = false -> up_elem m (i, e) = (i, e).
Proof. intros Hf Hp. unfold up_elem. cbn [fst]. rewrite Hf, Hp. reflexivity. Qed.

Lemma up_elem_not_pair i e : not_pair m i = true -> up_elem m (i, e) = (i, e).
Proof. unfold not_pair, up_elem. cbn [fst]. destruct (find_binst (bm_insts m) i) as [y|]; [|reflexivity]. destruct (bi_pair y); [discriminate|reflexivity]. Qed.
End Module.
