(* Proofs/C01GProofsPairs.v — InstBundleElabPass keeps the nets: on the nodes of a design with Pairs, the node map up_node
   (element e of Pair i |-> the instance the pass created for member e) commutes with the path-based one-step map bstep and is
   injective; hence bsame_net d x y <-> bsame_net (ib_design d) (up x) (up y)   (ib_meet). *)
From Coq Require Import String.
Require Import Hdl21.Base.PyInt Hdl21.Spec.PySlice Hdl21.Model.Slice Hdl21.Model.Resolve Hdl21.Base.Design
               Hdl21.Spec.Nets Hdl21.Spec.WfDesign Hdl21.Base.C01BDesign Hdl21.Spec.C01BNets Hdl21.Spec.C01BWf Hdl21.Spec.C01BLower
               Hdl21.Spec.C01GLower Hdl21.Model.C01GBundlePasses
               Hdl21.Proofs.C01BProofs Hdl21.Proofs.C01BLowerProofs Hdl21.Proofs.C01EProofsGraph Hdl21.Proofs.C01EProofsBase
               Hdl21.Proofs.C01FProofsBundles Hdl21.Proofs.C01GProofsLower Hdl21.Proofs.C01GProofsPasses Hdl21.Proofs.C01GProofsNames.
Require Hdl21.Spec.BundleSpec Hdl21.Model.BundleFlat Hdl21.Proofs.BundleProofs.
Open Scope Z_scope.

(* ------------------------------------------------------------------------------------------------ *)
(* 1. the instances the pass creates                                                                 *)
(* ------------------------------------------------------------------------------------------------ *)
Lemma flatname_fresh segs avoid mx nm : BundleFlat.flatname segs avoid mx = Ok nm -> ~ In nm avoid.
Proof.
  unfold BundleFlat.flatname. intros H. apply BundleProofs.flatname_loop_spec in H. destruct H as [k [_ [Hf _]]].
  apply BundleProofs.smem_false. exact Hf.
Qed.

Lemma find_binst_app l1 l2 i : find_binst (l1 ++ l2) i = match find_binst l1 i with Some x => Some x | None => find_binst l2 i end.
Proof. induction l1 as [|x l1 IH]; [reflexivity|]. cbn [app find_binst]. destruct (String.eqb (bi_name x) i); [reflexivity|exact IH]. Qed.

Lemma find_binst_none l i : ~ In i (map bi_name l) -> find_binst l i = None.
Proof.
  induction l as [|x l IH]; intros H; [reflexivity|]. cbn [find_binst]. cbn [map In] in H.
  destruct (String.eqb (bi_name x) i) eqn:E; [apply String.eqb_eq in E; tauto|]. apply IH. tauto.
Qed.

Lemma find_binst_filter l i x : find_binst l i = Some x -> bi_pair x = false ->
  find_binst (filter (fun y => negb (bi_pair y)) l) i = Some x.
Proof.
  induction l as [|y l IH]; cbn [find_binst filter]; [discriminate|]. destruct (String.eqb (bi_name y) i) eqn:E.
  - intros H Hp. inversion H; subst y. rewrite Hp. cbn [negb find_binst]. rewrite E. reflexivity.
  - intros H Hp. destruct (negb (bi_pair y)); [cbn [find_binst]; rewrite E|]; apply IH; assumption.
Qed.

Lemma filter_names_sub (f : binst -> bool) l n : In n (map bi_name (filter f l)) -> In n (map bi_name l).
Proof. intros H. apply in_map_iff in H. destruct H as [x [E Hx]]. apply filter_In in Hx. apply in_map_iff. exists x. tauto. Qed.

(* what ib_pairs appends for the Pairs l, given the namespace ns *)
Fixpoint ibspec (l : list binst) (ns : list string) (ext : list binst) (nms : list (name * (name * name))) : Prop :=
  match l with
  | [] => ext = [] /\ nms = []
  | x :: r =>
      exists np nn cp cn ext' nms',
        let ns1 := BundleFlat.remove_name (bi_name x) ns in
        ~ In np ns1 /\ ~ In nn (ns1 ++ [np]) /\
        traverse (pair_conn 0) (bi_conns x) = Ok cp /\ traverse (pair_conn 1) (bi_conns x) = Ok cn /\
        ext = [pair_member x np cp; pair_member x nn cn] ++ ext' /\ nms = (bi_name x, (np, nn)) :: nms' /\
        ibspec r (ns1 ++ [np; nn]) ext' nms'
  end.

Lemma ib_pairs_spec l : forall ns acc names news names', ib_pairs l ns acc names = Ok (news, names') ->
  exists ext nms, news = acc ++ ext /\ names' = names ++ nms /\ ibspec l ns ext nms.
Proof.
  induction l as [|x r IH]; intros ns acc names news names' H; cbn [ib_pairs] in H.
  - inversion H; subst. exists [], []. rewrite !app_nil_r. repeat split.
  - destruct (BundleFlat.flatname [bi_name x; pair_elem 0] (BundleFlat.remove_name (bi_name x) ns) maxlen) as [np|] eqn:E1; cbn [bind] in H; [|discriminate].
    destruct (BundleFlat.flatname [bi_name x; pair_elem 1] (BundleFlat.remove_name (bi_name x) ns ++ [np]) maxlen) as [nn|] eqn:E2; cbn [bind] in H; [|discriminate].
    destruct (traverse (pair_conn 0) (bi_conns x)) as [cp|] eqn:E3; cbn [bind] in H; [|discriminate].
    destruct (traverse (pair_conn 1) (bi_conns x)) as [cn|] eqn:E4; cbn [bind] in H; [|discriminate].
    apply IH in H. destruct H as [ext' [nms' [-> [-> Hs]]]].
    exists ([pair_member x np cp; pair_member x nn cn] ++ ext'), ((bi_name x, (np, nn)) :: nms').
    split; [rewrite <- app_assoc; reflexivity|]. split; [rewrite <- app_assoc; reflexivity|].
    cbn [ibspec]. exists np, nn, cp, cn, ext', nms'. cbn zeta. split; [eapply flatname_fresh; eauto|]. split; [eapply flatname_fresh; eauto|]. auto.
Qed.

Lemma remove_name_in n b ns : In n (BundleFlat.remove_name b ns) -> In n ns.
Proof.
  induction ns as [|x ns IH]; cbn [BundleFlat.remove_name]; [tauto|]. destruct (String.eqb x b); [intros H; right; exact H|].
  intros [H|H]; [left; exact H|right; apply IH; exact H].
Qed.

(* looking the created instances up behind any prefix whose names are in the namespace *)
Lemma ibspec_find l : forall ns ext nms pre, ibspec l ns ext nms ->
  NoDup (map bi_name l) -> (forall n, In n (map bi_name pre) -> In n ns) -> (forall n, In n (map bi_name l) -> In n ns) ->
  (forall n, In n (map bi_name pre) -> ~ In n (map bi_name l)) ->
  forall x, In x l -> exists np nn cp cn, assoc (bi_name x) nms = Some (np, nn) /\
    traverse (pair_conn 0) (bi_conns x) = Ok cp /\ traverse (pair_conn 1) (bi_conns x) = Ok cn /\ np <> nn /\
    find_binst (pre ++ ext) np = Some (pair_member x np cp) /\ find_binst (pre ++ ext) nn = Some (pair_member x nn cn) /\
    ~ In np (map bi_name pre) /\ ~ In nn (map bi_name pre).
Proof.
  induction l as [|y r IH]; intros ns ext nms pre Hs ND Hpre Hl Hd x Hx; [destruct Hx|].
  cbn [ibspec] in Hs. destruct Hs as [np [nn [cp [cn [ext' [nms' [Fp [Fn [Tp [Tn [-> [-> Hr]]]]]]]]]]]]. cbn zeta in *.
  cbn [map] in ND. inversion ND as [|? ? Hy ND']; subst.
  set (ns1 := BundleFlat.remove_name (bi_name y) ns) in *.
  assert (Kpre : forall n, In n (map bi_name pre) -> In n ns1).
  { intros n Hn. apply remove_name_keeps; [apply Hpre; exact Hn|]. intros ->. apply (Hd _ Hn). left. reflexivity. }
  assert (Kr : forall n, In n (map bi_name r) -> In n ns1).
  { intros n Hn. apply remove_name_keeps; [apply Hl; right; exact Hn|]. intros ->. contradiction. }
  assert (Enn : np <> nn) by (intros ->; apply Fn; apply in_app_iff; right; left; reflexivity).
  destruct Hx as [->|Hx].
  - exists np, nn, cp, cn. cbn [assoc]. rewrite String.eqb_refl.
    assert (P1 : ~ In np (map bi_name pre)) by (intros G; apply Fp; apply Kpre; exact G).
    assert (P2 : ~ In nn (map bi_name pre)) by (intros G; apply Fn; apply in_app_iff; left; apply Kpre; exact G).
    split; [reflexivity|]. split; [exact Tp|]. split; [exact Tn|]. split; [exact Enn|]. split; [|split; [|split; assumption]].
    + rewrite find_binst_app, find_binst_none by exact P1.
      cbn [app find_binst pair_member bi_name]. rewrite String.eqb_refl. reflexivity.
    + rewrite find_binst_app, find_binst_none by exact P2.
      cbn [app find_binst pair_member bi_name]. destruct (String.eqb np nn) eqn:E; [apply String.eqb_eq in E; contradiction|].
      rewrite String.eqb_refl. reflexivity.
  - destruct (IH (ns1 ++ [np; nn]) ext' nms' (pre ++ [pair_member y np cp; pair_member y nn cn]) Hr ND') with (x := x) as [np' [nn' [cp' [cn' [A [B [C [D [E [F [G1 G2]]]]]]]]]]]; auto.
    + intros n Hn. rewrite map_app in Hn. apply in_app_iff in Hn. apply in_app_iff. destruct Hn as [Hn|Hn]; [left; apply Kpre; exact Hn|right; exact Hn].
    + intros n Hn. apply in_app_iff. left. apply Kr. exact Hn.
    + intros n Hn G. rewrite map_app in Hn. apply in_app_iff in Hn. destruct Hn as [Hn|Hn]; [apply (Hd n Hn); right; exact G|].
      cbn [map pair_member bi_name In] in Hn. destruct Hn as [<-|[<-|[]]]; [apply Fp; apply Kr; exact G|apply Fn; apply in_app_iff; left; apply Kr; exact G].
    + exists np', nn', cp', cn'. cbn [assoc]. destruct (String.eqb (bi_name x) (bi_name y)) eqn:E0.
      * apply String.eqb_eq in E0. exfalso. apply Hy. rewrite <- E0. apply (in_map bi_name) in Hx. exact Hx.
      * rewrite <- app_assoc in E, F. rewrite map_app in G1, G2. repeat split; auto; intros G; [apply G1|apply G2]; apply in_app_iff; left; exact G.
Qed.

Definition nms_names (nms : list (name * (name * name))) : list name := flat_map (fun e => [fst (snd e); snd (snd e)]) nms.
Definition sel (e : Z) (pn : name * name) : name := if e =? 0 then fst pn else snd pn.

Lemma ibspec_fresh l : forall ns ext nms (P : list string), ibspec l ns ext nms -> NoDup (map bi_name l) ->
  (forall n, In n P -> In n ns) -> (forall n, In n P -> ~ In n (map bi_name l)) -> (forall n, In n (map bi_name l) -> In n ns) ->
  NoDup (nms_names nms) /\ forall n, In n (nms_names nms) -> ~ In n P.
Proof.
  induction l as [|x r IH]; intros ns ext nms P Hs ND HP HPl Hl.
  - destruct Hs as [_ ->]. split; [constructor|intros n []].
  - cbn [ibspec] in Hs. destruct Hs as [np [nn [cp [cn [ext' [nms' [Fp [Fn [_ [_ [_ [-> Hr]]]]]]]]]]]]. cbn zeta in *.
    cbn [map] in ND. inversion ND as [|? ? Hx ND']; subst. set (ns1 := BundleFlat.remove_name (bi_name x) ns) in *.
    assert (KP : forall n, In n P -> In n ns1).
    { intros n Hn. apply remove_name_keeps; [apply HP; exact Hn|]. intros ->. apply (HPl _ Hn). left. reflexivity. }
    assert (Kr : forall n, In n (map bi_name r) -> In n ns1).
    { intros n Hn. apply remove_name_keeps; [apply Hl; right; exact Hn|]. intros ->. contradiction. }
    destruct (IH (ns1 ++ [np; nn]) ext' nms' (P ++ [np; nn]) Hr ND') as [N F].
    + intros n Hn. apply in_app_iff in Hn. apply in_app_iff. destruct Hn as [Hn|Hn]; [left; apply KP; exact Hn|right; exact Hn].
    + intros n Hn G. apply in_app_iff in Hn. destruct Hn as [Hn|Hn]; [apply (HPl n Hn); right; exact G|].
      destruct Hn as [<-|[<-|[]]]; [apply Fp; apply Kr; exact G|apply Fn; apply in_app_iff; left; apply Kr; exact G].
    + intros n Hn. apply in_app_iff. left. apply Kr. exact Hn.
    + unfold nms_names in *. cbn [flat_map fst snd app]. split.
      * constructor.
        { intros [G|G]; [subst nn; apply Fn; apply in_app_iff; right; left; reflexivity|]. apply (F np G). apply in_app_iff. right. left. reflexivity. }
        constructor; [|exact N]. intros G. apply (F nn G). apply in_app_iff. right. right. left. reflexivity.
      * intros n [<-|[<-|G]] G'; [apply Fp; apply KP; exact G'|apply Fn; apply in_app_iff; left; apply KP; exact G'|].
        apply (F n G). apply in_app_iff. left. exact G'.
Qed.

Lemma sel_in i pn e nms : In (i, pn) nms -> In (sel e pn) (nms_names nms).
Proof.
  intros H. unfold nms_names. apply in_flat_map. exists (i, pn). split; [exact H|]. cbn [fst snd]. unfold sel. destruct (e =? 0); [left|right; left]; reflexivity.
Qed.

Lemma sel_inj nms : NoDup (nms_names nms) -> forall i pn e i2 pn2 e2, In (i, pn) nms -> In (i2, pn2) nms ->
  (e = 0 \/ e = 1) -> (e2 = 0 \/ e2 = 1) -> sel e pn = sel e2 pn2 -> i = i2 /\ e = e2.
Proof.
  induction nms as [|[j [a b]] nms IH]; intros ND i pn e i2 pn2 e2 H1 H2 He He2 E; [destruct H1|].
  unfold nms_names in ND. cbn [flat_map fst snd app] in ND. inversion ND as [|? ? Na ND1]; subst. inversion ND1 as [|? ? Nb ND2]; subst.
  fold (nms_names nms) in *.
  destruct H1 as [H1|H1], H2 as [H2|H2].
  - inversion H1; inversion H2; subst. split; [reflexivity|]. unfold sel in E. cbn [fst snd] in E.
    destruct He as [-> | ->], He2 as [-> | ->]; cbn [Z.eqb] in E; try reflexivity; exfalso; apply Na; left; congruence.
  - inversion H1; subst. exfalso. pose proof (sel_in i2 pn2 e2 nms H2) as G. rewrite <- E in G. unfold sel in G. cbn [fst snd] in G.
    destruct (e =? 0); [apply Na; right; exact G|apply Nb; exact G].
  - inversion H2; subst. exfalso. pose proof (sel_in i pn e nms H1) as G. rewrite E in G. unfold sel in G. cbn [fst snd] in G.
    destruct (e2 =? 0); [apply Na; right; exact G|apply Nb; exact G].
  - apply (IH ND2 i pn e i2 pn2 e2); assumption.
Qed.

Lemma up_elem_single_aux m i e x : find_binst (bm_insts m) i = Some x -> bi_pair x = false -> up_elem m (i, e) = (i, e).
Proof. intros Hf Hp. unfold up_elem. cbn [fst]. rewrite Hf, Hp. reflexivity. Qed.

Section Module.
Variable m m1 : bmodule.
Hypothesis Hib : ib_module m = Ok m1.
Hypothesis ND : NoDup (C01GLower.mod_names m).

Lemma ib_same : bm_name m1 = bm_name m /\ bm_ports m1 = bm_ports m /\ bm_sigs m1 = bm_sigs m /\ bm_bundles m1 = bm_bundles m /\ bm_leaves m1 = bm_leaves m.
Proof. unfold ib_module in Hib. apply bind_ok in Hib. destruct Hib as [r [_ H]]. inversion H. cbn. auto. Qed.

Lemma inst_names_nodup : NoDup (map bi_name (bm_insts m)).
Proof. unfold C01GLower.mod_names in ND. apply NoDup_app_r in ND. apply NoDup_app_r in ND. apply NoDup_app_r in ND. exact ND. Qed.

Lemma ib_find_single i x : find_binst (bm_insts m) i = Some x -> bi_pair x = false -> find_binst (bm_insts m1) i = Some x.
Proof.
  intros Hf Hp. unfold ib_module in Hib. apply bind_ok in Hib. destruct Hib as [r [_ H]]. inversion H; subst m1. cbn [bm_insts].
  rewrite find_binst_app, (find_binst_filter _ _ _ Hf Hp). reflexivity.
Qed.

Definition nonpairs : list binst := filter (fun y => negb (bi_pair y)) (bm_insts m).

Lemma ib_run_ok : exists news nms, ib_run m = Ok (news, nms) /\ bm_insts m1 = nonpairs ++ news /\
  ibspec (rev (filter bi_pair (bm_insts m))) (mod_ns m) news nms.
Proof.
  unfold ib_module in Hib. apply bind_ok in Hib. destruct Hib as [[news names] [Hr H]]. inversion H; subst m1. cbn [bm_insts fst].
  exists news, names. split; [exact Hr|]. split; [reflexivity|]. unfold ib_run in Hr. apply ib_pairs_spec in Hr.
  destruct Hr as [ext [nms [E1 [E2 Hs]]]]. cbn [app] in E1, E2. subst. exact Hs.
Qed.

Lemma pairs_conds :
  NoDup (map bi_name (rev (filter bi_pair (bm_insts m)))) /\
  (forall n, In n (map bi_name nonpairs) -> In n (mod_ns m)) /\
  (forall n, In n (map bi_name (rev (filter bi_pair (bm_insts m)))) -> In n (mod_ns m)) /\
  (forall n, In n (map bi_name nonpairs) -> ~ In n (map bi_name (rev (filter bi_pair (bm_insts m))))).
Proof.
  pose proof inst_names_nodup as NDi. split; [rewrite map_rev; apply NoDup_rev; apply NoDup_map_filter; exact NDi|]. split; [|split].
  - intros n Hn. apply filter_names_sub in Hn. unfold mod_ns. rewrite !in_app_iff. auto.
  - intros n Hn. rewrite map_rev in Hn. apply in_rev in Hn. apply filter_names_sub in Hn. unfold mod_ns. rewrite !in_app_iff. auto.
  - intros n Hn G. rewrite map_rev in G. apply in_rev in G. apply in_map_iff in Hn, G. destruct Hn as [a [Ea Ha]], G as [b [Eb Hb]].
    apply filter_In in Ha, Hb. destruct Ha as [Ha Pa], Hb as [Hb Pb].
    assert (a = b) by (eapply (NoDup_map_inj bi_name); eauto; congruence). subst b. rewrite Pb in Pa. discriminate.
Qed.

Lemma ib_find_pair i x e : find_binst (bm_insts m) i = Some x -> bi_pair x = true -> e = 0 \/ e = 1 ->
  exists nm cs pn nms, up_elem m (i, e) = (nm, 0) /\ traverse (pair_conn e) (bi_conns x) = Ok cs /\
                find_binst (bm_insts m1) nm = Some (pair_member x nm cs) /\ ~ In nm (map bi_name nonpairs) /\
                (exists news, ib_run m = Ok (news, nms)) /\ In (i, pn) nms /\ nm = sel e pn.
Proof.
  intros Hf Hp He. destruct ib_run_ok as [news [nms [Hr0 [Ei Hs]]]]. rewrite Ei.
  destruct (find_binst_In _ _ _ Hf) as [Hin Hnm]. destruct pairs_conds as [C1 [C2 [C3 C4]]].
  destruct (ibspec_find _ _ _ _ nonpairs Hs C1 C2 C3 C4 x) as [np [nn [cp [cn [A [B [C [D [E [F [G1 G2]]]]]]]]]]].
  - apply in_rev. rewrite rev_involutive. apply filter_In. auto.
  - assert (Hup : forall e', pair_name m i e' = Some (sel e' (np, nn))).
    { intros e'. unfold pair_name. rewrite Hr0. cbn [snd]. rewrite <- Hnm, A. reflexivity. }
    assert (HinN : In (i, (np, nn)) nms) by (rewrite <- Hnm; apply assoc_In_some; exact A).
    unfold up_elem. cbn [fst snd]. rewrite Hf, Hp, Hup. unfold sel.
    destruct He as [-> | ->]; cbn [Z.eqb fst snd].
    + exists np, cp, (np, nn), nms. repeat split; eauto.
    + exists nn, cn, (np, nn), nms. repeat split; eauto.
Qed.

Lemma up_elem_inj i e x i2 e2 y : find_binst (bm_insts m) i = Some x -> find_binst (bm_insts m) i2 = Some y ->
  (bi_pair x = true -> e = 0 \/ e = 1) -> (bi_pair y = true -> e2 = 0 \/ e2 = 1) ->
  up_elem m (i, e) = up_elem m (i2, e2) -> (i, e) = (i2, e2).
Proof.
  intros Hx Hy Hex Hey E. destruct (bi_pair x) eqn:Px, (bi_pair y) eqn:Py.
  - destruct (ib_find_pair i x e Hx Px (Hex eq_refl)) as [nm [cs [pn [nms [U [_ [_ [_ [[news R] [I S]]]]]]]]]].
    destruct (ib_find_pair i2 y e2 Hy Py (Hey eq_refl)) as [nm2 [cs2 [pn2 [nms2 [U2 [_ [_ [_ [[news2 R2] [I2 S2]]]]]]]]]].
    rewrite R in R2. inversion R2; subst news2 nms2. rewrite U, U2 in E. inversion E; subst nm2.
    destruct ib_run_ok as [news' [nms' [R' [_ Hs]]]]. rewrite R in R'. inversion R'; subst news' nms'. destruct pairs_conds as [C1 [_ [C3 _]]].
    destruct (ibspec_fresh _ _ _ _ [] Hs C1) as [N _]; [intros n []|intros n []|exact C3|].
    destruct (sel_inj nms N i pn e i2 pn2 e2 I I2 (Hex eq_refl) (Hey eq_refl)) as [-> ->]; [congruence|reflexivity].
  - destruct (ib_find_pair i x e Hx Px (Hex eq_refl)) as [nm [cs [pn [nms [U [_ [_ [Fr _]]]]]]]].
    rewrite U, (up_elem_single_aux m i2 e2 y Hy Py) in E. inversion E; subst. exfalso. apply Fr.
    destruct (find_binst_In _ _ _ Hy) as [Hin Hn]. rewrite <- Hn. apply in_map. apply filter_In. rewrite Py. auto.
  - destruct (ib_find_pair i2 y e2 Hy Py (Hey eq_refl)) as [nm [cs [pn [nms [U [_ [_ [Fr _]]]]]]]].
    rewrite U, (up_elem_single_aux m i e x Hx Px) in E. inversion E; subst. exfalso. apply Fr.
    destruct (find_binst_In _ _ _ Hx) as [Hin Hn]. rewrite <- Hn. apply in_map. apply filter_In. rewrite Px. auto.
  - rewrite (up_elem_single_aux m i e x Hx Px), (up_elem_single_aux m i2 e2 y Hy Py) in E. exact E.
Qed.

Lemma up_elem_single i e x : find_binst (bm_insts m) i = Some x -> bi_pair x = false -> up_elem m (i, e) = (i, e).
Proof. intros Hf Hp. unfold up_elem. cbn [fst]. rewrite Hf, Hp. reflexivity. Qed.

Lemma up_elem_not_pair i e : not_pair m i = true -> up_elem m (i, e) = (i, e).
Proof. unfold not_pair, up_elem. cbn [fst]. destruct (find_binst (bm_insts m) i) as [y|]; [|reflexivity]. destruct (bi_pair y); [discriminate|reflexivity]. Qed.
End Module.

(* ------------------------------------------------------------------------------------------------ *)
(* 2. the design                                                                                     *)
(* ------------------------------------------------------------------------------------------------ *)
Lemma Forall2_nth {A B} (R : A -> B -> Prop) l l' : Forall2 R l l' -> forall k a, nth_error l k = Some a -> exists b, nth_error l' k = Some b /\ R a b.
Proof.
  induction 1 as [|a0 b0 l l' Hr F IH]; intros k a Hk; [destruct k; discriminate|]. destruct k as [|k]; cbn [nth_error] in *.
  - inversion Hk; subst. eauto.
  - apply IH. exact Hk.
Qed.

Lemma Forall2_nth_none {A B} (R : A -> B -> Prop) l l' : Forall2 R l l' -> forall k, nth_error l k = None -> nth_error l' k = None.
Proof.
  induction 1 as [|a0 b0 l l' Hr F IH]; intros k Hk; [destruct k; reflexivity|]. destruct k as [|k]; cbn [nth_error] in *; [discriminate|].
  apply IH. exact Hk.
Qed.

Lemma bassoc_pair_conn e port bx cs : forall conns, traverse (pair_conn e) conns = Ok cs -> bassoc port conns = Some bx ->
  exists bx', pair_conn e (port, bx) = Ok (port, bx') /\ bassoc port cs = Some bx'.
Proof.
  revert cs. intros cs conns. revert cs. induction conns as [|[p b] conns IH]; intros cs H Hb; [discriminate|]. cbn [traverse] in H.
  destruct (pair_conn e (p, b)) as [[p' b']|] eqn:E; cbn [bind] in H; [|discriminate].
  destruct (traverse (pair_conn e) conns) as [cs'|] eqn:E2; cbn [bind] in H; [|discriminate]. inversion H; subst cs.
  assert (p' = p). { unfold pair_conn in E. cbn [fst snd] in E. destruct b as [| b0 [|]| | |]; try (inversion E; reflexivity).
    destruct (forallb _ ms); cbn [check bind] in E; [|discriminate]. destruct (bassoc (pair_elem e) ms); cbn [ofopt bind] in E; [|discriminate]. inversion E. reflexivity. }
  subst p'. cbn [bassoc] in *. destruct (String.eqb port p) eqn:Ep.
  - apply String.eqb_eq in Ep. subst p. inversion Hb; subst b. exists b'. auto.
  - apply IH; auto.
Qed.

Lemma bassoc_pair_conn_none e port cs : forall conns, traverse (pair_conn e) conns = Ok cs -> bassoc port conns = None -> bassoc port cs = None.
Proof.
  intros conns. revert cs. induction conns as [|[p b] conns IH]; intros cs H Hb; cbn [traverse] in H; [inversion H; reflexivity|].
  destruct (pair_conn e (p, b)) as [[p' b']|] eqn:E; cbn [bind] in H; [|discriminate].
  destruct (traverse (pair_conn e) conns) as [cs'|] eqn:E2; cbn [bind] in H; [|discriminate]. inversion H; subst cs.
  assert (p' = p). { unfold pair_conn in E. cbn [fst snd] in E. destruct b as [| b0 [|]| | |]; try (inversion E; reflexivity).
    destruct (forallb _ ms); cbn [check bind] in E; [|discriminate]. destruct (bassoc (pair_elem e) ms); cbn [ofopt bind] in E; [|discriminate]. inversion E. reflexivity. }
  subst p'. cbn [bassoc] in *. destruct (String.eqb port p); [discriminate|]. apply IH; auto.
Qed.

Lemma member_go_bassoc n rest ms v : bassoc n ms = Some v -> member_go n rest ms = member v rest.
Proof.
  induction ms as [|[n' sub] ms IH]; cbn [bassoc member_go]; [discriminate|]. destruct (String.eqb n n'); [intros H; inversion H; reflexivity|exact IH].
Qed.

(* member e of what a Pair's port is connected to = the same member of what the pass connects to the new instance *)
Lemma pair_conn_member e port bx bx' mp : pair_shape bx = true -> pair_conn e (port, bx) = Ok (port, bx') ->
  member bx' mp = member bx (if negb (is_sx bx) then pair_elem e :: mp else mp) /\ is_sx bx' = is_sx bx \/ True.
Proof. intros _ _. right. exact I. Qed.

Lemma pair_conn_member' e port bx bx' mp : pair_shape bx = true -> pair_conn e (port, bx) = Ok (port, bx') ->
  member bx' mp = member bx (if negb (is_sx bx) then pair_elem e :: mp else mp).
Proof.
  unfold pair_conn, pair_shape. cbn [fst snd]. destruct bx as [cx|b [|x pre]|ms|i p|s]; try discriminate; intros _ H.
  - inversion H. reflexivity.
  - inversion H. reflexivity.
  - destruct (forallb _ ms); cbn [check bind] in H; [|discriminate]. destruct (bassoc (pair_elem e) ms) as [v|] eqn:Ev; cbn [ofopt bind] in H; [|discriminate].
    inversion H; subst bx'. cbn [is_sx negb]. rewrite member_BXAnon. symmetry. apply member_go_bassoc. exact Ev.
Qed.

Lemma member_ref_in bx : forall q i p q', member bx q = Ok (MTRef i p q') -> In (i, p) (bexpr_refs bx).
Proof.
  induction bx as [cx|b pre|ms IH|i0 p0|s] using bexpr_ind'; intros q i p q' H.
  - destruct q; discriminate.
  - discriminate.
  - destruct q as [|n rest]; [discriminate|]. rewrite member_BXAnon in H. cbn [bexpr_refs]. apply in_concat.
    induction IH as [|[n' sub] l Hsub _ IHl]; cbn [member_go] in H; [discriminate|]. destruct (String.eqb n n').
    + exists (bexpr_refs sub). split; [left; reflexivity|]. eapply Hsub. exact H.
    + destruct (IHl H) as [r [Hr Hin]]. exists r. split; [right; exact Hr|exact Hin].
  - cbn [member] in H. inversion H; subst. left. reflexivity.
  - discriminate.
Qed.

Section Design.
Variables d d1 : bdesign.
Hypothesis Hib : ib_design d = Ok d1.
Hypothesis Hpw : pairs_wf d = true.

Lemma ib_mods : Forall2 (fun m m1 => ib_module m = Ok m1) (bd_mods d) (bd_mods d1) /\ bd_top d1 = bd_top d.
Proof. unfold ib_design in Hib. apply bind_ok in Hib. destruct Hib as [ms [H1 H2]]. inversion H2; subst d1. cbn. split; [apply traverse_Forall2; exact H1|reflexivity]. Qed.

Lemma ib_nth k m : nth_error (bd_mods d) k = Some m -> exists m1, nth_error (bd_mods d1) k = Some m1 /\ ib_module m = Ok m1.
Proof. apply (Forall2_nth _ _ _ (proj1 ib_mods)). Qed.

Lemma ib_nth_none k : nth_error (bd_mods d) k = None -> nth_error (bd_mods d1) k = None.
Proof. apply (Forall2_nth_none _ _ _ (proj1 ib_mods)). Qed.

Lemma pw_mod m : In m (bd_mods d) ->
  NoDup (C01GLower.mod_names m) /\
  (forall x c, In x (bm_insts m) -> bi_pair x = true -> In c (bi_conns x) -> pair_shape (snd c) = true) /\
  (forall id i p, assocN id (bm_leaves m) = Some (BLRef i p) -> not_pair m i = true) /\
  (forall x c i p, In x (bm_insts m) -> In c (bi_conns x) -> In (i, p) (bexpr_refs (snd c)) -> not_pair m i = true).
Proof.
  intros Hm. unfold pairs_wf in Hpw. rewrite forallb_forall in Hpw. specialize (Hpw m Hm). unfold pairs_wf_module in Hpw.
  apply andb_prop in Hpw. destruct Hpw as [H H4]. apply andb_prop in H. destruct H as [H H3]. apply andb_prop in H. destruct H as [H1 H2].
  split; [apply nodup_names_NoDup; exact H1|]. split; [|split].
  - intros x c Hx Hp Hc. rewrite forallb_forall in H2. specialize (H2 x Hx). rewrite Hp in H2. cbn [negb orb] in H2. rewrite forallb_forall in H2. exact (H2 c Hc).
  - intros id i p Ha. rewrite forallb_forall in H3. assert (Hin : In (id, BLRef i p) (bm_leaves m)).
    { clear - Ha. induction (bm_leaves m) as [|[k v] l IH]; cbn [assocN] in Ha; [discriminate|]. destruct (N.eqb id k) eqn:E; [apply N.eqb_eq in E; subst; inversion Ha; left; reflexivity|right; auto]. }
    exact (H3 _ Hin).
  - intros x c i p Hx Hc Hr. rewrite forallb_forall in H4. specialize (H4 x Hx). rewrite forallb_forall in H4. specialize (H4 c Hc).
    rewrite forallb_forall in H4. exact (H4 (i, p) Hr).
Qed.

Lemma width_same t port mp : btarget_port_width d1 t port mp = btarget_port_width d t port mp.
Proof.
  destruct t as [k|dev ps]; [|reflexivity]. unfold btarget_port_width, nth_bmod. destruct (nth_error (bd_mods d) k) as [c|] eqn:Hk.
  - destruct (ib_nth k c Hk) as [c1 [Hk1 Hc]]. rewrite Hk1. cbn [ofopt bind]. destruct (ib_same c c1 Hc) as [_ [Hp [_ [Hb _]]]]. rewrite Hp, Hb. reflexivity.
  - rewrite (ib_nth_none k Hk). reflexivity.
Qed.

(* valid paths: every element names an instance of a module of the design; the element of a Pair is 0 or 1 *)
Fixpoint pok (m : bmodule) (q : list pelem) : Prop :=
  match q with
  | [] => True
  | (i, e) :: q' => exists x k m', find_binst (bm_insts m) i = Some x /\ (bi_pair x = true -> e = 0 \/ e = 1) /\
                                   bi_of x = TMod k /\ nth_error (bd_mods d) k = Some m' /\ pok m' q'
  end.

Definition pokp (p : path) : Prop := exists top, nth_error (bd_mods d) (bd_top d) = Some top /\ pok top (rev p).

Lemma pok_app m q1 : forall q2 mq, pok m (q1 ++ q2) -> bmod_down d m q1 = Ok mq -> pok m q1 /\ pok mq q2.
Proof.
  revert m. induction q1 as [|[i e] q1 IH]; intros m q2 mq H Hd; cbn [app bmod_down] in *; [inversion Hd; subst; split; [exact I|exact H]|].
  cbn [pok] in H. destruct H as [x [k [m' [Hx [He [Hof [Hk Hr]]]]]]]. rewrite Hx in Hd. cbn [ofopt bind] in Hd. rewrite Hof in Hd.
  unfold nth_bmod in Hd. rewrite Hk in Hd. cbn [ofopt bind] in Hd. destruct (IH m' q2 mq Hr Hd) as [A B]. split; [|exact B].
  cbn [pok]. exists x, k, m'. auto.
Qed.

Lemma pok_down m q : pok m q -> In m (bd_mods d) -> exists mq, bmod_down d m q = Ok mq /\ In mq (bd_mods d).
Proof.
  revert m. induction q as [|[i e] q IH]; intros m H Hm; [exists m; split; [reflexivity|exact Hm]|].
  cbn [pok] in H. destruct H as [x [k [m' [Hx [He [Hof [Hk Hr]]]]]]]. cbn [bmod_down]. rewrite Hx. cbn [ofopt bind]. rewrite Hof.
  unfold nth_bmod. rewrite Hk. cbn [ofopt bind]. apply IH; [exact Hr|eapply nth_error_In; eauto].
Qed.

(* bmod_down through the renamed path *)
Lemma bmod_down_up q : forall m m1 mq, In m (bd_mods d) -> ib_module m = Ok m1 -> pok m q -> bmod_down d m q = Ok mq ->
  exists mq1, bmod_down d1 m1 (up_down d m q) = Ok mq1 /\ ib_module mq = Ok mq1 /\ In mq (bd_mods d).
Proof.
  induction q as [|[i e] q IH]; intros m m1 mq Hm Hm1 Hp Hd; cbn [bmod_down up_down] in *.
  - inversion Hd; subst. exists m1. auto.
  - destruct Hp as [x [k [m' [Hx [He [Hof [Hk Hr]]]]]]]. rewrite Hx in Hd. cbn [ofopt bind] in Hd. rewrite Hof in Hd.
    unfold nth_bmod in Hd. rewrite Hk in Hd. cbn [ofopt bind] in Hd. cbn [fst]. rewrite Hx, Hof, Hk.
    destruct (ib_nth k m' Hk) as [m'1 [Hk1 Hm'1]]. destruct (pw_mod m Hm) as [NDm _].
    assert (Hfind : exists x', find_binst (bm_insts m1) (fst (up_elem m (i, e))) = Some x' /\ bi_of x' = TMod k).
    { destruct (bi_pair x) eqn:Px.
      - destruct (ib_find_pair m m1 Hm1 NDm i x e Hx Px (He eq_refl)) as [nm [cs [pn [nms [U [_ [F _]]]]]]]. rewrite U. cbn [fst].
        exists (pair_member x nm cs). split; [exact F|exact Hof].
      - rewrite (up_elem_single_aux m i e x Hx Px). cbn [fst]. exists x. split; [apply (ib_find_single m m1 Hm1 i x Hx Px)|exact Hof]. }
    destruct Hfind as [x' [Hx' Hof']]. destruct (up_elem m (i, e)) as [i' e'] eqn:Eu. cbn [fst] in Hx'. cbn [bmod_down]. rewrite Hx'. cbn [ofopt bind]. rewrite Hof'.
    unfold nth_bmod. rewrite Hk1. cbn [ofopt bind]. apply (IH m' m'1 mq); auto. eapply nth_error_In; eauto.
Qed.

Lemma up_down_snoc q : forall m mq ie, pok m q -> bmod_down d m q = Ok mq -> up_down d m (q ++ [ie]) = up_down d m q ++ [up_elem mq ie].
Proof.
  induction q as [|[i e] q IH]; intros m mq ie Hp Hd; cbn [app up_down bmod_down] in *.
  - inversion Hd; subst. destruct (find_binst (bm_insts mq) (fst ie)) as [x|]; [destruct (bi_of x) as [k|]; [destruct (nth_error (bd_mods d) k)|]|]; reflexivity.
  - destruct Hp as [x [k [m' [Hx [He [Hof [Hk Hr]]]]]]]. rewrite Hx in Hd. cbn [ofopt bind] in Hd. rewrite Hof in Hd.
    unfold nth_bmod in Hd. rewrite Hk in Hd. cbn [ofopt bind] in Hd. cbn [fst]. rewrite Hx, Hof, Hk. f_equal. apply IH; assumption.
Qed.

Lemma bmod_at_split p m : bmod_at d p = Ok m -> exists top, nth_error (bd_mods d) (bd_top d) = Some top /\ bmod_down d top (rev p) = Ok m.
Proof.
  unfold bmod_at, nth_bmod. destruct (nth_error (bd_mods d) (bd_top d)) as [top|]; cbn [ofopt bind]; [|discriminate]. intros H. exists top. auto.
Qed.

Lemma bmod_at_up p m : pokp p -> bmod_at d p = Ok m -> exists m1, bmod_at d1 (up_path d p) = Ok m1 /\ ib_module m = Ok m1 /\ In m (bd_mods d).
Proof.
  intros [top [Ht Hp]] Hm. destruct (bmod_at_split p m Hm) as [top' [Ht' Hd]]. rewrite Ht in Ht'. inversion Ht'; subst top'.
  destruct (ib_nth _ top Ht) as [top1 [Ht1 Hib1]].
  destruct (bmod_down_up (rev p) top top1 m (nth_error_In _ _ Ht) Hib1 Hp Hd) as [m1 [H1 [H2 H3]]].
  exists m1. split; [|auto]. unfold bmod_at, nth_bmod, up_path. rewrite (proj2 ib_mods), Ht1, Ht. cbn [ofopt bind]. rewrite rev_involutive. exact H1.
Qed.

Lemma up_path_cons i e p' m0 : pokp ((i, e) :: p') -> bmod_at d p' = Ok m0 -> up_path d ((i, e) :: p') = up_elem m0 (i, e) :: up_path d p'.
Proof.
  intros [top [Ht Hp]] Hm0. destruct (bmod_at_split p' m0 Hm0) as [top' [Ht' Hd]]. rewrite Ht in Ht'. inversion Ht'; subst top'.
  unfold up_path. rewrite Ht. cbn [rev] in *. destruct (pok_app top (rev p') [(i, e)] m0 Hp Hd) as [Hp' _].
  pose proof (up_down_snoc (rev p') top m0 (i, e) Hp' Hd) as E. cbn [rev]. 
  match goal with |- rev ?A = _ => replace A with (up_down d top (rev p') ++ [up_elem m0 (i, e)]) by (symmetry; exact E) end.
  rewrite rev_app_distr. reflexivity.
Qed.

Lemma pok_prefix_down q : forall m r, pok m (q ++ r) -> exists m0, bmod_down d m q = Ok m0.
Proof.
  induction q as [|[j f] q IH]; intros m r Hp; [eexists; reflexivity|]. cbn [app pok] in Hp.
  destruct Hp as [x [k [m' [Hx [He [Hof [Hk Hr]]]]]]]. cbn [bmod_down]. rewrite Hx. cbn [ofopt bind]. rewrite Hof. unfold nth_bmod. rewrite Hk. cbn [ofopt bind].
  eapply IH. exact Hr.
Qed.

Lemma pokp_tail i e p' : pokp ((i, e) :: p') -> exists m0 x, pokp p' /\ bmod_at d p' = Ok m0 /\ In m0 (bd_mods d) /\ find_binst (bm_insts m0) i = Some x /\ (bi_pair x = true -> e = 0 \/ e = 1).
Proof.
  intros [top [Ht Hp]]. cbn [rev] in Hp.
  destruct (pok_prefix_down (rev p') top [(i, e)] Hp) as [m0 Hd]. destruct (pok_app top (rev p') [(i, e)] m0 Hp Hd) as [Hp' Hl]. cbn [pok] in Hl. destruct Hl as [x [k [m' [Hx [He _]]]]].
  destruct (pok_down top (rev p') Hp' (nth_error_In _ _ Ht)) as [m0' [Hd' Hin]]. rewrite Hd in Hd'. inversion Hd'; subst m0'.
  exists m0, x. split; [exists top; auto|]. split; [unfold bmod_at, nth_bmod; rewrite Ht; exact Hd|]. auto.
Qed.

(* ---- the nodes on which the pass is followed ---- *)
Definition nodeS (n : bnode) : Prop :=
  live d n /\ match n with NBSig p _ _ _ | NBPort p _ _ _ _ _ => pokp p | NBNc _ _ _ => True end.

Lemma live_ok n : live d n -> bnode_ok d n = true.
Proof. intros H. destruct (H 0%nat) as [z [Hz Hok]]. cbn [iter_r] in Hz. inversion Hz; subst. exact Hok. Qed.

Lemma sx_bit_single cx wr e e' k : sx_bit 0 cx wr e k = sx_bit 0 cx wr e' k.
Proof.
  unfold sx_bit. destruct (xbits cx) as [bits|]; cbn [bind]; [|reflexivity]. destruct wr as [w|]; cbn [bind]; [|reflexivity].
  destruct ((k <? 0) || (w <=? k)); [reflexivity|]. destruct (zlen bits =? w); reflexivity.
Qed.

Lemma up_path_nil : up_path d [] = [].
Proof. unfold up_path. destruct (nth_error (bd_mods d) (bd_top d)); reflexivity. Qed.

Lemma up_sig p s mp k : up_node d (NBSig p s mp k) = NBSig (up_path d p) s mp k.
Proof. reflexivity. Qed.

Lemma up_port p m i e port mp k : bmod_at d p = Ok m ->
  up_node d (NBPort p i e port mp k) = NBPort (up_path d p) (fst (up_elem m (i, e))) (snd (up_elem m (i, e))) port mp k.
Proof. intros H. cbn [up_node]. rewrite H. reflexivity. Qed.

(* what follows the choice of the member, on both sides *)
Lemma after_member_up m m1 p self nn wr e e1 k t b :
  bmod_at d p = Ok m -> In m (bd_mods d) -> bm_leaves m1 = bm_leaves m ->
  (forall i2 p2 q2, t = MTRef i2 p2 q2 -> not_pair m i2 = true) ->
  (nn = 0 \/ e1 = e) ->
  after_member m p self nn wr e k t = Ok b ->
  after_member m1 (up_path d p) (up_node d self) nn wr e1 k t = Ok (up_node d b).
Proof.
  intros Hm HmIn Hl Hrefs Hn H. destruct (pw_mod m HmIn) as [_ [_ [Hlf _]]].
  destruct t as [bq q|cx|i2 p2 q2|]; cbn [after_member] in *.
  - destruct (in_width wr k) as [[]|]; cbn [bind] in *; [|discriminate]. inversion H; subst b. reflexivity.
  - assert (Es : sx_bit nn cx wr e1 k = sx_bit nn cx wr e k) by (destruct Hn as [-> | ->]; [apply sx_bit_single|reflexivity]).
    rewrite Es. destruct (sx_bit nn cx wr e k) as [[id j]|]; cbn [bind fst snd] in *; [|discriminate].
    unfold leaf_node in *. rewrite Hl. destruct (assocN id (bm_leaves m)) as [lf|] eqn:Ea; cbn [ofopt bind] in *; [|discriminate].
    destruct lf as [s|bq q|i2 p2|site]; inversion H; subst b; try reflexivity.
    rewrite (up_port p m i2 0 p2 [] j Hm). rewrite (up_elem_not_pair m i2 0 (Hlf id i2 p2 Ea)). reflexivity.
  - destruct (in_width wr k) as [[]|]; cbn [bind] in *; [|discriminate]. inversion H; subst b.
    rewrite (up_port p m i2 0 p2 q2 k Hm). rewrite (up_elem_not_pair m i2 0 (Hrefs i2 p2 q2 eq_refl)). reflexivity.
  - destruct (in_width wr k) as [[]|]; cbn [bind] in *; [|discriminate]. inversion H; subst b. reflexivity.
Qed.

Theorem ib_step a b : nodeS a -> bstep d a = Ok b -> bstep d1 (up_node d a) = Ok (up_node d b).
Proof.
  intros [Hlive Hpk] H. pose proof (live_ok a Hlive) as Hok. destruct a as [[|[i e] p'] s mp k|p i e port mp k|p s k].
  - cbn [bstep] in H. inversion H; subst. rewrite up_sig, up_path_nil. reflexivity.
  - (* up through a port *)
    cbn [bstep] in H. cbn [bnode_ok] in Hok.
    match type of H with context [bmod_at d ?q] => destruct (bmod_at d q) as [m|] eqn:Hm; [|discriminate] end. cbn [bind] in H.
    destruct (pokp_tail i e p' Hpk) as [m0 [x [Hp' [Hm0 [Hm0In [Hx He]]]]]].
    destruct (bmod_at_up _ m Hpk Hm) as [m1 [Hm1 [Hibm HmIn]]].
    rewrite up_sig. pose proof (up_path_cons i e p' m0 Hpk Hm0) as Ec.
    match goal with |- context [up_path d ?q] => replace (up_path d q) with (up_elem m0 (i, e) :: up_path d p') in * by (symmetry; exact Ec) end.
    destruct (up_elem m0 (i, e)) as [i' e'] eqn:Eu.
    cbn [bstep]. rewrite Hm1. cbn [bind]. destruct (ib_same m m1 Hibm) as [_ [Hps [_ [Hbs _]]]].
    assert (Eb : is_bport m1 s mp = is_bport m s mp) by (unfold is_bport; rewrite Hps, Hbs; reflexivity). rewrite Eb.
    destruct (is_bport m s mp); inversion H; subst b.
    + rewrite (up_port p' m0 i e s mp k Hm0), Eu. reflexivity.
    + rewrite up_sig. pose proof (up_path_cons i e p' m0 Hpk Hm0) as Ec2. rewrite Eu in Ec2. f_equal. f_equal. symmetry. exact Ec2.
  - (* a port (member) of an instance *)
    cbn [bnode_ok] in Hok. destruct (bmod_at d p) as [m|] eqn:Hm; [|discriminate].
    destruct (find_binst (bm_insts m) i) as [x|] eqn:Hx; [|discriminate]. apply andb_prop in Hok. destruct Hok as [_ Hee].
    destruct (bmod_at_up p m Hpk Hm) as [m1 [Hm1 [Hibm HmIn]]]. destruct (pw_mod m HmIn) as [NDm [Hshape [_ Hcr]]].
    destruct (ib_same m m1 Hibm) as [_ [_ [_ [_ Hlv]]]]. destruct (find_binst_In _ _ _ Hx) as [HxIn _].
    rewrite (up_port p m i e port mp k Hm).
    destruct (bi_pair x) eqn:Px.
    + (* element e of a Pair *)
      assert (He : e = 0 \/ e = 1) by (cbn [negb orb] in Hee; lia).
      destruct (ib_find_pair m m1 Hibm NDm i x e Hx Px He) as [nm [cs [pn [nms [U [Tc [F _]]]]]]]. rewrite U. cbn [fst snd].
      destruct (bassoc port (bi_conns x)) as [bx|] eqn:Hc.
      * destruct (bassoc_pair_conn e port bx cs (bi_conns x) Tc Hc) as [bx' [Hpc Hc']].
        rewrite (bstep_port_unfold d p i e port mp k m x bx Hm Hx Hc) in H. rewrite Px in H. cbn [andb] in H.
        rewrite (bstep_port_unfold d1 (up_path d p) nm 0 port mp k m1 (pair_member x nm cs) bx' Hm1 F Hc'). cbn [pair_member bi_pair bi_n bi_of andb].
        rewrite width_same. pose proof (Hshape x (port, bx) HxIn Px (bassoc_In _ _ _ Hc)) as Hsh. cbn [snd] in Hsh.
        rewrite (pair_conn_member' e port bx bx' mp Hsh Hpc).
        destruct (member bx (if negb (is_sx bx) then pair_elem e :: mp else mp)) as [t|] eqn:Ht; cbn [bind] in *; [|discriminate].
        replace (NBPort (up_path d p) nm 0 port mp k) with (up_node d (NBPort p i e port mp k)) by (rewrite (up_port p m i e port mp k Hm), U; reflexivity).
        apply (after_member_up m m1 p _ 0 _ e 0 k t b Hm HmIn Hlv); [|left; reflexivity|exact H].
        intros i2 p2 q2 ->. apply (Hcr x (port, bx) i2 p2 HxIn (bassoc_In _ _ _ Hc)). cbn [snd]. eapply member_ref_in. exact Ht.
      * cbn [bstep] in H. rewrite Hm in H. cbn [bind] in H. rewrite Hx in H. cbn [ofopt bind] in H. rewrite Hc in H. inversion H; subst b.
        cbn [bstep]. rewrite Hm1. cbn [bind]. rewrite F. cbn [ofopt bind pair_member bi_conns]. rewrite (bassoc_pair_conn_none e port cs (bi_conns x) Tc Hc).
        rewrite (up_port p m i e port mp k Hm), U. reflexivity.
    + (* a single instance or an array *)
      rewrite (up_elem_single_aux m i e x Hx Px). cbn [fst snd]. pose proof (ib_find_single m m1 Hibm i x Hx Px) as F.
      destruct (bassoc port (bi_conns x)) as [bx|] eqn:Hc.
      * rewrite (bstep_port_unfold d p i e port mp k m x bx Hm Hx Hc) in H. rewrite Px in H. cbn [andb] in H.
        rewrite (bstep_port_unfold d1 (up_path d p) i e port mp k m1 x bx Hm1 F Hc). rewrite Px. cbn [andb]. rewrite width_same.
        destruct (member bx mp) as [t|] eqn:Ht; cbn [bind] in *; [|discriminate].
        replace (NBPort (up_path d p) i e port mp k) with (up_node d (NBPort p i e port mp k)) by (rewrite (up_port p m i e port mp k Hm), (up_elem_single_aux m i e x Hx Px); reflexivity).
        apply (after_member_up m m1 p _ (bi_n x) _ e e k t b Hm HmIn Hlv); [|right; reflexivity|exact H].
        intros i2 p2 q2 ->. apply (Hcr x (port, bx) i2 p2 HxIn (bassoc_In _ _ _ Hc)). cbn [snd]. eapply member_ref_in. exact Ht.
      * cbn [bstep] in H. rewrite Hm in H. cbn [bind] in H. rewrite Hx in H. cbn [ofopt bind] in H. rewrite Hc in H. inversion H; subst b.
        cbn [bstep]. rewrite Hm1. cbn [bind]. rewrite F. cbn [ofopt bind]. rewrite Hc.
        rewrite (up_port p m i e port mp k Hm), (up_elem_single_aux m i e x Hx Px). reflexivity.
  - cbn [bstep] in H. inversion H; subst. reflexivity.
Qed.

(* the step keeps the valid paths *)
Lemma nodeS_step a : nodeS a -> exists b, bstep d a = Ok b /\ nodeS b.
Proof.
  intros [Hlive Hpk]. destruct (live_step d a Hlive) as [b [Hb Hlb]]. exists b. split; [exact Hb|]. split; [exact Hlb|].
  destruct a as [[|[i e] p'] s mp k|p i e port mp k|p s k].
  - cbn [bstep] in Hb. inversion Hb; subst. exact Hpk.
  - cbn [bstep] in Hb. match type of Hb with context [bmod_at d ?q] => destruct (bmod_at d q) as [m|]; [|discriminate] end. cbn [bind] in Hb.
    destruct (pokp_tail i e p' Hpk) as [m0 [x [Hp' _]]]. destruct (is_bport m s mp); inversion Hb; subst b; [exact Hp'|exact Hpk].
  - pose proof (live_ok _ Hlive) as Hok. cbn [bnode_ok] in Hok. destruct (bmod_at d p) as [m|] eqn:Hm; [|discriminate].
    destruct (find_binst (bm_insts m) i) as [x|] eqn:Hx; [|discriminate].
    destruct (bassoc port (bi_conns x)) as [bx|] eqn:Hc.
    + rewrite (bstep_port_unfold d p i e port mp k m x bx Hm Hx Hc) in Hb.
      destruct (member bx (if bi_pair x && negb (is_sx bx) then pair_elem e :: mp else mp)) as [t|]; cbn [bind] in Hb; [|discriminate].
      destruct t as [bq q|cx|i2 p2 q2|]; cbn [after_member] in Hb.
      * destruct (in_width _ k) as [[]|]; cbn [bind] in Hb; [|discriminate]. inversion Hb; subst. exact Hpk.
      * destruct (sx_bit _ cx _ e k) as [[id j]|]; cbn [bind fst snd] in Hb; [|discriminate]. unfold leaf_node in Hb.
        destruct (assocN id (bm_leaves m)) as [lf|]; cbn [ofopt bind] in Hb; [|discriminate]. destruct lf; inversion Hb; subst; exact Hpk.
      * destruct (in_width _ k) as [[]|]; cbn [bind] in Hb; [|discriminate]. inversion Hb; subst. exact Hpk.
      * destruct (in_width _ k) as [[]|]; cbn [bind] in Hb; [|discriminate]. inversion Hb; subst. exact Hpk.
    + cbn [bstep] in Hb. rewrite Hm in Hb. cbn [bind] in Hb. rewrite Hx in Hb. cbn [ofopt bind] in Hb. rewrite Hc in Hb. inversion Hb; subst. exact Hpk.
  - cbn [bstep] in Hb. inversion Hb; subst. exact I.
Qed.

(* ---- injectivity ---- *)
Lemma up_down_inj q : forall m q2, In m (bd_mods d) -> pok m q -> pok m q2 -> up_down d m q = up_down d m q2 -> q = q2.
Proof.
  induction q as [|[i e] q IH]; intros m q2 Hm Hp Hp2 E; destruct q2 as [|[i2 e2] q2]; cbn [up_down] in E; try discriminate; [reflexivity|].
  destruct Hp as [x [k [m' [Hx [He [Hof [Hk Hr]]]]]]]. destruct Hp2 as [y [k2 [m2' [Hy [He2 [Hof2 [Hk2 Hr2]]]]]]].
  inversion E as [[Eh Et]]. destruct (pw_mod m Hm) as [NDm _].
  assert (exists m1, ib_module m = Ok m1) as [m1 Hm1].
  { apply In_nth_error in Hm. destruct Hm as [n Hn]. destruct (ib_nth n m Hn) as [m1 [_ H1]]. eauto. }
  pose proof (up_elem_inj m m1 Hm1 NDm i e x i2 e2 y Hx Hy He He2 Eh) as Eie. inversion Eie; subst i2 e2.
  rewrite Hx in Hy. inversion Hy; subst y. rewrite Hof in Hof2. inversion Hof2; subst k2. rewrite Hk in Hk2. inversion Hk2; subst m2'.
  cbn [fst] in Et. rewrite Hx, Hof, Hk in Et. f_equal. apply (IH m' q2); auto. eapply nth_error_In; eauto.
Qed.

Lemma up_path_inj p p2 : pokp p -> pokp p2 -> up_path d p = up_path d p2 -> p = p2.
Proof.
  intros [top [Ht Hp]] [top2 [Ht2 Hp2]] E. rewrite Ht in Ht2. inversion Ht2; subst top2. unfold up_path in E. rewrite Ht in E.
  assert (E' : up_down d top (rev p) = up_down d top (rev p2)) by (rewrite <- (rev_involutive (up_down d top (rev p))), E, rev_involutive; reflexivity).
  apply (up_down_inj _ top _ (nth_error_In _ _ Ht) Hp Hp2) in E'. rewrite <- (rev_involutive p), E', rev_involutive. reflexivity.
Qed.

Lemma up_node_inj a b : nodeS a -> nodeS b -> up_node d a = up_node d b -> a = b.
Proof.
  intros [La Pa] [Lb Pb] E. pose proof (live_ok a La) as Oa. pose proof (live_ok b Lb) as Ob.
  destruct a as [p s mp k|p i e port mp k|p s k], b as [p2 s2 mp2 k2|p2 i2 e2 port2 mp2 k2|p2 s2 k2]; cbn [bnode_ok] in Oa, Ob;
    try (cbn [up_node] in E; repeat match type of E with context [match bmod_at d ?q with _ => _ end] => destruct (bmod_at d q) end; discriminate).
  - rewrite !up_sig in E. inversion E; subst. f_equal. apply up_path_inj; assumption.
  - destruct (bmod_at d p) as [m|] eqn:Hm; [|discriminate]. destruct (bmod_at d p2) as [m2|] eqn:Hm2; [|discriminate].
    rewrite (up_port p m i e port mp k Hm), (up_port p2 m2 i2 e2 port2 mp2 k2 Hm2) in E. inversion E as [[Ep Ei Ee Epo Emp Ek]].
    apply (up_path_inj p p2 Pa Pb) in Ep. subst p2. rewrite Hm in Hm2. inversion Hm2; subst m2.
    destruct (find_binst (bm_insts m) i) as [x|] eqn:Hx; [|discriminate]. destruct (find_binst (bm_insts m) i2) as [y|] eqn:Hy; [|discriminate].
    apply andb_prop in Oa, Ob. destruct Oa as [_ Oa], Ob as [_ Ob].
    destruct (bmod_at_up p m Pa Hm) as [m1 [_ [Hibm HmIn]]]. destruct (pw_mod m HmIn) as [NDm _].
    assert (Eie : (i, e) = (i2, e2)).
    { apply (up_elem_inj m m1 Hibm NDm i e x i2 e2 y Hx Hy).
      - intros Px. rewrite Px in Oa. cbn [negb orb] in Oa. lia.
      - intros Py. rewrite Py in Ob. cbn [negb orb] in Ob. lia.
      - destruct (up_elem m (i, e)), (up_elem m (i2, e2)). cbn [fst snd] in *. congruence. }
    inversion Eie; subst. reflexivity.
  - cbn [up_node] in E. exact E.
Qed.

Lemma pokb_pok q : forall m, pokb d m q = true -> pok m q.
Proof.
  induction q as [|[i e] q IH]; intros m H; [exact I|]. cbn [pokb] in H. cbn [pok].
  destruct (find_binst (bm_insts m) i) as [x|]; [|discriminate]. apply andb_prop in H. destruct H as [He H].
  destruct (bi_of x) as [k|] eqn:Hof; [|discriminate]. destruct (nth_error (bd_mods d) k) as [m'|] eqn:Hk; [|discriminate].
  exists x, k, m'. repeat split; auto. intros Px. rewrite Px in He. cbn [negb orb] in He. lia.
Qed.

Lemma node_path_ok_pokp n : node_path_ok d n = true -> match n with NBSig p _ _ _ | NBPort p _ _ _ _ _ => pokp p | NBNc _ _ _ => True end.
Proof.
  destruct n as [p s mp k|p i e port mp k|p s k]; cbn [node_path_ok]; intros H; try exact I;
    (destruct (nth_error (bd_mods d) (bd_top d)) as [top|] eqn:Ht; [|discriminate]; exists top; split; [exact Ht|apply pokb_pok; exact H]).
Qed.

(* the image of a node of the design is a node of the design the pass leaves *)
Lemma target_sports_same t : target_sports d1 t = target_sports d t.
Proof.
  destruct t as [k|dev ps]; [|reflexivity]. cbn [target_sports]. destruct (nth_error (bd_mods d) k) as [c|] eqn:Hk.
  - destruct (ib_nth k c Hk) as [c1 [Hk1 Hc]]. rewrite Hk1. destruct (ib_same c c1 Hc) as [_ [Hp [_ [Hb _]]]]. unfold mod_sports. rewrite Hp, Hb. reflexivity.
  - rewrite (ib_nth_none k Hk). reflexivity.
Qed.

Lemma bnode_ok_up n : nodeS n -> bnode_ok d1 (up_node d n) = true.
Proof.
  intros [Hl Hp]. pose proof (live_ok n Hl) as Hok. destruct n as [p s mp k|p i e port mp k|p s k]; cbn [bnode_ok] in Hok.
  - rewrite up_sig. cbn [bnode_ok]. destruct (bmod_at d p) as [m|] eqn:Hm; [|discriminate].
    destruct (bmod_at_up p m Hp Hm) as [m1 [Hm1 [Hibm _]]]. rewrite Hm1. destruct (ib_same m m1 Hibm) as [_ [Hps [Hss [Hbs _]]]].
    unfold mod_sports, mod_ssigs in *. rewrite Hps, Hss, Hbs. exact Hok.
  - destruct (bmod_at d p) as [m|] eqn:Hm; [|discriminate]. destruct (find_binst (bm_insts m) i) as [x|] eqn:Hx; [|discriminate].
    apply andb_prop in Hok. destruct Hok as [Hit Hee]. rewrite (up_port p m i e port mp k Hm). cbn [bnode_ok].
    destruct (bmod_at_up p m Hp Hm) as [m1 [Hm1 [Hibm HmIn]]]. rewrite Hm1. destruct (pw_mod m HmIn) as [NDm _].
    destruct (bi_pair x) eqn:Px.
    + assert (He : e = 0 \/ e = 1) by (cbn [negb orb] in Hee; lia).
      destruct (ib_find_pair m m1 Hibm NDm i x e Hx Px He) as [nm [cs [pn [nms [U [_ [F _]]]]]]]. rewrite U. cbn [fst snd]. rewrite F.
      cbn [pair_member bi_of bi_pair negb orb]. rewrite target_sports_same, Hit. reflexivity.
    + rewrite (up_elem_single_aux m i e x Hx Px). cbn [fst snd]. rewrite (ib_find_single m m1 Hibm i x Hx Px), Px, target_sports_same, Hit. reflexivity.
  - reflexivity.
Qed.

Lemma live_up x : nodeS x -> live d1 (up_node d x).
Proof.
  intros Hx n. revert x Hx. induction n as [|n IH]; intros x Hx; cbn [iter_r].
  - exists (up_node d x). split; [reflexivity|apply bnode_ok_up; exact Hx].
  - destruct (nodeS_step x Hx) as [y [Hy Sy]]. rewrite (ib_step x y Hx Hy). cbn [bind]. apply IH. exact Sy.
Qed.

(* InstBundleElabPass keeps "the orbits meet", both ways *)
Theorem ib_meet x y : nodeS x -> nodeS y -> (bsame_net d x y <-> bsame_net d1 (up_node d x) (up_node d y)).
Proof.
  intros Hx Hy. unfold bsame_net.
  apply (sim_meet bnode bnode (bstep d) (bstep d1) nodeS (up_node d)).
  - exact nodeS_step.
  - intros a b Ha Hab. apply ib_step; assumption.
  - exact up_node_inj.
  - exact Hx.
  - exact Hy.
Qed.
End Design.

(* the pass leaves no Pair behind *)
Lemma ib_pairs_no_pairs l : forall ns acc names news names', ib_pairs l ns acc names = Ok (news, names') ->
  forallb (fun x => negb (bi_pair x)) acc = true -> forallb (fun x => negb (bi_pair x)) news = true.
Proof.
  induction l as [|x r IH]; intros ns acc names news names' H Ha; cbn [ib_pairs] in H; [inversion H; subst; exact Ha|].
  destruct (BundleFlat.flatname _ _ _) as [np|]; cbn [bind] in H; [|discriminate].
  destruct (BundleFlat.flatname _ _ _) as [nn|]; cbn [bind] in H; [|discriminate].
  destruct (traverse (pair_conn 0) (bi_conns x)) as [cp|]; cbn [bind] in H; [|discriminate].
  destruct (traverse (pair_conn 1) (bi_conns x)) as [cn|]; cbn [bind] in H; [|discriminate].
  apply IH in H; [exact H|]. rewrite forallb_app, Ha. reflexivity.
Qed.

Theorem ib_design_no_pairs d d1 : ib_design d = Ok d1 -> no_pairs d1 = true.
Proof.
  intros H. unfold ib_design in H. apply bind_ok in H. destruct H as [ms [Hms H]]. inversion H; subst d1. unfold no_pairs. cbn [bd_mods].
  apply forallb_forall. intros m1 Hm1. apply traverse_Forall2 in Hms.
  destruct (BundleProofs.Forall2_in_r _ _ _ m1 Hms Hm1) as [m [_ Hm]]. unfold ib_module in Hm. apply bind_ok in Hm. destruct Hm as [[news names] [Hr Hm]].
  inversion Hm; subst m1. cbn [bm_insts fst]. rewrite forallb_app. apply andb_true_intro. split.
  - apply forallb_forall. intros x Hx. apply filter_In in Hx. tauto.
  - unfold ib_run in Hr. eapply ib_pairs_no_pairs; [exact Hr|reflexivity].
Qed.

(* on a design without Pairs the pass is the identity *)
Lemma filter_all_true {A} (f : A -> bool) l : forallb f l = true -> filter f l = l.
Proof. induction l as [|x l IH]; cbn [forallb filter]; [reflexivity|]. intros H. apply andb_prop in H. destruct H as [-> H]. f_equal. apply IH. exact H. Qed.

Lemma filter_none_true {A} (f : A -> bool) l : forallb (fun x => negb (f x)) l = true -> filter f l = [].
Proof. induction l as [|x l IH]; cbn [forallb filter]; [reflexivity|]. intros H. apply andb_prop in H. destruct H as [H1 H]. destruct (f x); [discriminate|]. apply IH. exact H. Qed.

Theorem ib_design_id d : no_pairs d = true -> ib_design d = Ok d.
Proof.
  intros H. unfold ib_design. unfold no_pairs in H. rewrite forallb_forall in H.
  assert (E : traverse ib_module (bd_mods d) = Ok (bd_mods d)).
  { induction (bd_mods d) as [|m l IH]; [reflexivity|]. cbn [traverse]. rewrite IH by (intros x Hx; apply H; right; exact Hx). cbn [bind].
    assert (Em : ib_module m = Ok m).
    { unfold ib_module, ib_run. rewrite (filter_none_true bi_pair) by (apply H; left; reflexivity). cbn [rev ib_pairs bind fst].
      rewrite (filter_all_true (fun x => negb (bi_pair x))) by (apply H; left; reflexivity). rewrite app_nil_r. destruct m; reflexivity. }
    rewrite Em. reflexivity. }
  rewrite E. cbn [bind]. destruct d; reflexivity.
Qed.
