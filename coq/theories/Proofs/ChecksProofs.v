Require Import Hdl21.Base.PyInt Hdl21.Base.Design Hdl21.Model.Checks Hdl21.Spec.WfDesign.

Lemma pop_spec {A} k (l : list (name * A)) :
  fst (pop k l) = assoc k l /\
  (forall k', k' <> k -> assoc k' (snd (pop k l)) = assoc k' l) /\
  (nodup_names (map fst l) = true -> assoc k (snd (pop k l)) = None /\ nodup_names (map fst (snd (pop k l))) = true) /\
  (forall k', In k' (map fst (snd (pop k l))) -> In k' (map fst l)).
Proof.
  induction l as [|[k0 v] l IH]; cbn [pop assoc].
  - cbn. repeat split; auto.
  - destruct (String.eqb k k0) eqn:E.
    + apply String.eqb_eq in E. subst k0. cbn [fst snd]. split; [reflexivity|]. split; [|split].
      * intros k' Hk. destruct (String.eqb k' k) eqn:E'; [apply String.eqb_eq in E'; congruence|reflexivity].
      * cbn [map fst nodup_names]. intros H. apply andb_prop in H. destruct H as [H1 H2]. split; [|exact H2].
        apply negb_true_iff in H1. clear - H1. induction l as [|[a b] l IH]; cbn in *; [reflexivity|].
        apply orb_false_iff in H1. destruct H1 as [H1 H2]. rewrite H1. apply IH. exact H2.
      * intros k' H. cbn. right. exact H.
    + destruct (pop k l) as [r rest] eqn:Ep. cbn [fst snd] in *. destruct IH as [I1 [I2 [I3 I4]]].
      split; [exact I1|]. split; [|split].
      * intros k' Hk. cbn [assoc]. destruct (String.eqb k' k0); [reflexivity|]. apply I2. exact Hk.
      * cbn [map fst nodup_names]. intros H. apply andb_prop in H. destruct H as [H1 H2].
        destruct (I3 H2) as [J1 J2]. split.
        -- cbn [assoc]. rewrite E. exact J1.
        -- cbn [map fst nodup_names]. rewrite J2, andb_true_r. apply negb_true_iff. apply negb_true_iff in H1.
           destruct (existsb (String.eqb k0) (map fst rest)) eqn:Ex; [|reflexivity].
           apply existsb_exists in Ex. destruct Ex as [y [Hy Ey]]. apply I4 in Hy.
           assert (existsb (String.eqb k0) (map fst l) = true) by (apply existsb_exists; eauto). congruence.
      * intros k' H. cbn [map fst] in *. destruct H as [H|H]; [left; exact H|right; apply I4; exact H].
Qed.

(* ConnTypes.check_instance accepts exactly when every port has a connection of its own width and
   no connection goes to a port that does not exist *)
Theorem check_instance_spec ports : forall conns,
  nodup_names (map fst ports) = true -> nodup_names (map fst conns) = true ->
  (check_instance ports conns = true <->
   (forall p w, assoc p ports = Some w -> assoc p conns = Some w) /\
   (forall p, In p (map fst conns) -> In p (map fst ports))).
Proof.
  unfold check_instance.
  induction ports as [|[p w] ports IH]; intros conns Np Nc; cbn [check_ports].
  - split.
    + intros H. destruct conns; [|discriminate]. split; [intros ? ? H0; discriminate|intros ? []].
    + intros [_ H]. destruct conns as [|[k v] l]; [reflexivity|]. exfalso. apply (H k). left. reflexivity.
  - cbn [map fst nodup_names] in Np. apply andb_prop in Np. destruct Np as [Np1 Np2].
    pose proof (pop_spec p conns) as [P1 [P2 [P3 P4]]]. destruct (pop p conns) as [c rest] eqn:Ep. cbn [fst snd] in *.
    destruct (P3 Nc) as [P5 P6]. specialize (IH rest Np2 P6).
    destruct (check_ports ports rest) as [ok lft] eqn:Ec.
    assert (Hnotin : forall q, In q (map fst ports) -> q <> p).
    { intros q Hq ->. apply negb_true_iff in Np1.
      assert (existsb (String.eqb p) (map fst ports) = true) by (apply existsb_exists; exists p; split; [exact Hq|apply String.eqb_refl]).
      congruence. }
    split.
    + intros H. apply andb_prop in H. destruct H as [H1 H2].
      destruct c as [cw|]; [|discriminate]. apply andb_prop in H1. destruct H1 as [Hw Hok].
      assert (X : ok && match lft with [] => true | _ :: _ => false end = true) by (rewrite Hok, H2; reflexivity).
      apply IH in X. destruct X as [X1 X2]. split.
      * intros q qw Hq. cbn [assoc] in Hq. destruct (String.eqb q p) eqn:Eq.
        -- apply String.eqb_eq in Eq. subst q. inversion Hq; subst. rewrite <- P1. f_equal. lia.
        -- rewrite <- P2 by (intros ->; rewrite String.eqb_refl in Eq; discriminate). apply X1. exact Hq.
      * intros q Hq. cbn [map fst]. destruct (String.eqb q p) eqn:Eq; [left; symmetry; apply String.eqb_eq; exact Eq|].
        right. apply X2.
        assert (Hne : q <> p) by (intros ->; rewrite String.eqb_refl in Eq; discriminate).
        clear - Hq Hne P2 P5. 
        assert (G : forall (l : list (name * Z)) q, In q (map fst l) <-> assoc q l <> None).
        { induction l as [|[a b] l IHl]; intros q0; cbn [map fst assoc In].
          - split; [intros []|congruence].
          - destruct (String.eqb q0 a) eqn:E.
            + apply String.eqb_eq in E. subst. split; [congruence|auto].
            + rewrite <- IHl. split; [intros [H|H]; [subst; rewrite String.eqb_refl in E; discriminate|exact H]|auto]. }
        apply G. rewrite P2 by exact Hne. apply G. exact Hq.
    + intros [H1 H2].
      assert (Hc : c = Some w). { rewrite P1. apply H1. cbn [assoc]. rewrite String.eqb_refl. reflexivity. }
      rewrite Hc. cbv iota beta. rewrite Z.eqb_refl. cbn [andb].
      apply IH. split.
      * intros q qw Hq. assert (Hne : q <> p).
        { apply Hnotin. clear - Hq. induction ports as [|[a b] l IHl]; cbn [assoc map fst In] in *; [discriminate|].
          destruct (String.eqb q a) eqn:E; [left; symmetry; apply String.eqb_eq; exact E|right; apply IHl; exact Hq]. }
        rewrite P2 by exact Hne. apply H1. cbn [assoc].
        destruct (String.eqb q p) eqn:E; [apply String.eqb_eq in E; congruence|exact Hq].
      * intros q Hq. pose proof (P4 q Hq) as Hin. specialize (H2 q Hin). cbn [map fst In] in H2.
        destruct H2 as [H2|H2]; [|exact H2]. subst q. exfalso.
        clear - Hq P5. induction rest as [|[a b] l IHl]; cbn [map fst In assoc] in *; [destruct Hq|].
        destruct (String.eqb p a) eqn:E; [discriminate|]. destruct Hq as [Hq|Hq]; [subst; rewrite String.eqb_refl in E; discriminate|].
        apply IHl; assumption.
Qed.
