(* Proofs/C07FlatProofs.v — lemmas about the flattening-names body (Model/C07FlatNames.v). *)
Require Import Hdl21.Base.PyInt Hdl21.Model.C07PassMgr Hdl21.Model.C07FlatNames Hdl21.Proofs.C07Proofs.
From Coq Require Import String Ascii.
Local Open Scope nat_scope.
Local Open Scope list_scope.

(* ------------------------------------------------------------------ flatname finds a name, and it is fresh *)
Lemma smem_In x l : smem x l = true <-> In x l.
Proof.
  induction l as [|y l IH]; simpl; [split; [discriminate|tauto]|].
  rewrite orb_true_iff, IH, String.eqb_eq. split; intros [H|H]; auto.
Qed.

Fixpoint us (j : nat) : string := match j with 0 => EmptyString | S j' => String "_" (us j') end.

Lemma append_assoc (a b c : string) : ((a ++ b) ++ c)%string = (a ++ (b ++ c))%string.
Proof. induction a as [|x a IH]; simpl; [reflexivity|]. rewrite IH. reflexivity. Qed.

Lemma append_nil_r (a : string) : (a ++ "")%string = a.
Proof. induction a as [|x a IH]; simpl; [reflexivity|]. rewrite IH. reflexivity. Qed.

Lemma append_length (a b : string) : String.length (a ++ b) = String.length a + String.length b.
Proof. induction a as [|x a IH]; simpl; [reflexivity|]. rewrite IH. reflexivity. Qed.

Lemma us_length j : String.length (us j) = j.
Proof. induction j as [|j IH]; simpl; [reflexivity|]. rewrite IH. reflexivity. Qed.

Lemma us_S name j : ((name ++ "_") ++ us j)%string = (name ++ us (S j))%string.
Proof. rewrite append_assoc. reflexivity. Qed.

Lemma flatname_aux_some avoid : forall fuel name n, flatname_aux fuel name avoid = Some n ->
  ~ In n avoid /\ exists j, j <= fuel /\ n = (name ++ us j)%string.
Proof.
  induction fuel as [|f IH]; intros name n H; simpl in H; destruct (smem name avoid) eqn:E; try discriminate.
  - inversion H. subst n. split; [intros Hin; apply smem_In in Hin; congruence|].
    exists 0. split; [lia|]. simpl. rewrite append_nil_r. reflexivity.
  - apply IH in H. destruct H as [F [j [Hj ->]]]. split; [exact F|]. exists (S j). split; [lia|]. apply us_S.
  - inversion H. subst n. split; [intros Hin; apply smem_In in Hin; congruence|].
    exists 0. split; [lia|]. simpl. rewrite append_nil_r. reflexivity.
Qed.

Lemma flatname_aux_none avoid : forall fuel name, flatname_aux fuel name avoid = None ->
  forall j, j <= fuel -> In (name ++ us j)%string avoid.
Proof.
  induction fuel as [|f IH]; intros name H j Hj; simpl in H; destruct (smem name avoid) eqn:E; try discriminate.
  - replace j with 0 by lia. simpl. rewrite append_nil_r. apply smem_In. exact E.
  - destruct j as [|j]; [simpl; rewrite append_nil_r; apply smem_In; exact E|].
    rewrite <- us_S. apply IH; [exact H|lia].
Qed.

Lemma cands_nodup name : forall n k, NoDup (map (fun j => (name ++ us j)%string) (seq k n)).
Proof.
  induction n as [|n IH]; intros k; simpl; constructor; [|apply IH].
  intros Hin. apply in_map_iff in Hin. destruct Hin as [j [E Hj]]. apply in_seq in Hj.
  apply (f_equal String.length) in E. rewrite !append_length, !us_length in E. lia.
Qed.

(* the fuel (one candidate more than there are names to avoid) is never exhausted *)
Lemma flatname_total name avoid : exists n, flatname name avoid = Some n /\ ~ In n avoid.
Proof.
  unfold flatname. destruct (flatname_aux (List.length avoid) name avoid) as [n|] eqn:E.
  - exists n. split; [reflexivity|]. apply (flatname_aux_some _ _ _ _ E).
  - exfalso. pose proof (flatname_aux_none _ _ _ E) as H.
    assert (I : incl (map (fun j => (name ++ us j)%string) (seq 0 (S (List.length avoid)))) avoid).
    { intros x Hx. apply in_map_iff in Hx. destruct Hx as [j [<- Hj]]. apply in_seq in Hj. apply H. lia. }
    apply NoDup_incl_length in I; [|apply cands_nodup]. rewrite map_length, seq_length in I. lia.
Qed.

Lemma flatname_or_fresh name avoid : ~ In (flatname_or name avoid) avoid.
Proof. unfold flatname_or. destruct (flatname_total name avoid) as [n [-> F]]. exact F. Qed.

(* ------------------------------------------------------------------ what flattening one bundle does to the names *)
Definition acc3 := (list string * list string * list (string * string))%type.

Lemma flat_members_spec bname port : forall paths (a : acc3),
  let r := fold_left (flat_member bname port) paths a in
  (exists new, snd (fst r) = snd (fst a) ++ (if port then new else []) /\
               fst (fst r) = fst (fst a) ++ new /\
               snd r = snd a ++ combine paths new /\ List.length new = List.length paths /\
               NoDup new /\ (forall n, In n new -> ~ In n (fst (fst a)))).
Proof.
  induction paths as [|p paths IH]; intros [[ns ports] fm]; cbn [fold_left].
  - exists []. cbn [fst snd combine]. rewrite !app_nil_r. destruct port; simpl; repeat split; auto; try constructor; try rewrite app_nil_r; auto.
  - cbn [flat_member]. set (n := flatname_or (bname ++ "_" ++ p) ns).
    specialize (IH (ns ++ [n], (if port then ports ++ [n] else ports), fm ++ [(p, n)])).
    destruct IH as [new (A & B & Cc & L & ND & F)]. cbn [fst snd] in *.
    exists (n :: new). cbn [fst snd combine List.length]. repeat split.
    + rewrite A. destruct port; [rewrite <- app_assoc; reflexivity|reflexivity].
    + rewrite B. rewrite <- app_assoc. reflexivity.
    + rewrite Cc. rewrite <- app_assoc. reflexivity.
    + simpl. lia.
    + constructor; [|exact ND]. intros Hin. apply (F n Hin). apply in_or_app. right. left. reflexivity.
    + intros x [<-|Hx]; [apply flatname_or_fresh|]. intros Hin. apply (F x Hx). apply in_or_app. left. exact Hin.
Qed.

Definition st3 := (list string * list string * flatmap)%type.
Definition fl_ok (ports : list string) (fl : flatmap) : Prop :=
  forall p fm path n, In (p, fm) fl -> In (path, n) fm -> In n ports.

Lemma in_combine_snd {A B} (l : list A) (l' : list B) a b : In (a, b) (combine l l') -> In b l'.
Proof. apply in_combine_r. Qed.

Lemma flat_bundle_ok (s : st3) b : fl_ok (snd (fst s)) (snd s) ->
  let r := flat_bundle s b in
  fl_ok (snd (fst r)) (snd r) /\ (forall x, In x (snd (fst s)) -> In x (snd (fst r))).
Proof.
  destruct s as [[ns ports] fl]. intros H. cbn [flat_bundle].
  pose proof (flat_members_spec (cb_name b) (cb_port b) (cb_paths b) (rm (cb_name b) ns, ports, [])) as S.
  cbn zeta in S. destruct (fold_left (flat_member (cb_name b) (cb_port b)) (cb_paths b) (rm (cb_name b) ns, ports, [])) as [[ns' ports'] fm].
  destruct S as [new (A & B & Cc & L & ND & F)]. cbn [fst snd] in *. subst ports'. split.
  - intros p fm' path n Hin Hp. destruct (cb_port b) eqn:Eb.
    + apply in_app_or in Hin. destruct Hin as [Hin|[E|[]]].
      * apply in_or_app. left. apply (H p fm' path n Hin Hp).
      * inversion E. subst. apply in_combine_r in Hp. apply in_or_app. right. exact Hp.
    + rewrite app_nil_r. apply (H p fm' path n Hin Hp).
  - intros x Hx. apply in_or_app. left. exact Hx.
Qed.

Lemma flat_bundles_ok : forall bs (s : st3), fl_ok (snd (fst s)) (snd s) ->
  fl_ok (snd (fst (fold_left flat_bundle bs s))) (snd (fold_left flat_bundle bs s)).
Proof.
  induction bs as [|b bs IH]; intros s H; cbn [fold_left]; [exact H|].
  apply IH. apply (flat_bundle_ok s b H).
Qed.

(* after the flattening body, every flat port the module's cache entries name is one of its ports *)
Lemma flatten_flat_ok vs c : flat_ok (cfio (flatten_body vs c)).
Proof.
  unfold flatten_body.
  pose proof (flat_bundles_ok (rev (c_bundles c)) (c_ns c, c_ports c, [])) as H.
  destruct (fold_left flat_bundle (rev (c_bundles c)) (c_ns c, c_ports c, [])) as [[ns ports] fl].
  cbn [fst snd] in H. unfold flat_ok, cfio. cbn [c_ports c_flat fst snd].
  apply H. intros p fm path n [].
Qed.

(* namespace: the new names are fresh and pairwise distinct *)
Lemma rm_incl x l y : In y (rm x l) -> In y l.
Proof. unfold rm. intros H. apply filter_In in H. tauto. Qed.

Lemma rm_nodup x l : NoDup l -> NoDup (rm x l).
Proof. apply NoDup_filter. Qed.

Lemma nodup_app (l l' : list string) : NoDup l -> NoDup l' -> (forall x, In x l' -> ~ In x l) -> NoDup (l ++ l').
Proof.
  induction l as [|a l IH]; intros N N' D; simpl; [exact N'|].
  inversion N; subst. constructor.
  - intros Hin. apply in_app_or in Hin. destruct Hin as [Hin|Hin]; [contradiction|]. apply (D a Hin). left. reflexivity.
  - apply IH; auto. intros x Hx Hin. apply (D x Hx). right. exact Hin.
Qed.

Lemma flat_bundle_nodup (s : st3) b : NoDup (fst (fst s)) -> NoDup (fst (fst (flat_bundle s b))).
Proof.
  destruct s as [[ns ports] fl]. intros N. cbn [flat_bundle].
  pose proof (flat_members_spec (cb_name b) (cb_port b) (cb_paths b) (rm (cb_name b) ns, ports, [])) as S.
  cbn zeta in S. destruct (fold_left (flat_member (cb_name b) (cb_port b)) (cb_paths b) (rm (cb_name b) ns, ports, [])) as [[ns' ports'] fm].
  destruct S as [new (A & B & Cc & L & ND & F)]. cbn [fst snd] in *. subst ns'.
  apply nodup_app; [apply rm_nodup; exact N|exact ND|exact F].
Qed.

Lemma flatten_ns_nodup vs c : NoDup (c_ns c) -> NoDup (c_ns (flatten_body vs c)).
Proof.
  unfold flatten_body. intros N.
  assert (G : forall bs (s : st3), NoDup (fst (fst s)) -> NoDup (fst (fst (fold_left flat_bundle bs s)))).
  { induction bs as [|b bs IH]; intros s H; cbn [fold_left]; [exact H|]. apply IH. apply flat_bundle_nodup. exact H. }
  specialize (G (rev (c_bundles c)) (c_ns c, c_ports c, []) N).
  destruct (fold_left flat_bundle (rev (c_bundles c)) (c_ns c, c_ports c, [])) as [[ns ports] fl]. exact G.
Qed.

(* ------------------------------------------------------------------ rewiring *)
Lemma assoc_in {A} k (l : list (string * A)) a : assoc k l = Some a -> In (k, a) l.
Proof.
  induction l as [|[k' a'] l IH]; simpl; [discriminate|].
  destruct (String.eqb k k') eqn:E; [|intros H; right; apply IH; exact H].
  apply String.eqb_eq in E. subst k'. intros H. inversion H. left. reflexivity.
Qed.

(* a name an instance is connected to after rewiring is an unchanged connection, or a flat port of the child's entry *)
Lemma rewire_names fl conns p : In p (rewire fl conns) ->
  (In p conns /\ assoc p fl = None) \/ (exists q fm path, In q conns /\ In (q, fm) fl /\ In (path, p) fm).
Proof.
  unfold rewire. intros H. apply in_flat_map in H. destruct H as [q [Hq Hp]].
  destruct (assoc q fl) as [fm|] eqn:E.
  - right. apply in_map_iff in Hp. destruct Hp as [[path n] [En Hin]]. simpl in En. subst n.
    exists q, fm, path. split; [exact Hq|]. split; [apply assoc_in; exact E|exact Hin].
  - left. destruct Hp as [<-|[]]. split; assumption.
Qed.

Lemma find_view_in c (vs : list (view cio cfl)) v : find_view c vs = Some v -> In v vs /\ v_mid v = c.
Proof.
  induction vs as [|w vs IH]; simpl; [discriminate|]. destruct (v_mid w =? c) eqn:E.
  - intros H. inversion H. subst w. split; [left; reflexivity|apply Nat.eqb_eq; exact E].
  - intros H. apply IH in H. split; [right; apply H|apply H].
Qed.

(* ------------------------------------------------------------------ the frame conditions of the machine *)
Section Frames.
  Variable bf : nat.
  Variables pre post : nat -> mid -> list (view cio cfl) -> cmod -> cmod.
  Hypothesis pre_frame : forall k m vs c, k < bf -> cbio (pre k m vs c) = cbio c.
  Hypothesis post_frame : forall k m vs c, bf < k -> cfio (post k m vs c) = cfio c.

  Lemma fbody_frame_bundle k m vs c : k < bf -> cbio (fbody bf pre post k m vs c) = cbio c.
  Proof.
    intros H. unfold fbody. replace (k <? bf) with true by (symmetry; apply Nat.ltb_lt; exact H). apply pre_frame. exact H.
  Qed.

  Lemma fbody_frame_flat k m vs c : bf < k -> cfio (fbody bf pre post k m vs c) = cfio c.
  Proof.
    intros H. unfold fbody. replace (k <? bf) with false by (symmetry; apply Nat.ltb_ge; lia).
    replace (k =? bf) with false by (symmetry; apply Nat.eqb_neq; lia). apply post_frame. exact H.
  Qed.

  Lemma fbody_at_bf m vs c : fbody bf pre post bf m vs c = flatten_body vs c.
  Proof. unfold fbody. rewrite Nat.ltb_irrefl, Nat.eqb_refl. reflexivity. Qed.

  (* the canonical content of a module past the flattening entry keeps the flat_ok property *)
  Variable init : mid -> cmod.
  Variable caches : list nat.
  Hypothesis bf_eff : eff caches bf = true.

  Notation canon := (canon cmod cio cfl init cbio cfio (fbody bf pre post) caches bf).

  Lemma canon_flat_ok d k m : WF d -> bf < k -> flat_ok (cfio (canon d k m)).
  Proof.
    intros W H.
    rewrite (canon_fio cmod cio cfl init cbio cfio (fbody bf pre post) (fun _ c => c) caches bf 0 fbody_frame_bundle fbody_frame_flat d k m W H).
    rewrite (canon_S cmod cio cfl init cbio cfio (fbody bf pre post) (fun _ c => c) caches bf 0 fbody_frame_bundle fbody_frame_flat d bf m W bf_eff).
    rewrite fbody_at_bf. apply flatten_flat_ok.
  Qed.
End Frames.
