(* Proofs/C08Fuel.v — the recursion bound of Model/C08PassFail.v is never reached by elaboration: each nested visit adds a
   module of the design to the pending set of its pass, and every visit restores that set (Proofs/C08Proofs.v). *)
Require Import Hdl21.Base.PyInt Hdl21.Model.C08PassFail Hdl21.Proofs.C08Proofs.
Open Scope list_scope.
Local Open Scope nat_scope.

(* ------------------------------------------------------------------ the recursion bound is never reached by elaboration *)
Section Fuel.
Variable kids : nat -> option (list nat).
Variable f : nat -> nat -> option Z.
Variable p : pass.
Variable U : list nat.
Hypothesis HU : NoDup U.
Hypothesis HK : forall m cs, kids m = Some cs -> In m U.

Definition freeb (pe : list (nat * nat)) (x : nat) : bool := negb (memp (pid p, x) pe).
Definition free (s : pst) : nat := length (filter (freeb (pend s)) U).

Lemma filter_drop_one (g h : nat -> bool) m : forall l, NoDup l -> In m l -> g m = true -> h m = false ->
  (forall x, h x = true -> g x = true) -> length (filter h l) < length (filter g l).
Proof.
  induction l as [|y l IH]; intros ND Hin Hg Hh Hsub; [destruct Hin|]. inversion ND as [|? ? Hny ND']; subst.
  assert (Hle : forall l', length (filter h l') <= length (filter g l')).
  { induction l' as [|z l' IH']; cbn; [lia|]. destruct (h z) eqn:E1.
    - rewrite (Hsub z E1). cbn. lia.
    - destruct (g z); cbn; lia. }
  destruct Hin as [->|Hin].
  - cbn. rewrite Hg, Hh. cbn. specialize (Hle l). lia.
  - specialize (IH ND' Hin Hg Hh Hsub). cbn. destruct (h y) eqn:E1.
    + rewrite (Hsub y E1). cbn. lia.
    + destruct (g y); cbn; lia.
Qed.

Lemma free_add_pend s m : memp (pid p, m) (pend s) = false -> In m U -> free (add_pend (pid p, m) s) < free s.
Proof.
  intros H1 H2. unfold free. cbn [add_pend pend]. apply (filter_drop_one _ _ m U HU H2).
  - unfold freeb. rewrite H1. reflexivity.
  - unfold freeb. rewrite memp_cons, eqpm_refl. reflexivity.
  - intros x. unfold freeb. rewrite memp_cons. destruct (memp (pid p, x) (pend s)); [rewrite orb_true_r; discriminate | reflexivity].
Qed.

Lemma fuel_fold k : (forall s m, free s < k -> snd (visit repaired kids f p k s m) <> Some CFuel) ->
  forall ms s, free s < k -> snd (fold_visit (visit repaired kids f p k) s ms) <> Some CFuel.
Proof.
  intros Hv. induction ms as [|m ms IH]; intros s Hs; cbn [fold_visit]; [cbn; discriminate|].
  pose proof (Hv s m Hs) as H1. destruct (visit repaired kids f p k s m) as [s1 r1] eqn:E. cbn [snd] in H1.
  destruct r1 as [e|]; [exact H1|]. apply IH. unfold free. rewrite (proj1 (visit_good kids p f k _ _ _ _ E)). exact Hs.
Qed.

Lemma fuel_visit : forall k s m, free s < k -> snd (visit repaired kids f p k s m) <> Some CFuel.
Proof.
  induction k as [|k IH]; intros s m Hs; [lia|]. rewrite visit_S.
  destruct (rec_of m (failed s)); [cbn; discriminate|].
  destruct (memp (pid p, m) (done s)); [cbn; discriminate|].
  destruct (memp (pid p, m) (pend s)) eqn:EP; [cbn; discriminate|].
  destruct (kids m) as [cs|] eqn:EK; [|cbn; discriminate].
  pose proof (free_add_pend s m EP (HK m cs EK)) as Hlt.
  assert (Hs1 : free (add_pend (pid p, m) s) < k) by lia.
  pose proof (fuel_fold k IH cs _ Hs1) as H1.
  destruct (fold_visit (visit repaired kids f p k) (add_pend (pid p, m) s) cs) as [s2 r2]. cbn [snd] in H1.
  destruct r2 as [e|]; [exact H1|]. destruct (f (pid p) m); cbn; discriminate.
Qed.
End Fuel.

Lemma assoc_kids_in l : forall m cs, assoc_kids l m = Some cs -> In m (map fst l).
Proof.
  induction l as [|[m' cs'] l IH]; intros m cs H; cbn in H; [discriminate|].
  destruct (Nat.eqb m m') eqn:E; [apply Nat.eqb_eq in E; subst; left; reflexivity | right; apply (IH _ _ H)].
Qed.

Lemma free_bound p U s : free p U s <= length U.
Proof. unfold free. induction U as [|y U IH]; cbn; [lia|]. destruct (freeb p (pend s) y); cbn; lia. Qed.

Lemma nodup_length (l : list nat) : length (nodup Nat.eq_dec l) <= length l.
Proof. induction l as [|y l IH]; cbn; [lia|]. destruct (in_dec Nat.eq_dec y l); cbn; lia. Qed.

Lemma fuel_passes l f tops : forall ps s,
  snd (run_passes_on repaired (assoc_kids l) f (S (length l)) ps tops s) <> Some CFuel.
Proof.
  set (U := nodup Nat.eq_dec (map fst l)).
  assert (HU : NoDup U) by apply NoDup_nodup.
  assert (HK : forall m cs, assoc_kids l m = Some cs -> In m U).
  { intros m cs H. apply nodup_In. apply (assoc_kids_in _ _ _ H). }
  assert (HB : forall p s, free p U s < S (length l)).
  { intros p s. pose proof (free_bound p U s). pose proof (nodup_length (map fst l)). rewrite map_length in *. unfold U in *. lia. }
  induction ps as [|p ps IH]; intros s; cbn [run_passes_on]; [cbn; discriminate|].
  pose proof (fuel_fold (assoc_kids l) f p U (S (length l)) (fuel_visit (assoc_kids l) f p U HU HK (S (length l))) tops s (HB p s)) as H1.
  destruct (fold_visit (visit repaired (assoc_kids l) f p (S (length l))) s tops) as [s1 r1]. cbn [snd] in H1.
  destruct r1 as [e|]; [exact H1 | apply IH].
Qed.
