(* Proofs/C05ModuleProofs.v — lemmas about the two-view Module of Model/C05Module.v. *)
From Coq Require Import String Ascii Arith.
Require Import Hdl21.Base.PyInt Hdl21.Spec.BundleSpec Hdl21.Model.BundleFlat Hdl21.Proofs.BundleProofs
               Hdl21.Model.C05Naming Hdl21.Proofs.C05Proofs Hdl21.Model.C05Module.
Require Import Hdl21Gen.C10Tables.
Open Scope string_scope.
Open Scope list_scope.
Open Scope Z_scope.

(* ---------------------------------------------------------------------------------------------------- _add on both views *)
(* whatever held the name in ANY container: afterwards the containers hold the new object under it and nothing else *)
Lemma m_add_ctr k n o m : lookup k (m_ctr (m_add n o m)) = if String.eqb n k then Some o else lookup k (m_ctr m).
Proof. unfold m_add. cbn [m_ctr]. apply lookup_add. Qed.

Lemma lookup_set k n o l : lookup k (ns_set n o l) = if String.eqb n k then Some o else lookup k l.
Proof.
  unfold ns_set. destruct (lookup n l) as [old|] eqn:L.
  - rewrite lookup_replace. destruct (String.eqb n k) eqn:E; [|reflexivity].
    apply String.eqb_eq in E. subst k. rewrite L. reflexivity.
  - rewrite lookup_app. cbn [lookup]. destruct (String.eqb n k) eqn:E.
    + apply String.eqb_eq in E. subst k. rewrite L. reflexivity.
    + destruct (lookup k l); reflexivity.
Qed.

Lemma m_add_ns k n o m : lookup k (m_ns (m_add n o m)) = if String.eqb n k then Some o else lookup k (m_ns m).
Proof.
  unfold m_add. cbn [m_ns]. rewrite lookup_set. destruct (String.eqb n k) eqn:E; [reflexivity|].
  destruct (match lookup n (m_ctr m) with Some old => negb (okind_eqb (o_kind old) (o_kind o)) | None => false end); [|reflexivity].
  rewrite lookup_remove, E. reflexivity.
Qed.

(* under a name that is free in the namespace of a Module whose views agree, _add appends to both views *)
Lemma m_add_fresh n o m : magree m -> lookup n (m_ns m) = None ->
  m_add n o m = {| m_ns := m_ns m ++ [(n, o)]; m_ctr := m_ctr m ++ [(n, o)] |}.
Proof.
  intros [_ A] F. assert (C : lookup n (m_ctr m) = None) by (rewrite <- A; exact F).
  unfold m_add. rewrite C. unfold ns_set. rewrite F. rewrite (add_fresh _ _ _ C). reflexivity.
Qed.

Lemma magree_app n o m : magree m -> lookup n (m_ns m) = None ->
  magree {| m_ns := m_ns m ++ [(n, o)]; m_ctr := m_ctr m ++ [(n, o)] |}.
Proof.
  intros [N A] F. assert (C : lookup n (m_ctr m) = None) by (rewrite <- A; exact F).
  split; cbn [m_ns m_ctr].
  - rewrite keys_app. cbn [keys map fst]. apply NoDup_app_iff. split; [exact N|].
    split; [constructor; [intros []|constructor]|].
    intros k Hk [<-|[]]. apply lookup_None_keys in C. tauto.
  - intros k. rewrite !lookup_app, A. reflexivity.
Qed.

(* a whole pop (container and namespace in adjacent statements) keeps the views equal *)
Lemma pop_whole n kd m m1 : magree m -> pop_ctr n kd m = Ok m1 ->
  magree (pop_ns n m1) /\ m_ns (pop_ns n m1) = ns_remove n (m_ns m) /\ m_ctr (pop_ns n m1) = ns_remove n (m_ctr m).
Proof.
  intros [N A] H. unfold pop_ctr in H. destruct (lookup n (m_ctr m)) as [o|]; [|discriminate].
  destruct (okind_eqb (o_kind o) kd); [|discriminate]. inversion H; subst. unfold pop_ns. cbn [m_ns m_ctr].
  split; [|split; reflexivity]. split; cbn [m_ns m_ctr].
  - apply keys_remove_NoDup. exact N.
  - intros k. rewrite !lookup_remove, A. reflexivity.
Qed.

(* ---------------------------------------------------------------------------------------------------- histories *)
Lemma mrun_cons m x rest m' inv : mrun m (x :: rest) = Ok (m', inv) ->
  exists m1 i1 i2, mstep m x = Ok (m1, i1) /\ mrun m1 rest = Ok (m', i2) /\ inv = i1 ++ i2.
Proof.
  cbn [mrun]. destruct (mstep m x) as [[m1 i1]|e] eqn:E1; cbn [bind]; [|discriminate].
  cbn [fst snd]. destruct (mrun m1 rest) as [[m2 i2]|e] eqn:E2; cbn [bind]; [|discriminate].
  cbn [fst snd]. intros H. inversion H; subst. exists m1, i1, i2. auto.
Qed.

Lemma mrun_app a : forall m b m' inv, mrun m (a ++ b) = Ok (m', inv) ->
  exists m1 i1 i2, mrun m a = Ok (m1, i1) /\ mrun m1 b = Ok (m', i2) /\ inv = i1 ++ i2.
Proof.
  induction a as [|x r IH]; intros m b m' inv H.
  - exists m, [], inv. cbn [mrun app]. auto.
  - cbn [app] in H. apply mrun_cons in H. destruct H as [m1 [i1 [i2 [Hs [Hr ->]]]]].
    destruct (IH _ _ _ _ Hr) as [m2 [j1 [j2 [Ha [Hb ->]]]]].
    exists m2, (i1 ++ j1), j2. split; [|split; [exact Hb|apply app_assoc]].
    cbn [mrun]. rewrite Hs. cbn [bind fst snd]. rewrite Ha. cbn [bind fst snd]. reflexivity.
Qed.

Lemma mstep_invent m s o m' inv : magree m -> mstep m (MInvent s o) = Ok (m', inv) ->
  exists n, invent s (m_ns m) = Ok n /\ inv = [n] /\ lookup n (m_ns m) = None /\ lookup n (m_ctr m) = None /\
            m' = {| m_ns := m_ns m ++ [(n, o)]; m_ctr := m_ctr m ++ [(n, o)] |}.
Proof.
  intros Ag H. cbn [mstep] in H. destruct (invent s (m_ns m)) as [n|e] eqn:E; cbn [bind] in H; [|discriminate].
  inversion H; subst. exists n. pose proof (invent_fresh _ _ _ E) as F.
  split; [reflexivity|]. split; [reflexivity|]. split; [exact F|]. split; [destruct Ag as [_ A]; rewrite <- A; exact F|].
  apply m_add_fresh; assumption.
Qed.

(* the histories of the repaired code keep the two views equal, and their effect on the namespace is exactly the
   namespace-only history of Model/C05Naming.v: that model loses nothing by forgetting the containers *)
Lemma mrun_refines ops : forallb whole ops = true -> forall m m' inv, magree m -> mrun m ops = Ok (m', inv) ->
  magree m' /\ run (m_ns m) (erase ops) = Ok (m_ns m', inv).
Proof.
  induction ops as [|x rest IH]; intros W m m' inv Ag H.
  - cbn [mrun] in H. inversion H; subst. split; [exact Ag|reflexivity].
  - cbn [forallb] in W. apply andb_true_iff in W. destruct W as [Wx Wr].
    apply mrun_cons in H. destruct H as [m1 [i1 [i2 [Hs [Hr ->]]]]].
    destruct x as [n kd|n|n kd|s o]; try discriminate.
    + cbn [mstep] in Hs. destruct (pop_ctr n kd m) as [m0|e] eqn:P; cbn [bind] in Hs; [|discriminate].
      inversion Hs; subst. destruct (pop_whole _ _ _ _ Ag P) as [Ag1 [En _]].
      destruct (IH Wr _ _ _ Ag1 Hr) as [Ag' R]. split; [exact Ag'|].
      cbn [erase]. unfold run in *. cbn [run_v step_v bind fst snd app]. rewrite <- En, R. reflexivity.
    + destruct (mstep_invent _ _ _ _ _ Ag Hs) as [n [E [-> [F [_ ->]]]]].
      destruct (IH Wr _ _ _ (magree_app n o m Ag F) Hr) as [Ag' R]. split; [exact Ag'|].
      cbn [erase]. unfold run in *. cbn [run_v step_v]. fold (invent s (m_ns m)). rewrite E. cbn [bind fst snd].
      rewrite (add_fresh _ _ _ F). cbn [m_ns] in R. rewrite R. reflexivity.
Qed.

Lemma erase_m_of_op kd ops : erase (map (m_of_op kd) ops) = ops.
Proof. induction ops as [|[n|s o] r IH]; cbn [map m_of_op erase]; [reflexivity| |]; rewrite IH; reflexivity. Qed.

Lemma erase_app a b : erase (a ++ b) = erase a ++ erase b.
Proof.
  induction a as [|x r IH]; [reflexivity|]. destruct x; cbn [app erase]; rewrite IH; reflexivity.
Qed.

Lemma popped_app a b : popped (a ++ b) = popped a ++ popped b.
Proof. induction a as [|[n|s o] r IH]; cbn [app popped]; [reflexivity| |]; rewrite IH; reflexivity. Qed.

Lemma whole_m_of_op kd ops : forallb whole (map (m_of_op kd) ops) = true.
Proof. induction ops as [|[n|s o] r IH]; cbn [map m_of_op forallb whole andb]; auto. Qed.

Lemma whole_instbundle_pass bs : forall id0, forallb whole (instbundle_pass bs id0) = true.
Proof.
  induction bs as [|[ib ms] r IH]; intros id0; [reflexivity|]. cbn [instbundle_pass].
  rewrite forallb_app, whole_m_of_op, IH. reflexivity.
Qed.

Lemma popped_instbundle_pass bs : forall id0, popped (erase (instbundle_pass bs id0)) = map fst bs.
Proof.
  induction bs as [|[ib ms] r IH]; intros id0; [reflexivity|]. cbn [instbundle_pass map fst].
  rewrite erase_app, erase_m_of_op, popped_app, IH. unfold pair_ops. cbn [popped]. rewrite popped_map_invent. reflexivity.
Qed.

Lemma instbundle_pass_app a : forall b id0, exists id1, instbundle_pass (a ++ b) id0 = instbundle_pass a id0 ++ instbundle_pass b id1.
Proof.
  induction a as [|[ib ms] r IH]; intros b id0; [exists id0; reflexivity|]. cbn [app instbundle_pass].
  destruct (IH b (id0 + N.of_nat (List.length ms))%N) as [id1 E]. exists id1. rewrite E, app_assoc. reflexivity.
Qed.
