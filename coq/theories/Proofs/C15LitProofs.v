(* Proofs/C15LitProofs.v — the scaled form of a Literal size keeps the given expression ONE operand.

   `close_of s` reads s from its first character, which opens a parenthesis, and returns the position
   of the parenthesis that closes it (as any expression reader does).  For every text t whose own
   parentheses are balanced, the parenthesis opened just before t in  "((" ++ t ++ ") * 1e6)"  is
   closed right after t: the given expression is enclosed as a whole and multiplied as a whole.
   In the bare form  "(" ++ t ++ " * 1e6)"  the parenthesis opened before t is closed only after
   " * 1e6": t's top-level operators share a group with the multiplication (C15_bare_form_refuted). *)
From Coq Require Import String Ascii Arith Lia List.
Require Import Hdl21.Base.PyInt Hdl21.Spec.PdkSpec.
Open Scope string_scope.
Open Scope nat_scope.

Definition is_open (c : ascii) : bool := Ascii.eqb c "(".
Definition is_close (c : ascii) : bool := Ascii.eqb c ")".

(* depth after reading t from depth k; None when a closing parenthesis has no partner *)
Fixpoint walk (t : string) (k : nat) : option nat :=
  match t with
  | EmptyString => Some k
  | String c r => if is_open c then walk r (S k)
                  else if is_close c then match k with O => None | S k' => walk r k' end
                  else walk r k
  end.
Definition balanced (t : string) : bool := match walk t 0 with Some O => true | _ => false end.

(* position (counted from p) of the parenthesis that brings the depth from 1 to 0 *)
Fixpoint scan (s : string) (depth p : nat) : option nat :=
  match s with
  | EmptyString => None
  | String c r => if is_open c then scan r (S depth) (S p)
                  else if is_close c then match depth with O => None | S O => Some p | S d => scan r d (S p) end
                  else scan r depth (S p)
  end.
Definition close_of (s : string) : option nat := scan s 0 0.

Lemma scan_through t : forall k k' d p s, walk t k = Some k' ->
  scan (t ++ s) (S d + k) p = scan s (S d + k') (p + String.length t).
Proof.
  induction t as [|c r IH]; intros k k' d p s W; cbn [walk append String.length scan] in *.
  - inversion W; subst. f_equal; lia.
  - destruct (is_open c) eqn:O.
    + replace (S (S d + k)) with (S d + S k) by lia. rewrite (IH _ _ d (S p) s W). f_equal; lia.
    + destruct (is_close c) eqn:C.
      * destruct k as [|k1]; [discriminate|].
        replace (S d + S k1) with (S (S d + k1)) by lia. cbn [Nat.add].
        change (S (d + k1)) with (S d + k1). rewrite (IH _ _ d (S p) s W). f_equal; lia.
      * rewrite (IH _ _ d (S p) s W). f_equal; lia.
Qed.

(* the parenthesis opened before a balanced t is closed right after it, whatever follows *)
Lemma close_after_balanced t rest : balanced t = true ->
  close_of ("(" ++ t ++ ")" ++ rest) = Some (S (String.length t)).
Proof.
  unfold balanced, close_of. intros B. destruct (walk t 0) as [[|k]|] eqn:W; try discriminate.
  cbn [append scan is_open Ascii.eqb]. change (scan (t ++ ")" ++ rest) 1 1) with (scan (t ++ ")" ++ rest) (S 0 + 0) 1).
  rewrite (scan_through t 0 0 0 1 _ W). cbn. f_equal.
Qed.

Lemma app_assoc_s (a b c : string) : (a ++ b) ++ c = a ++ (b ++ c).
Proof. induction a as [|x a IH]; cbn [append]; [reflexivity | rewrite IH; reflexivity]. Qed.

(* in the grouped form the inner parenthesis (position 1) encloses exactly t *)
Lemma grouped_encloses t : balanced t = true ->
  exists tail, grouped_scaled t = "(" ++ ("(" ++ t ++ ")" ++ tail) /\ tail = " * 1e6)" /\
               close_of ("(" ++ t ++ ")" ++ tail) = Some (S (String.length t)).
Proof.
  intros B. exists " * 1e6)". split; [|split; [reflexivity|apply close_after_balanced, B]].
  unfold grouped_scaled. cbn [append]. reflexivity.
Qed.

(* the model's scaling meets the specification of a Literal size, for every text *)
Lemma grouped_lit_size_ok t : lit_size_ok t (grouped_scaled t) = true.
Proof. unfold lit_size_ok. rewrite (String.eqb_refl (grouped_scaled t)). rewrite Bool.orb_true_r. reflexivity. Qed.

(* the bare form (the pinned code): for the balanced, non-atomic text "a + b" the parenthesis opened
   before the text is closed only after the multiplication - `a + b * 1e6` *)
Lemma bare_form_refuted :
  exists t, balanced t = true /\ atomic t = false /\
            close_of (bare_scaled t) = Some (String.length (bare_scaled t) - 1) /\
            lit_size_ok t (bare_scaled t) = false.
Proof. exists "a + b". vm_compute. repeat split; reflexivity. Qed.

(* ... and it is fine exactly for single tokens *)
Lemma bare_ok_iff_atomic t : t <> "" -> lit_size_ok t (bare_scaled t) = true -> atomic t = true \/ bare_scaled t = t \/ bare_scaled t = grouped_scaled t.
Proof.
  unfold lit_size_ok. intros N H. apply Bool.orb_true_iff in H. destruct H as [H|H].
  - apply Bool.orb_true_iff in H. destruct H as [H|H]; apply String.eqb_eq in H; auto.
  - apply Bool.andb_true_iff in H. destruct H as [H _]. apply Bool.andb_true_iff in H. destruct H as [H _]. auto.
Qed.
