(* Proofs/C19EProofsStep.v — Spec/Nets.v:step on the module Series / Wrapper builds (Model/C19EDesign.v), for every
   n >= 2, every unit (any number of ports, any widths), every pair of distinct series ports of one width w:
   a unit port bit steps to the bit of the stack (port bit / bit of the private bus) that `series_root` names, and
   that bit is a fixed point; hence two terminal bits are on one net iff they have the same root. *)
Require Import Hdl21.Base.PyInt Hdl21.Spec.PySlice Hdl21.Model.Slice Hdl21.Model.Resolve Hdl21.Base.Design
               Hdl21.Spec.Nets Hdl21.Spec.WfDesign Hdl21.Spec.C01ENets
               Hdl21.Spec.C19Topology Hdl21.Model.C19Series Hdl21.Proofs.ResolveProofs Hdl21.Proofs.C19Proofs
               Hdl21.Model.C19EDesign.
From Coq Require String.
Open Scope string_scope.
Open Scope Z_scope.

(* ---------------- one net = one root, for every design ---------------- *)
Lemma iter_step_root d r : Nets.step d r = Ok r ->
  forall m x z, Nets.step d x = Ok r -> iter_step d m x = Ok z -> Nets.step d z = Ok r.
Proof.
  intros Hr m. induction m as [|m IH]; intros x z Hx H; cbn [iter_step] in H.
  - inversion H; subst. exact Hx.
  - rewrite Hx in H. cbn [bind] in H. exact (IH r z Hr H).
Qed.

Lemma same_net_roots d x y rx ry :
  Nets.step d x = Ok rx -> Nets.step d rx = Ok rx -> Nets.step d y = Ok ry -> Nets.step d ry = Ok ry ->
  (same_net d x y <-> rx = ry).
Proof.
  intros Hx Hrx Hy Hry. split.
  - intros [m [n [z [H1 H2]]]].
    pose proof (iter_step_root d rx Hrx m x z Hx H1) as A. pose proof (iter_step_root d ry Hry n y z Hy H2) as B.
    rewrite A in B. inversion B. reflexivity.
  - intros <-. exists 1%nat, 1%nat, rx. cbn [iter_step]. rewrite Hx, Hy. cbn [bind]. split; reflexivity.
Qed.

(* ---------------- the hypotheses, unpacked ---------------- *)
Lemma nodup_names_same l : WfDesign.nodup_names l = C19Series.nodup_names l.
Proof. induction l as [|x t IH]; [reflexivity|]. cbn [WfDesign.nodup_names C19Series.nodup_names]. rewrite IH. reflexivity. Qed.

Lemma series_ok_inv nm io a b w n : series_ok nm io a b w n = true ->
  (forall p wp, In (p, wp) io -> 1 <= wp) /\ C19Series.nodup_names (map fst io) = true /\ a <> b /\
  assoc a io = Some w /\ assoc b io = Some w /\ ~ In (sn_i nm) (map fst io) /\ ~ In (sn_units nm) (map fst io) /\
  sn_units nm <> sn_i nm /\ sn_mod nm <> "" /\ 2 <= n.
Proof.
  unfold series_ok. intros H.
  apply andb_prop in H. destruct H as [H H9]. apply andb_prop in H. destruct H as [H H8].
  apply andb_prop in H. destruct H as [H H7]. apply andb_prop in H. destruct H as [H H6].
  apply andb_prop in H. destruct H as [H H5]. apply andb_prop in H. destruct H as [H H4].
  apply andb_prop in H. destruct H as [H H3]. apply andb_prop in H. destruct H as [H1 H2].
  split.
  { intros p wp Hin. rewrite forallb_forall in H1. specialize (H1 (p, wp) Hin). cbn [snd] in H1. lia. }
  split; [exact H2|]. split.
  { intros ->. rewrite String.eqb_refl in H3. discriminate. }
  destruct (assoc a io) as [wa|]; [|discriminate]. destruct (assoc b io) as [wb|]; [|discriminate].
  apply andb_prop in H4. destruct H4 as [Ha Hb].
  split; [f_equal; lia|]. split; [f_equal; lia|].
  split. { apply mem_false_iff. apply negb_true_iff. exact H5. }
  split. { apply mem_false_iff. apply negb_true_iff. exact H6. }
  split. { intros E. rewrite E, String.eqb_refl in H7. discriminate. }
  split. { intros E. rewrite E in H8. discriminate. }
  lia.
Qed.

Lemma wrapper_ok_inv nm io : wrapper_ok nm io = true ->
  (forall p wp, In (p, wp) io -> 1 <= wp) /\ C19Series.nodup_names (map fst io) = true /\
  ~ In (sn_units nm) (map fst io) /\ sn_mod nm <> "".
Proof.
  unfold wrapper_ok. intros H.
  apply andb_prop in H. destruct H as [H H4]. apply andb_prop in H. destruct H as [H H3].
  apply andb_prop in H. destruct H as [H1 H2].
  split.
  { intros p wp Hin. rewrite forallb_forall in H1. specialize (H1 (p, wp) Hin). cbn [snd] in H1. lia. }
  split; [exact H2|].
  split. { apply mem_false_iff. apply negb_true_iff. exact H3. }
  intros E. rewrite E in H4. discriminate.
Qed.

(* ---------------- connections and leaves of the generated module ---------------- *)
Lemma series_conn_w_key iid iw a b e : fst (series_conn_w iid iw a b e) = fst (snd e).
Proof. destruct e as [id [p w]]. reflexivity. Qed.

Lemma series_conn_lookup io iid iw a b p wp : C19Series.nodup_names (map fst io) = true -> In (p, wp) io ->
  exists id, In (id, (p, wp)) (number io 0%N) /\
    assoc p (map (series_conn_w iid iw a b) (number io 0%N)) = Some (snd (series_conn_w iid iw a b (id, (p, wp)))).
Proof.
  intros Hnd Hin. destruct (In_number io (p, wp) Hin 0%N) as [id Hid]. exists id. split; [exact Hid|].
  exact (assoc_number (series_conn_w iid iw a b) io (series_conn_w_key iid iw a b) 0%N id p wp Hnd Hid).
Qed.

Definition wrapper_conn (e : N * (name * Z)) : name * sx := (fst (snd e), XSig (fst e) (snd (snd e))).

Lemma wrapper_conn_lookup io p wp : C19Series.nodup_names (map fst io) = true -> In (p, wp) io ->
  exists id, In (id, (p, wp)) (number io 0%N) /\ assoc p (map wrapper_conn (number io 0%N)) = Some (XSig id wp).
Proof.
  intros Hnd Hin. destruct (In_number io (p, wp) Hin 0%N) as [id Hid]. exists id. split; [exact Hid|].
  exact (assoc_number wrapper_conn io (fun e => eq_refl) 0%N id p wp Hnd Hid).
Qed.

Lemma leaf_of_port sigs extra id p wp : In (id, (p, wp)) (number sigs 0%N) ->
  assocN id (leaves_of (sigs ++ extra)) = Some (LSig p).
Proof.
  intros H. unfold leaves_of.
  apply (assocN_number (fun x : name * Z => LSig (fst x)) (sigs ++ extra) 0%N id (p, wp)).
  rewrite number_app. apply in_or_app. left. exact H.
Qed.

Lemma leaf_of_port0 sigs id p wp : In (id, (p, wp)) (number sigs 0%N) -> assocN id (leaves_of sigs) = Some (LSig p).
Proof. intros H. pose proof (leaf_of_port sigs [] id p wp H) as A. rewrite app_nil_r in A. exact A. Qed.

Lemma leaf_of_bus io iname iw : assocN (N.of_nat (List.length io)) (leaves_of (io ++ [(iname, iw)])) = Some (LSig iname).
Proof.
  unfold leaves_of.
  apply (assocN_number (fun x : name * Z => LSig (fst x)) (io ++ [(iname, iw)]) 0%N (N.of_nat (List.length io)) (iname, iw)).
  rewrite number_app. apply in_or_app. right. left. reflexivity.
Qed.

(* ---------------- picking a bit of Concat(x, y) ---------------- *)
Lemma zlen_cat2 idA wA idB wB : 0 <= wA -> 0 <= wB -> zlen (sig_bits idA wA ++ sig_bits idB wB ++ []) = wA + wB.
Proof. intros. unfold zlen, sig_bits. rewrite !app_length, !map_length, !iota_length. cbn [List.length]. lia. Qed.

Lemma pick_cat2 idA wA idB wB j : 1 <= wA -> 1 <= wB -> 0 <= j < wA + wB ->
  pick (sig_bits idA wA ++ sig_bits idB wB ++ []) j = Ok (if j <? wA then (idA, j) else (idB, j - wA)).
Proof.
  intros HA HB Hj. rewrite app_nil_r. rewrite pick_app by lia. rewrite sig_bits_len by lia.
  destruct (j <? wA) eqn:E; apply pick_sig_bits; lia.
Qed.

Lemma xbits_cat2 idA wA idB wB : 1 <= wA -> 1 <= wB ->
  xbits (XConcat [XSig idA wA; XSig idB wB]) = Ok (sig_bits idA wA ++ sig_bits idB wB ++ []).
Proof.
  intros HA HB. cbn [xbits map cat_results].
  destruct (wA <? 1) eqn:E1; [lia|]. destruct (wB <? 1) eqn:E2; [lia|]. reflexivity.
Qed.

Lemma xbits_sig id w : 1 <= w -> xbits (XSig id w) = Ok (sig_bits id w).
Proof. intros H. cbn [xbits]. destruct (w <? 1) eqn:E; [lia|]. reflexivity. Qed.

(* ---------------- which bit of its connection a unit port bit takes ---------------- *)
Lemma series_conn_bit nm io a b w n e p wp k :
  series_ok nm io a b w n = true -> In (p, wp) io -> 0 <= k < wp -> 0 <= e < n ->
  exists id, In (id, (p, wp)) (number io 0%N) /\
  conn_bit (series_design nm io a b w n) (series_inst nm io a b n ((n - 1) * w)) e p k =
    Ok (Some (if String.eqb p b then (if e =? n - 1 then (id, k) else (N.of_nat (List.length io), e * w + k))
              else if String.eqb p a then (if e =? 0 then (id, k) else (N.of_nat (List.length io), (e - 1) * w + k))
              else (id, k))).
Proof.
  intros Hok Hin Hk He.
  destruct (series_ok_inv _ _ _ _ _ _ Hok) as [Hw [Hnd [Hab [Ha [Hb [Hi [Hu [Hui [Hm Hn]]]]]]]]].
  destruct (series_conn_lookup io (N.of_nat (List.length io)) ((n - 1) * w) a b p wp Hnd Hin) as [id [Hid Hc]].
  exists id. split; [exact Hid|].
  pose proof (Hw p wp Hin) as Hwp.
  assert (1 <= w) as Hw1 by (apply (Hw a); apply assoc_In; exact Ha).
  assert (1 <= (n - 1) * w) as Hiw by nia.
  assert (0 <= e * w) as Hew by (apply Z.mul_nonneg_nonneg; lia).
  assert ((e + 1) * w <= n * w) as Hew1 by (apply Z.mul_le_mono_nonneg_r; lia).
  unfold conn_bit. cbn [i_conns series_inst]. rewrite Hc.
  unfold port_width. cbn [i_of series_inst target_ports bind]. rewrite (assoc_In_nodup io p wp Hnd Hin). cbn [ofopt].
  cbn [series_conn_w snd].
  destruct (String.eqb p b) eqn:Epb; [|destruct (String.eqb p a) eqn:Epa].
  - apply String.eqb_eq in Epb. subst p.
    assert (wp = w) as ->. { pose proof (assoc_In_nodup io b wp Hnd Hin) as A. rewrite Hb in A. inversion A; reflexivity. }
    rewrite xbits_cat2 by lia. cbn [bind]. rewrite zlen_cat2 by lia. cbn [i_n series_inst].
    destruct ((k <? 0) || (w <=? k)) eqn:E0; [lia|].
    destruct ((n - 1) * w + w =? w) eqn:E1; [lia|].
    destruct ((0 <? n) && ((n - 1) * w + w =? n * w)) eqn:E2; [|lia].
    rewrite pick_cat2 by lia. cbn [bind].
    destruct (e =? n - 1) eqn:E3.
    + assert (e = n - 1) as -> by lia. destruct ((n - 1) * w + k <? (n - 1) * w) eqn:E4; [lia|].
      do 3 f_equal. lia.
    + assert ((e + 1) * w <= (n - 1) * w) by (apply Z.mul_le_mono_nonneg_r; lia).
      destruct (e * w + k <? (n - 1) * w) eqn:E4; [reflexivity|lia].
  - apply String.eqb_eq in Epa. subst p.
    assert (wp = w) as ->. { pose proof (assoc_In_nodup io a wp Hnd Hin) as A. rewrite Ha in A. inversion A; reflexivity. }
    rewrite xbits_cat2 by lia. cbn [bind]. rewrite zlen_cat2 by lia. cbn [i_n series_inst].
    destruct ((k <? 0) || (w <=? k)) eqn:E0; [lia|].
    destruct (w + (n - 1) * w =? w) eqn:E1; [lia|].
    destruct ((0 <? n) && (w + (n - 1) * w =? n * w)) eqn:E2; [|lia].
    rewrite pick_cat2 by lia. cbn [bind].
    destruct (e =? 0) eqn:E3.
    + assert (e = 0) as -> by lia. destruct (0 * w + k <? w) eqn:E4; [|lia]. reflexivity.
    + assert (1 * w <= e * w) by (apply Z.mul_le_mono_nonneg_r; lia).
      destruct (e * w + k <? w) eqn:E4; [lia|]. do 3 f_equal. lia.
  - rewrite xbits_sig by lia. cbn [bind]. rewrite sig_bits_len by lia.
    destruct ((k <? 0) || (wp <=? k)) eqn:E0; [lia|]. rewrite Z.eqb_refl.
    rewrite pick_sig_bits by lia. reflexivity.
Qed.

Lemma wrapper_conn_bit nm io p wp k :
  wrapper_ok nm io = true -> In (p, wp) io -> 0 <= k < wp ->
  exists id, In (id, (p, wp)) (number io 0%N) /\
  conn_bit (wrapper_design nm io) (wrapper_inst nm io) 0 p k = Ok (Some (id, k)).
Proof.
  intros Hok Hin Hk. destruct (wrapper_ok_inv _ _ Hok) as [Hw [Hnd [Hu Hm]]].
  destruct (wrapper_conn_lookup io p wp Hnd Hin) as [id [Hid Hc]]. exists id. split; [exact Hid|].
  pose proof (Hw p wp Hin) as Hwp.
  unfold conn_bit. cbn [i_conns wrapper_inst]. change (fun e : N * (name * Z) => (fst (snd e), XSig (fst e) (snd (snd e)))) with wrapper_conn.
  rewrite Hc. unfold port_width. cbn [i_of wrapper_inst target_ports bind]. rewrite (assoc_In_nodup io p wp Hnd Hin). cbn [ofopt].
  rewrite xbits_sig by lia. cbn [bind]. rewrite sig_bits_len by lia.
  destruct ((k <? 0) || (wp <=? k)) eqn:E0; [lia|]. rewrite Z.eqb_refl.
  rewrite pick_sig_bits by lia. reflexivity.
Qed.

(* ---------------- the step of a unit port bit ---------------- *)
Lemma series_step nm io a b w n e p wp k :
  series_ok nm io a b w n = true -> In (p, wp) io -> 0 <= k < wp -> 0 <= e < n ->
  Nets.step (series_design nm io a b w n) (NPort [] (sn_units nm) e p k)
  = Ok (series_root nm a b w n (NPort [] (sn_units nm) e p k)).
Proof.
  intros Hok Hin Hk He. destruct (series_conn_bit nm io a b w n e p wp k Hok Hin Hk He) as [id [Hid Hc]].
  unfold Nets.step.
  change (mod_at (series_design nm io a b w n) []) with (Ok (series_top nm io a b n ((n - 1) * w))).
  cbn [bind m_insts series_top find_inst].
  change (i_name (series_inst nm io a b n ((n - 1) * w))) with (sn_units nm).
  rewrite String.eqb_refl. cbn [ofopt bind]. rewrite Hc. cbn [bind series_root].
  change (m_leaves (series_top nm io a b n ((n - 1) * w))) with (leaves_of (io ++ [(sn_i nm, (n - 1) * w)])).
  destruct (String.eqb p b) eqn:Epb; [|destruct (String.eqb p a) eqn:Epa].
  - destruct (e =? n - 1) eqn:E.
    + rewrite (leaf_of_port io _ id p wp Hid). cbn [ofopt bind]. apply String.eqb_eq in Epb. subst p. reflexivity.
    + rewrite leaf_of_bus. reflexivity.
  - destruct (e =? 0) eqn:E.
    + rewrite (leaf_of_port io _ id p wp Hid). cbn [ofopt bind]. apply String.eqb_eq in Epa. subst p. reflexivity.
    + rewrite leaf_of_bus. reflexivity.
  - rewrite (leaf_of_port io _ id p wp Hid). reflexivity.
Qed.

Lemma wrapper_step nm io p wp k :
  wrapper_ok nm io = true -> In (p, wp) io -> 0 <= k < wp ->
  Nets.step (wrapper_design nm io) (NPort [] (sn_units nm) 0 p k) = Ok (NSig [] p k).
Proof.
  intros Hok Hin Hk. destruct (wrapper_conn_bit nm io p wp k Hok Hin Hk) as [id [Hid Hc]].
  unfold Nets.step.
  change (mod_at (wrapper_design nm io) []) with (Ok (wrapper_top nm io)).
  cbn [bind m_insts wrapper_top find_inst].
  change (i_name (wrapper_inst nm io)) with (sn_units nm).
  rewrite String.eqb_refl. cbn [ofopt bind]. rewrite Hc. cbn [bind]. change (m_leaves (wrapper_top nm io)) with (leaves_of io).
  rewrite (leaf_of_port0 io id p wp Hid). reflexivity.
Qed.

Lemma step_top_sig d s k : Nets.step d (NSig [] s k) = Ok (NSig [] s k).
Proof. reflexivity. Qed.

Lemma series_root_sig nm a b w n i e p k : exists s j, series_root nm a b w n (NPort [] i e p k) = NSig [] s j.
Proof.
  cbn [series_root]. destruct (String.eqb p b); [destruct (e =? n - 1)|destruct (String.eqb p a); [destruct (e =? 0)|]]; eauto.
Qed.

(* every terminal bit of the stack steps to its root, and the root stays *)
Lemma series_term_step nm io a b w n x : series_ok nm io a b w n = true -> stack_term nm io n x ->
  Nets.step (series_design nm io a b w n) x = Ok (series_root nm a b w n x) /\
  Nets.step (series_design nm io a b w n) (series_root nm a b w n x) = Ok (series_root nm a b w n x).
Proof.
  intros Hok [[p [wp [k [-> [Hin Hk]]]]]|[e [p [wp [k [-> [Hin [Hk He]]]]]]]].
  - split; reflexivity.
  - split; [exact (series_step nm io a b w n e p wp k Hok Hin Hk He)|].
    destruct (series_root_sig nm a b w n (sn_units nm) e p k) as [s [j ->]]. reflexivity.
Qed.

Theorem series_same_net nm io a b w n x y :
  series_ok nm io a b w n = true -> stack_term nm io n x -> stack_term nm io n y ->
  (same_net (series_design nm io a b w n) x y <-> series_root nm a b w n x = series_root nm a b w n y).
Proof.
  intros Hok Hx Hy. destruct (series_term_step nm io a b w n x Hok Hx) as [A1 A2].
  destruct (series_term_step nm io a b w n y Hok Hy) as [B1 B2]. exact (same_net_roots _ x y _ _ A1 A2 B1 B2).
Qed.

Lemma wrapper_term_step nm io x : wrapper_ok nm io = true -> wrapper_term nm io x ->
  Nets.step (wrapper_design nm io) x = Ok (wrapper_root x) /\
  Nets.step (wrapper_design nm io) (wrapper_root x) = Ok (wrapper_root x).
Proof.
  intros Hok [[p [wp [k [-> [Hin Hk]]]]]|[p [wp [k [-> [Hin Hk]]]]]].
  - split; reflexivity.
  - split; [exact (wrapper_step nm io p wp k Hok Hin Hk)|reflexivity].
Qed.

Theorem wrapper_same_net nm io x y :
  wrapper_ok nm io = true -> wrapper_term nm io x -> wrapper_term nm io y ->
  (same_net (wrapper_design nm io) x y <-> wrapper_root x = wrapper_root y).
Proof.
  intros Hok Hx Hy. destruct (wrapper_term_step nm io x Hok Hx) as [A1 A2].
  destruct (wrapper_term_step nm io y Hok Hy) as [B1 B2]. exact (same_net_roots _ x y _ _ A1 A2 B1 B2).
Qed.
