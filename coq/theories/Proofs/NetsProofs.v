(* Proofs/NetsProofs.v — the executable net relation of Spec/Nets.v decides the equivalence closure
   of the one-step relation (on every finite closed node set on which `step` succeeds). *)
Require Import Hdl21.Base.PyInt Hdl21.Base.Design Hdl21.Spec.Nets Hdl21.Proofs.FunGraph.

Lemma path_eqb_eq a : forall b, path_eqb a b = true <-> a = b.
Proof.
  induction a as [|[i e] a IH]; intros [|[j f] b]; cbn [path_eqb]; split; intros H; try reflexivity; try discriminate.
  - apply andb_prop in H. destruct H as [H H3]. apply andb_prop in H. destruct H as [H1 H2].
    apply String.eqb_eq in H1. apply Z.eqb_eq in H2. apply IH in H3. subst. reflexivity.
  - inversion H; subst. rewrite String.eqb_refl, Z.eqb_refl. cbn. apply IH. reflexivity.
Qed.

Lemma node_eqb_eq a b : node_eqb a b = true <-> a = b.
Proof.
  destruct a, b; cbn [node_eqb]; split; intros H; try discriminate.
  - repeat (apply andb_prop in H; destruct H as [H ?]).
    apply path_eqb_eq in H. apply String.eqb_eq in H1. apply Z.eqb_eq in H0. subst. reflexivity.
  - inversion H; subst. rewrite String.eqb_refl, Z.eqb_refl. rewrite (proj2 (path_eqb_eq _ _) eq_refl). reflexivity.
  - repeat (apply andb_prop in H; destruct H as [H ?]).
    apply path_eqb_eq in H. apply String.eqb_eq in H3. apply Z.eqb_eq in H2. apply String.eqb_eq in H1. apply Z.eqb_eq in H0.
    subst. reflexivity.
  - inversion H; subst. rewrite !String.eqb_refl, !Z.eqb_refl. rewrite (proj2 (path_eqb_eq _ _) eq_refl). reflexivity.
  - repeat (apply andb_prop in H; destruct H as [H ?]).
    apply path_eqb_eq in H. apply N.eqb_eq in H1. apply Z.eqb_eq in H0. subst. reflexivity.
  - inversion H; subst. rewrite N.eqb_refl, Z.eqb_refl. rewrite (proj2 (path_eqb_eq _ _) eq_refl). reflexivity.
Qed.

Section Decide.
Variable d : design.
Variable f : node -> node.
Variable nodes : list node.
Hypothesis step_f : forall x, In x nodes -> step d x = Ok (f x).
Hypothesis closed : forall x, In x nodes -> In (f x) nodes.

Lemma orbit_orbitf fuel : forall x, In x nodes -> orbit d fuel x = Ok (orbitf node f node_eqb fuel x).
Proof.
  induction fuel as [|k IH]; intros x Hx; cbn [orbit orbitf]; [reflexivity|].
  rewrite (step_f x Hx). cbn [bind]. destruct (node_eqb (f x) x); [reflexivity|].
  rewrite IH by (apply closed; exact Hx). reflexivity.
Qed.

(* two nodes are joined by the design's connections (equivalence closure of "bit k of a port ~ bit k of
   what is connected to it") iff the orbits computed by Spec/Nets.v meet *)
Theorem same_net_decided fuel x y : (Datatypes.length nodes <= fuel)%nat -> In x nodes -> In y nodes ->
  ((exists ox oy, orbit d fuel x = Ok ox /\ orbit d fuel y = Ok oy /\ Nets.meets ox oy = true) <-> conn node f x y).
Proof.
  intros Hf Hx Hy. rewrite <- (meets_iff node f node_eqb node_eqb_eq nodes closed fuel x y Hf Hx Hy).
  rewrite !orbit_orbitf by assumption. split.
  - intros [ox [oy [H1 [H2 H3]]]]. inversion H1; inversion H2; subst. exact H3.
  - intros H. eauto.
Qed.
End Decide.
