(* Proofs/C02EProofsAccept.v — the checking passes accept what they should: a valid design of the fragment of C01E
   passes the hierarchy and Orphanage checks as written, and the intermediate designs (invariant `wfs` of Proofs/C01EProofsWfs.v:
   valid, signals only, every port connected) pass ConnTypes, Orphanage and MarkModules.  With the totality of the rewriting
   passes (Proofs/C01EProofsEnd.v:pipeline_total) the checked pipeline rejects a valid design only through flatname's limit. *)
From Coq Require Import String.
Require Import Hdl21.Base.PyInt Hdl21.Spec.PySlice Hdl21.Model.Slice Hdl21.Model.Resolve Hdl21.Base.Design
               Hdl21.Spec.Nets Hdl21.Spec.WfDesign Hdl21.Spec.C01ENets Hdl21.Base.Package Hdl21.Base.PrimTable
               Hdl21.Model.Checks Hdl21.Model.C02Checks Hdl21.Model.C01EElab Hdl21.Model.C02EPipeline
               Hdl21.Proofs.ResolveProofs Hdl21.Proofs.ChecksProofs Hdl21.Proofs.C02Proofs
               Hdl21.Proofs.C01EProofsBase Hdl21.Proofs.C01EProofsPass Hdl21.Proofs.C01EProofsWfs
               Hdl21.Proofs.C01EProofsPortRefsD Hdl21.Proofs.C01EProofsArrays
               Hdl21.Proofs.C01EProofsSlices Hdl21.Proofs.C01EProofsExport Hdl21.Proofs.C01EProofsEnd
               Hdl21.Proofs.C02EProofsBase Hdl21.Proofs.C02EProofsPortRefs.
Open Scope Z_scope.

(* ------------------------------------------------------------------------------------------ Orphanage *)
Lemma orphan_of_leaves self m e :
  (forall lw, In lw (sx_leaves e) -> orphan_ok self (leaf_oconn self m (fst lw)) = true) -> orphan_ok self (oconn_e self m e) = true.
Proof.
  induction e as [id w|p ix IH|ps IH] using sx_ind'; cbn [oconn_e orphan_ok sx_leaves]; intros H.
  - apply (H (id, w)). left. reflexivity.
  - apply IH. exact H.
  - induction IH as [|p ps Hp _ IHps]; cbn [map forallb concat] in *; [reflexivity|]. apply andb_true_intro. split.
    + apply Hp. intros lw Hl. apply H. apply in_or_app. left. exact Hl.
    + apply IHps. intros lw Hl. apply H. apply in_or_app. right. exact Hl.
Qed.

Lemma orphanage_intro self m :
  (forall x c lw, In x (m_insts m) -> In c (i_conns x) -> In lw (sx_leaves (snd c)) ->
     orphan_ok self (leaf_oconn self m (fst lw)) = true) -> orphanage_check self m = Ok tt.
Proof.
  intros H. unfold orphanage_check. apply check_true. unfold orphanage_module. apply andb_true_intro. split.
  - apply forallb_forall. intros o Ho. apply in_map_iff in Ho. destruct Ho as [n [<- _]]. cbn [owned_by]. apply Nat.eqb_refl.
  - apply forallb_forall. intros l Hl. apply in_map_iff in Hl. destruct Hl as [x [<- Hx]]. apply forallb_forall. intros o Ho.
    apply in_map_iff in Ho. destruct Ho as [c [<- Hc]]. apply orphan_of_leaves. intros lw Hlw. eapply H; eassumption.
Qed.

Lemma wf_orphanage d : wf_design d = Ok tt -> orphanage_design d = Ok tt.
Proof.
  intros Hwf. destruct (wf_design_inv _ Hwf) as [_ [_ Hmods]]. apply each_module_intro. intros k m Hk.
  apply orphanage_intro. intros x c lw Hx Hc Hl.
  destruct (wf_module_inv _ _ _ (Hmods k m Hk)) as [_ [_ [_ Hi]]]. destruct (wf_inst_inv _ _ _ _ (Hi x Hx)) as [_ [ports [_ [_ [Hcs _]]]]].
  destruct (wf_conn_inv _ _ _ _ _ (Hcs c Hc)) as [_ [_ [Hlv _]]]. destruct (wf_leaf_inv _ _ _ (Hlv lw Hl)) as [lf [Hlf Hk']].
  unfold leaf_oconn. rewrite Hlf. destruct lf as [s|i p|s]; cbn [orphan_ok owned_by].
  - rewrite Hk'. apply Nat.eqb_refl.
  - destruct Hk' as [y [Hy _]]. rewrite Hy. apply Nat.eqb_refl.
  - reflexivity.
Qed.

Lemma wf_hier d : wf_design d = Ok tt -> hier_design d = Ok tt.
Proof.
  intros Hwf. destruct (wf_design_inv _ Hwf) as [_ [_ Hmods]]. apply each_module_intro. intros k m Hk.
  unfold hier_module. apply all_ok_intro. intros x Hx.
  destruct (wf_module_inv _ _ _ (Hmods k m Hk)) as [_ [_ [_ Hi]]]. destruct (wf_inst_inv _ _ _ _ (Hi x Hx)) as [Ho _].
  destruct (i_of x); [|reflexivity]. apply check_true. apply Nat.ltb_lt. exact Ho.
Qed.

Lemma wfs_orphanage d : wfs d -> orphanage_design d = Ok tt.
Proof.
  intros [_ [_ Hm]]. apply each_module_intro. intros k m Hk. apply orphanage_intro. intros x c lw Hx Hc Hl.
  destruct (Hm k m Hk) as [_ [_ [_ Hi]]]. rewrite Forall_forall in Hi. destruct (Hi x Hx) as [_ [ports [_ [_ [Hcs _]]]]].
  rewrite Forall_forall in Hcs. destruct (Hcs c Hc) as [w [cw [_ [_ [Hlv _]]]]]. rewrite Forall_forall in Hlv.
  destruct (Hlv lw Hl) as [s [H1 H2]]. unfold leaf_oconn. rewrite H1, H2. cbn [orphan_ok owned_by]. apply Nat.eqb_refl.
Qed.

Lemma wfs_mark d : wfs d -> mark_design d = Ok tt.
Proof.
  intros [_ [_ Hm]]. apply each_module_intro. intros k m Hk. destruct (Hm k m Hk) as [Hn _]. unfold mark_check. apply check_true.
  apply negb_true_iff. apply not_true_is_false. intros E. apply String.eqb_eq in E. contradiction.
Qed.

(* ------------------------------------------------------------------------------------------ ConnTypes *)
Lemma wfs_ports_nodup xi d k m x ports : wfs d -> xinfo_ok xi d = true -> nth_error (d_mods d) k = Some m -> In x (m_insts m) ->
  target_ports d (i_of x) = Ok ports -> NoDup (map fst ports).
Proof.
  intros [_ [_ Hm]] Hxi Hk Hx Hp. destruct (i_of x) as [j|dev dports] eqn:Eo; cbn [target_ports] in Hp.
  - destruct (nth_mod d j) as [mj|] eqn:Ej; cbn [bind] in Hp; [|discriminate]. inversion Hp; subst ports.
    destruct (Hm j mj (proj1 (nth_mod_nth _ _ _) Ej)) as [_ [Hnd _]]. unfold mod_names in Hnd. apply NoDup_app_l in Hnd. exact Hnd.
  - inversion Hp; subst ports. destruct (xinfo_dev xi d k m x dev dports Hxi (proj2 (nth_mod_nth _ _ _) Hk) Hx Eo) as [v [e [_ [_ [_ [Hnd _]]]]]]. exact Hnd.
Qed.

Lemma leaf_ok_ct_width m e : Forall (leaf_ok m) (sx_leaves e) -> ct_width m e = xwidth e.
Proof.
  intros H. unfold ct_width, leaf_at. destruct e as [id w|p ix|ps]; try reflexivity.
  cbn [sx_leaves] in H. inversion H as [|? ? [s [Hs _]] _]; subst. cbn [fst] in Hs. rewrite Hs. reflexivity.
Qed.

Lemma wfs_conntypes xi d : wfs d -> xinfo_ok xi d = true -> conntypes_design d = Ok tt.
Proof.
  intros W Hxi. pose proof W as [_ [_ Hm]]. apply each_module_intro. intros k m Hk. unfold conntypes_check. apply all_ok_intro. intros x Hx.
  unfold conntypes_inst. destruct (single x) eqn:Hs; [|reflexivity].
  destruct (Hm k m Hk) as [_ [_ [_ Hi]]]. rewrite Forall_forall in Hi. destruct (Hi x Hx) as [_ [ports [Hp [Hnd [Hcs Hall]]]]].
  rewrite Hp. cbn [bind]. rewrite Forall_forall in Hcs.
  destruct (traverse_total (fun c : name * sx => w <- ct_width m (snd c) ;; Ok (fst c, w)) (i_conns x)) as [cws Hcw].
  { intros c Hc. destruct (Hcs c Hc) as [w [cw [_ [_ [Hlv [Hxw _]]]]]]. rewrite (leaf_ok_ct_width m _ Hlv), Hxw. cbn [bind]. eauto. }
  unfold ct_widths. rewrite Hcw. cbn [bind]. destruct (ct_widths_assoc _ _ _ Hcw) as [Hkeys Hlook].
  apply check_true. pose proof (wfs_ports_nodup xi d k m x ports W Hxi Hk Hx Hp) as Hpn.
  apply check_instance_spec; [apply nodup_names_NoDup; exact Hpn|rewrite Hkeys; apply nodup_names_NoDup; exact Hnd|]. split.
  - intros p w Hpw. specialize (Hall (p, w) (assoc_In _ _ _ Hpw)). cbn [fst] in Hall. pose proof (Hlook p) as L.
    destruct (assoc p (i_conns x)) as [e|] eqn:Ea; [|congruence]. destruct L as [w' [Hw' Hcws]].
    destruct (Hcs (p, e) (assoc_In _ _ _ Ea)) as [w2 [cw [Hw2 [_ [Hlv [Hxw Hcase]]]]]]. cbn [fst snd] in *.
    rewrite (leaf_ok_ct_width m _ Hlv), Hxw in Hw'. inversion Hw'; subst w'. rewrite Hpw in Hw2. inversion Hw2; subst w2.
    rewrite Hcws. f_equal. unfold single in Hs. lia.
  - intros p Hin. rewrite Hkeys in Hin. apply in_map_iff in Hin. destruct Hin as [c [<- Hc]].
    destruct (Hcs c Hc) as [w [cw [Hw _]]]. apply in_fst_assoc. eauto.
Qed.

(* ------------------------------------------------------------------------------------------ the checked pipeline accepts valid designs *)
Theorem accepts_valid xi d : wf_design d = Ok tt -> frag_ok d = true -> xinfo_ok xi d = true ->
  (exists p, checked_pipeline xi d = Ok p) \/ checked_pipeline xi d = Error EName.
Proof.
  intros Hwf Hfr Hxi. unfold checked_pipeline, checked_elab.
  rewrite (wf_hier d Hwf). cbn [bind]. rewrite (wf_orphanage d Hwf). cbn [bind].
  destruct (portrefs_total xi d Hwf Hfr Hxi) as [[d1 H1]|H1]; rewrite H1; cbn [bind]; [|right; reflexivity].
  pose proof (portrefs_wfs xi d d1 Hwf Hfr Hxi H1) as W1. pose proof (portrefs_xinfo xi d d1 H1 Hxi) as X1.
  rewrite (wfs_conntypes xi d1 W1 X1). cbn [bind].
  destruct (arrays_total d1 W1) as [[d2 H2]|H2]; rewrite H2; cbn [bind]; [|right; reflexivity].
  destruct (arrays_wfs d1 d2 W1 H2) as [W2 NA2]. destruct (slices_total d2 W2 NA2) as [d3 H3]. rewrite H3. cbn [bind].
  destruct (slices_wfs d2 d3 W2 H3) as [W3 [NA3 R3]].
  pose proof (slices_xinfo xi d2 d3 H3 (arrays_xinfo xi d1 d2 H2 X1)) as X3.
  rewrite (wfs_conntypes xi d3 W3 X3). cbn [bind]. rewrite (wfs_orphanage d3 W3). cbn [bind]. rewrite (wfs_mark d3 W3). cbn [bind].
  destruct (export_sound xi d3 W3 NA3 R3 X3) as [p [_ [_ [Hp _]]]]. left. eauto.
Qed.
