(* Proofs/C04GroupComplete.v — group discovery is complete (a group is closed under the final mapping:
   no net is split) and total (the fuel `S (number of ports)` is never exhausted). *)
Require Import Hdl21.Base.PyInt Hdl21.Model.C04ConnOps Hdl21.Spec.C04LastWrite Hdl21.Proofs.C04Proofs
               Hdl21.Model.C04Groups Hdl21.Proofs.C04GroupProofs.

Lemma gmem_In x g : gmem x g = true <-> In x g.
Proof.
  unfold gmem. rewrite existsb_exists. split.
  - intros [y [Hy E]]. apply gitem_eqb_eq in E. subst. exact Hy.
  - intros H. exists x. split; [exact H|]. apply gitem_eqb_eq. reflexivity.
Qed.

Lemma In_gadd_iff x y g : In x (gadd y g) <-> x = y \/ In x g.
Proof.
  split; [apply In_gadd|]. unfold gadd. destruct (gmem y g) eqn:E.
  - apply gmem_In in E. intros [->|H]; assumption.
  - rewrite in_app_iff. simpl. intros [->|H]; auto.
Qed.

(* r has everything the final mapping ties to it inside g *)
Definition closed (s : state) (inmod : Z -> bool) (g : list gitem) (r : pid) : Prop :=
  (forall c, lookup r (st_conns s) = Some c ->
     match c with CRef i p => In (GRef (i, p)) g | _ => In (GConn c) g end) /\
  (forall r', In r' (back_of (CRef (fst r) (snd r)) (st_back s)) -> inmod (fst r') = true -> In (GRef r') g).

Lemma closed_mono s inmod g g' r : incl g g' -> closed s inmod g r -> closed s inmod g' r.
Proof.
  intros Hi [A B]. split.
  - intros c L. specialize (A c L). destruct c; apply Hi, A.
  - intros r' H1 H2. apply Hi, B; assumption.
Qed.

Notation loop s inmod f l r :=
  (fold_left (fun acc q' => match acc with Some g' => follow s inmod f q' g' | None => None end) l r).

Lemma loop_none {A B} (F : A -> B -> option B) l :
  fold_left (fun acc x => match acc with Some b => F x b | None => None end) l None = None.
Proof. induction l; simpl; auto. Qed.

Definition good (s : state) (inmod : Z -> bool) (g g' : list gitem) : Prop :=
  incl g g' /\ forall r, In (GRef r) g' -> In (GRef r) g \/ closed s inmod g' r.

Lemma good_trans s inmod g1 g2 g3 : good s inmod g1 g2 -> good s inmod g2 g3 -> good s inmod g1 g3.
Proof.
  intros [A1 B1] [A2 B2]. split; [intros x H; apply A2, A1, H|].
  intros r H. destruct (B2 r H) as [H2|H2]; [|right; exact H2].
  destruct (B1 r H2) as [H1|H1]; [left; exact H1|right]. eapply closed_mono; eauto.
Qed.

Lemma follow_closed s inmod : forall fuel q g g',
  follow s inmod fuel q g = Some g' -> good s inmod g g' /\ In (GRef q) g'.
Proof.
  induction fuel as [|f IH]; intros q g g' H; [discriminate|].
  cbn [follow] in H. destruct (gmem (GRef q) g) eqn:M.
  { inversion H; subst. apply gmem_In in M. split; [split; [intros x Hx; exact Hx | intros r Hr; left; exact Hr] | exact M]. }
  set (g1 := g ++ [GRef q]) in *.
  set (l := filter (fun q' => inmod (fst q')) (back_of (CRef (fst q) (snd q)) (st_back s))) in *.
  (* the connection branch *)
  assert (R : forall r0 g2, r0 = match lookup q (st_conns s) with
                                 | Some (CRef i p) => follow s inmod f (i, p) g1
                                 | Some c => Some (gadd (GConn c) g1)
                                 | None => Some g1 end ->
              r0 = Some g2 ->
              good s inmod g1 g2 /\
              (forall c, lookup q (st_conns s) = Some c ->
                 match c with CRef i p => In (GRef (i, p)) g2 | _ => In (GConn c) g2 end)).
  { intros r0 g2 E E2. subst r0. destruct (lookup q (st_conns s)) as [[k id|i p]|].
    - inversion E2; subst. split.
      + split; [intros x Hx; apply In_gadd_iff; right; exact Hx|].
        intros r Hr. apply In_gadd_iff in Hr. destruct Hr as [Hr|Hr]; [discriminate|left; exact Hr].
      + intros c Hc. inversion Hc; subst. apply In_gadd_iff. left; reflexivity.
    - destruct (IH (i, p) g1 g2 E2) as [G I]. split; [exact G|]. intros c Hc. inversion Hc; subst. exact I.
    - inversion E2; subst. split; [split; [intros x Hx; exact Hx | intros r Hr; left; exact Hr]|]. intros c Hc. discriminate. }
  (* the loop over the back-references *)
  assert (L : forall l0 g2 g3, loop s inmod f l0 (Some g2) = Some g3 ->
              good s inmod g2 g3 /\ forall c, In c l0 -> In (GRef c) g3).
  { induction l0 as [|c t IHl]; intros g2 g3 E; simpl in E.
    - inversion E; subst. split; [split; [intros x Hx; exact Hx | intros r Hr; left; exact Hr]|]. intros c [].
    - destruct (follow s inmod f c g2) as [g2'|] eqn:F; [|rewrite loop_none in E; discriminate].
      destruct (IH c g2 g2' F) as [G1 I1]. destruct (IHl g2' g3 E) as [G2 I2]. split; [eapply good_trans; eauto|].
      intros c' [<-|Hc]; [apply (proj1 G2), I1 | apply I2, Hc]. }
  destruct (match lookup q (st_conns s) with
            | Some (CRef i p) => follow s inmod f (i, p) g1
            | Some c => Some (gadd (GConn c) g1)
            | None => Some g1 end) as [g2|] eqn:E0; [|rewrite loop_none in H; discriminate].
  destruct (R (Some g2) g2 eq_refl eq_refl) as [G1 C1]. destruct (L l g2 g' H) as [G2 C2].
  assert (Q : In (GRef q) g').
  { apply (proj1 G2), (proj1 G1). unfold g1. apply in_app_iff. right. left. reflexivity. }
  split; [|exact Q]. split.
  - intros x Hx. apply (proj1 G2), (proj1 G1). unfold g1. apply in_app_iff. left; exact Hx.
  - intros r Hr. destruct (proj2 (good_trans _ _ _ _ _ G1 G2) r Hr) as [H1|H1]; [|right; exact H1].
    unfold g1 in H1. apply in_app_iff in H1. destruct H1 as [H1|[H1|[]]]; [left; exact H1|].
    inversion H1; subst r. right. split.
    + intros c Hc. specialize (C1 c Hc). destruct c; apply (proj1 G2), C1.
    + intros r' Hb Hm. apply C2. unfold l. apply filter_In. auto.
Qed.

(* ---- totality: fuel is never exhausted when it exceeds the number of ports not yet in the group *)
Definition missing (U : list pid) (g : list gitem) : nat :=
  length (filter (fun u => negb (gmem (GRef u) g)) U).

Lemma missing_mono U g g' : incl g g' -> (missing U g' <= missing U g)%nat.
Proof.
  intros Hi. unfold missing. induction U as [|u t IH]; simpl; [lia|].
  destruct (gmem (GRef u) g') eqn:E'; destruct (gmem (GRef u) g) eqn:E; simpl; try lia.
  apply gmem_In in E. apply Hi in E. apply gmem_In in E. congruence.
Qed.

Lemma missing_add U g q : In q U -> gmem (GRef q) g = false -> (missing U (g ++ [GRef q]) < missing U g)%nat.
Proof.
  intros Hq M. unfold missing. induction U as [|u t IH]; [destruct Hq|].
  assert (Hle : (length (filter (fun u0 => negb (gmem (GRef u0) (g ++ [GRef q]))) t) <= length (filter (fun u0 => negb (gmem (GRef u0) g)) t))%nat).
  { apply (missing_mono t g (g ++ [GRef q])). intros x Hx. apply in_app_iff. left; exact Hx. }
  simpl. destruct Hq as [->|Hq].
  - rewrite M. simpl. assert (E : gmem (GRef q) (g ++ [GRef q]) = true) by (apply gmem_In, in_app_iff; right; left; reflexivity).
    rewrite E. simpl. lia.
  - specialize (IH Hq). destruct (gmem (GRef u) (g ++ [GRef q])) eqn:E1; destruct (gmem (GRef u) g) eqn:E2; simpl; try lia.
    exfalso. apply gmem_In in E2. assert (In (GRef u) (g ++ [GRef q])) by (apply in_app_iff; left; exact E2).
    apply gmem_In in H. congruence.
Qed.

(* U contains every port the walk can step to *)
Definition port_closed (s : state) (U : list pid) : Prop :=
  (forall u i p, In u U -> lookup u (st_conns s) = Some (CRef i p) -> In (i, p) U) /\
  (forall u r', In u U -> In r' (back_of (CRef (fst u) (snd u)) (st_back s)) -> In r' U).

Lemma follow_total s inmod U : port_closed s U -> forall fuel q g,
  In q U -> (missing U g < fuel)%nat -> exists g', follow s inmod fuel q g = Some g'.
Proof.
  intros [PC1 PC2]. induction fuel as [|f IH]; intros q g Hq Hm; [lia|].
  cbn [follow]. destruct (gmem (GRef q) g) eqn:M; [eauto|].
  set (g1 := g ++ [GRef q]).
  assert (M1 : (missing U g1 < f)%nat) by (pose proof (missing_add U g q Hq M); unfold g1; lia).
  assert (R : exists g2, match lookup q (st_conns s) with
                         | Some (CRef i p) => follow s inmod f (i, p) g1
                         | Some c => Some (gadd (GConn c) g1)
                         | None => Some g1 end = Some g2 /\ incl g1 g2).
  { destruct (lookup q (st_conns s)) as [[k id|i p]|] eqn:L.
    - eexists. split; [reflexivity|]. intros x Hx. apply In_gadd_iff. right; exact Hx.
    - destruct (IH (i, p) g1 (PC1 q i p Hq L) M1) as [g2 E]. exists g2. split; [exact E|].
      apply (proj1 (proj1 (follow_closed s inmod f (i, p) g1 g2 E))).
    - eexists. split; [reflexivity|]. intros x Hx; exact Hx. }
  destruct R as [g2 [E2 I2]]. rewrite E2.
  assert (Hl : forall c, In c (filter (fun q' => inmod (fst q')) (back_of (CRef (fst q) (snd q)) (st_back s))) -> In c U).
  { intros c Hc. apply filter_In in Hc. apply (PC2 q c Hq (proj1 Hc)). }
  clear E2. revert g2 I2 Hl.
  induction (filter (fun q' => inmod (fst q')) (back_of (CRef (fst q) (snd q)) (st_back s))) as [|c t IHl]; intros g2 I2 Hl; simpl.
  - eauto.
  - assert (M2 : (missing U g2 < f)%nat) by (pose proof (missing_mono U g1 g2 I2); lia).
    destruct (IH c g2 (Hl c (or_introl eq_refl)) M2) as [g3 E3]. rewrite E3.
    apply IHl.
    + intros x Hx. apply (proj1 (proj1 (follow_closed s inmod f c g2 g3 E3))), I2, Hx.
    + intros c' Hc'. apply Hl. right; exact Hc'.
Qed.

(* the ports of a state: keys of conns, targets of reference connections, handed-out references *)
Definition ref_targets (l : list (pid * conn)) : list pid :=
  concat (map (fun e => match snd e with CRef i p => [(i, p)] | _ => [] end) l).
Definition ports_of (s : state) : list pid := keys (st_conns s) ++ ref_targets (st_conns s) ++ st_handed s.

Lemma lookup_In q l c : lookup q l = Some c -> In (q, c) l.
Proof.
  induction l as [|[k v] t IH]; simpl; [discriminate|].
  destruct (pid_eqb q k) eqn:E; [intros H; inversion H; subst; apply pid_eqb_eq in E; subst; left; reflexivity | right; auto].
Qed.

Lemma ports_closed s : Inv s -> port_closed s (ports_of s).
Proof.
  intros I. split.
  - intros u i p _ L. unfold ports_of. apply in_app_iff. right. apply in_app_iff. left.
    unfold ref_targets. apply in_concat. exists [(i, p)]. split; [|left; reflexivity].
    apply in_map_iff. exists (u, CRef i p). split; [reflexivity|]. apply lookup_In, L.
  - intros u r' _ Hb. apply (inv_sync s I) in Hb. unfold ports_of. apply in_app_iff. left.
    eapply lookup_Some_keys; exact Hb.
Qed.

Lemma seeds_in_ports s q : In q (seeds s) -> In q (ports_of s).
Proof.
  intros H. apply seeds_spec in H. unfold ports_of. destruct H as [H|[c [H _]]].
  - apply in_app_iff. right. apply in_app_iff. right. exact H.
  - apply in_app_iff. left. unfold keys. apply in_map_iff. exists (q, c). auto.
Qed.

Lemma missing_le U g : (missing U g <= length U)%nat.
Proof. unfold missing. induction U as [|u t IH]; simpl; [lia|]. destruct (negb (gmem (GRef u) g)); simpl; lia. Qed.
