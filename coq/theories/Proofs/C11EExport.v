(* Proofs/C11EExport.v — C11E: the package the exporter model writes for an elaborated design is in the round trip's normal
   form (Model/C11EConv.v:c11_normal), and the whole pipeline model (Model/C01FElab.v:elab_export_model2) composed with it. *)
Require Import Hdl21.Base.PyInt Hdl21.Spec.PySlice Hdl21.Model.Slice Hdl21.Model.Resolve Hdl21.Base.Design
               Hdl21.Spec.Nets Hdl21.Spec.WfDesign Hdl21.Base.Package Hdl21.Base.PrimTable Hdl21.Spec.PkgWf
               Hdl21.Spec.C01ENets Hdl21.Model.Arrays Hdl21.Model.Export Hdl21.Model.C01EElab Hdl21.Model.C01FElab Hdl21.Spec.C01FNets
               Hdl21.Proofs.ExportProofs Hdl21.Proofs.C01EProofsBase Hdl21.Proofs.C01EProofsPass Hdl21.Proofs.C01EProofsWfs
               Hdl21.Proofs.C01EProofsSlices Hdl21.Proofs.C01EProofsArrays Hdl21.Proofs.C01EProofsDfs Hdl21.Proofs.C01EProofsExport
               Hdl21.Proofs.C01EProofsEnd Hdl21.Proofs.C01FProofsEnd.
Require Import Hdl21.Base.Dec Hdl21.Model.C11RoundTrip Hdl21.Proofs.C11Proofs Hdl21.Model.C11EConv Hdl21.Proofs.C11ENormal
               Hdl21.Proofs.C11EResolve.
Require Import Hdl21Gen.C11Maps Hdl21Gen.C11EMaps.
From Coq Require Import String.
Open Scope string_scope.
Open Scope Z_scope.

Notation smem11 := C11RoundTrip.smem.

(* ------------------------------------------------------------------------------------------ small facts *)
Lemma snodup_NoDup l : NoDup l -> snodup l = true.
Proof.
  induction 1 as [|x l Hx _ IH]; cbn [snodup]; [reflexivity|]. rewrite IH, andb_true_r. apply negb_true_iff.
  apply not_true_is_false. intros E. apply smem_In in E. contradiction.
Qed.

Lemma smem11_In s l : In s l -> smem11 s l = true.
Proof. intros H. apply smem_In. exact H. Qed.

Lemma slist_eqb_refl l : slist_eqb l l = true.
Proof. induction l as [|x l IH]; cbn [slist_eqb]; [reflexivity|]. rewrite String.eqb_refl, IH. reflexivity. Qed.

Lemma pairs_eqb_refl l : pairs_eqb l l = true.
Proof. induction l as [|[n w] l IH]; cbn [pairs_eqb fst snd]; [reflexivity|]. rewrite String.eqb_refl, Z.eqb_refl, IH. reflexivity. Qed.

Lemma filter_none {A} (p : A -> bool) l : (forall x, In x l -> p x = false) -> filter p l = [].
Proof.
  induction l as [|x l IH]; intros H; cbn [filter]; [reflexivity|]. rewrite (H x (or_introl eq_refl)). apply IH.
  intros y Hy. apply H. right. exact Hy.
Qed.

Lemma filter_all' {A} (p : A -> bool) l : (forall x, In x l -> p x = true) -> filter p l = l.
Proof. intros H. apply filter_all. apply forallb_forall. exact H. Qed.

Lemma assoc_in_keys {A} k (l : list (name * A)) : In k (map fst l) -> exists v, assoc k l = Some v.
Proof.
  induction l as [|[k' v'] l IH]; cbn [map fst In assoc]; [tauto|]. intros H. destruct (String.eqb k k') eqn:E; [eauto|].
  destruct H as [H|H]; [subst; rewrite String.eqb_refl in E; discriminate|exact (IH H)].
Qed.

Lemma find_c11ext_map xs dom nm : find_c11ext (map to_c11_ext xs) dom nm = option_map to_c11_ext (find_ext xs dom nm).
Proof.
  induction xs as [|x xs IH]; cbn [map find_c11ext find_ext option_map]; [reflexivity|]. cbn [to_c11_ext cx_domain cx_name].
  destruct (String.eqb (px_domain x) dom && String.eqb (px_name x) nm); [reflexivity|exact IH].
Qed.

Lemma nodup_ext_names_map xs : nodup_ext_names (map to_c11_ext xs) = nodup_exts xs.
Proof.
  induction xs as [|x xs IH]; cbn [map nodup_ext_names nodup_exts]; [reflexivity|]. rewrite IH. f_equal. f_equal.
  clear. induction xs as [|y ys IH]; cbn [map existsb]; [reflexivity|]. rewrite IH. reflexivity.
Qed.

Lemma find_ext_spec xs dom nm e : find_ext xs dom nm = Some e -> In e xs /\ px_domain e = dom /\ px_name e = nm.
Proof.
  induction xs as [|y l IH]; cbn [find_ext]; [discriminate|].
  destruct (String.eqb (px_domain y) dom && String.eqb (px_name y) nm) eqn:E.
  - intros H. inversion H; subst. apply andb_prop in E. destruct E as [E1 E2]. apply String.eqb_eq in E1. apply String.eqb_eq in E2.
    split; [left; reflexivity|auto].
  - intros H. destruct (IH H) as [H1 H2]. split; [right; exact H1|exact H2].
Qed.

Lemma find_c11mod_spec ms : forall b m, NoDup (map cm_name ms) -> nth_error ms b = Some m -> find_c11mod ms (cm_name m) = Some m.
Proof.
  induction ms as [|m0 ms IH]; intros b m Hnd Hb; [destruct b; discriminate|]. cbn [find_c11mod]. destruct b as [|b].
  - cbn in Hb. inversion Hb; subst. rewrite String.eqb_refl. reflexivity.
  - cbn [nth_error] in Hb. cbn [map] in Hnd. inversion Hnd as [|? ? Hnotin Hnd']; subst.
    destruct (String.eqb (cm_name m0) (cm_name m)) eqn:E.
    + exfalso. apply String.eqb_eq in E. apply Hnotin. rewrite E. apply in_map. apply (nth_error_In _ _ Hb).
    + exact (IH b m Hnd' Hb).
Qed.

Lemma mods_normal_intro exts : forall ms earlier,
  (forall a m, nth_error ms a = Some m -> mod_normal exts (earlier ++ firstn a ms) m = true) -> mods_normal exts earlier ms = true.
Proof.
  induction ms as [|m0 ms IH]; intros earlier H; cbn [mods_normal]; [reflexivity|].
  pose proof (H 0%nat m0 eq_refl) as H0. cbn [firstn] in H0. rewrite app_nil_r in H0. rewrite H0. cbn [andb]. apply IH.
  intros a m Ha. specialize (H (S a) m Ha). cbn [firstn] in H. rewrite <- app_assoc. exact H.
Qed.

Lemma firstn_In_nth {A} (l : list A) a x : In x (firstn a l) -> exists b, (b < a)%nat /\ nth_error l b = Some x.
Proof.
  revert a. induction l as [|y l IH]; intros a H; [destruct a; destruct H|]. destruct a as [|a]; [destruct H|]. cbn [firstn] in H.
  destruct H as [->|H]; [exists 0%nat; split; [lia|reflexivity]|]. destruct (IH a H) as [b [Hb Hn]]. exists (S b). split; [lia|exact Hn].
Qed.

Lemma firstn_nth_error {A} (l : list A) a b : (b < a)%nat -> nth_error (firstn a l) b = nth_error l b.
Proof.
  revert a b. induction l as [|x l IH]; intros a b H; [destruct a, b; reflexivity|].
  destruct a as [|a]; [lia|]. destruct b as [|b]; [reflexivity|]. cbn [firstn nth_error]. apply IH. lia.
Qed.

Lemma firstn_NoDup {A} (l : list A) a : NoDup l -> NoDup (firstn a l).
Proof.
  revert a. induction l as [|x l IH]; intros a H; [destruct a; constructor|]. destruct a as [|a]; [constructor|]. cbn [firstn]. inversion H; subst.
  constructor; [|apply IH; assumption]. intros Hin. apply H2. destruct (firstn_In_nth l a x Hin) as [b [_ Hb]]. apply (nth_error_In _ _ Hb).
Qed.

Lemma firstn_map' {A B} (f : A -> B) l a : firstn a (map f l) = map f (firstn a l).
Proof. revert a. induction l as [|x l IH]; intros [|a]; cbn [firstn map]; [reflexivity|reflexivity|reflexivity|]. rewrite IH. reflexivity. Qed.

(* the primitive library of the pipeline model holds primitive domains only *)
Lemma prims_ext_domains : forallb (fun e : pext => is_prim_domain (px_domain e)) prims_ext = true.
Proof. vm_compute. reflexivity. Qed.

(* ------------------------------------------------------------------------------------------ export_module / export_inst, taken apart *)
Lemma export_module_inv xi d m pm : export_module xi d m = Ok pm ->
  exists insts, traverse (export_inst xi d m) (m_insts m) = Ok insts /\
    pm = {| pm_name := m_name m; pm_sigs := m_sigs m ++ m_ports m;
            pm_ports := map (fun pw : name * Z => (fst pw, port_dir xi m (fst pw))) (m_ports m);
            pm_insts := insts; pm_literals := [] |}.
Proof.
  unfold export_module. intros H. apply bind_ok in H. destruct H as [[] [_ H]]. apply bind_ok in H. destruct H as [insts [Hi H]].
  inversion H; subst. exists insts. split; [exact Hi|reflexivity].
Qed.

Lemma export_inst_conns xi d m x pi : export_inst xi d m x = Ok pi ->
  traverse (fun c : name * sx => t <- export_target (leaf_name m) (snd c) ;; Ok (fst c, t)) (i_conns x) = Ok (pi_conns pi).
Proof.
  unfold export_inst. intros H. apply bind_ok in H. destruct H as [[] [_ H]]. apply bind_ok in H. destruct H as [rp [_ H]].
  apply bind_ok in H. destruct H as [cs [Hcs H]]. inversion H; subst. exact Hcs.
Qed.

(* ------------------------------------------------------------------------------------------ one exported target *)
Lemma flat_normal_exported m f : NoDup (mod_names m) -> flat_proper f = true -> leaf_ok m (flat_leaf f) ->
  flat_normal (psigs m) (flat_ptarget (lname m) f) = true.
Proof.
  intros Hnd Hp Hl. destruct (flat_declared_of_leaf m f Hnd (flat_proper_wf f Hp) Hl) as [_ Hd].
  destruct f as [id w|id w b t]; cbn [flat_ptarget flat_normal flat_proper] in *; rewrite Hd; lia.
Qed.

Lemma target_normal_exported m r : NoDup (mod_names m) ->
  Forall (fun f => flat_proper f = true) (resolved_flats r) -> resolved_flats r <> [] ->
  Forall (fun f => leaf_ok m (flat_leaf f)) (resolved_flats r) ->
  target_normal (psigs m) (export_resolved (lname m) r) = true.
Proof.
  intros Hnd Hp Hne Hl. destruct r as [f|fs]; cbn [resolved_flats export_resolved] in *.
  - inversion Hp; inversion Hl; subst. pose proof (flat_normal_exported m f Hnd H1 H5) as N.
    destruct f; cbn [flat_ptarget target_normal] in *; exact N.
  - assert (forallb (flat_normal (psigs m)) (rev (map (flat_ptarget (lname m)) fs)) = true) as Hall.
    { apply forallb_forall. intros t Ht. apply in_rev in Ht. apply in_map_iff in Ht. destruct Ht as [f [<- Hf]].
      rewrite Forall_forall in Hp, Hl. apply flat_normal_exported; auto. }
    cbn [target_normal]. destruct (rev (map (flat_ptarget (lname m)) fs)) as [|t ts] eqn:E; [|exact Hall].
    exfalso. apply Hne. apply (f_equal (@rev ptarget)) in E. rewrite rev_involutive in E. cbn in E.
    destruct fs; [reflexivity|discriminate].
Qed.

(* the connections of one exported instance *)
Lemma conns_normal_exported m conns cs ports : NoDup (mod_names m) ->
  (forall c, In c conns -> conn_proper (snd c) /\ Forall (leaf_ok m) (sx_leaves (snd c)) /\ In (fst c) ports) ->
  NoDup (map fst conns) ->
  traverse (fun c : name * sx => t <- export_target (leaf_name m) (snd c) ;; Ok (fst c, t)) conns = Ok cs ->
  conns_normal (psigs m) ports cs = true.
Proof.
  intros Hnd Hc Hcnd Ht. apply traverse_Forall2 in Ht.
  assert (forall pc, In pc cs -> exists c r, In c conns /\ fst pc = fst c /\ snd c = resolved_sx r /\
            Forall (fun f => flat_proper f = true) (resolved_flats r) /\ resolved_flats r <> [] /\
            Forall (fun f => leaf_ok m (flat_leaf f)) (resolved_flats r) /\ snd pc = export_resolved (lname m) r) as Hpc.
  { intros pc Hin. destruct (Forall2_In_r _ _ _ pc Ht Hin) as [c [Hcin Hex]]. cbv beta in Hex. destruct (Hc c Hcin) as [[r [Er [Hp Hne]]] [Hl _]].
    assert (Forall (fun f => leaf_ok m (flat_leaf f)) (resolved_flats r)) as Hl'.
    { rewrite Er, sx_leaves_resolved in Hl. apply Forall_forall. intros f Hf. rewrite Forall_forall in Hl. apply Hl. apply in_map. exact Hf. }
    rewrite Er in Hex. rewrite (export_resolved_ok m r) in Hex; [|eapply Forall_impl; [|exact Hp]; apply flat_proper_wf|exact Hl'].
    cbn [bind] in Hex. inversion Hex; subst pc. exists c, r. cbn [fst snd]. repeat split; assumption. }
  assert (map fst cs = map fst conns) as Hnames.
  { symmetry. eapply Forall2_map_eq; [exact Ht|]. intros c pc H. cbv beta in H. destruct (export_target (leaf_name m) (snd c)); cbn [bind] in H; [|discriminate].
    inversion H; reflexivity. }
  unfold conns_normal. apply andb_true_intro. split; [apply andb_true_intro; split|].
  - apply forallb_forall. intros pc Hin. destruct (Hpc pc Hin) as [c [r [Hcin [Hf _]]]]. rewrite Hf. apply smem11_In. apply (Hc c Hcin).
  - rewrite Hnames. apply snodup_NoDup. exact Hcnd.
  - apply forallb_forall. intros pc Hin. destruct (Hpc pc Hin) as [c [r [_ [_ [_ [Hp [Hne [Hl ->]]]]]]]].
    apply target_normal_exported; assumption.
Qed.

(* ------------------------------------------------------------------------------------------ the export step *)
Section ExportNormal.
Variable xi : xinfo.
Variable d : design.
Hypothesis Hwfs : wfs d.
Hypothesis Hna : no_arrays d.
Hypothesis Hres : resolved_design d.
Hypothesis Hprop : proper_design d.
Hypothesis Hxi : xinfo_ok xi d = true.
Hypothesis Hxc : xinfo_c11_ok xi = true.
Variable st : visit.
Variable pms : list pmodule.
Hypothesis Hinv : visit_inv xi d st.
Hypothesis Hpms : Forall2 (mod_exported xi d) (fst st) pms.

Let order := fst st.
Let p := {| pk_domain := ""; pk_exts := snd st; pk_mods := pms |}.
Let exts11 := map to_c11_ext (snd st).

Lemma xc_dev dev v : assoc dev (x_devs xi) = Some v -> dev_c11_ok v = true.
Proof.
  intros H. pose proof Hxc as Hx. unfold xinfo_c11_ok in Hx. apply andb_prop in Hx. destruct Hx as [H1 _]. apply andb_prop in H1. destruct H1 as [H1 _].
  rewrite forallb_forall in H1. apply (H1 (dev, v)). apply assoc_Some_In. exact H.
Qed.

Lemma xc_dir m pn : dir_code_ok (port_dir xi m pn) = true.
Proof.
  pose proof Hxc as Hx. unfold xinfo_c11_ok in Hx. apply andb_prop in Hx. destruct Hx as [H1 H0]. apply andb_prop in H1. destruct H1 as [_ H2].
  unfold port_dir. destruct (assoc (m_name m) (x_dirs xi)) as [l|] eqn:El; [|exact H0].
  destruct (assoc pn l) as [c|] eqn:Ec; [|exact H0]. rewrite forallb_forall in H2. specialize (H2 _ (assoc_Some_In _ _ _ El)).
  cbn [snd] in H2. rewrite forallb_forall in H2. apply (H2 _ (assoc_Some_In _ _ _ Ec)).
Qed.

Lemma en_names_nodup : NoDup (map pm_name pms).
Proof. exact (rb_names_nodup xi d Hwfs Hna Hres Hxi st pms Hinv Hpms). Qed.

(* external modules of the package *)
Lemma en_exts : nodup_ext_names exts11 = true /\ forallb ext_normal exts11 = true.
Proof.
  unfold exts11. split; [rewrite nodup_ext_names_map; exact (vi_exts_nodup _ _ _ Hinv)|].
  apply forallb_forall. intros x Hx. apply in_map_iff in Hx. destruct Hx as [e [<- He]].
  destruct (vi_exts_from _ _ _ Hinv e He) as [k [m [x0 [dev [ports [v [Hm [Hx0 [Ho [Hv Hev]]]]]]]]]].
  pose proof (xc_dev dev v Hv) as Hd. unfold dev_c11_ok in Hd. rewrite Hev in Hd.
  apply andb_prop in Hd. destruct Hd as [Hd _]. apply andb_prop in Hd. destruct Hd as [_ Hd]. exact Hd.
Qed.


(* one module of the package against the modules before it *)
Lemma en_mod a pm : nth_error pms a = Some pm ->
  mod_normal exts11 (map to_c11_mod (firstn a pms)) (to_c11_mod pm) = true.
Proof.
  intros Ha.
  destruct (Forall2_nth_rev _ _ _ Hpms a pm Ha) as [k [Hk [m [Hm He]]]].
  destruct (export_module_inv xi d m pm He) as [insts [Hinsts Epm]].
  destruct (ex_module xi d Hwfs Hna Hres Hxi k m Hm) as [pm' [Hpm' [Hn [Hsigs [Hports Fi]]]]]. rewrite He in Hpm'. inversion Hpm'; subst pm'.
  pose proof (ex_module_ok d Hwfs k m Hm) as Hok. destruct Hok as [Hne [Hnd [Hw Hi]]].
  assert (NoDup (map fst (m_ports m))) as Hndp by (unfold mod_names in Hnd; apply (NoDup_app_l _ _ Hnd)).
  assert (NoDup (map fst (psigs m))) as Hnds.
  { unfold psigs. rewrite map_app. pose proof Hnd as Hnd2. unfold mod_names in Hnd2. rewrite app_assoc in Hnd2. apply NoDup_app_l in Hnd2.
    apply NoDup_app_intro; [apply (NoDup_app_r _ _ Hnd2)|apply (NoDup_app_l _ _ Hnd2)|]. intros x H1 H2. apply (NoDup_app_disj _ _ x Hnd2 H2 H1). }
  assert (forall n, In n (map fst (m_sigs m)) -> ~ In n (map fst (m_ports m))) as Hdisj.
  { intros n H1 H2. pose proof Hnd as Hnd2. unfold mod_names in Hnd2. rewrite app_assoc in Hnd2. apply NoDup_app_l in Hnd2.
    apply (NoDup_app_disj _ _ n Hnd2 H2 H1). }
  assert (NoDup (map i_name (m_insts m))) as Hndi.
  { pose proof Hnd as Hnd2. unfold mod_names in Hnd2. apply NoDup_app_r in Hnd2. apply NoDup_app_r in Hnd2. exact Hnd2. }
  assert (map pi_name (pm_insts pm) = map i_name (m_insts m)) as Hinames.
  { symmetry. eapply Forall2_map_eq; [exact Fi|]. intros x pi [_ [H _]]. symmetry. exact H. }
  set (P := map (fun pd : name * Z => (fst pd, dir_name (snd pd))) (pm_ports pm)).
  assert (map fst P = map fst (m_ports m)) as HPn by (unfold P; rewrite map_map; cbn [fst]; rewrite <- Hports; reflexivity).
  assert (forall sw, In sw (m_sigs m) -> isp P sw = false) as Hisp_s.
  { intros sw Hin. unfold isp. rewrite assoc_notin_None; [reflexivity|]. rewrite HPn. apply Hdisj. apply in_map. exact Hin. }
  assert (forall sw, In sw (m_ports m) -> isp P sw = true) as Hisp_p.
  { intros sw Hin. unfold isp. destruct (assoc_in_keys (fst sw) P) as [v ->]; [|reflexivity]. rewrite HPn. apply in_map. exact Hin. }
  unfold mod_normal. apply andb_true_intro. split.
  - (* ---- the head: name, signals, ports, instance names ---- *)
    unfold mod_normal_head. apply andb_true_intro. split; [apply andb_true_intro; split|].
    + apply negb_true_iff. apply not_true_is_false. intros E. apply existsb_exists in E. destruct E as [cm2 [Hin E]]. apply String.eqb_eq in E.
      apply in_map_iff in Hin. destruct Hin as [pm2 [<- Hin]]. cbn [to_c11_mod cm_name] in E.
      destruct (firstn_In_nth pms a pm2 Hin) as [b [Hb Hnb]]. pose proof en_names_nodup as Hnn. rewrite NoDup_nth_error in Hnn.
      assert (b = a); [|lia]. apply Hnn; [rewrite map_length; apply nth_error_Some; congruence|]. rewrite !nth_error_map, Hnb, Ha. cbn. congruence.
    + unfold mod_sigs_normal. cbn [to_c11_mod cm_sigs cm_ports]. fold P. rewrite Hsigs.
      apply andb_true_intro. split; [apply andb_true_intro; split|].
      * (* ports_ok *)
        unfold ports_ok. apply andb_true_intro. split; [apply andb_true_intro; split; [apply andb_true_intro; split|]|].
        -- apply snodup_NoDup. exact Hnds.
        -- apply snodup_NoDup. rewrite HPn. exact Hndp.
        -- apply forallb_forall. intros pd Hpd. apply smem11_In. apply (in_map fst) in Hpd. rewrite HPn in Hpd.
           unfold psigs. rewrite map_app. apply in_or_app. right. exact Hpd.
        -- apply forallb_forall. intros pd Hpd. unfold P in Hpd. apply in_map_iff in Hpd. destruct Hpd as [pc [<- Hpc]]. cbn [snd].
           rewrite Epm in Hpc. cbn [pm_ports] in Hpc. apply in_map_iff in Hpc. destruct Hpc as [pw [<- _]]. cbn [snd].
           exact (xc_dir m (fst pw)).
      * unfold psigs. rewrite filter_app. rewrite (filter_none _ (m_sigs m)) by exact Hisp_s. rewrite (filter_all' _ (m_ports m)) by exact Hisp_p.
        cbn [app]. rewrite HPn. apply slist_eqb_refl.
      * unfold psigs. rewrite !filter_app.
        rewrite (filter_all' _ (m_sigs m)) by (intros sw Hin; rewrite (Hisp_s sw Hin); reflexivity).
        rewrite (filter_none (fun sw => negb (isp P sw)) (m_ports m)) by (intros sw Hin; rewrite (Hisp_p sw Hin); reflexivity).
        rewrite (filter_none _ (m_sigs m)) by exact Hisp_s. rewrite (filter_all' _ (m_ports m)) by exact Hisp_p.
        cbn [app]. rewrite app_nil_r. apply pairs_eqb_refl.
    + cbn [to_c11_mod cm_insts]. rewrite map_map. cbn [to_c11_inst ci_name]. change (snodup (map pi_name (pm_insts pm)) = true). rewrite Hinames. apply snodup_NoDup. exact Hndi.
  - (* ---- the instances ---- *)
    cbn [to_c11_mod cm_insts cm_sigs]. rewrite Hsigs. apply forallb_forall. intros ci Hci. apply in_map_iff in Hci. destruct Hci as [pi [<- Hpi]].
    destruct (Forall2_In_r _ _ _ pi Fi Hpi) as [x [Hx [Hex [Hname Fc]]]].
    rewrite Forall_forall in Hi. destruct (Hi x Hx) as [Hlt [ports [Hp [Hcnd [Hc Hall]]]]].
    destruct (ex_inst xi d Hwfs Hna Hres Hxi k m x Hm Hx) as [pi' [Hpi' [_ [_ Href]]]]. rewrite Hex in Hpi'. inversion Hpi'; subst pi'.
    pose proof (export_inst_conns xi d m x pi Hex) as Htr.
    assert (forall plist, (forall n, In n (map fst ports) -> In n plist) -> conns_normal (psigs m) plist (pi_conns pi) = true) as Hconns.
    { intros plist Hsub. apply (conns_normal_exported m (i_conns x)); [exact Hnd| |exact Hcnd|exact Htr].
      intros c Hcin. rewrite Forall_forall in Hc. destruct (Hc c Hcin) as [w [cw [Hpw [_ [Hl _]]]]].
      split; [exact (Hprop k m x c (proj1 (nth_mod_nth _ _ _) Hm) Hx Hcin)|]. split; [exact Hl|].
      apply Hsub. apply assoc_Some_In in Hpw. apply (in_map fst) in Hpw. exact Hpw. }
    unfold inst_normal. cbn [to_c11_inst ci_ref ci_params ci_conns].
    destruct (i_of x) as [k'|dev dports] eqn:Eo.
    + (* an instance of a module: it stands earlier in the package *)
      destruct Href as [mk [Hmk [Hr Hps]]]. rewrite Hr, Hps. cbn [to_c11_params map].
      destruct (vi_closed _ _ _ Hinv a k Hk k') as [b [Hb Hnb]]; [exists m, x; auto|].
      destruct (rb_pm_at xi d st pms Hpms b k' Hnb) as [mk2 [pmk [Hmk2 [Hpmk Hek]]]]. rewrite Hmk in Hmk2. inversion Hmk2; subst mk2.
      destruct (ex_module xi d Hwfs Hna Hres Hxi k' mk Hmk) as [pmk' [Hpmk' [Hnk [_ [Hportsk _]]]]]. rewrite Hek in Hpmk'. inversion Hpmk'; subst pmk'.
      assert (find_c11mod (map to_c11_mod (firstn a pms)) (m_name mk) = Some (to_c11_mod pmk)) as ->.
      { rewrite <- Hnk. change (pm_name pmk) with (cm_name (to_c11_mod pmk)). apply (find_c11mod_spec _ b).
        - rewrite map_map. cbn [to_c11_mod cm_name]. rewrite <- firstn_map'. apply firstn_NoDup. exact en_names_nodup.
        - rewrite nth_error_map, firstn_nth_error by exact Hb. rewrite Hpmk. reflexivity. }
      cbn [andb]. apply Hconns. intros n Hnn. cbn [to_c11_mod cm_ports]. rewrite map_map. cbn [fst].
      unfold target_ports in Hp. rewrite Hmk in Hp. cbn [bind] in Hp. inversion Hp; subst ports.
      change (In n (map fst (pm_ports pmk))). rewrite Hportsk. exact Hnn.
    + (* a leaf device *)
      destruct Href as [v [Hv [Hr Hps]]]. rewrite Hr, Hps.
      cbn [target_ports] in Hp. inversion Hp; subst ports.
      destruct (xinfo_dev xi d k m x dev dports Hxi Hm Hx Eo) as [v' [e [Hv' [_ [_ [_ [Hdecl [Heports _]]]]]]]]. rewrite Hv in Hv'. inversion Hv'; subst v'.
      pose proof (xc_dev dev v Hv) as Hd. unfold dev_c11_ok in Hd.
      destruct (dv_ext v) as [e1|] eqn:E1.
      * (* its own external module *)
        apply andb_prop in Hd. destruct Hd as [Hd Hdict]. apply andb_prop in Hd. destruct Hd as [Hnp _]. apply negb_true_iff in Hnp.
        rewrite Hnp. unfold exts11. rewrite find_c11ext_map.
        destruct (rb_ext_lookup xi d Hxi st pms Hinv k m x dev dports v (nth_error_In _ _ Hk) Hm Hx Eo Hv) as [e' [Hel [Hports' _]]].
        unfold ext_lookup in Hel. cbn [pk_exts] in Hel.
        destruct (find_ext (snd st) (dv_dom v) (dv_name v)) as [e2|] eqn:Ef.
        -- inversion Hel; subst e2. cbn [option_map]. rewrite Hdict. cbn [andb]. apply Hconns. intros n Hnn.
           cbn [to_c11_ext cx_sigs]. rewrite map_map. cbn [fst]. rewrite <- Hports' in Hnn. unfold ext_ports in Hnn. rewrite map_map in Hnn. exact Hnn.
        -- exfalso. destruct (find_ext_spec _ _ _ _ Hel) as [Hin [Hdom _]]. pose proof prims_ext_domains as PD. rewrite forallb_forall in PD.
           specialize (PD e' Hin). rewrite Hdom in PD. congruence.
      * (* a primitive *)
        apply andb_prop in Hd. destruct Hd as [Hip Hd]. rewrite Hip.
        destruct (rt_ref [] [] (PExt (dv_dom v) (dv_name v)) (to_c11_params (dv_params v))) as [[[r ps'] rports]|]; [|discriminate].
        rewrite Hdecl in Hd. apply andb_prop in Hd. destruct Hd as [Hd Hsub]. rewrite Hd. cbn [andb]. apply Hconns. intros n Hnn.
        rewrite <- Heports in Hnn. apply in_map_iff in Hnn. destruct Hnn as [pw [<- Hpw]]. rewrite forallb_forall in Hsub. apply smem_In. exact (Hsub pw Hpw).
Qed.

(* the package of the export step is in normal form *)
Theorem export_pkg_normal : c11_normal (to_c11 p) = true.
Proof.
  unfold c11_normal. cbn [to_c11 p ck_exts ck_mods pk_exts pk_mods]. fold exts11. destruct en_exts as [H1 H2]. rewrite H1, H2. cbn [andb].
  apply mods_normal_intro. cbn [app]. intros a cm Ha. rewrite nth_error_map in Ha. destruct (nth_error pms a) as [pm|] eqn:Epm; [|discriminate].
  cbn in Ha. inversion Ha; subst cm. rewrite firstn_map'. apply en_mod. exact Epm.
Qed.
End ExportNormal.

(* ------------------------------------------------------------------------------------------ the pipeline *)
(* C11E_export_normal: elaborate + export of a valid design of the fragment gives a package in the round trip's normal form *)
Theorem pipeline_pkg_normal xi d p : wf_design d = Ok tt -> frag_ok2 d = true -> xinfo_ok xi d = true -> xinfo_c11_ok xi = true ->
  elab_export_model2 xi d = Ok p -> c11_normal (to_c11 p) = true.
Proof.
  intros Hwf Hfr Hxi Hxc H. unfold elab_export_model2, elab_model2 in H.
  apply bind_ok in H. destruct H as [d3 [Hel Hex]]. apply bind_ok in Hel. destruct Hel as [d1 [H1 Hel]]. apply bind_ok in Hel. destruct Hel as [d2 [H2 H3]].
  pose proof (portrefs2_wfs xi d d1 Hwf Hfr Hxi H1) as W1.
  destruct (arrays_wfs d1 d2 W1 H2) as [W2 NA2]. destruct (slices_wfs d2 d3 W2 H3) as [W3 [NA3 R3]].
  pose proof (slices_proper d2 d3 W2 H3) as P3.
  pose proof (slices_xinfo xi d2 d3 H3 (arrays_xinfo xi d1 d2 H2 (portrefs2_xinfo xi d d1 H1 Hxi))) as Hxi3.
  destruct (export_ok xi d3 W3 NA3 R3 Hxi3) as [st [pms [_ [Hinv [_ [_ [Hpms Hp]]]]]]]. rewrite Hex in Hp. inversion Hp; subst p.
  apply (export_pkg_normal xi d3 W3 NA3 R3 P3 Hxi3 Hxc st pms Hinv Hpms).
Qed.

(* the export step alone, on any elaborated design *)
Theorem export_model_normal xi d p : wfs d -> no_arrays d -> resolved_design d -> proper_design d -> xinfo_ok xi d = true ->
  xinfo_c11_ok xi = true -> export_model xi d = Ok p -> c11_normal (to_c11 p) = true.
Proof.
  intros W NA R P Hxi Hxc Hex. destruct (export_ok xi d W NA R Hxi) as [st [pms [_ [Hinv [_ [_ [Hpms Hp]]]]]]]. rewrite Hex in Hp. inversion Hp; subst p.
  apply (export_pkg_normal xi d W NA R P Hxi Hxc st pms Hinv Hpms).
Qed.

(* C11E_round_trip_end_to_end *)
Theorem pipeline_round_trip xi d p : wf_design d = Ok tt -> frag_ok2 d = true -> xinfo_ok xi d = true -> xinfo_c11_ok xi = true ->
  elab_export_model2 xi d = Ok p -> rt_pkg (to_c11 p) = Ok (to_c11 p).
Proof. intros H1 H2 H3 H4 H5. apply normal_roundtrip. exact (pipeline_pkg_normal xi d p H1 H2 H3 H4 H5). Qed.
